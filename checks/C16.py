#!/usr/bin/env python3
"""C16 - the injected-GER index reflects what was really injected on L2.

 (A) specs/LastGER.tla       implementation-shaped: L2 chain with <=1 GER event per block, downloaderPP cursor arithmetic
                             (as coded / as repaired), driver, processor, reorg detector contract, restarts, reorgs.
                             TLC exhaustive: the repaired rule satisfies the property (modulo the exactly characterised
                             finding F2b), the rule as coded (F2) and the first repair candidate do not (regressions).
 (B) harness/areas/lastger   replays TLC's edge cover (seeded sample) + seeded random schedules + the regression
                             schedules into the REAL lastgersync.New(PP) stack behind a gated fake L2 client.
 (C) specs/LastGERTrace.tla  property monitor; TLC judges every recorded trace.
"""
import os, sys, json, random, re
sys.path.insert(0, os.path.join(os.path.dirname(os.path.abspath(__file__)), "..", "lib"))
import vcheck as V

PROP = "C16"
CHUNK = 800
# True: "first" = least index becomes a violation instead of a note (the statement leaves it open); env for experiments
STRICT_FIRST = os.environ.get("VERIF_C16_STRICT_FIRST", "") == "1"


# ------------------------------------------------------------------------------------------------ behaviours

def M(k="none", g=0):
    return dict(a="mine", k=k, g=g)


def S(a):
    return dict(a=a)


def regression_behaviours():
    """F2 (confirmed on the code before the repair) and F2b, always replayed first"""
    out = []
    for per in (1, 3):       # GER inserted in every odd block 1..11, the tip moves `per` blocks per poll
        steps, g = [], 0
        for n in range(1, 12):
            if n % 2 == 1:
                g += 1
                steps.append(M("ins", g))
            else:
                steps.append(M())
            if n % per == 0:
                steps += [S("poll"), S("fetch")] + [S("track")] * per
        out.append(dict(ng=6, steps=steps, tag="F2 odd blocks, %d per poll" % per))
    # TLC's minimal F2 counterexample: the very first block after start is never fetched
    out.append(dict(ng=2, steps=[M("ins", 2), S("poll"), S("fetch"), S("track")], tag="F2 minimal"))
    # restart: the block lastProcessed+1 is skipped again
    out.append(dict(ng=3, steps=[M("ins", 1), M("ins", 2), S("poll"), S("fetch"), S("track"), S("track"), S("restart"),
                                 M("ins", 3), S("poll"), S("fetch"), S("track"), M(), S("poll"), S("fetch"), S("track")],
                    tag="F2 restart"))
    # a removal that is skipped: the removed root keeps being served
    out.append(dict(ng=2, steps=[M(), S("poll"), S("fetch"), S("track"), M("ins", 1), S("poll"), S("fetch"), S("track"),
                                 M("rem", 1), M("ins", 2), S("poll"), S("fetch"), S("track"), S("track"),
                                 M("rem", 2), M(), S("poll"), S("fetch"), S("track")], tag="F2 skipped removal"))
    # F2b: ins g @1, rem g @2, both processed, block 2 reorged out
    out.append(dict(ng=2, steps=[M("ins", 1), M("rem", 1), S("poll"), S("fetch"), S("track"), S("track"),
                                 {"a": "reorg", "from": 2, "evs": [dict(k="none", g=0), dict(k="none", g=0)]},
                                 S("detect"), S("poll"), S("fetch"), S("track")], tag="F2b minimal"))
    # first repair candidate's hole: an empty (never tracked) block is replaced by one with an insert
    out.append(dict(ng=2, steps=[M(), S("poll"), S("fetch"), S("track"),
                                 {"a": "reorg", "from": 1, "evs": [dict(k="ins", g=1), dict(k="none", g=0)]},
                                 S("poll"), S("fetch"), S("track"), S("detect")], tag="reorg of an untracked empty block"))
    return out


def random_behaviour(rng, max_blocks, ng, pre=()):
    """a schedule that follows a small model of the repaired node, so that the named gates are the ones reached.
    pre: the blocks a node started on a stored file has already processed (they are not reorged)"""
    chain = [(e["k"], e["g"]) for e in pre]                      # events of blocks 1..
    live = set()
    cur, dpc, lo, hi, ch = len(chain) + 1, "wait", 0, 0, []
    blocks = {len(chain)} if chain else set()
    floor = len(chain)
    dirty = False
    tracked = {}                    # num -> generation
    gen, gens = 0, [0] * len(chain)
    steps = []
    restarts = reorgs = 0

    def opts():
        o = [("none", 0)] * 2 + [("ins", g) for g in range(1, ng + 1) if g not in live] + [("rem", g) for g in live] * 2
        return o

    def mine(k=None, g=None):
        nonlocal live
        if k is None:
            k, g = rng.choice(opts())
        chain.append((k, g)); gens.append(gen)
        if k == "ins":
            live.add(g)
        elif k == "rem":
            live.discard(g)
        return k, g

    def relive():
        nonlocal live
        live = set()
        for k, g in chain:
            if k == "ins":
                live.add(g)
            elif k == "rem":
                live.discard(g)

    relive()
    for _ in range(rng.randrange(8, 60)):
        acts = []
        if len(chain) < max_blocks:
            acts += ["mine"] * 4
        if dpc == "wait":
            acts += ["poll"] * 3
        if dpc == "fetch":
            acts += ["fetch"] * 4
        if ch:
            acts += ["track"] * 5
        if restarts < 3:
            acts += ["restart"]
        if reorgs < 3 and floor + 1 <= len(chain) < max_blocks - 1:
            acts += ["reorg"]
        if dirty and not ch:
            acts += ["detect"] * 3
        if not acts:
            break
        a = rng.choice(acts)
        if a == "mine":
            k, g = mine()
            steps.append(M(k, g))
        elif a == "poll":
            steps.append(S("poll"))
            if len(chain) > cur - 1:
                dpc, lo, hi = "fetch", cur, len(chain)
        elif a == "fetch":
            steps.append(S("fetch"))
            sent = [n for n in range(lo, hi + 1) if chain[n - 1][0] != "none"]
            if not sent or sent[-1] < hi:
                sent.append(hi)
            ch += [(n, gens[n - 1]) for n in sent]
            cur, dpc = hi + 1, "wait"
        elif a == "track":
            steps.append(S("track"))
            n, gn = ch.pop(0)
            tracked[n] = gn
            blocks.add(n)
        elif a == "restart":
            steps.append(S("restart"))
            restarts += 1
            ch, dpc, cur = [], "wait", (max(blocks) if blocks else 0) + 1
        elif a == "reorg":
            reorgs += 1
            depth = rng.randrange(1, 4)
            f = max(floor + 1, len(chain) - depth + 1)
            newlen = len(chain) + rng.randrange(1, 3)
            del chain[f - 1:]; del gens[f - 1:]
            gen += 1
            relive()
            evs = []
            while len(chain) < newlen:
                k, g = mine()
                evs.append(dict(k=k, g=g))
            steps.append({"a": "reorg", "from": f, "evs": evs})
            dirty = True
        elif a == "detect":
            steps.append(S("detect"))
            dirty = False
            mism = [n for n, gn in tracked.items() if n > len(chain) or gens[n - 1] != gn]
            if mism:
                r = min(mism)
                tracked = {n: gn for n, gn in tracked.items() if n < r}
                blocks = {n for n in blocks if n < r}
                ch, dpc, cur = [], "wait", (max(blocks) if blocks else 0) + 1
    return dict(ng=ng, steps=steps)


FIXTURES = os.path.join(os.path.dirname(os.path.abspath(__file__)), "..", "fixtures")


def fixture_behaviours(rng, n):
    """an upgraded node: it starts on a store file that the repository's code wrote earlier (fixtures/lastger_*.sqlite, see
    fixtures/README.md) and goes on from there; the chain it had processed is rebuilt from the description next to the file"""
    out = []
    for f in sorted(os.listdir(FIXTURES)):
        if not (f.startswith("lastger_") and f.endswith(".json")):
            continue
        d = json.load(open(os.path.join(FIXTURES, f)))
        base = dict(ng=d["ng"], gerseed=d["gerseed"], pre=d["pre"], fixture=os.path.realpath(os.path.join(FIXTURES, f[:-5] + ".sqlite")))
        out.append(dict(base, steps=[], tag="fixture %s, nothing new" % f))
        for i in range(n):
            b = random_behaviour(rng, len(d["pre"]) + rng.choice([2, 4, 6]), d["ng"], pre=d["pre"])
            out.append(dict(base, steps=b["steps"], tag="fixture %s + random %d" % (f, i)))
    return out


def sample_edge_cover(cfg, sc, rng, n, timeout):
    """TLC's per-transition dump of the generator config; a seeded sample of n full paths (half uniform, half biased to
    long paths), parsed lazily because the cover has up to 10^6 lines"""
    rc, out, wall = V.run_tlc("LastGER.tla", cfg, sc, timeout=timeout)
    if rc != 0 or "Model checking completed. No error has been found." not in out:
        raise V.Infra("behaviour export %s failed (rc=%d):\n%s" % (cfg, rc, out[-3000:]))
    st = V.parse_tlc_stats(out)
    lines = [ln for ln in out.splitlines() if ln.startswith('<<"CASE", "')]
    total = len(lines)
    if total == 0:
        raise V.Infra("behaviour export %s printed nothing" % cfg)
    uni = rng.sample(lines, min(n // 2, total))
    pool = rng.sample(lines, min(6 * n, total))
    pool.sort(key=len, reverse=True)
    chosen = list(dict.fromkeys(uni + pool[: n - len(uni)]))
    behs = []
    for obj in V.tlc_print_lines("\n".join(chosen), "CASE"):
        behs.append(dict(ng=None, steps=obj["steps"]))
    V.log("[tlc] LastGER.tla/%s: %d transitions dumped, %d sampled (%d distinct states) in %.1fs" % (cfg, total, len(behs), st["distinct"], wall))
    return behs, total, st


def expect_counterexample(cfg, sc, what):
    rc, out, wall = V.run_tlc("LastGER.tla", cfg, sc, timeout=600, extra=("-noGenerateSpecTE",))
    m = re.search(r"Invariant (\w+) is violated", out)
    if not m:
        raise V.Infra("regression %s: TLC did not find the expected counterexample (%s)\n%s" % (cfg, what, out[-2000:]))
    st = V.parse_tlc_stats(out)
    V.log("[tlc] LastGER.tla/%s: counterexample to %s found as expected (%s), %.1fs" % (cfg, m.group(1), what, wall))
    return dict(cfg=cfg, invariant=m.group(1), what=what, states=st["distinct"], wall_s=round(wall, 1))


# ------------------------------------------------------------------------------------------------ the check

def split_traces(evs):
    """event list -> list of (start, end) per cfg line"""
    starts = [i for i, e in enumerate(evs) if e["ev"] == "cfg"]
    return [(s, (starts[k + 1] if k + 1 < len(starts) else len(evs))) for k, s in enumerate(starts)]


def known_match(known, v):
    for f in known:
        sig = f.get("signature", "")
        if v.get("kf") and sig.endswith("kf=" + v["kf"]) and v["inv"].startswith(sig.split()[0]):
            return f
    return None


def body():
    res = V.Result(PROP)
    sc = V.Scratch(PROP)
    try:
        thorough = res.tier == "thorough"
        rng = random.Random(V.seed())
        known = V.load_known(PROP)
        # (A) design: the repaired rule satisfies the property; the coded rule and the first candidate do not
        mcs = [V.model_check("LastGER.tla", "LastGER.cfg" if thorough else "LastGERQuick.cfg", sc, timeout=3000)]
        if thorough:
            mcs.append(V.model_check("LastGER.tla", "LastGERNoReorg.cfg", sc, timeout=1200))
            mcs.append(V.model_check("LastGER.tla", "LastGERNG3.cfg", sc, timeout=1200))
            mcs.append(V.model_check("LastGER.tla", "LastGERRestore.cfg", sc, timeout=1200))
        regs = [expect_counterexample("LastGERCoded.cfg", sc, "F2: rule as coded before the repair"),
                expect_counterexample("LastGERRange.cfg", sc, "repair candidate without tip block, under reorgs")]
        mc = mcs[0]
        # behaviours
        rb = V.replay_behaviours()
        if rb is not None:
            behs, n_reg, n_edge, total_edges, gst = rb, 0, len(rb), 0, dict(distinct=0)
        else:
            reg = regression_behaviours()
            edge, total_edges, gst = sample_edge_cover("LastGERGenThorough.cfg" if thorough else "LastGERGen.cfg", sc, rng,
                                                       6000 if thorough else 450, 1200)
            for b in edge:
                b["ng"] = 2
            rnd = []
            for i in range(1500 if thorough else 150):
                rnd.append(random_behaviour(rng, rng.choice([6, 8, 12]), rng.choice([2, 3, 5])))
            fix = fixture_behaviours(rng, 60 if thorough else 8)
            behs, n_reg, n_edge = reg + edge + rnd + fix, len(reg), len(edge)
            # DownloadBufferSize is configuration: small buffers make a backlog larger than the buffer an ordinary event
            for b in edge + rnd + fix:
                b["buf"] = rng.choice([1, 2, 3, 100])
                # the node's own L1 info tree syncer may be behind the chain the GERs were injected from: the first look-ups of a
                # GER find nothing yet (fewer than the retry limit of the syncer, 3 in this harness)
                b["lag"] = rng.choice([0, 0, 1, 2])
        n_fix = sum(1 for b in behs if b.get("fixture"))
        # (B) real code
        drv = V.build_driver("lastger")
        bf, tf = sc.path("beh.json"), sc.path("trace.ndjson")
        # one driver process per chunk: every (re)start of the node leaves SQLite handles of the migration runner open
        # (db.RunMigrations never closes its handle), which would exhaust the descriptor limit in one long process
        with open(tf, "w") as whole:
            for k in range(0, len(behs), CHUNK):
                cf = sc.path("trace-%d.ndjson" % k)
                json.dump([{k_: b[k_] for k_ in ("ng", "buf", "lag", "steps", "pre", "fixture", "gerseed") if k_ in b} for b in behs[k:k + CHUNK]], open(bf, "w"))
                try:
                    V.run_driver(drv, ["-in", bf, "-out", cf])
                except V.NodePanic as e:
                    # the syncer's own goroutine died of a panic: the node is gone, no query is answered any more
                    res.add_violation("NodeGaveUp: %s (while replaying behaviours %d..%d)" % (e, k + 1, min(k + CHUNK, len(behs))),
                                      dict(behaviours=[{k_: b[k_] for k_ in ("ng", "buf", "lag", "steps", "pre", "fixture", "gerseed") if k_ in b}
                                                       for b in behs[k:k + CHUNK]], panic=str(e)))
                    res.coverage = dict(explanation="the code under test panicked during the replay", evaluations=0, distinct_nontrivial=0,
                                        states=mc["distinct"], transitions=mc["generated"], traces_validated_against_impl=0, samples=behs[:1])
                    res.finish()
                whole.write(open(cf).read())
                os.remove(cf)
        # (C) judge
        info = V.validate_traces("LastGERTrace.tla", "LastGERTrace.cfg", tf, sc)
        if not info["consumed_ok"]:
            raise V.Infra("monitor did not consume the trace:\n" + info.get("tail", ""))
        evs = V.read_ndjson(tf)
        spans = split_traces(evs)
        if len(spans) != len(behs):
            raise V.Infra("driver recorded %d traces for %d behaviours" % (len(spans), len(behs)))
        soft, hard, kf_hits, seen_v = 0, {}, {}, set()
        for v in info["violations"]:
            key = json.dumps(v, sort_keys=True)
            if key in seen_v:
                continue
            seen_v.add(key)
            if v.get("soft") and not STRICT_FIRST:
                soft += 1
                continue
            f = known_match(known, v)
            if f is not None:
                kf_hits.setdefault(f["id"], []).append(v)
                continue
            hard.setdefault(v["t"], []).append(v)
        for fid, vs in kf_hits.items():
            f = [k for k in known if k["id"] == fid][0]
            res.add_known(fid, "%s (%d answers in %d behaviours, e.g. behaviour %d line %d)" % (
                f.get("what", fid), len(vs), len(set(v["t"] for v in vs)), vs[0]["t"], vs[0]["l"]))
        for t in sorted(hard):
            vs = hard[t]
            v = vs[0]
            b = behs[t - 1]
            s, e = spans[t - 1]
            kinds = sorted(set(x["inv"] + ("[" + x["kf"] + "]" if x.get("kf") else "") for x in vs))
            res.add_violation("%s at trace %d line %d (%d answers rejected in this behaviour: %s)%s: %s" % (
                v["inv"], v["t"], v["l"], len(vs), ",".join(kinds), " tag=" + b["tag"] if b.get("tag") else "", json.dumps(v["info"])),
                dict(behaviour={k_: b[k_] for k_ in ("ng", "buf", "lag", "steps", "pre", "fixture", "gerseed") if k_ in b}, violation=v, trace=evs[s:e][:400]))
        nstuck = sum(1 for e in evs if e["ev"] == "stuck")
        ndrift = sum(1 for e in evs if e["ev"] == "drift")
        if nstuck and not hard:
            raise V.Infra("%d gate timeouts (node goroutine did not reach its next gate); first: %s" % (
                nstuck, json.dumps(next(e for e in evs if e["ev"] == "stuck"))))
        # binding self-test on a real accepted trace: (1) withhold an answer, (2) answer with a root that is not live
        bad_t = set(hard) | set(v["t"] for vs in kf_hits.values() for v in vs)
        pick = None
        for t, (s, e) in enumerate(spans, 1):
            if t in bad_t:
                continue
            # the final answers of a behaviour: the chain has stopped, no reorg is pending, the node is at rest
            i = next((j for j in range(e - 1, s, -1) if evs[j]["ev"] == "q"), None)
            if i is not None and evs[i]["rest"] and any(a["found"] for a in evs[i]["ans"]) and \
                    any(not a["found"] for a in evs[i]["ans"]) and not any(x["ev"] in ("stuck", "fatal") for x in evs[s:e]):
                pick = (s, e, i)
                break
        selftest = "skipped (no accepted trace with a served and an unserved query)"
        if pick is None:
            if rb is None and not hard:
                raise V.Infra("no accepted trace with a served root at rest - driver is dead")
        else:
            s, e, i = pick
            outcomes = []
            for mode in ("withheld", "stale"):
                mut = [json.loads(json.dumps(x)) for x in evs[s:e]]
                q = mut[i - s]
                if mode == "withheld":
                    a = next(a for a in q["ans"] if a["found"])
                    a.update(found=False, g=0, idx=0)
                else:
                    a = next(a for a in q["ans"] if not a["found"])
                    a.update(found=True, g=q["ans"][-1]["x"] - 1, idx=q["ans"][-1]["x"] - 1)   # highest GER number, at X above it
                mf = sc.path("mut-%s.ndjson" % mode)
                V.write_ndjson(mf, mut)
                minfo = V.validate_traces("LastGERTrace.tla", "LastGERTrace.cfg", mf, sc)
                objections = [v for v in minfo["violations"] if not v.get("soft")]
                if minfo["consumed_ok"] and not objections:
                    if hard:
                        outcomes.append("%s answer ACCEPTED (not fatal here: the monitor rejected real traces in this run)" % mode)
                        continue
                    raise V.Infra("binding self-test failed: a %s answer was accepted by the monitor" % mode)
                outcomes.append("%s answer rejected: %s" % (mode, objections[0]["inv"] if objections else "not consumable"))
            selftest = "; ".join(outcomes)
        nq = sum(len(e["ans"]) for e in evs if e["ev"] == "q")
        served = set()
        for e in evs:
            if e["ev"] == "q":
                for a in e["ans"]:
                    if a["found"]:
                        served.add((a["x"], a["g"], e["lpb"], e["rest"]))
        res.coverage = dict(
            states=mc["distinct"], transitions=mc["generated"],
            traces_validated_against_impl=len(behs),
            samples=[dict(ng=b["ng"], buf=b.get("buf", 0), lag=b.get("lag", 0), steps=b["steps"]) for b in (behs[0], behs[n_reg + n_edge // 2] if len(behs) > n_reg + n_edge // 2 else behs[-1], behs[-1])],
            exhaustive=False,
            evaluations=nq, distinct_nontrivial=len(served),
            rule="behaviours = regression schedules (F2, F2b, candidate hole) + seeded sample of TLC's edge cover of LastGER.tla "
                 "(generator cfg; half uniform, half biased to long paths) + seeded random schedules (<=12 blocks, <=5 GERs, "
                 "restarts, reorgs) + the same random schedules for a node started on a store file written earlier by the "
                 "repository's code (fixtures/lastger_*.sqlite: 9 processed blocks, an upgrade); after every step every X in 0..NG+1 is asked; evaluations = answers judged; "
                 "non-trivial = distinct (X, root served, last processed block, at rest) with a root served",
            model=[dict(spec="LastGER.tla", cfg=m["cfg"], states=m["distinct"], transitions=m["generated"], depth=m["depth"],
                        wall_s=m["wall_s"]) for m in mcs],
            model_constants="quick: <=4 blocks, 2 GERs, 1 restart, 1 reorg of depth <=2; thorough: <=5 blocks (+ <=6 blocks/2 restarts "
                            "without reorgs, 3 GERs at 4 blocks, and the F2b repair rule RestoreOnReorg)",
            model_invariants=["RowsAreFoldKF", "RowsAtRestKF", "NoFatal", "TypeOK"],
            known_finding_in_model="F2b is not excused by states: the invariant says rows + phantom = fold and rows, phantom disjoint, "
                                   "where phantom are exactly the rows deleted by a removal whose block was reorged out",
            regressions=regs,
            edge_cover=dict(transitions_in_generator=total_edges, replayed=n_edge, generator_states=gst["distinct"],
                            fraction=round(n_edge / total_edges, 4) if total_edges else None),
            regression_behaviours=n_reg, random_behaviours=len(behs) - n_reg - n_edge - n_fix, fixture_behaviours=n_fix,
            monitor=dict(spec="LastGERTrace.tla", events=len(evs), wall_s=info["wall_s"]),
            drift_steps=ndrift, gate_timeouts=nstuck,
            soft_notes=dict(LeastIndexFirst=soft, meaning="answers that were a qualifying root but not the one with the least index "
                                                         "(left open by the statement; not a violation)"),
            binding_selftest=selftest,
        )
        if soft:
            res.notes.append("%d answers served a qualifying root that was not the least-index one (soft, see soft_notes)" % soft)
        res.assumptions = [
            "at most one GER event per L2 block and only events the L2 contract accepts (no insert of a present root, no removal of an absent one)",
            "a fork becomes canonical only when it is longer than the chain it replaces (the block number seen by polls never decreases)",
            "the reorg detector follows reorgdetector.detectReorgInTrackedList: only tracked blocks are compared, the first differing one is notified",
            "no RPC faults and no chain change between FilterLogs and the header calls of one fetch (F7 is C05/C06's subject)",
            "which qualifying root is 'first' is left open by the statement: least index is noted, not demanded",
            "GER g is the root at L1 info index g in the real L1 info store used for the lookup",
        ]
    finally:
        sc.close()
    res.finish()


if __name__ == "__main__":
    V.main(body, PROP)
