#!/usr/bin/env python3
"""C07 - block processing is all-or-nothing under faults and crashes; retry is clean (bridge store; l1info/ger: see kinds)."""
import os, sys
sys.path.insert(0, os.path.dirname(os.path.abspath(__file__)))
import store_common as S
import vcheck as V

PROP = "C07"


def sweep(rng, thorough):
    """every real storage statement of a block's transaction in turn (no knowledge of the model's statement classes):
    bridge blocks with 1..4 deposits starting at deposit counts 0..3, l1info blocks with 1..3 leaves and a verify"""
    out = []
    nofault = dict(kind="none", at=0)
    for i0 in range(4):
        for n in range(1, 5):
            pre = [dict(op="process", num=1, evs=[dict(t="leaf", x=j + 1, dc=j) for j in range(i0)], fault=nofault)] if i0 else []
            evs = [dict(t="leaf", x=i0 + j + 1, dc=i0 + j) for j in range(n)] + [dict(t="other")]
            for k in range(1, 34 * n + 4):
                out.append(dict(kind="bridge", ops=pre + [
                    dict(op="process", num=2, evs=evs, fault=dict(kind="real", at=k)),
                    dict(op="process", num=2, evs=evs, fault=nofault),
                    dict(op="process", num=3, evs=[dict(t="leaf", x=i0 + n + 1, dc=i0 + n)], fault=nofault)]))
    for n in range(1, 4):
        evs = [dict(t="leaf", x=j + 1) for j in range(n)] + [dict(t="verify", r=1, x=1), dict(t="v2", good=True)]
        for k in range(1, 34 * n + 37):
            out.append(dict(kind="l1info", ops=[
                dict(op="process", num=1, evs=evs, fault=dict(kind="real", at=k)),
                dict(op="process", num=1, evs=evs, fault=nofault),
                dict(op="process", num=2, evs=[dict(t="leaf", x=n + 1), dict(t="verify", r=2, x=1)], fault=nofault)]))
    return out if thorough else rng.sample(out, 80)


def body():
    S.store_check(
        PROP, model_cfgs=["StoreBridge.cfg", "StoreBridgeRead.cfg", "StoreL1.cfg", "StoreGer.cfg"], gen_cfgs=["StoreGenC07.cfg", "StoreGenC07big.cfg", "StoreGenC07read.cfg", "StoreGenL1C07.cfg", "StoreGenL1C07read.cfg", "StoreGenGerC07.cfg"], quick_n=300, thorough_n=6000,
        counterexamples=[("StoreBridgeF1.cfg", "Inv"), ("StoreBridgeF11.cfg", "Inv")], extra_behaviours=sweep,
        kinds_note="bridge, l1info, injected-GER", invs=["RootsMirror", "ConsecutiveIdx", "BlocksIncrease", "ProofsVerify", "HaltedStops"],
        assumptions=[
            "storage faults are injected as SQL triggers on the store's own DB file (INSERT/DELETE statements; SELECTs cannot be failed this way)",
            "context cancellation is injected while a chosen statement runs (slow trigger), the effect is observed after the call returns",
        ])


if __name__ == "__main__":
    V.main(body, PROP)
