#!/usr/bin/env python3
"""C07 - block processing is all-or-nothing under faults and crashes; retry is clean (bridge store; l1info/ger: see kinds)."""
import os, sys
sys.path.insert(0, os.path.dirname(os.path.abspath(__file__)))
import store_common as S
import vcheck as V

PROP = "C07"


def body():
    S.store_check(
        PROP, model_cfgs=["StoreBridge.cfg", "StoreL1.cfg", "StoreGer.cfg"], gen_cfgs=["StoreGenC07.cfg", "StoreGenC07big.cfg", "StoreGenL1C07.cfg", "StoreGenGerC07.cfg"], quick_n=300, thorough_n=6000,
        counterexamples=[("StoreBridgeF1.cfg", "Inv")],
        kinds_note="bridge, l1info, injected-GER", invs=["RootsMirror", "ConsecutiveIdx", "BlocksIncrease", "ProofsVerify", "HaltedStops"],
        assumptions=[
            "storage faults are injected as SQL triggers on the store's own DB file (INSERT/DELETE statements; SELECTs cannot be failed this way)",
            "context cancellation is injected while a chosen statement runs (slow trigger), the effect is observed after the call returns",
        ])


if __name__ == "__main__":
    V.main(body, PROP)
