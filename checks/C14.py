#!/usr/bin/env python3
"""C14 - a syncer that detects an inconsistency fails stop; cleared only by a reorg that removes processed blocks."""
import os, sys
sys.path.insert(0, os.path.dirname(os.path.abspath(__file__)))
import store_common as S
import vcheck as V

PROP = "C14"


def body():
    S.store_check(
        PROP, model_cfgs=["StoreC14.cfg", "StoreL1.cfg"], gen_cfgs=["StoreGenC14.cfg", "StoreGenL1C04.cfg"], quick_n=400, thorough_n=6000,
        kinds_note="bridge (deposit-count gap), l1info (announced-root mismatch)", invs=["HaltedStops", "Inv"],
        assumptions=["detection is what the node itself reports (ProcessBlock answers the inconsistency error without an injected fault); a process restart starts a new, not yet halted syncer", "non-data methods (allow list in harness/areas/store): Start, OriginNetwork, BlockFinality, GetLastReorgEvent; every other exported method must refuse while halted"])


if __name__ == "__main__":
    V.main(body, PROP)
