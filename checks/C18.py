#!/usr/bin/env python3
"""C18 - each epoch is announced exactly once, at the first block past the threshold.

 (A) specs/Epoch.tla       implementation-shaped (step function as coded), TLC exhaustive over the configuration space
 (B) harness/areas/epoch   replays TLC's edge cover + seeded long random sequences into the real EpochNotifierPerBlock
 (C) specs/EpochTrace.tla  property monitor; TLC judges every recorded trace

 Composition (the epoch clock as cmd/run.go wires it):
 (A') specs/PollEpoch.tla        BlockNotifierPolling.step + GenericSubscriberImpl fan-out + EpochNotifierPerBlock.step
 (B') harness/areas/pollepoch    the real poller's Start loop on a scripted RPC, scripted or real fan-out, the real notifier
 (C') specs/PollEpochTrace.tla   monitor: poller predicates + C18 on what the notifier really received
"""
import os, sys, json, random
sys.path.insert(0, os.path.join(os.path.dirname(os.path.abspath(__file__)), "..", "lib"))
import vcheck as V

PROP = "C18"


def random_behaviours(rng, n):
    out = []
    for _ in range(n):
        N = rng.choice([1, 2, 3, 5, 7, 10, 32, 100, 1000])
        S = rng.choice([0, 1, 7, 1000, 123456])
        P = rng.randrange(0, 100)
        b = S + rng.choice([-3, 0, 1]) if S >= 3 else S + rng.choice([0, 1])
        blocks = []
        for _ in range(rng.randrange(5, 60)):
            blocks.append(b)
            gap = rng.choice([1, 1, 1, 2, 3, N - 1 if N > 1 else 1, N, N + 1, 2 * N + 1, rng.randrange(1, 10 ** 6)])
            b += max(1, gap)
            if b > 2 ** 30:
                break
        out.append(dict(n=N, s=S, p=P, blocks=blocks))
    return out


def random_compositions(rng, n):
    out = []
    for k in range(n):
        N = rng.choice([1, 2, 3, 5, 10, 32])
        S = rng.choice([0, 1, 7, 1000])
        P = rng.randrange(0, 100)
        real = k % 2 == 0
        head = S + rng.choice([0, 1, 2])
        steps, parked = [], 0
        prev = None
        for _ in range(rng.randrange(5, 40)):
            x = rng.random()
            if x < 0.12:
                r = -1
            elif x < 0.25:
                r = head                                   # unchanged
            elif x < 0.33:
                head = max(0, head - rng.choice([1, 2, N]))  # the head goes down (another RPC node, finality tag)
                r = head
            else:
                head += rng.choice([1, 1, 1, 2, N, N + 1, 2 * N + 1])
                r = head
            steps.append(dict(a="poll", r=r))
            if r >= 0 and prev is not None and r != prev:
                parked += 1
            if r >= 0:
                prev = r
            elif prev is not None:
                prev = 0                                   # the poller forgets what it saw (as coded); 0 keeps the count exact
            while not real and parked > 0 and rng.random() < 0.7:
                i = rng.randrange(1, parked + 1) if rng.random() < 0.3 else 1
                steps.append(dict(a="deliver", i=i))
                parked -= 1
        for _ in range(parked if not real else 0):
            steps.append(dict(a="deliver", i=1))
        out.append(dict(n=N, s=S, p=P, real=real, steps=steps))
    return out


def composition(res, sc, thorough, rng, rb):
    """the epoch clock as wired: poller + fan-out + notifier"""
    mc = V.model_check("PollEpoch.tla", "PollEpochThorough.cfg" if thorough else "PollEpoch.cfg", sc, timeout=1800)
    mcr = V.model_check("PollEpoch.tla", "PollEpochReorderSafe.cfg", sc, timeout=1800)
    mcs = V.model_check("PollEpoch.tla", "PollEpochSub.cfg", sc, timeout=1800)
    cex = V.model_counterexample("PollEpoch.tla", "PollEpochReorder.cfg", "AtFirstPublished", sc, timeout=900)
    if rb is None:
        cases, gst = V.export_cases("PollEpoch.tla", "PollEpochGen.cfg", sc, timeout=900)
        paths = V.drop_prefixes([[c["n"], c["s"], c["p"]] + [json.dumps(x, sort_keys=True) for x in c["steps"]] for c in cases])
        allb = [dict(n=c[0], s=c[1], p=c[2], real=False, steps=[json.loads(x) for x in c[3:]]) for c in paths]
        # every parked event is delivered at the end, so that every publication is judged
        n_all = len(allb)
        behs = allb if len(allb) <= (20000 if thorough else 600) else rng.sample(allb, 20000 if thorough else 600)
        for b in behs:
            parked = 0
            prev = None
            for st in b["steps"]:
                if st["a"] == "poll":
                    if st["r"] >= 0 and prev is not None and st["r"] != prev:
                        parked += 1
                    prev = st["r"] if st["r"] >= 0 else 0
                else:
                    parked -= 1
            b["steps"] = b["steps"] + [dict(a="deliver", i=1)] * max(0, parked)
        n_edge = len(behs)
        # the same polls through the repository's own fan-out
        behs += [dict(b, real=True) for b in behs[:: 4]]
        # a subscriber that takes the epoch events when it wants to: they wait in the notifier's own (real) fan-out
        scases, sgst = V.export_cases("PollEpoch.tla", "PollEpochGenSub.cfg", sc, timeout=900)
        spaths = V.drop_prefixes([[c["n"], c["s"], c["p"]] + [json.dumps(x, sort_keys=True) for x in c["steps"]] for c in scases])
        sb = [dict(n=c[0], s=c[1], p=c[2], real=False, slowsub=True, steps=[json.loads(x) for x in c[3:]]) for c in spaths]
        sb = [b for b in sb if any(st["a"] == "consume" for st in b["steps"]) or rng.random() < 0.2]
        n_sub_all = len(sb)
        if len(sb) > (5000 if thorough else 250):
            sb = rng.sample(sb, 5000 if thorough else 250)
        behs += sb
        # ... and long runs of consecutive blocks during which the subscriber takes nothing at all
        for _ in range(200 if thorough else 20):
            N, S = rng.choice([1, 2, 3, 10]), rng.choice([0, 5])
            steps, h = [], S
            for _ in range(rng.randrange(3 * N + 2, 8 * N + 4)):
                steps += [dict(a="poll", r=h)] + ([dict(a="deliver", i=1)] if len(steps) > 0 else [])
                h += 1
            behs.append(dict(n=N, s=S, p=rng.choice([0, 50, 99]), real=False, slowsub=True, steps=steps))
        behs += random_compositions(rng, 1500 if thorough else 150)
    else:
        behs, n_edge, n_all, gst, n_sub_all = rb, len(rb), len(rb), dict(distinct=0), 0
    drv = V.build_driver("pollepoch")
    bf, tf = sc.path("pbeh.json"), sc.path("ptrace.ndjson")
    json.dump(behs, open(bf, "w"))
    V.run_driver(drv, ["-in", bf, "-out", tf], timeout=3000)
    info = V.validate_traces("PollEpochTrace.tla", "PollEpochTrace.cfg", tf, sc)
    if not info["consumed_ok"]:
        raise V.Infra("monitor did not consume the composition trace:\n" + info.get("tail", ""))
    for v in info["violations"]:
        b = behs[v["t"] - 1]
        res.add_violation("composition: %s at trace %d line %d: %s" % (v["inv"], v["t"], v["l"], json.dumps(v["info"])),
                          dict(behaviour=b, violation=v))
    evs = V.read_ndjson(tf)
    npoll = sum(1 for e in evs if e["ev"] == "poll")
    nemit = sum(1 for e in evs if e["ev"] == "poll" and e["emitted"])
    npub = sum(1 for e in evs if e["ev"] == "block" and e["pub"])
    nconsumed = sum(1 for e in evs if e["ev"] == "consume" and e["e"] >= 0)
    # how often the real fan-out completed its sends out of publication order (information)
    reordered, cur, inreal, order = 0, [], False, []
    for e in evs + [dict(ev="cfg", real=False)]:
        if e["ev"] == "cfg":
            if inreal and order != cur:
                reordered += 1
            cur, order, inreal = [], [], bool(e.get("real"))
        elif e["ev"] == "poll":
            cur += e["emitted"]
        elif e["ev"] == "block":
            order.append(e["b"])
    if rb is None:
        if nemit == 0 or npub == 0 or nconsumed == 0:
            raise V.Infra("composition driver is dead: %d polls published, %d deliveries notified, %d epoch events consumed" % (nemit, npub, nconsumed))
        # binding self-test: drop one recorded block publication of the poller -> the monitor must object
        # (a publication right after an RPC error is allowed but not demanded: take one that follows a successful poll)
        polls = [i for i, e in enumerate(evs) if e["ev"] == "poll"]
        k = next(i for j, i in enumerate(polls) if evs[i]["emitted"] and j > 0 and evs[polls[j - 1]]["r"] >= 0
                 and not any(evs[x]["ev"] == "cfg" for x in range(polls[j - 1], i)))
        start = max(i for i in range(k + 1) if evs[i]["ev"] == "cfg")
        end = next((i for i in range(k + 1, len(evs)) if evs[i]["ev"] == "cfg"), len(evs))
        mut = [dict(e) for e in evs[start:end]]
        mut[k - start]["emitted"] = []
        mf = sc.path("pmut.ndjson")
        V.write_ndjson(mf, mut)
        minfo = V.validate_traces("PollEpochTrace.tla", "PollEpochTrace.cfg", mf, sc)
        if not minfo["violations"]:
            raise V.Infra("binding self-test failed: a dropped block publication was accepted by the composition monitor")
        selftest = "dropped block publication rejected: %s" % minfo["violations"][0]["inv"]
    else:
        selftest = "skipped (replay)"
    return dict(
        model=dict(spec="PollEpoch.tla", cfg=mc["cfg"], states=mc["distinct"], transitions=mc["generated"], depth=mc["depth"], wall_s=mc["wall_s"],
                   constants="N in 1..3, start in {0,1,4}, P in {0,34,50,99}, heads 0..S+2N-1 moving up/down/staying, RPC errors, "
                             "%d polls, sends completing in order" % (6 if thorough else 5),
                   invariants=["EveryHeadChangeAnnounced", "NoSpuriousBlockEvent", "CurrentBlockIsLastObserved", "ExactlyOnceAtFirstDelivered",
                               "StrictlyIncreasing", "NoDuplicates", "AtFirstPublished"], exhaustive=True),
        model_reordered=dict(cfg=mcr["cfg"], states=mcr["distinct"], wall_s=mcr["wall_s"],
                             note="sends completing in any order: everything but AtFirstPublished holds"),
        expected_counterexample=dict(cfg="PollEpochReorder.cfg", invariant="AtFirstPublished", found=True, states_generated=cex["states_generated"],
                                     note="information I3 (DESIGN): with two block events parked in the fan-out the newer can be received "
                                          "first; the older is then ignored and the epoch is announced at a later block. Outside C18's "
                                          "quantifier (increasing sequences handed to the notifier)"),
        generator_states=gst["distinct"], edge_cover_behaviours=n_all, replayed_edge_cover=n_edge, behaviours=len(behs),
        polls=npoll, polls_that_published=nemit, deliveries_that_notified=npub, real_fanout_traces_out_of_order=reordered,
        slow_subscriber=dict(edge_cover_behaviours=n_sub_all, epoch_events_taken_by_subscriber=nconsumed,
                             model=dict(cfg=mcs["cfg"], states=mcs["distinct"], wall_s=mcs["wall_s"])),
        monitor=dict(spec="PollEpochTrace.tla", events=len(evs), wall_s=info["wall_s"]), binding_selftest=selftest,
        sample=behs[0])


def body():
    res = V.Result(PROP)
    sc = V.Scratch(PROP)
    try:
        thorough = res.tier == "thorough"
        rng = random.Random(V.seed())
        # (A) design
        mc = V.model_check("Epoch.tla", "Epoch.cfg", sc, timeout=900)
        # unbounded: EpochInd.tla (the same step function; Epoch.cfg checks that Epoch.tla refines it) has an inductive
        # invariant that implies the property for an arbitrary epoch, all N >= 1, S >= 0, P in 0..99 and all block numbers
        ind = V.apalache_inductive("EpochInd.tla", sc)
        # behaviours: edge cover of the generator configuration
        cases, gst = V.export_cases("Epoch.tla", "EpochGenThorough.cfg" if thorough else "EpochGen.cfg", sc, timeout=900)
        cases = V.drop_prefixes([[c["n"], c["s"], c["p"]] + c["blocks"] for c in cases])
        behs = [dict(n=c[0], s=c[1], p=c[2], blocks=c[3:]) for c in cases]
        n_edge = len(behs)
        behs += random_behaviours(rng, 2000 if thorough else 200)
        # every percentage with epoch lengths on which the threshold is a whole block (the float comparison sits on equality):
        # every block of two epochs, and the threshold block followed by a jump into the next epoch
        for P in range(100):
            for N in ((10, 20, 25, 50, 100) if thorough else (rng.choice([10, 20]), rng.choice([25, 50, 100]))):
                S = rng.choice([0, 1, 7])
                behs.append(dict(n=N, s=S, p=P, blocks=list(range(S + 1, S + 2 * N + 1))))
                if (P * N) % 100 == 0 and P * N // 100 < N - 1:
                    thr = S + P * N // 100
                    behs.append(dict(n=N, s=S, p=P, blocks=[b for b in (S + 1, thr, S + N + 1) if b > S][:3] if thr > S + 1 else [thr, S + N + 1] if thr > S else [S + N + 1]))
        rb = V.replay_behaviours()
        if rb is not None and rb and "steps" in rb[0]:
            comp = composition(res, sc, thorough, rng, rb)
            res.coverage = dict(states=comp["model"]["states"], transitions=comp["model"]["transitions"],
                                traces_validated_against_impl=len(rb), samples=rb[:1], composition=comp)
            res.finish()
        comp = composition(res, sc, thorough, rng, None) if rb is None else None
        if rb is not None:
            behs, n_edge = rb, len(rb)
        # (B) real code
        drv = V.build_driver("epoch")
        bf, tf = sc.path("beh.json"), sc.path("trace.ndjson")
        json.dump(behs, open(bf, "w"))
        V.run_driver(drv, ["-in", bf, "-out", tf])
        # (C) judge
        info = V.validate_traces("EpochTrace.tla", "EpochTrace.cfg", tf, sc)
        if not info["consumed_ok"]:
            raise V.Infra("monitor did not consume the trace:\n" + info.get("tail", ""))
        for v in info["violations"]:
            b = behs[v["t"] - 1]
            res.add_violation("%s at trace %d line %d: %s" % (v["inv"], v["t"], v["l"], json.dumps(v["info"])),
                              dict(behaviour=b, violation=v))
        # binding self-test: drop one recorded publication -> the monitor must object
        evs = V.read_ndjson(tf)
        k = next((i for i, e in enumerate(evs) if e["ev"] == "block" and e["pub"]), None)
        if k is None:
            if rb is not None:
                res.coverage = dict(states=mc["distinct"], transitions=mc["generated"], traces_validated_against_impl=len(behs), samples=behs[:1])
                res.finish()
            raise V.Infra("no publication recorded at all - driver is dead")
        start = max(i for i in range(k + 1) if evs[i]["ev"] == "cfg")
        end = next((i for i in range(k + 1, len(evs)) if evs[i]["ev"] == "cfg"), len(evs))
        mut = [dict(e) for e in evs[start:end]]
        mut[k - start]["pub"] = []
        mf = sc.path("mut.ndjson")
        V.write_ndjson(mf, mut)
        minfo = V.validate_traces("EpochTrace.tla", "EpochTrace.cfg", mf, sc)
        if not minfo["violations"]:
            raise V.Infra("binding self-test failed: a dropped publication was accepted by the monitor")
        npub = sum(1 for e in evs if e["ev"] == "block" and e["pub"])
        res.coverage = dict(
            states=mc["distinct"], transitions=mc["generated"],
            traces_validated_against_impl=len(behs),
            samples=[behs[0], behs[n_edge // 2], behs[-1]],
            exhaustive=False,
            evaluations=len(evs), distinct_nontrivial=npub,
            rule="behaviours = prefix-maximal paths of TLC's edge cover of Epoch.tla (generator cfg) + seeded random long "
                 "sequences with gaps up to 10^6; non-trivial = block deliveries during which the real notifier published",
            model=dict(spec="Epoch.tla", cfg="Epoch.cfg", depth=mc["depth"], wall_s=mc["wall_s"],
                       constants="N in 1..5, start in {0,1,7}, P in 0..99, all increasing block sequences within 3 epochs",
                       invariants=["ExactlyOnceAtFirst", "StrictlyIncreasing", "IndInvAll", "RefinesInd (action property)"], exhaustive=True),
            unbounded=dict(ind, note="inductive invariant of EpochInd.tla discharged by Apalache for all N >= 1, S >= 0, P in 0..99, every epoch "
                                     "E >= 1 and unbounded block numbers; TLC checks on Epoch.cfg that every step of Epoch.tla (the spec bound "
                                     "to the code by replay) is a step of EpochInd.tla and that IndInv holds in its reachable states"),
            edge_cover_behaviours=n_edge, generator_states=gst["distinct"],
            monitor=dict(spec="EpochTrace.tla", events=len(evs), wall_s=info["wall_s"]),
            binding_selftest="dropped publication rejected: %s" % minfo["violations"][0]["inv"],
            composition=comp,
        )
        res.assumptions = [
            "block == StartingEpochBlock is neither required nor forbidden to notify (DESIGN C18 reading)",
            "publications are observed synchronously at GenericSubscriber.Publish",
            "float threshold test equals its integer form for block numbers < 2^31 (exact for correctly rounded division)",
            "composition: a poll is observed complete when the poller calls the RPC again; deliveries to the notifier are observed at a relay "
            "in front of its channel (real fan-out) or made by the driver (scripted fan-out)",
        ]
    finally:
        sc.close()
    res.finish()


if __name__ == "__main__":
    V.main(body, PROP)
