#!/usr/bin/env python3
"""C18 - each epoch is announced exactly once, at the first block past the threshold.

 (A) specs/Epoch.tla       implementation-shaped (step function as coded), TLC exhaustive over the configuration space
 (B) harness/areas/epoch   replays TLC's edge cover + seeded long random sequences into the real EpochNotifierPerBlock
 (C) specs/EpochTrace.tla  property monitor; TLC judges every recorded trace
"""
import os, sys, json, random
sys.path.insert(0, os.path.join(os.path.dirname(os.path.abspath(__file__)), "..", "lib"))
import vcheck as V

PROP = "C18"


def random_behaviours(rng, n):
    out = []
    for _ in range(n):
        N = rng.choice([1, 2, 3, 5, 7, 10, 32, 100, 1000])
        S = rng.choice([0, 1, 7, 1000, 123456])
        P = rng.randrange(0, 100)
        b = S + rng.choice([-3, 0, 1]) if S >= 3 else S + rng.choice([0, 1])
        blocks = []
        for _ in range(rng.randrange(5, 60)):
            blocks.append(b)
            gap = rng.choice([1, 1, 1, 2, 3, N - 1 if N > 1 else 1, N, N + 1, 2 * N + 1, rng.randrange(1, 10 ** 6)])
            b += max(1, gap)
            if b > 2 ** 30:
                break
        out.append(dict(n=N, s=S, p=P, blocks=blocks))
    return out


def body():
    res = V.Result(PROP)
    sc = V.Scratch(PROP)
    try:
        thorough = res.tier == "thorough"
        rng = random.Random(V.seed())
        # (A) design
        mc = V.model_check("Epoch.tla", "Epoch.cfg", sc, timeout=900)
        # behaviours: edge cover of the generator configuration
        cases, gst = V.export_cases("Epoch.tla", "EpochGenThorough.cfg" if thorough else "EpochGen.cfg", sc, timeout=900)
        cases = V.drop_prefixes([[c["n"], c["s"], c["p"]] + c["blocks"] for c in cases])
        behs = [dict(n=c[0], s=c[1], p=c[2], blocks=c[3:]) for c in cases]
        n_edge = len(behs)
        behs += random_behaviours(rng, 2000 if thorough else 200)
        rb = V.replay_behaviours()
        if rb is not None:
            behs, n_edge = rb, len(rb)
        # (B) real code
        drv = V.build_driver("epoch")
        bf, tf = sc.path("beh.json"), sc.path("trace.ndjson")
        json.dump(behs, open(bf, "w"))
        V.run_driver(drv, ["-in", bf, "-out", tf])
        # (C) judge
        info = V.validate_traces("EpochTrace.tla", "EpochTrace.cfg", tf, sc)
        if not info["consumed_ok"]:
            raise V.Infra("monitor did not consume the trace:\n" + info.get("tail", ""))
        for v in info["violations"]:
            b = behs[v["t"] - 1]
            res.add_violation("%s at trace %d line %d: %s" % (v["inv"], v["t"], v["l"], json.dumps(v["info"])),
                              dict(behaviour=b, violation=v))
        # binding self-test: drop one recorded publication -> the monitor must object
        evs = V.read_ndjson(tf)
        k = next((i for i, e in enumerate(evs) if e["ev"] == "block" and e["pub"]), None)
        if k is None:
            if rb is not None:
                res.coverage = dict(states=mc["distinct"], transitions=mc["generated"], traces_validated_against_impl=len(behs), samples=behs[:1])
                res.finish()
            raise V.Infra("no publication recorded at all - driver is dead")
        start = max(i for i in range(k + 1) if evs[i]["ev"] == "cfg")
        end = next((i for i in range(k + 1, len(evs)) if evs[i]["ev"] == "cfg"), len(evs))
        mut = [dict(e) for e in evs[start:end]]
        mut[k - start]["pub"] = []
        mf = sc.path("mut.ndjson")
        V.write_ndjson(mf, mut)
        minfo = V.validate_traces("EpochTrace.tla", "EpochTrace.cfg", mf, sc)
        if not minfo["violations"]:
            raise V.Infra("binding self-test failed: a dropped publication was accepted by the monitor")
        npub = sum(1 for e in evs if e["ev"] == "block" and e["pub"])
        res.coverage = dict(
            states=mc["distinct"], transitions=mc["generated"],
            traces_validated_against_impl=len(behs),
            samples=[behs[0], behs[n_edge // 2], behs[-1]],
            exhaustive=False,
            evaluations=len(evs), distinct_nontrivial=npub,
            rule="behaviours = prefix-maximal paths of TLC's edge cover of Epoch.tla (generator cfg) + seeded random long "
                 "sequences with gaps up to 10^6; non-trivial = block deliveries during which the real notifier published",
            model=dict(spec="Epoch.tla", cfg="Epoch.cfg", depth=mc["depth"], wall_s=mc["wall_s"],
                       constants="N in 1..5, start in {0,1,7}, P in 0..99, all increasing block sequences within 3 epochs",
                       invariants=["ExactlyOnceAtFirst", "StrictlyIncreasing"], exhaustive=True),
            edge_cover_behaviours=n_edge, generator_states=gst["distinct"],
            monitor=dict(spec="EpochTrace.tla", events=len(evs), wall_s=info["wall_s"]),
            binding_selftest="dropped publication rejected: %s" % minfo["violations"][0]["inv"],
        )
        res.assumptions = [
            "block == StartingEpochBlock is neither required nor forbidden to notify (DESIGN C18 reading)",
            "publications are observed synchronously at GenericSubscriber.Publish",
            "float threshold test equals its integer form for block numbers < 2^31 (exact for correctly rounded division)",
        ]
    finally:
        sc.close()
    res.finish()


if __name__ == "__main__":
    V.main(body, PROP)
