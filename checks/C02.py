#!/usr/bin/env python3
"""C02 - bridge exits settle exactly once through a gap-free certificate chain."""
import os, sys
sys.path.insert(0, os.path.dirname(os.path.abspath(__file__)))
import aggsender_common as A
import vcheck as V

PROP = "C02"


def body():
    A.aggsender_check(PROP, model_cfgs=["AggSenderC02.cfg", "AggSenderC02b.cfg", "AggSenderC02cut.cfg", "AggSenderFEP.cfg"], gen_cfgs=["AggSenderGenC02.cfg", "AggSenderGenC02b.cfg", "AggSenderGenC02cut.cfg", "AggSenderGenFEP.cfg"], quick_n=250, thorough_n=4000, l2reorgs=True, l1random=True, invs=["HeightOK", "PrevOK", "FromOK", "NewOK", "NoOverlap", "SettledChain"])


if __name__ == "__main__":
    V.main(body, PROP)
