#!/usr/bin/env python3
"""C17 - cutting a certificate's block range never drops, duplicates or reorders events.

 (A) specs/CertCut.tla        implementation-shaped (limitCertSize loop, CertificateBuildParams.Range,
                              MaxL2BlockNumberLimiter.AdaptCertificate, BlockRange.Gap with W-bit wrap-around); TLC checks the
                              declarative result for every enumerated input
 (B) harness/areas/certcut    runs the REAL functions on TLC's cases (mapped onto uint64: as is, shifted so that the model's
                              maximum is 2^64-1, and split across both ends) + seeded random cases beyond the bound
 (C) specs/CertCutTrace.tla   property monitor; TLC judges every recorded outcome
"""
import os, sys, json, random, re
sys.path.insert(0, os.path.join(os.path.dirname(os.path.abspath(__file__)), "..", "lib"))
import vcheck as V

PROP = "C17"
MAXU = 2 ** 64 - 1
ZONE = 2 ** 20


def sym(v):
    """uint64 -> [zone, offset] (see harness/areas/certcut)"""
    if not 0 <= v <= MAXU:
        raise V.Infra("block number out of uint64: %r" % v)
    if v < ZONE:
        return [0, v]
    if MAXU - v < ZONE:
        return [1, MAXU - v]
    raise V.Infra("block number in neither zone: %r" % v)


def mapper(M, mp):
    """order-preserving map of the model's 0..M onto uint64: 'lo' as is, 'hi' M -> 2^64-1, ('split', s): values <= s stay,
    values > s go to the top end"""
    if mp == "lo":
        return lambda v: v
    if mp == "hi":
        return lambda v: MAXU - (M - v)
    s = mp[1]
    return lambda v: v if v <= s else MAXU - (M - v)


def events(evs, f):
    return [dict(id=e["id"], b=sym(f(e["b"])), m=e["m"]) for e in evs]


def conv(tc, M, mp, rng):
    """TLC case -> driver case under mapping mp"""
    f = mapper(M, mp)
    k = tc["k"]
    c = dict(k=k, typ=tc["typ"], src=dict(model=True, map=mp if isinstance(mp, str) else "split%d" % mp[1]))
    if k == "gap":
        c["a"] = [sym(f(tc["a"]["from"])), sym(f(tc["a"]["to"]))]
        c["b"] = [sym(f(tc["b"]["from"])), sym(f(tc["b"]["to"]))]
        return c
    c.update({"from": sym(f(tc["from"])), "to": sym(f(tc["to"])), "br": events(tc["br"], f), "cl": events(tc["cl"], f)})
    if k == "size":
        c["max"] = tc["max"]
        c["mode"] = 2 if tc["retry"] else rng.choice([0, 1])
    elif k == "limit":
        # 0 = limiter not configured, whatever the mapping
        c.update(limit=sym(f(tc["limit"])) if tc["limit"] else [0, 0], retry=tc["retry"], allow=tc["allow"], req=tc["req"])
    elif k == "range":
        c.update(f=sym(f(tc["f"])), t=sym(f(tc["t"])))
    return c


def expected(tc, M, mp):
    """the model's own outcome under a pure shift (only used to report drift between CertCut.tla and the code)"""
    f = mapper(M, mp)
    e = tc["exp"]
    if tc["k"] == "gap":
        return dict(empty=e["empty"], g=None if e["empty"] else [sym(f(e["g"]["from"])), sym(f(e["g"]["to"]))])
    if not e["ok"]:
        return dict(ok=False)
    return dict(ok=True, rfrom=sym(f(e["from"])), rto=sym(f(e["to"])), rbr=e["br"], rcl=e["cl"])


def observed(ev):
    if ev["ev"] == "vgap":
        return dict(asked=ev["asked"], q=ev["q"] if ev["asked"] else None)
    if ev["ev"] == "gap":
        return dict(empty=ev["empty"], g=None if ev["empty"] else ev["g"])
    if not ev["ok"]:
        return dict(ok=False)
    return dict(ok=True, rfrom=ev["rfrom"], rto=ev["rto"], rbr=ev["rbr"], rcl=ev["rcl"])


# ------------------------------------------------------------------------------------------------ random cases

def size100(nb, nc, meta, typ):
    return 9216 * nb + 286720 * nc + 100 * meta + (1024000 + 20000 * nc if typ == "fep" else 7168)


def rand_cert(rng, span_zones=False):
    """random certificate: (from, to, bridges, claims) with real uint64 block numbers"""
    n = rng.choice([1, 2, 3, 5, 8, 13, 40, 120])
    if span_zones and rng.random() < 0.3:
        frm, to = rng.randrange(0, 200), MAXU - rng.randrange(0, 200)
    elif rng.random() < 0.5:
        frm = rng.choice([0, 1, 2, rng.randrange(0, 5000)])
        to = frm + n - 1
    else:
        to = MAXU - rng.choice([0, 0, 1, rng.randrange(0, 5000)])
        frm = to - n + 1
    nev = rng.choice([0, 1, 2, 3, 6, 12, 25, 40])

    def blk():
        if to - frm < 10 ** 6:
            return rng.randrange(frm, to + 1)
        return rng.choice([frm + rng.randrange(0, 100), to - rng.randrange(0, 100)])
    evs = [dict(k=rng.choice("bbc"), b=blk(), m=rng.choice([0, 0, 1, 32, rng.randrange(0, 200), rng.randrange(0, 6000)]))
           for _ in range(nev)]
    if rng.random() < 0.9:
        evs.sort(key=lambda e: e["b"])      # the syncer delivers in block order; a few cases are deliberately unordered
    for i, e in enumerate(evs):
        e["id"] = i + 1
    return frm, to, [e for e in evs if e["k"] == "b"], [e for e in evs if e["k"] == "c"]


def sy(evs):
    return [dict(id=e["id"], b=sym(e["b"]), m=e["m"]) for e in evs]


def near(rng, frm, to):
    """a block number near the certificate's ends (inside uint64 and inside a zone)"""
    cands = [frm - 2, frm - 1, frm, frm + 1, to - 1, to, to + 1, to + 2, (frm + to) // 2, 0, 1, MAXU, MAXU - 1]
    if to - frm < 10 ** 6:
        cands += [rng.randrange(frm, to + 1) for _ in range(6)]
    cands = [x for x in cands if 0 <= x <= MAXU and (x < ZONE or MAXU - x < ZONE)]
    return rng.choice(cands)


def random_cases(rng, n):
    out = []
    for i in range(n):
        kind = rng.choice(["size", "size", "limit", "limit", "range", "gap", "vgap"])
        src = dict(model=False)
        if kind == "vgap":
            # the gap check as the flows use it: last certificate (settled or in error) against a new range, small numbers
            pool = [0, 1, 2, 3, 5, 8] + [rng.randrange(0, 40) for _ in range(4)]
            a = sorted(rng.choice(pool) for _ in range(2))
            b = sorted(rng.choice(pool) for _ in range(2))
            mode = rng.choice([1, 2])
            if mode == 2 and a[0] == 0:
                a[0], a[1] = 1, max(1, a[1])
            out.append(dict(k="vgap", typ="fep", src=src, mode=mode, a=[sym(a[0]), sym(a[1])], b=[sym(b[0]), sym(b[1])]))
            continue
        if kind == "gap":
            pool = [0, 1, 2, MAXU, MAXU - 1] + [rng.randrange(0, 3000) for _ in range(4)] + [MAXU - rng.randrange(0, 3000) for _ in range(4)]
            a = sorted(rng.choice(pool) for _ in range(2))
            b = sorted(rng.choice(pool) for _ in range(2))
            if rng.random() < 0.4:      # touching / nearly touching
                d = rng.choice([-1, 0, 1, 2])
                if 0 <= a[1] + d <= MAXU and (a[1] + d < ZONE or MAXU - (a[1] + d) < ZONE):
                    b[0] = a[1] + d
                    b[1] = max(b[0], b[1])
                if rng.random() < 0.5:
                    a, b = b, a
            out.append(dict(k="gap", typ="pp", src=src, a=[sym(a[0]), sym(a[1])], b=[sym(b[0]), sym(b[1])]))
            continue
        typ = rng.choice(["pp", "fep"])
        if kind == "size":
            frm, to, br, cl = rand_cert(rng)
            if frm == 0:
                frm = 1
                to = max(to, 1)
                br = [e for e in br if e["b"] >= 1]
                cl = [e for e in cl if e["b"] >= 1]
            # thresholds: sizes of the prefixes at the blocks that carry events, +-1, and a few others
            ths = [0, 1, 70, 10240, rng.randrange(1, 200000)]
            for t in sorted(set([frm, to] + [e["b"] for e in br + cl])):
                b_ = [e for e in br if e["b"] <= t]
                c_ = [e for e in cl if e["b"] <= t]
                s = size100(len(b_), len(c_), sum(e["m"] for e in b_ + c_), typ) // 100
                ths += [s - 1, s, s + 1]
            out.append({"k": "size", "typ": typ, "src": src, "from": sym(frm), "to": sym(to), "br": sy(br), "cl": sy(cl),
                        "max": max(0, rng.choice(ths)), "mode": rng.choice([0, 1, 2])})
        elif kind == "limit":
            frm, to, br, cl = rand_cert(rng, span_zones=True)
            lim = rng.choice([0, near(rng, frm, to), near(rng, frm, to), near(rng, frm, to)])
            out.append({"k": "limit", "typ": typ, "src": src, "from": sym(frm), "to": sym(to), "br": sy(br), "cl": sy(cl),
                        "limit": sym(lim), "retry": rng.random() < 0.3, "allow": rng.random() < 0.5, "req": rng.random() < 0.5})
        else:
            frm, to, br, cl = rand_cert(rng, span_zones=True)
            f, t = near(rng, frm, to), near(rng, frm, to)
            if rng.random() < 0.8 and f > t:
                f, t = t, f
            out.append({"k": "range", "typ": typ, "src": src, "from": sym(frm), "to": sym(to), "br": sy(br), "cl": sy(cl),
                        "f": sym(f), "t": sym(t)})
    return out


# ------------------------------------------------------------------------------------------------ the check

def pretty(x):
    """monitor integers back to block numbers: values near BIG = 2*10^9 stand for 2^64-1-k"""
    if isinstance(x, dict):
        return {k: pretty(v) for k, v in x.items()}
    if isinstance(x, int) and not isinstance(x, bool) and x > 10 ** 9:
        return "2^64-1-%d" % (2000000000 - x) if x <= 2000000000 else "2^64-1+%d" % (x - 2000000000)
    return x


def nontrivial(ev):
    """the real code really cut something / really found a gap"""
    if ev["ev"] == "gap":
        return not ev["empty"]
    if ev["ev"] == "vgap":
        return ev["asked"]
    if ev["ev"] in ("size", "limit", "range"):
        return ev["ok"] and (ev["rto"] != ev["to"] or ev["rfrom"] != ev["from"])
    return False


def body():
    res = V.Result(PROP)
    sc = V.Scratch(PROP)
    try:
        thorough = res.tier == "thorough"
        rng = random.Random(V.seed())
        # (A) design: exhaustive
        mc = V.model_check("CertCut.tla", "CertCutThorough.cfg" if thorough else "CertCut.cfg", sc, timeout=1500)
        # BlockRange.Gap for all pairs of well-formed 64-bit ranges (Apalache, one symbolic state; the same operators - GapOps.tla -
        # are the ones CertCut.tla enumerates at small word widths), and the wrapping rewrite refuted
        gap_unbounded = [V.apalache_state("GapInd.tla", sc, "GapCorrect", True, extra_files=("GapOps.tla",)),
                         V.apalache_state("GapInd.tla", sc, "GapWrapCorrect", False, extra_files=("GapOps.tla",))]
        rb = V.replay_behaviours()
        drift = None
        if rb is not None:
            cases, n_model, gst = rb, 0, dict(distinct=0)
        else:
            # cases: every case of the generator configuration, each under a seeded choice of mappings
            gcfg = "CertCutGenThorough.cfg" if thorough else "CertCutGen.cfg"
            tcs, gst = V.export_cases("CertCut.tla", gcfg, sc, timeout=1500)
            M = 2 ** int(re.search(r"^\s*W\s*=\s*(\d+)", open(os.path.join(V.SPECS, gcfg)).read(), re.M).group(1)) - 1
            by = {}
            for tc in tcs:
                by.setdefault(tc["k"], []).append(tc)
            for k in ("size", "limit", "range", "gap"):
                if not by.get(k):
                    raise V.Infra("generator exported no %s cases" % k)
            quota = dict(size=10 ** 6, limit=10 ** 6, range=10 ** 6, gap=10 ** 6) if thorough else dict(size=15000, limit=15000, range=8000, gap=13000)
            cases, exps = [], []
            splits = [("split", s) for s in range(M)]
            for k in ("size", "limit", "range", "gap"):
                pool = []
                for tc in by[k]:
                    if k == "size":
                        if tc["from"] == 0:
                            continue        # the base flow cannot produce a certificate starting at block 0 (CertCut.tla: SizeCutTotal)
                        pool += [(tc, "lo"), (tc, "hi")]
                    else:
                        pool += [(tc, "lo"), (tc, "hi")] + [(tc, rng.choice(splits))]
                        if k == "gap":
                            pool += [(tc, s) for s in splits]
                pool = list({json.dumps([id(tc), mp]): (tc, mp) for tc, mp in pool}.values())
                rng.shuffle(pool)
                for tc, mp in pool[:quota[k]]:
                    cases.append(conv(tc, M, mp, rng))
                    exps.append(expected(tc, M, mp) if isinstance(mp, str) else None)
            n_model = len(cases)
            cases += random_cases(rng, 60000 if thorough else 4000)
            drift = exps
        # (B) real code
        drv = V.build_driver("certcut")
        cf, tf = sc.path("cases.json"), sc.path("trace.ndjson")
        json.dump(cases, open(cf, "w"))
        V.run_driver(drv, ["-in", cf, "-out", tf])
        evs = V.read_ndjson(tf)
        if len(evs) != len(cases) + 1 or evs[0].get("ev") != "consts":
            raise V.Infra("driver wrote %d lines for %d cases" % (len(evs), len(cases)))
        k0 = evs[0]
        if (k0["br100"], k0["cl100"], k0["sig100"], k0["prf100"]) != (9216, 286720, 7168, 1024000):
            res.notes.append("size constants of the code differ from the ones CertCut.tla was written with: %s" % json.dumps(k0))
        # (C) judge
        info = V.validate_traces("CertCutTrace.tla", "CertCutTrace.cfg", tf, sc)
        if not info["consumed_ok"]:
            raise V.Infra("monitor did not consume the trace:\n" + info.get("tail", ""))
        for v in info["violations"]:
            i = v["l"] - 2
            res.add_violation("%s in %s case %d: %s | recorded: %s" % (v["inv"], cases[i]["k"], i, json.dumps(pretty(v["info"])), json.dumps(evs[v["l"] - 1])[:400]),
                              dict(behaviour=cases[i], violation=v, recorded=evs[v["l"] - 1]))
        # drift between the implementation-shaped spec and the code (reported, never a verdict)
        ndrift, drift_sample = 0, None
        if drift is not None:
            for i, e in enumerate(drift):
                if e is not None and e != observed(evs[i + 1]):
                    ndrift += 1
                    drift_sample = drift_sample or dict(case=cases[i], model=e, code=observed(evs[i + 1]))
        if drift is not None:
            V.log("[drift] outcomes differing from CertCut.tla's own prediction (pure shifts only): %d of %d" % (ndrift, sum(1 for e in drift if e is not None)))
        # binding self-test: corrupt recorded outcomes -> the monitor must object to each
        # (on a tree whose outcomes are already rejected the monitor has shown that it objects; the lines the self-test
        #  corrupts may not even exist there)
        st = "skipped (replay)" if rb is not None else "skipped (the monitor already rejected real outcomes)"
        if rb is None and not info["violations"]:
            muts, want = [evs[0]], []
            e = next((x for x in evs if x["ev"] == "size" and x["ok"] and x["rto"] != x["to"] and x["rbr"]), None)
            if e is None:
                raise V.Infra("no size cut with bridges recorded at all - driver is dead")
            m = json.loads(json.dumps(e)); m["rbr"] = m["rbr"][:-1]; muts.append(m); want.append("ExactlyTheBridgesOfKeptBlocksInOrder")
            m = json.loads(json.dumps(e)); m["rto"] = m["to"]; m["rbr"] = [b["id"] for b in m["br"]]; m["rcl"] = [c["id"] for c in m["cl"]]
            muts.append(m); want.append("OverTheSizeLimitOnlyAsSingleBlock")
            e = next((x for x in evs if x["ev"] == "limit" and x["ok"] and x["rto"] != x["to"] and len(x["rcl"]) > 1), None)
            if e is None:
                raise V.Infra("no last-block cut with two claims recorded")
            m = json.loads(json.dumps(e)); m["rcl"] = m["rcl"][::-1]; muts.append(m); want.append("ExactlyTheClaimsOfKeptBlocksInOrder")
            e = next((x for x in evs if x["ev"] == "gap" and x["empty"] and x["a"] != x["b"]), None)
            if e is None:
                raise V.Infra("no touching ranges recorded")
            m = json.loads(json.dumps(e)); m["empty"] = False; muts.append(m); want.append("NoGapBetweenTouchingOrOverlappingRanges")
            mf = sc.path("mut.ndjson")
            V.write_ndjson(mf, muts)
            minfo = V.validate_traces("CertCutTrace.tla", "CertCutTrace.cfg", mf, sc)
            got = {(v["l"], v["inv"]) for v in minfo["violations"]}
            for j, inv in enumerate(want):
                if (j + 2, inv) not in got:
                    raise V.Infra("binding self-test failed: corrupted line %d not rejected with %s (got %s)" % (j + 2, inv, sorted(got)))
            st = "4 corrupted outcomes rejected: " + ", ".join(want)
        kinds = {}
        for e in evs[1:]:
            d = kinds.setdefault(e["ev"], dict(cases=0, cut_or_gap=0, refused=0))
            d["cases"] += 1
            d["cut_or_gap"] += 1 if nontrivial(e) else 0
            d["refused"] += 1 if e.get("ok") is False else 0
        pick = [0, n_model // 3, 2 * n_model // 3, len(cases) - 1] if rb is None else [0]
        res.coverage = dict(
            gap_unbounded=gap_unbounded,
            states=mc["distinct"], transitions=mc["generated"],
            traces_validated_against_impl=len(cases),
            samples=[dict(case=cases[i], recorded=evs[i + 1]) for i in pick],
            exhaustive=False,
            evaluations=len(evs) - 1, distinct_nontrivial=sum(d["cut_or_gap"] for d in kinds.values()),
            per_kind=kinds,
            rule="cases = seeded selection (all if below the quota) of the generator configuration's cases of CertCut.tla, each mapped "
                 "onto uint64 as is / shifted so that the model's maximum is 2^64-1 / split across both ends, + seeded random "
                 "certificates of up to 120 blocks and 40 events with metadata up to 6000 bytes at both ends of uint64; "
                 "non-trivial = the real code returned a shorter range, or a non-empty gap",
            model=dict(spec="CertCut.tla", cfg=mc["cfg"], depth=mc["depth"], wall_s=mc["wall_s"],
                       constants="W-bit block numbers with wrap-around, all certificates of 1..MaxLen blocks, all content layouts, "
                                 "all size thresholds, all last-block limits x retry x allow-resize x require-bridge, all Range "
                                 "requests, all pairs of ranges",
                       invariants=["SizeCutCorrect", "SizeCutTotal", "LimitCutCorrect", "LimitRefusals", "RangeCorrect", "GapCorrect"],
                       exhaustive=True),
            model_cases_replayed=n_model, generator_cases=gst["distinct"] // 2,
            model_vs_code_drift=ndrift, drift_sample=drift_sample,
            monitor=dict(spec="CertCutTrace.tla", events=len(evs), wall_s=info["wall_s"]),
            binding_selftest=st,
        )
        res.assumptions = [
            "a certificate spans fewer than 2^63 blocks (NumberOfBlocks() converts the span to int; beyond that limitCertSize stops cutting)",
            "size cut observed through GetCertificateBuildParamsInternal, whose first block is previous+1 >= 1 (block 0 cannot be a first block there)",
            "the estimated size is a float sum truncated to uint: where the exact size is a whole number of bytes the monitor accepts either rounding",
            "a refusal (error) of the limiter / Range is not a cut; the property demands nothing of it (CertCut.tla pins the refusal conditions of the design)",
            "last-block limit 0 means not configured; Gap is judged on well-formed ranges (from <= to), (0,0) being the range of block 0",
        ]
    finally:
        sc.close()
    res.finish()


if __name__ == "__main__":
    V.main(body, PROP)
