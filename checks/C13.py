#!/usr/bin/env python3
"""C13 - certificate bookkeeping survives crashes and a lost database."""
import os, sys
sys.path.insert(0, os.path.dirname(os.path.abspath(__file__)))
import aggsender_common as A
import vcheck as V

PROP = "C13"


def body():
    A.aggsender_check(PROP, model_cfgs=["AggSenderC13.cfg", "AggSenderC13b.cfg", "AggSenderFEPC13.cfg", "AggSenderC13cut.cfg"], counterexamples=[("AggSenderC13F4.cfg", "F4Free"), ("AggSenderC13v1.cfg", "C02")], gen_cfgs=["AggSenderGenC13.cfg", "AggSenderGenC13b.cfg", "AggSenderGenFEPC13.cfg", "AggSenderGenC13cut.cfg"], quick_n=250, thorough_n=5000, invs=["C02", "F4Free", "NeverRefuses"], storefaults=True)


if __name__ == "__main__":
    V.main(body, PROP)
