#!/usr/bin/env python3
"""C03 - a built certificate s new exit root follows from its bridge exits; exits/imported exits are the events of its range; metadata encodes the range."""
import os, sys
sys.path.insert(0, os.path.dirname(os.path.abspath(__file__)))
import aggsender_common as A
import vcheck as V

PROP = "C03"


def body():
    A.aggsender_check(PROP, model_cfgs=["AggSenderC02.cfg"], gen_cfgs=["AggSenderGenC02.cfg", "AggSenderGenC02b.cfg", "AggSenderGenC02cut.cfg", "AggSenderGenFEP.cfg"], quick_n=200, thorough_n=4000, l2reorgs=True, l1random=True, invs=["NewOK", "FromOK"])


if __name__ == "__main__":
    V.main(body, PROP)
