#!/usr/bin/env python3
"""C05 - syncers deliver every watched event exactly once, in chain order (engine evmsync, see evmsync_common.py)."""
import os, sys
sys.path.insert(0, os.path.dirname(os.path.abspath(__file__)))
sys.path.insert(0, os.path.join(os.path.dirname(os.path.abspath(__file__)), "..", "lib"))
import vcheck as V
import evmsync_common as E

PROP = "C05"

PLAN = dict(
    quick=dict(model=["EVMSyncC05.cfg"], gen="EVMSyncGenC05.cfg", edges=1200, walks=[("EVMSyncSimC05.cfg", 300)], l1=300,
               probes=[("EVMSyncF13probe.cfg", "NoSkip")]),
    thorough=dict(model=["EVMSyncC05T.cfg"], gen="EVMSyncGenC05T.cfg", edges=12000, walks=[("EVMSyncSimC05.cfg", 3000), ("EVMSyncSimC05L.cfg", 600)],
                  l1=3000, model_timeout=3000, model_workers=12, probes=[("EVMSyncF13probe.cfg", "NoSkip")]),
    invariants=["Ordered", "Faithful", "NoSkip", "Converged", "RewindLow"],
    assumptions=[
        "environment moves (mine, finalize) are scheduled only immediately before a step that can observe them (hand-made "
        "partial-order reduction of EVMSync.tla; every other placement commutes to such a one)",
        "the fake chain answers eth_getLogs atomically and honours the address filter; block hashes are genuine header hashes",
        "a transient RPC failure has no effect on the node other than the error it returns",
        "the driver's select between a downloaded block and a reorg notification is scheduled (channel hand-over steps), "
        "not left to Go's random choice",
        "NoSkip is judged against the ancestors of the delivered block's own hash",
    ],
)

if __name__ == "__main__":
    V.main(lambda: E.body(PROP, PLAN), PROP)
