"""Shared body of C05 and C06 (engine "evmsync").

 (A) specs/EVMSync.tla        implementation-shaped: chain (forks, finality), downloader cursor arithmetic and zone rules as
                              coded, downloadedCh, driver, processor rows, tracked lists (memory + SQLite), detector loop
                              (tick / compare / notify / ack / remove range as separate steps), restarts, RPC failures.
                              TLC exhaustive for the tier's constants; invariants = the monitor's predicates.
 (B) harness/areas/evmsync    replays TLC's edge cover (seeded sample) + seeded `tlc -simulate` walks into the REAL
                              sync.EVMDownloader + sync.EVMDriver + reorgdetector.ReorgDetector behind gated fake-chain
                              clients; recording processor, and the real L1 info store in a second pass.
 (C) specs/EVMSyncTrace.tla   property monitor; TLC judges every recorded trace.
"""
import os, sys, json, random, re, copy, threading, time
from concurrent.futures import ThreadPoolExecutor
sys.path.insert(0, os.path.join(os.path.dirname(os.path.abspath(__file__)), "..", "lib"))
import vcheck as V

SPEC, MON, MONCFG = "EVMSync.tla", "EVMSyncTrace.tla", "EVMSyncTrace.cfg"
SHARDS = 4
BATCH = 500


def cfg_const(cfg, name):
    txt = open(os.path.join(V.SPECS, cfg)).read()
    m = re.search(r"^\s*%s\s*=\s*(\S+)" % re.escape(name), txt, re.M)
    if not m:
        raise V.Infra("constant %s not found in %s" % (name, cfg))
    return m.group(1)


def to_behaviours(cases, buf):
    """TLC CASE lines -> prefix-maximal behaviours"""
    keyed = [[c["chunk"], c["tag"]] + [json.dumps(s, sort_keys=True) for s in c["steps"]] for c in cases]
    out = []
    for m in V.drop_prefixes(keyed):
        out.append(dict(chunk=m[0], tag=m[1], buf=buf, proc="rec", steps=[json.loads(s) for s in m[2:]]))
    return out


def export_edges(cfg, sc):
    cases, st = V.export_cases(SPEC, cfg, sc, timeout=900, workers=8)
    return to_behaviours(cases, int(cfg_const(cfg, "BufCap"))), st


def export_walks(cfg, sc, num, seed):
    """seeded random walks of the specification (tlc -simulate, one worker per run so that TLC's walk counter names the
    walk); the cfg prints one STEP line per step; several runs with derived seeds go in parallel"""
    depth = int(cfg_const(cfg, "SimDepth")) + 1
    buf = int(cfg_const(cfg, "BufCap"))
    runs = 4

    def one(i):
        steps, st = V.export_cases(SPEC, cfg, sc, tag="STEP", timeout=1500, workers=1, heap="3g",
                                   extra=["-simulate", "num=%d" % max(1, num // runs), "-depth", str(depth), "-seed", str(seed * 16 + i)])
        walks = {}
        for x in steps:
            w = walks.setdefault(x["w"], dict(chunk=x["chunk"], tag=x["tag"], buf=buf, proc="rec", steps=[]))
            if x["k"] == len(w["steps"]):
                if w["steps"][-1] != x["s"]:
                    raise V.Infra("simulation output of %s: two different steps %d in walk %d" % (cfg, x["k"], x["w"]))
                continue    # printed once per candidate successor
            if x["k"] != len(w["steps"]) + 1:
                raise V.Infra("simulation output of %s is not in step order (walk %d step %d)" % (cfg, x["w"], x["k"]))
            w["steps"].append(x["s"])
        return [walks[k] for k in sorted(walks)]

    with ThreadPoolExecutor(max_workers=runs) as ex:
        parts = list(ex.map(one, range(runs)))
    return [b for p in parts for b in p if len(b["steps"]) >= 8], None


def run_shards(drv, behs, sc, tag):
    """replay in driver processes of at most BATCH behaviours each (a process keeps the SQLite handles of the detectors it
    created), SHARDS at a time; returns the concatenated trace file (trace k = behaviour k)"""
    parts = [behs[i:i + BATCH] for i in range(0, len(behs), BATCH)] or [[]]

    def one(i):
        bf, tf = sc.path("beh-%s-%d.json" % (tag, i)), sc.path("trace-%s-%d.ndjson" % (tag, i))
        json.dump(parts[i], open(bf, "w"))
        V.run_driver(drv, ["-in", bf, "-out", tf], timeout=3000)
        return tf

    with ThreadPoolExecutor(max_workers=SHARDS) as ex:
        files = list(ex.map(one, range(len(parts))))
    out = sc.path("trace-%s.ndjson" % tag)
    with open(out, "w") as f:
        for p in files:
            f.write(open(p).read())
    return out


def split_traces(evs):
    """list of (start, end) index pairs, one per cfg line"""
    starts = [i for i, e in enumerate(evs) if e["ev"] == "cfg"]
    return [(s, (starts[k + 1] if k + 1 < len(starts) else len(evs))) for k, s in enumerate(starts)]


def selftest(evs, sc, want, skip=()):
    """binding self-test: corrupt real traces in ways that break exactly one promise each; the monitor must object.
    want: list of (name, picker, mutator, expected invariant)"""
    done = []
    for name, pick, mutate, inv in want:
        hit = None
        for ti, (s, e) in enumerate(split_traces(evs)):
            if ti + 1 in skip:
                continue    # a trace the monitor rejected (listed finding) is no basis for a corruption test
            tr = evs[s:e]
            k = pick(tr)
            if k is not None:
                hit = (tr, k)
                break
        if hit is None:
            raise V.Infra("binding self-test '%s': no recorded trace offers the event to corrupt - the replay is too weak" % name)
        tr, k = hit
        mut = mutate(copy.deepcopy(tr), k)
        mf = sc.path("selftest-%s.ndjson" % name)
        V.write_ndjson(mf, mut)
        info = V.validate_traces(MON, MONCFG, mf, sc)
        if not info["consumed_ok"]:
            raise V.Infra("binding self-test '%s': monitor did not consume the corrupted trace:\n%s" % (name, info.get("tail", "")))
        if inv not in [v["inv"] for v in info["violations"]]:
            raise V.Infra("binding self-test '%s' failed: the corrupted trace was not rejected with %s (got %s)" % (
                name, inv, [v["inv"] for v in info["violations"]]))
        done.append("%s -> %s" % (name, inv))
    return done


# --- corruptions used by both checks

def pick_process_with_events(tr):
    return next((i for i, e in enumerate(tr) if e["ev"] == "process" and e["ok"] and e["evs"]), None)


def mut_drop_event(tr, k):
    tr[k]["evs"] = tr[k]["evs"][1:]
    return tr


def pick_end_with_events(tr):
    e = tr[-1]
    if e["ev"] == "end" and e["quiet"] and any(r["evs"] for r in e["store"]):
        return len(tr) - 1
    return None


def mut_drop_store_row(tr, k):
    rows = tr[k]["store"]
    j = next(i for i, r in enumerate(rows) if r["evs"])
    tr[k]["store"] = rows[:j] + rows[j + 1:]
    return tr


def pick_gap_process(tr):
    """a delivered block with events that is followed by another delivered block (dropping it leaves a skipped block)"""
    idx = [i for i, e in enumerate(tr) if e["ev"] == "process" and e["ok"]]
    for a, b in zip(idx, idx[1:]):
        if any(e["ev"] == "chain" and e["op"] == "fork" for e in tr[:b]):
            return None     # after a fork the later block's own chain may not contain the dropped block's logs
        if tr[a]["evs"] and tr[b]["n"] > tr[a]["n"] and not any(e["ev"] in ("reorg", "restart") for e in tr[a:b]):
            return a
    return None


def mut_drop_line(tr, k):
    return tr[:k] + tr[k + 1:]


def pick_two_process(tr):
    idx = [i for i, e in enumerate(tr) if e["ev"] == "process" and e["ok"]]
    for a, b in zip(idx, idx[1:]):
        if tr[b]["n"] > tr[a]["n"] and not any(e["ev"] in ("reorg", "restart") for e in tr[a:b]):
            return b
    return None


def mut_repeat_line(tr, k):
    return tr[:k + 1] + [tr[k]] + tr[k + 1:]


COMMON_SELFTESTS = [
    ("event-dropped-from-delivery", pick_process_with_events, mut_drop_event, "Faithful"),
    ("delivery-dropped", pick_gap_process, mut_drop_line, "NoSkip"),
    ("delivery-repeated", pick_two_process, mut_repeat_line, "Ordered"),
    ("row-missing-at-rest", pick_end_with_events, mut_drop_store_row, "Converged"),
]


def body(PROP, plan):
    """plan: dict with per-tier configuration, see C05.py / C06.py"""
    res = V.Result(PROP)
    sc = V.Scratch(PROP)
    try:
        tier = res.tier
        p = plan[tier]
        rng = random.Random(V.seed() * 7919 + (5 if PROP == "C05" else 6))
        rb = V.replay_behaviours()

        # (A) design: exhaustive TLC runs in the background while behaviours are exported and replayed
        mc_out, mc_err = [], []

        def model():
            try:
                for cfg in ([] if os.environ.get("VERIF_EVMSYNC_NOMODEL") else p["model"]):   # development only
                    mc_out.append(V.model_check(SPEC, cfg, sc, timeout=p.get("model_timeout", 1500), workers=p.get("model_workers", 8)))
            except Exception as e:  # noqa
                mc_err.append(e)

        probe_out = []

        def probes():
            try:
                for cfg, inv in p.get("probes", []):
                    probe_out.append(V.model_counterexample(SPEC, cfg, inv, sc, workers=4, timeout=1500))
            except Exception as e:  # noqa
                mc_err.append(e)

        th = threading.Thread(target=model)
        th.start()
        th2 = threading.Thread(target=probes)
        if not os.environ.get("VERIF_EVMSYNC_NOMODEL"):
            th2.start()

        # behaviours
        notes = {}
        if rb is not None:
            behs = rb
            n_edge = n_walk = 0
        else:
            edges, gst = export_edges(p["gen"], sc)
            notes["edge_cover_paths"] = len(edges)
            notes["generator_states"] = gst["distinct"]
            if len(edges) > p["edges"]:
                edges = rng.sample(edges, p["edges"])
            walks = []
            for cfg, num in p["walks"]:
                w, _ = export_walks(cfg, sc, num, V.seed())
                walks += w
            n_edge, n_walk = len(edges), len(walks)
            # second pass: the real L1 info store behind the driver
            l1 = [dict(b, proc="l1") for b in rng.sample(edges + walks, min(len(edges + walks), p["l1"]))]
            # ... and with the real bridge store (exit tree included); there a scripted ProcessBlock failure is a real storage
            # fault inside the block's transaction
            withfail = [b for b in edges + walks if any(st["a"] == "process" and st.get("fail") for st in b["steps"])]
            l1 += [dict(b, proc="bridge") for b in rng.sample(withfail, min(len(withfail), p["l1"] // 2))]
            l1 += [dict(b, proc="bridge") for b in rng.sample(edges + walks, min(len(edges + walks), p["l1"] // 2))]
            # free scheduling: the same chains (moves of the environment and restarts), the node scheduled at random between
            # them whatever calls it makes - no step order of the specification is assumed
            ENV = ("mine", "finalize", "fork", "restart")
            pool = [b for b in edges + walks if sum(1 for st in b["steps"] if st["a"] in ENV) >= 2]
            free = [dict(b, free=True, steps=[st for st in b["steps"] if st["a"] in ENV])
                    for b in rng.sample(pool, min(len(pool), p.get("free", 300)))]
            # wide ranges: some free behaviours start far behind the tip (1000+ quiet blocks below the scripted ones) with a chunk
            # size beyond a thousand blocks - one eth_getLogs range then spans more than a provider's page
            for b in free:
                if b["proc"] == "rec" and rng.random() < 0.06:
                    b["offset"] = rng.choice([1000, 1000, 2000, 999, 1001])
                    b["chunk"] = rng.choice([1000, 2500, 5000])
            behs = plan.get("regress", lambda: [])() + edges + walks + l1 + free
            # a third of the behaviours (regressions excluded) run with a second syncer on the same reorg detector: it tracks the
            # same blocks under its own subscriber id (bridgesync and l1infotreesync share the L1 detector in a real node)
            for b in edges + walks + l1 + free:
                if rng.random() < 0.35:
                    b["shadow"] = True
        for b in behs:
            b.setdefault("proc", "rec")
            b.setdefault("buf", 1)

        # (B) real code
        drv = V.build_driver("evmsync")
        t0 = time.time()
        tf = run_shards(drv, behs, sc, "main")
        replay_s = round(time.time() - t0, 1)
        evs = V.read_ndjson(tf)
        spans = split_traces(evs)
        if len(spans) != len(behs):
            raise V.Infra("driver recorded %d traces for %d behaviours" % (len(spans), len(behs)))
        # A replay that did not come to rest is not judged. Whether the scheduler of the harness reaches a rest position depends on
        # the timing of the node's goroutines on a loaded machine: such behaviours are replayed again (one process, nothing else
        # running in it), and the new trace - judged like any other - takes the place of the unfinished one.
        retried = 0
        for attempt in (1, 2):
            bad = [k for k, (s0, e0) in enumerate(spans)
                   if any((x["ev"] == "end" and not x["quiet"] and not x.get("loop")) or
                          (x["ev"] == "panic" and x.get("who") == "rd" and "predicted notification" in x.get("msg", ""))   # the harness's own relay gave up
                          for x in evs[s0:e0])]
            if not bad or len(bad) > max(50, len(behs) // 100):
                break
            rf = run_shards(drv, [behs[k] for k in bad], sc, "retry%d" % attempt)
            revs = V.read_ndjson(rf)
            rspans = split_traces(revs)
            if len(rspans) != len(bad):
                break
            new_evs, last = [], 0
            for k, (rs, re_) in zip(bad, rspans):
                s0, e0 = spans[k]
                new_evs += evs[last:s0] + revs[rs:re_]
                last = e0
            new_evs += evs[last:]
            evs = new_evs
            spans = split_traces(evs)
            retried += len(bad)
        if retried:
            tf = sc.path("trace-merged.ndjson")
            V.write_ndjson(tf, evs)
            V.log("[replay] %d replays that had not come to rest were replayed again" % retried)

        # (C) judge
        info = V.validate_traces(MON, MONCFG, tf, sc)
        if not info["consumed_ok"]:
            raise V.Infra("monitor did not consume the trace:\n" + info.get("tail", ""))
        known = V.load_known(PROP)
        for v in info["violations"]:
            b = behs[v["t"] - 1]
            s, e = spans[v["t"] - 1]
            kf = plan.get("known_match", lambda *a: None)(known, b, v, evs[s:e])
            if kf:
                res.add_known(kf["id"], kf["what"])
                continue
            res.add_violation("%s at trace %d line %d (%s store): %s" % (v["inv"], v["t"], v["l"], b["proc"], json.dumps(v["info"])[:400]),
                              dict(behaviour=b, violation=v, trace=evs[s:e]))

        ends = [e for e in evs if e["ev"] == "end"]
        stuck = [e for e in ends if not e["quiet"] and not e.get("loop")]
        drift = sum(1 for e in ends if e["drift"])
        panics = [e for e in evs if e["ev"] in ("panic",)] + [e for e in ends if e["fatal"]]
        if not res.violations:
            if stuck:
                if os.environ.get("VERIF_DEBUG_STUCK"):
                    k = next(i for i, e in enumerate(ends) if e is stuck[0])
                    s0, e0 = spans[k]
                    json.dump(dict(behaviour=behs[k], trace=evs[s0:e0]), open(os.environ["VERIF_DEBUG_STUCK"], "w"), indent=1)
                raise V.Infra("%d of %d replays did not come to rest (not judged): %s" % (len(stuck), len(ends), stuck[0]["stuck"]))
            if panics:
                raise V.Infra("the node panicked / gave up during replay without a property violation: %s" % json.dumps(panics[0])[:300])

        th.join()
        if th2.is_alive() or th2.ident is not None:
            th2.join()
        if mc_err:
            raise mc_err[0]

        if rb is not None or res.violations:
            # a replay, or rejected traces: report now (the self-test below needs clean traces)
            res.coverage = dict(states=sum(m["distinct"] for m in mc_out), transitions=sum(m["generated"] for m in mc_out),
                                traces_validated_against_impl=len(behs), samples=behs[:1], drift=drift, stuck=len(stuck),
                                rejected=len(res.violations))
            res.finish()

        # binding self-test
        st_done = selftest(evs, sc, COMMON_SELFTESTS + plan.get("selftests", []), skip={v["t"] for v in info["violations"]})

        nproc = sum(1 for e in evs if e["ev"] == "process" and e["ok"])
        nontriv = sum(1 for e in evs if e["ev"] == "process" and e["ok"] and e["evs"])
        nreorg = sum(1 for e in evs if e["ev"] == "reorg" and e["ok"])
        nreorg_rows = sum(1 for e in evs if e["ev"] == "reorg" and e["ok"] and e["rows"] > 0)
        if drift:
            V.log("DRIFT spec=EVMSync behaviours=%d of %d (the real gate sequence left the specification; traces still judged)" % (drift, len(behs)))
            shown = 0
            for k, (s0, e0) in enumerate(spans):
                for e in evs[s0:e0]:
                    if e["ev"] == "drift" and shown < 5:
                        shown += 1
                        V.log("  behaviour %d (%s) step %d %s: expected %s, %s" % (k, behs[k]["proc"], e["step"], e["want"], e["at"], e["got"]))
                        res.notes.append("drift in behaviour %d step %d (%s): expected %s, %s" % (k, e["step"], e["want"], e["at"], e["got"]))
            res.notes.append("DRIFT in %d of %d behaviours: the exhaustive model-checking result does not transfer to them" % (drift, len(behs)))
        sample_idx = sorted(set([0, n_edge // 2, max(0, len(behs) - 1)]))
        res.coverage = dict(
            states=sum(m["distinct"] for m in mc_out), transitions=sum(m["generated"] for m in mc_out),
            traces_validated_against_impl=len(behs),
            samples=[dict(behaviour=behs[i], trace=evs[spans[i][0]:spans[i][1]][:60]) for i in sample_idx],
            exhaustive=False,
            evaluations=len(evs), distinct_nontrivial=nontriv + nreorg_rows,
            rule="behaviours = seeded sample of the prefix-maximal paths of TLC's edge cover of EVMSync.tla (%s) + seeded tlc -simulate "
                 "walks (%s) + regression schedules; a subset replayed a second time with the real L1 info store behind the driver; "
                 "non-trivial = ProcessBlock calls that delivered events + Reorg calls that deleted rows" % (
                     p["gen"], ", ".join(c for c, _ in p["walks"])),
            models=[dict(spec=SPEC, cfg=m["cfg"], states=m["distinct"], transitions=m["generated"], depth=m["depth"], wall_s=m["wall_s"],
                         exhaustive=True) for m in mc_out],
            model_invariants=plan["invariants"],
            faithful_model_of_recorded_findings=probe_out,
            behaviours=dict(edge_cover_sampled=n_edge, random_walks=n_walk, free_scheduling=sum(1 for b in behs if b.get("free")), with_second_subscriber=sum(1 for b in behs if b.get("shadow")), wide_ranges=sum(1 for b in behs if b.get("offset")), with_real_l1_store=sum(1 for b in behs if b["proc"] == "l1"), with_real_bridge_store=sum(1 for b in behs if b["proc"] == "bridge"),
                            **notes),
            replay=dict(wall_s=replay_s, process_calls=nproc, with_events=nontriv, reorg_calls=nreorg, reorgs_deleting_rows=nreorg_rows,
                        restarts=sum(1 for e in evs if e["ev"] == "restart"), rpc_calls=sum(1 for e in evs if e["ev"] == "rpc"),
                        injected_failures=sum(1 for e in evs if e.get("fail")), drift=drift, stuck=len(stuck)),
            monitor=dict(spec=MON, events=len(evs), wall_s=info["wall_s"]),
            binding_selftest=st_done,
        )
        res.assumptions = plan["assumptions"]
    finally:
        sc.close()
    res.finish()
