"""Shared orchestration for the aggsender family (C02 C03 C09 C13): AggSender.tla -> behaviours -> real send path -> AggSenderTrace.tla."""
import os, sys, json, random, re, concurrent.futures as cf
sys.path.insert(0, os.path.join(os.path.dirname(os.path.abspath(__file__)), "..", "lib"))
sys.path.insert(0, os.path.dirname(os.path.abspath(__file__)))
import vcheck as V
from store_common import run_driver_parallel, sample, load_regress

OWNERS = {
    "C02": {"HeightFollowsSettled", "PrevRootFollowsSettled", "FirstBlockFollowsSettledOrRetried", "NoSubmitWhileUndecided", "SettledExactlyOnceInOrder"},
    "C03": {"MetadataEncodesRange", "NewRootFollowsFromExits", "ExitsAreTheEventsOfTheRange", "ImportedExitsAreTheClaimsOfTheRange"},
    "C09": {"ClaimProofsVerifyAgainstNamedRoot"},
    "C13": {"RestartReconciles", "ReconciledWithAgglayer", "OneCertificatePerHeight", "RecordMatchesSubmitted", "FailedWriteLeavesRecordIntact",
            "HeightFollowsSettled", "PrevRootFollowsSettled", "FirstBlockFollowsSettledOrRetried", "NoSubmitWhileUndecided",
            "StoredCertificatesSurviveUpgrade"},
}
FIXTURE_DB = os.path.join(V.VERIF, "fixtures", "aggsender_v1.sqlite")


def decorate(b, rng, claims=True, finality=False, storefaults=False, l2reorgs=False, l1random=False):
    """add what the model abstracts away: claims per block, position of the finalized pointer, storage faults"""
    steps = []
    cfg = dict(b["cfg"])
    # (block numbers in the fep prover's answers are the model's: consecutive numbering there)
    idle = cfg.get("mode", "pp") != "fep" and rng.random() < 0.3
    forever = storefaults and rng.random() < 0.3
    if forever:
        cfg["storeretries"] = -1     # MaxRetriesStoreCertificate = 0: a failed save is retried for ever (only transient failures then)
    if finality:
        # how the 5 L1 info leaves are spread over L1 blocks: several updates of the info tree can share a block
        cfg["l1shape"] = rng.choice([[1, 2, 3, 4, 5], [1, 2, 3, 4, 5], [1, 1, 2, 2, 3], [1, 2, 2, 2, 3], [1, 1, 1, 2, 2], [1, 2, 3, 3, 4]])
    nl1 = 5
    if (finality or l1random) and rng.random() < 0.5:
        # another L1 history: which deposits exist at which info leaf, and which leaf each claim is made against
        hist = "".join(rng.choice("mo") for _ in range(rng.randrange(2, 8)))
        nl1 = len(hist)
        claims = []
        for kind in "mo":
            seen = 0
            for i, c in enumerate(hist):
                if c == kind:
                    seen += 1
                    if rng.random() < 0.8:     # claimed, against a leaf that covers it (not always the first one)
                        claims.append([1 if kind == "m" else 0, seen, rng.randrange(i, nl1) if rng.random() < 0.5 else i])
        if rng.random() < 0.5:
            claims.sort(key=lambda c: c[2])
        else:
            rng.shuffle(claims)
        cfg["l1steps"], cfg["l1claims"] = hist, claims
        blocks, cur = [], 1
        for i in range(nl1):
            blocks.append(cur)
            if rng.random() < 0.6:
                cur += 1
        cfg["l1shape"] = blocks if rng.random() < 0.5 else list(range(1, nl1 + 1))
    fin = rng.choice(list(range(1 if nl1 < 3 else 2, nl1 + 1))) if finality else max(5, nl1)
    if finality:
        steps.append(dict(a="finalize", fin=fin))
    for s in b["steps"]:
        s = dict(s)
        if s["a"] == "block":
            s["nc"] = rng.choice([0, 1, 1]) if claims else 0
            if idle:
                # long idle stretches of the chain: event-free blocks are never stored, the next certificate's range grows
                s["jump"] = rng.choice([1, 1, 1, 2, 9999, 10000, 10001, 10001, 20001, 20002])
            if finality and fin < nl1 and rng.random() < 0.3:
                fin += 1
                steps.append(dict(a="finalize", fin=fin))
        if s["a"] == "tick" and cfg.get("mode", "pp") != "fep" and rng.random() < 0.15:
            # the L2 syncer stores a new block (one exit) while the node reads the L2 bridge store for this tick
            s["midblock"] = rng.randrange(1, 120)
        if s["a"] == "tick" and finality and "midblock" not in s and rng.random() < 0.15:
            # a read of the L1 info store fails while the claims' proofs are generated: no certificate, or a right one
            s["l1readfault"] = rng.randrange(1, 300)
        if s["a"] == "tick" and storefaults and s.get("o") == "ok" and rng.random() < 0.5:
            s["storefail"] = rng.choice([1, 2, 4] if forever else [1, 2])   # the first save attempts fail as a whole; the save is retried
        if s["a"] == "tick" and storefaults and not forever and s.get("o") == "crash_after_submit" and rng.random() < 0.5:
            # the same divergence reached through storage: every attempt to save fails, then the process stops
            s["o"], s["storefail"] = "ok", -rng.choice([1, 2, 3])   # ... at the 1st/2nd/3rd statement of the save transaction
            steps.append(s)
            steps.append(dict(a="stop"))
            continue
        steps.append(s)
        if l2reorgs and s["a"] == "agmove" and s.get("st") == "InError" and rng.random() < 0.5:
            # the L2 tip is reorged while the last certificate is in error (the driver skips it if a live certificate covers it)
            steps.append(dict(a="l2reorg", nb=rng.choice([1, 2]), nc=rng.choice([0, 1])))
    return dict(cfg=cfg, steps=steps)


def aggsender_check(prop, model_cfgs, gen_cfgs, quick_n, thorough_n, invs, claims=True, finality=False, storefaults=False, assumptions=(),
                    counterexamples=(), l2reorgs=False, l1random=False):
    res = V.Result(prop)
    sc = V.Scratch(prop)
    try:
        thorough = res.tier == "thorough"
        rng = random.Random(V.seed())
        rb = V.replay_behaviours()
        jobs = [("mc", c) for c in model_cfgs] + ([("gen", c) for c in gen_cfgs] if rb is None else [])
        nw = max(2, 16 // max(1, len(jobs)))

        def run(job):
            kind, cfg = job
            if kind == "mc":
                return V.model_check("AggSender.tla", cfg, sc, timeout=3000, heap="8g", workers=nw)
            return V.export_cases("AggSender.tla", cfg, sc, timeout=3000, heap="8g", workers=nw)

        with cf.ThreadPoolExecutor(max_workers=len(jobs)) as ex:
            results = list(ex.map(run, jobs))
        mcs = [r for (k, _), r in zip(jobs, results) if k == "mc"]
        cex = [V.model_counterexample("AggSender.tla", c, inv, sc, timeout=900) for c, inv in counterexamples]
        behs, gstats = [], []
        reg = load_regress(prop)
        if rb is None:
            for (k, cfg), r in zip(jobs, results):
                if k != "gen":
                    continue
                cases, gst = r
                paths = V.drop_prefixes([[json.dumps(c["cfg"], sort_keys=True)] + c["steps"] for c in cases])
                bs = [dict(cfg=json.loads(p[0]), steps=p[1:]) for p in paths]
                gstats.append(dict(cfg=cfg, edges=len(cases), behaviours=len(bs), states=gst["distinct"]))
                behs += [decorate(b, rng, claims, finality, storefaults, l2reorgs, l1random) for b in sample(bs, thorough_n if thorough else quick_n, rng)]
            behs = reg + behs
        else:
            behs = rb
        drv = V.build_driver("aggsender")
        tf, index = run_driver_parallel(drv, behs, sc, tag="ag")
        info = V.validate_traces("AggSenderTrace.tla", "AggSenderTrace.cfg", tf, sc, timeout=3000, heap="12g")
        if not info["consumed_ok"]:
            raise V.Infra("monitor did not consume the trace:\n" + info.get("tail", ""))
        known = {f["id"]: f for f in V.load_known(prop)}
        own = OWNERS[prop]
        seen = set()
        for v in info["violations"]:
            if v["inv"].startswith("INFRA"):
                raise V.Infra("driver problem reported in trace: %s" % json.dumps(v)[:500])
            if v["inv"] not in own:
                note = "predicate owned by another property failed: %s" % v["inv"]
                if note not in res.notes:
                    res.notes.append(note)
                continue
            kf = v["info"].get("kf") if isinstance(v["info"], dict) else None
            if kf and kf != "none" and kf in known:
                res.add_known(kf, known[kf]["what"])
                continue
            key = (v["t"], v["inv"])
            if key in seen:
                continue
            seen.add(key)
            res.add_violation("%s (trace %d line %d): %s" % (v["inv"], v["t"], v["l"], json.dumps(v["info"])[:700]),
                              dict(behaviour=behs[index[v["t"] - 1]], violation=v))
        lines = open(tf).read().splitlines()
        nsub = sum(1 for x in lines if '"ev":"submit"' in x[:40] or '"ev": "submit"' in x[:40])
        if rb is None:
            selftest(lines, sc)
            if nsub == 0:
                raise V.Infra("no certificate was ever submitted - driver is dead")
        nimp = sum(x.count('"kind":"mainnet"') + x.count('"kind":"rollup"') for x in lines)
        # C13, across restarts that are upgrades: the aggsender database written by an earlier run of the repository's code
        # (fixtures/aggsender_v1.sqlite) is opened by the code under test; every getter must answer what it answered then
        persist = None
        if prop == "C13" and rb is None:
            pf = sc.path("persist.ndjson")
            V.run_driver(drv, ["-persistcheck", FIXTURE_DB, "-out", pf])
            pinfo = V.validate_traces("AggSenderTrace.tla", "AggSenderTrace.cfg", pf, sc)
            if not pinfo["consumed_ok"]:
                raise V.Infra("monitor did not consume the persistence trace:\n" + pinfo.get("tail", ""))
            nans = sum(1 for _ in open(pf))
            if nans < 30:
                raise V.Infra("persistence check recorded only %d answers" % nans)
            for v in pinfo["violations"][:3]:
                res.add_violation("%s (stored aggsender database, start %d): %s" % (v["inv"], v["info"].get("round", 0), json.dumps(v["info"])[:700]),
                                  dict(fixture=FIXTURE_DB, violation=v))
            persist = dict(fixture="fixtures/aggsender_v1.sqlite", answers_compared=nans, differing=len(pinfo["violations"]))
        steps = sum(len(b["steps"]) for b in behs)
        # conformance of the implementation-shaped specification: AggSender.tla predicts for every tick of an exported behaviour
        # whether a certificate goes out; compared with what the scripted Agglayer received (ticks without added faults only)
        compared = drift = 0
        dsample = None
        for x in lines:
            if '"ev":"tick"' in x.replace(" ", "")[:400] and '"exp"' in x:
                e = json.loads(x)
                if not e.get("plain") or not isinstance(e.get("exp"), dict):
                    continue
                compared += 1
                if bool(e.get("sent")) != bool(e["exp"].get("sent")):
                    drift += 1
                    dsample = dsample or {k: e.get(k) for k in ("kind", "o", "checkfail", "sent", "exp", "crashed")}
        conf = dict(ticks_compared=compared, drift=drift, sample=dsample,
                    meaning="does this tick submit a certificate: the real node against AggSender.tla's own prediction for the same step; "
                            "the replay adds what the model abstracts (claims whose GER is not finalized yet, idle stretches, L2 reorgs), "
                            "so some drift is expected - it is information about the specification, never a verdict")
        if drift:
            res.notes.append("model drift: %d of %d ticks differ from AggSender.tla's prediction (certificate submitted or not), e.g. %s"
                             % (drift, compared, json.dumps(dsample)[:300]))
        res.coverage = dict(
            model_conformance=conf,
            stored_database_upgrade=persist,
            states=sum(m["distinct"] for m in mcs), transitions=sum(m["generated"] for m in mcs),
            traces_validated_against_impl=len(behs), samples=[behs[0], behs[len(behs) // 2], behs[-1]], exhaustive=False,
            evaluations=steps, distinct_nontrivial=nsub,
            rule="behaviours = prefix-maximal paths of TLC's edge cover of AggSender.tla (seeded sample in the quick tier), decorated by seed "
                 "with claims per block, finalized-pointer moves and storage faults; evaluations = steps replayed into the real send path; "
                 "non-trivial = certificates actually received by the scripted Agglayer, each judged by TLC",
            models=[dict(cfg=m["cfg"], states=m["distinct"], transitions=m["generated"], depth=m["depth"], wall_s=m["wall_s"]) for m in mcs],
            model_invariants=invs, defect_models=cex, generators=gstats, certificates_submitted=nsub, imported_exits_judged=nimp,
            monitor=dict(spec="AggSenderTrace.tla", lines=len(lines), wall_s=info["wall_s"]), regression_behaviours=len(reg))
        res.assumptions = list(assumptions) + [
            "E1: an Agglayer call that returns an error had no effect (a lost reply is outside the fault model, DESIGN.md F9)",
            "E2: latest-settled / latest-pending headers as the real service computes them (pending = most recent non-settled certificate)",
            "hash names come from the reference implementation in harness/names (keccak injective, distinct deposit contents)",
        ]
    finally:
        sc.close()
    res.finish()


_RESET = re.compile(r'"ev": ?"reset"')


def selftest(lines, sc):
    """binding self-test: corrupt the new exit root of one recorded certificate; drop one L2 block event"""
    start = None
    for i, l in enumerate(lines):
        if _RESET.search(l[:300]):
            start = i
        if start is not None and '"submit"' in l[:40]:
            end = next((j for j in range(i + 1, len(lines)) if _RESET.search(lines[j][:300])), len(lines))
            mut = [json.loads(x) for x in lines[start:end]]
            mut[i - start]["new"] = dict(t="unk", h=-1, ls=[])
            mf = sc.path("mut.ndjson")
            V.write_ndjson(mf, mut)
            m1 = V.validate_traces("AggSenderTrace.tla", "AggSenderTrace.cfg", mf, sc)
            if not any(v["inv"] == "NewRootFollowsFromExits" for v in m1["violations"]):
                raise V.Infra("binding self-test failed: a corrupted new exit root was accepted by the monitor")
            mut2 = [json.loads(x) for x in lines[start:end]]
            j = next(q for q, e in enumerate(mut2) if e["ev"] == "block" and e["leaves"])
            del mut2[j]
            V.write_ndjson(mf, mut2)
            m2 = V.validate_traces("AggSenderTrace.tla", "AggSenderTrace.cfg", mf, sc)
            if not m2["violations"]:
                raise V.Infra("binding self-test failed: a dropped L2 block was accepted by the monitor")
            return
    raise V.Infra("binding self-test: no trace with a submitted certificate")
