#!/usr/bin/env python3
"""Contract oracle for C01 / C11: "reference implementation = the real Solidity contracts = node".

The driver (harness/areas/contracts, binary drv_contracts) runs the repository's own contract bindings
(PolygonZkEVMBridgeV2 behind a TransparentUpgradeableProxy, PolygonZkEVMGlobalExitRootV2, VerifyBatchesMock) in
go-ethereum's simulated backend, sends seeded deposits / exit-root updates, reads the contracts' own answers and feeds the
contracts' logs through the real downloader + appenders into the real bridgesync / l1infotreesync processors.  All values
are named by dictionaries filled only by harness/names from the generated inputs; specs/ContractTrace.tla (TLC) demands
that contract and node answers carry the expected structural names.

    run(sc, cov, prop=None)   -> list of violations of the NODE (dicts: inv, info, t, l, prop, event)
                                 fills cov (deposits, leaf-value cases, l1 updates, rollup steps, ...)
                                 raises V.Infra when the oracle cannot run, when the monitor does not object to a corrupted
                                 trace (binding self-test), or when a CONTRACT answer does not carry the reference's name
                                 (then the projection itself is not grounded and no verdict about the node is possible)
    attach(res, sc, prop)     -> run + res.add_violation for every node violation + res.coverage["contract_oracle"]

Stand-alone (demonstrations, mutants): python3 checks/contracts_oracle.py [--tier thorough] [--prop C01|C11] [--keep FILE]
prints coverage and every violation (reference ones included) and exits 0 / 1 / 2.
"""
import json, os, sys, time
sys.path.insert(0, os.path.join(os.path.dirname(os.path.abspath(__file__)), "..", "lib"))
import vcheck as V

MONITOR, CFG = "ContractTrace.tla", "ContractTrace.cfg"
# which trace lines speak about which property
_BRIDGE_EVS = {"bridge", "leafvalue"}
_L1_EVS = {"l1info", "rollup"}


def _prop_of(ev, v):
    e = ev.get("ev")
    if e in _BRIDGE_EVS or (e == "process" and ev.get("tree") == "bridge"):
        return "C01"
    if e in _L1_EVS or (e == "process" and ev.get("tree") == "l1info"):
        return "C11"
    if e == "sync":
        what = v["info"].get("what", "") if isinstance(v.get("info"), dict) else ""
        return "C01" if ("bridge" in what or "deposit" in what) else "C11"
    return None


def sizes(thorough):
    return dict(deposits=60 if thorough else 12, cases=40 if thorough else 12, l1steps=120 if thorough else 24, envs=2)


def record(sc, prop=None, thorough=None, tag="contracts"):
    """build + run the driver; returns (trace path, args, wall seconds of build and run)"""
    thorough = (V.tier() == "thorough") if thorough is None else thorough
    t0 = time.time()
    drv = V.build_driver("contracts")
    t1 = time.time()
    z = sizes(thorough)
    parts = "bridge" if prop == "C01" else "bridge,l1"
    tf = sc.path("%s.ndjson" % tag)
    args = ["-out", tf, "-deposits", str(z["deposits"]), "-cases", str(z["cases"]), "-l1steps", str(z["l1steps"]),
            "-envs", str(z["envs"]), "-parts", parts]
    V.run_driver(drv, args, timeout=900)
    if not os.path.exists(tf) or os.path.getsize(tf) == 0:
        raise V.Infra("contract oracle: the driver wrote no trace")
    return tf, args[2:], round(t1 - t0, 1), round(time.time() - t1, 1)


def judge(tf, sc):
    info = V.validate_traces(MONITOR, CFG, tf, sc, timeout=900, heap="4g")
    if not info["consumed_ok"]:
        raise V.Infra("contract oracle: the monitor did not consume the trace:\n" + info.get("tail", ""))
    return info


def selftest(tf, sc):
    """binding self-test: a corrupted node name, a corrupted contract name and a dropped line must each be objected to"""
    evs = V.read_ndjson(tf)
    unk = dict(t="unk", h=-1, ls=[])
    a = next((i for i, e in enumerate(evs) if e["ev"] in ("bridge", "l1info") and e.get("node_root_c") == "ok"), None)
    b = next((i for i, e in enumerate(evs) if e["ev"] in ("bridge", "l1info") and i != a), None)
    if a is None or b is None:
        raise V.Infra("contract oracle self-test: no deposit / L1 info line with a node root in the trace - the driver is dead")
    mut = json.loads(json.dumps(evs))
    mut[a]["node_root"] = unk
    mut[b]["contract_leaf" if mut[b]["ev"] == "bridge" else "contract_root"] = unk
    mf = sc.path("contracts-mut.ndjson")
    V.write_ndjson(mf, mut)
    got = {(v["l"], v["inv"]) for v in judge(mf, sc)["violations"]}
    if (a + 1, "NodeMirrorsContract") not in got:
        raise V.Infra("contract oracle self-test failed: a corrupted node root name was accepted by the monitor")
    if (b + 1, "ReferenceIsContract") not in got:
        raise V.Infra("contract oracle self-test failed: a corrupted contract name was accepted by the monitor")
    mut = [e for i, e in enumerate(evs) if i != a]
    V.write_ndjson(mf, mut)
    if not judge(mf, sc)["violations"]:
        raise V.Infra("contract oracle self-test failed: a dropped line was accepted by the monitor")
    os.remove(mf)
    return 3


def run(sc, cov, prop=None, thorough=None, strict=True, keep=None):
    """see module doc. strict=False: do not raise on reference violations, return them too (demonstrations)."""
    t0 = time.time()
    tf, args, build_s, drive_s = record(sc, prop, thorough)
    if keep:
        import shutil
        shutil.copyfile(tf, keep)
    evs = V.read_ndjson(tf)
    info = judge(tf, sc)
    mutated = selftest(tf, sc)
    done = info["done"][0] if info["done"] else {}
    checked = done.get("checked", {})
    cov.update(dict(
        contracts=["PolygonZkEVMBridgeV2 (pp/l2-sovereign-chain binding) behind TransparentUpgradeableProxy",
                   "PolygonZkEVMGlobalExitRootV2", "VerifyBatchesMock (rollup manager stand-in)"],
        backend="go-ethereum ethclient/simulated", node_path="sync.EVMDownloaderImplementation.GetEventsByBlockRange + real appenders "
        "(bridgesync.buildAppender, l1infotreesync.buildAppender) -> real processors",
        environments=done.get("traces", 0), deposits=checked.get("bridge", 0), contract_roots_read=checked.get("contract_roots", 0),
        leaf_value_cases=checked.get("bridge", 0) + checked.get("leafvalue", 0), pure_leaf_value_cases=checked.get("leafvalue", 0),
        l1_updates=checked.get("l1info", 0), rollup_steps=checked.get("rollup", 0), contract_rollup_roots_read=checked.get("contract_rers", 0),
        blocks_processed_by_node=sum(1 for e in evs if e["ev"] == "process"), trace_lines=len(evs), selftest_mutations_rejected=mutated,
        args=args, seed=V.seed(), build_s=build_s, driver_s=drive_s, monitor=dict(spec=MONITOR, wall_s=info["wall_s"]),
    ))
    out, ref = [], []
    for v in info["violations"]:
        ev = evs[v["l"] - 1] if 0 < v["l"] <= len(evs) else {}
        v = dict(v, prop=_prop_of(ev, v), event=ev)
        if v["inv"].startswith("INFRA"):
            raise V.Infra("contract oracle: driver problem reported in the trace: %s" % json.dumps(v)[:800])
        (ref if v["inv"] == "ReferenceIsContract" else out).append(v)
    cov["wall_s"] = round(time.time() - t0, 1)
    if ref and strict:
        raise V.Infra("contract oracle: %d contract answers do not carry the name the reference implementation (harness/names) gives "
                      "them - the naming of C01/C11 is not grounded in the contracts; first: %s" % (len(ref), json.dumps(ref[0])[:1200]))
    if not strict:
        out = ref + out
    if prop:
        out = [v for v in out if v["prop"] in (prop, None)]
    return out


def attach(res, sc, prop):
    """run the oracle inside a check: node violations become violations of `prop`, coverage goes to the evidence"""
    cov = {}
    for v in run(sc, cov, prop=prop, thorough=res.tier == "thorough"):
        res.add_violation("contract oracle %s (trace %d line %d): %s" % (v["inv"], v["t"], v["l"], json.dumps(v["info"])[:600]),
                          dict(oracle="contracts", seed=V.seed(), args=cov.get("args"), violation=v))
    res.coverage["contract_oracle"] = cov
    return cov


def _main():
    sc = V.Scratch("contracts")
    try:
        cov = {}
        viols = run(sc, cov, prop=V.arg("--prop"), strict=False, keep=V.arg("--keep"))
        V.log("coverage: " + json.dumps(cov, indent=1))
        by = {}
        for v in viols:
            by.setdefault(v["inv"], []).append(v)
        for inv, vs in by.items():
            V.log("%s: %d" % (inv, len(vs)))
            for v in vs[:4]:
                raw = v["event"].get("raw", {})
                V.log("  trace %d line %d (%s, %s): %s" % (v["t"], v["l"], v["event"].get("ev"), v["prop"], json.dumps(v["info"])[:400]))
                V.log("    raw: " + json.dumps({k: raw[k] for k in raw if k.startswith(("contract", "node"))})[:600])
        if viols:
            V.log("ORACLE: %d violations (%s)" % (len(viols), ", ".join("%s=%d" % (k, len(x)) for k, x in by.items())))
            sys.exit(1)
        V.log("ORACLE: ok, contract = reference = node on every line (%.1fs)" % cov["wall_s"])
    finally:
        sc.close()


if __name__ == "__main__":
    V.main(_main, "contracts-oracle")
