#!/usr/bin/env python3
"""C04 - a reorg leaves the node exactly as if the dropped blocks had never been seen (history x reorg point x nested reorg x continuation)."""
import os, sys
sys.path.insert(0, os.path.dirname(os.path.abspath(__file__)))
import store_common as S
import vcheck as V

PROP = "C04"


def body():
    S.store_check(
        PROP, model_cfgs=["StoreC04.cfg", "StoreDup.cfg", "StoreL1.cfg", "StoreGer.cfg"], gen_cfgs=["StoreGenC04.cfg", "StoreGenDup.cfg", "StoreGenC14.cfg", "StoreGenL1C04.cfg", "StoreGenGerC04.cfg"], quick_n=400, thorough_n=8000,
        kinds_note="bridge, l1info, injected-GER", invs=["RootsMirror", "ConsecutiveIdx", "BlocksIncrease", "ProofsVerify"],
        assumptions=["the twin store (fresh DB fed only the surviving history) is a cross-check for listings that the monitor does not model (paged queries, token mappings); the oracle for roots, proofs, leaves and bridges is the history itself"])


if __name__ == "__main__":
    V.main(body, PROP)
