#!/usr/bin/env python3
"""C01 - synced exit-tree root equals the bridge contract's root at every deposit (all partitions into blocks, restarts)."""
import os, sys
sys.path.insert(0, os.path.dirname(os.path.abspath(__file__)))
import store_common as S
import vcheck as V

PROP = "C01"


def body():
    S.store_check(
        PROP, model_cfgs=["StoreC01.cfg"], gen_cfgs=["StoreGenC01.cfg", "StoreGenC07big.cfg", "StoreGenDup.cfg", "StoreGenDupR.cfg"], quick_n=700, thorough_n=8000,
        oracle=True,
        kinds_note="bridge", invs=["RootsMirror", "ConsecutiveIdx", "ProofsVerify"],
        assumptions=["besides the fault-free histories of StoreGenC01, blocks whose write fails at a chosen statement and is retried (StoreGenC07big) are replayed: a long-running node meets them between restarts and the roots must still mirror the contract", "contract ground truth: the reference leaf packing / tree in harness/names is cross-checked against the real bridge contract by the C01 contract oracle run (see evidence.contract_oracle)"])


if __name__ == "__main__":
    V.main(body, PROP)
