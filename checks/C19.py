#!/usr/bin/env python3
"""C19 - global indexes are encoded and decoded consistently everywhere.

 (A) specs/GlobalIndex.tla        implementation-shaped: GenerateGlobalIndex / DecodeGlobalIndex / the little-endian and
                                  big-endian 32-byte forms as byte-string functions over a small "byte" base B; TLC
                                  exhaustive over every byte pattern (B in 2..3 quick, 2..5 thorough; part size 1..4); it also exports all
                                  2*2^4*2^4 zero/non-zero byte patterns at the real part size
 (B) harness/areas/globalindex    each pattern instantiated with real byte values {0x01,0x80,0xff,random} + boundary
                                  triples + seeded random triples + random canonical on-chain values, grouped into
                                  certificates and run through the REAL codec, the real PP / FEP flows, the real
                                  agglayer and prover gRPC clients (loopback servers), certificate JSON, commitments
 (C) specs/GlobalIndexTrace.tla   property monitor; TLC judges every recorded line

Level "other": the TLA+ side enumerates the case space and judges equalities (round trip, layout, agreement of all
consumers); nothing temporal is explored (DESIGN.md section 8).
"""
import os, sys, json, random, copy
sys.path.insert(0, os.path.join(os.path.dirname(os.path.abspath(__file__)), "..", "lib"))
import vcheck as V

PROP = "C19"
M32 = 2 ** 32 - 1
BOUNDARY = [0, 1, 2, 0x7f, 0x80, 0xff, 0x100, 0xffff, 0x10000, 0xffffff, 0x1000000, 0x7fffffff, 0x80000000, M32 - 1, M32]


def layout(m, r, l):
    """the bridge contract's bit layout (rollup bits zero on mainnet)"""
    return ((1 << 64) if m else 0) | ((0 if m else r) << 32) | l


def case(m, r, l, src):
    return dict(m=bool(m), r=r, l=l, gi=str(layout(m, r, l)), src=src)


def from_pattern(p, cls, rng):
    def part(digits):
        bs = []
        for d in digits:
            bs.append(0 if d == 0 else (rng.randrange(1, 256) if cls is None else cls))
        return int.from_bytes(bytes(bs), "big")
    return case(p["m"], part(p["r"]), part(p["l"]), "pattern")


def rand32(rng):
    k = rng.randrange(6)
    if k == 0:
        return rng.choice(BOUNDARY)
    if k == 1:
        return rng.randrange(0, 1 << rng.randrange(1, 33))
    if k == 2:
        b = 1 << rng.randrange(0, 32)
        return min(M32, max(0, b + rng.choice([-1, 0, 1])))
    if k == 3:   # random bytes, some zeroed
        return int.from_bytes(bytes(rng.randrange(256) if rng.random() < 0.6 else 0 for _ in range(4)), "big")
    return rng.randrange(0, 1 << 32)


def canonical_value(rng):
    """a random canonical on-chain value (65 bits, rollup bits zero when the mainnet bit is set), decomposed by shifts"""
    v = rng.getrandbits(65)
    if rng.random() < 0.3:
        v &= ~(((1 << rng.randrange(1, 33)) - 1) << rng.randrange(0, 64))   # punch a hole of zero bits
    if v >> 64:
        v &= ~(M32 << 32)
    m, r, l = bool(v >> 64), (v >> 32) & M32, v & M32
    c = case(m, r, l, "canon")
    assert int(c["gi"]) == v
    return c


def pattern_of(c):
    """zero/non-zero pattern of the 9 bytes flag||rollup||leaf of a case (measured from what was run)"""
    return (c["m"],) + tuple(int(b != 0) for b in c["r"].to_bytes(4, "big")) + tuple(int(b != 0) for b in c["l"].to_bytes(4, "big"))


def group(cases, rng):
    behs, i = [], 0
    while i < len(cases):
        k = rng.choice([1, 1, 2, 3, 4, 5, 8, 13])
        behs.append(dict(flow=rng.choice(["pp", "fep"]), claims=cases[i:i + k]))
        i += k
    return behs


def body():
    res = V.Result(PROP, level="other")
    sc = V.Scratch(PROP)
    try:
        thorough = res.tier == "thorough"
        rng = random.Random(V.seed())
        # (A) design: exhaustive over all byte patterns
        mc = V.model_check("GlobalIndex.tla", "GlobalIndexThorough.cfg" if thorough else "GlobalIndex.cfg", sc, timeout=900)
        pats, gst = V.export_cases("GlobalIndex.tla", "GlobalIndexGen.cfg", sc, timeout=600)
        if len(pats) != 512:
            raise V.Infra("expected 512 byte patterns from GlobalIndexGen.cfg, got %d" % len(pats))
        cases = []
        for p in pats:
            for cls in (0x01, 0x80, 0xff, None):
                cases.append(from_pattern(p, cls, rng))
            for _ in range(12 if thorough else 0):
                cases.append(from_pattern(p, None, rng))
        n_pat = len(cases)
        for m in (False, True):
            for r in BOUNDARY:
                for l in BOUNDARY:
                    cases.append(case(m, r, l, "boundary"))
        for _ in range(20000 if thorough else 2500):
            cases.append(case(rng.random() < 0.5, rand32(rng), rand32(rng), "random"))
        for _ in range(20000 if thorough else 2500):
            cases.append(canonical_value(rng))
        # mainnet claims made with junk in the rollup bits (the bridge contract ignores them, the event carries them): the triple of
        # the certificate keeps them, every consumer fed from the certificate carries the composed value
        for _ in range(4000 if thorough else 500):
            r, l = rand32(rng) or 1, rand32(rng)
            c = case(True, r, l, "noncanon")
            c["raw"] = str((1 << 64) | (r << 32) | l)
            cases.append(c)
        rng.shuffle(cases)
        behs = group(cases, rng)
        rb = V.replay_behaviours()
        if rb is not None:
            behs = rb
        # (B) real code
        drv = V.build_driver("globalindex")
        bf, tf = sc.path("beh.json"), sc.path("trace.ndjson")
        json.dump(behs, open(bf, "w"))
        V.run_driver(drv, ["-in", bf, "-out", tf])
        # (C) judge
        info = V.validate_traces("GlobalIndexTrace.tla", "GlobalIndexTrace.cfg", tf, sc)
        if not info["consumed_ok"]:
            raise V.Infra("monitor did not consume the trace:\n" + info.get("tail", ""))
        total_viol = (info["done"][0].get("violations", len(info["violations"])) if info["done"] else len(info["violations"]))
        if total_viol > len(info["violations"]):
            res.notes.append("monitor reported %d failed predicates, the first %d are kept in full" % (total_viol, len(info["violations"])))
        per_beh = {}
        for v in info["violations"]:
            per_beh.setdefault(v["t"], []).append(v)
        for t, vs in sorted(per_beh.items()):
            b = behs[t - 1]
            v = vs[0]
            i = v["info"].get("i")
            claim = b["claims"][i - 1] if isinstance(i, int) and 0 < i <= len(b["claims"]) else None
            res.add_violation("%s at certificate %d line %d (%d findings on this certificate; invariants %s): claim %s: %s" % (
                v["inv"], t, v["l"], len(vs), sorted(set(x["inv"] for x in vs)), json.dumps(claim), json.dumps(v["info"])[:700]),
                dict(behaviour=b, violation=v, invariants=sorted(set(x["inv"] for x in vs))))
        evs = V.read_ndjson(tf)
        # binding self-test on a real recorded certificate: (1) one corrupted field, (2) one dropped event
        start = next((i for i, e in enumerate(evs) if e["ev"] == "cert" and e["flow"] == "fep"), None)
        if start is None:
            start = 0
        end = next((i for i in range(start + 1, len(evs)) if evs[i]["ev"] == "cert"), len(evs))
        one = evs[start:end]
        kw = next((i for i, e in enumerate(one) if e["ev"] == "carry" and e["at"] == "wire"), None)
        ks = next((i for i, e in enumerate(one) if e["ev"] == "carry" and e["at"] == "signed"), None)
        if kw is None or ks is None:
            if rb is not None and info["violations"]:
                res.coverage = dict(explanation="replay of a stored behaviour", evaluations=len(evs), distinct_nontrivial=2,
                                    states=mc["distinct"], transitions=mc["generated"], traces_validated_against_impl=len(behs), samples=behs[:1])
                res.finish()
            raise V.Infra("no wire/signed observation recorded at all - driver is dead")
        mutA = copy.deepcopy(one)
        mutA[kw]["v"]["w"][4] = (mutA[kw]["v"]["w"][4] + 1) % 65536
        mutB = copy.deepcopy(one)
        del mutB[ks]
        mf = sc.path("mut.ndjson")
        V.write_ndjson(mf, mutA + mutB)
        minfo = V.validate_traces("GlobalIndexTrace.tla", "GlobalIndexTrace.cfg", mf, sc)
        got = {(v["t"], v["inv"]) for v in minfo["violations"]}
        if (1, "CarriesValue") not in got:
            raise V.Infra("binding self-test failed: a corrupted wire value was accepted by the monitor")
        if (2, "Complete") not in got:
            raise V.Infra("binding self-test failed: a dropped signed-commitment observation was accepted by the monitor")
        # measured coverage
        run_cases = [c for b in behs for c in b["claims"]]
        complete = set()
        per_cert_seen, cur, idx = {}, None, 0
        want_pp = 15
        for e in evs:
            if e["ev"] == "cert":
                idx += 1
                cur = (idx, e["flow"], {})
            elif e["ev"] in ("enc", "dec", "reenc", "carry") and cur is not None:
                cur[2].setdefault(e["i"], set()).add(e.get("at") or (e["ev"] + e.get("of", "")))
            elif e["ev"] == "end" and cur is not None:
                need = want_pp + (1 if cur[1] == "fep" else 0)
                for i, s in cur[2].items():
                    if len(s) >= need and i <= len(behs[cur[0] - 1]["claims"]):
                        c = behs[cur[0] - 1]["claims"][i - 1]
                        complete.add((c["m"], c["r"], c["l"]))
        nontrivial = {c for c in complete if layout(*c) != 0}
        patterns = {pattern_of(c) for c in run_cases}
        carries = sum(1 for e in evs if e["ev"] == "carry")
        samples = [behs[0], behs[len(behs) // 2], behs[-1]]
        res.coverage = dict(
            explanation="Byte-level fidelity property: TLC is used as enumerator and equality judge, nothing temporal is explored. "
                        "(A) TLC checks the codec as coded (length-based decoder, big.Int leading-zero stripping, little-endian/"
                        "big-endian 32-byte forms) against round trip, contract layout and agreement of all consumers for EVERY byte "
                        "string over bases %s and part sizes %s (%d states). (B) All 512 zero/non-zero byte patterns of "
                        "flag||rollup(4)||leaf(4) exported by TLC are instantiated with byte values {0x01,0x80,0xff,random}%s - this is "
                        "exhaustive over what the decoder's control flow can distinguish - plus all boundary triples, seeded random "
                        "triples and random canonical 65-bit on-chain values; every case runs through the real GenerateGlobalIndex / "
                        "DecodeGlobalIndex, the real PP and FEP flows (claim -> imported bridge exit -> certificate, recording signer), "
                        "certificate JSON (3 codecs), GlobalIndex.Hash, GlobalIndexToLittleEndianBytes, PPHashToSign, FEPHashToSign, "
                        "the optimistic commitment, the real agglayer gRPC client and the real aggchain-prover client (loopback "
                        "servers record the wire messages). (C) TLC judges every recorded line with GlobalIndexTrace.tla: decoded "
                        "triples as 16-bit halves, values as 16-bit limbs (bit layout) and decimal strings (equality with the on-chain "
                        "value), fixed width 32, completeness per claim. Hash-valued consumers are named by dictionary lookup against "
                        "an independent reference (keccak over 32-byte little-endian); an unknown hash equals nothing."
                        % ("2..5" if thorough else "2..3", "1..4", mc["distinct"], " and 12 more random instantiations" if thorough else ""),
            states=mc["distinct"], transitions=mc["generated"],
            traces_validated_against_impl=len(behs),
            samples=samples,
            exhaustive=False,
            evaluations=len(run_cases), distinct_nontrivial=len(nontrivial),
            rule="cases = TLC-exported byte patterns x byte classes + boundary x boundary triples + seeded random triples + random "
                 "canonical on-chain values; distinct non-trivial = distinct (flag, rollup, leaf) triples with non-zero global index "
                 "for which every codec step and every consumer of the flow was recorded (counted from the trace)",
            byte_patterns_covered=len(patterns), byte_patterns_total=512,
            consumer_observations=carries, trace_events=len(evs),
            cases_by_source={s: sum(1 for c in run_cases if c.get("src") == s) for s in ("pattern", "boundary", "random", "canon", "noncanon")},
            pattern_instantiations=n_pat,
            certificates=dict(pp=sum(1 for b in behs if b["flow"] == "pp"), fep=sum(1 for b in behs if b["flow"] == "fep")),
            consumers=["cert_struct", "cert_json", "cert_json_rt", "cert_json_map", "gi_hash", "le_bytes", "pp_hash", "fep_hash",
                       "signed", "opt_commit", "wire", "prover(fep)"],
            model=dict(spec="GlobalIndex.tla", cfg=mc["cfg"], depth=mc["depth"], wall_s=mc["wall_s"],
                       invariants=["RoundTrip", "LayoutOK", "CanonRoundTrip", "Agreement", "TypeOK"], exhaustive=True),
            generator=dict(cfg="GlobalIndexGen.cfg", patterns=len(pats), states=gst["distinct"]),
            monitor=dict(spec="GlobalIndexTrace.tla", events=len(evs), wall_s=info["wall_s"]),
            binding_selftest="corrupted wire limb rejected (CarriesValue); dropped signed-commitment observation rejected (Complete)",
        )
        res.assumptions = [
            "quantifier: canonical on-chain values only (mainnet flag set => rollup bits zero, nothing above bit 64); for "
            "non-canonical values DecodeGlobalIndex keeps the rollup bits while the encoders zero them (outside the property)",
            "hash-valued consumers are identified through a reference commitment (keccak256 over the 32-byte little-endian value, "
            "PPHashToSign / FEPHashToSign / optimistic commitment structure re-stated in the driver); bridge-exit hashes inside "
            "them are taken from the real BridgeExit.Hash (subject of C10, not of C19)",
            "the fixed width of 32 bytes of commitment / wire fields is treated as part of 'carries the value'",
            "the optimistic signer is observed at optimistichash.CalculateCommitImportedBrdigeExitsHashFromClaims (the function "
            "its Sign method calls), not through the signer object (needs an L1 contract and an op-node)",
            "trusted: TLC, Go's math/big shifts used for the projection into 16-bit limbs, go-ethereum keccak, grpc loopback",
        ]
    finally:
        sc.close()
    res.finish()


if __name__ == "__main__":
    V.main(body, PROP)
