#!/usr/bin/env python3
"""C06 - reorgs of processed blocks are detected; the node converges to the canonical chain (engine evmsync, see
evmsync_common.py).

Besides the explored schedules (in which the detector's range removal follows the acknowledgement without interruption,
AtomicRemove = TRUE, and fewer than 6 forks hit one range query) two schedules of recorded findings are always replayed:
  F6  checks/regress/C06_F6.json: TLC's counterexample of the faithful model (AtomicRemove = FALSE) - the detector removes
      the tracked range after the driver was released and thereby forgets the freshly tracked block of the new fork;
  F7  six block-hash mismatches in a row make GetEventsByBlockRange return nil, read as "no logs".
A rejected trace is attributed to a listed finding only if the monitor evaluates that finding's signature on it (kf).
"""
import os, sys, json
sys.path.insert(0, os.path.dirname(os.path.abspath(__file__)))
sys.path.insert(0, os.path.join(os.path.dirname(os.path.abspath(__file__)), "..", "lib"))
import vcheck as V
import evmsync_common as E

PROP = "C06"
HERE = os.path.dirname(os.path.abspath(__file__))


def S(a, n=0, c=None, fail=False):
    return dict(a=a, n=n, c=c or [], fail=fail, at=[])


def f7_schedule():
    """block 1 (finalized, watched log) and block 2 (not finalized, watched log) are fetched in one range; block 2 is
    replaced between every FilterLogs and the HeaderByNumber(2) that follows: 6 mismatches -> nil -> block 1 delivered empty"""
    st = [S("mine", 1, [1]), S("mine", 2, [1]), S("dlwait"), S("finalize", 1), S("dlfin"), S("dllogs"), S("dlhdr")]
    tip = 2
    for k in range(6):
        st.append(S("fork", 2, [1] + [0] * (tip - 1)))
        tip += 1
        st.append(S("dlhdr"))
        if k < 5:
            st += [S("dllogs"), S("dlhdr")]
    return dict(chunk=1, tag="latest", buf=1, proc="rec", steps=st, finding="F7")


def regress():
    f6 = json.load(open(os.path.join(HERE, "regress", "C06_F6.json")))
    f7 = f7_schedule()
    out = []
    for b in f6:
        out.append(dict(b, finding="F6"))
    out += [f7, dict(f7, proc="l1")]
    return out


def known_match(known, b, v, trace):
    kf = v.get("info", {}).get("kf", "none")
    for f in known:
        if f.get("id") == kf:
            return f
    return None


# --- C06-specific corruptions for the binding self-test

def pick_quiet_process(tr):
    """first delivery of a trace, before any fork"""
    for i, e in enumerate(tr):
        if e["ev"] == "chain" and e["op"] == "fork":
            return None
        if e["ev"] == "process" and e["ok"]:
            return i
    return None


def mut_spurious_reorg(tr, k):
    return tr[:k + 1] + [dict(ev="reorg", who="drv", key="reorg:1", fail=False, ok=True, rows=1, err="", seq=0, **{"from": 1})] + tr[k + 1:]


def pick_end_rows(tr):
    e = tr[-1]
    return len(tr) - 1 if e["ev"] == "end" and e["quiet"] and e["store"] else None


def mut_stale_row(tr, k):
    tr[k]["store"][-1]["v"] = 99
    return tr


PLAN = dict(
    quick=dict(model=["EVMSyncC06.cfg"], gen="EVMSyncGenC06.cfg", edges=1000, walks=[("EVMSyncSimC06.cfg", 400)], l1=300,
               probes=[("EVMSyncF7probe.cfg", "Faithful"), ("EVMSyncF6probe.cfg", "RewindLow"), ("EVMSyncF6byhash.cfg", "RewindLow")]),
    thorough=dict(model=["EVMSyncC06T.cfg", "EVMSyncC06T4.cfg"], gen="EVMSyncGenC06.cfg", edges=10000,
                  walks=[("EVMSyncSimC06.cfg", 4000), ("EVMSyncSimC06L.cfg", 1000)], l1=2500, model_timeout=3000, model_workers=12,
                  probes=[("EVMSyncF7probe.cfg", "Faithful"), ("EVMSyncF6probe.cfg", "RewindLow"), ("EVMSyncF6byhash.cfg", "RewindLow")]),
    invariants=["Ordered", "Faithful", "NoSkip", "Converged", "RewindLow"],
    regress=regress, known_match=known_match,
    selftests=[("rewind-without-replacement", pick_quiet_process, mut_spurious_reorg, "NoSpurious"),
               ("replaced-row-at-rest", pick_end_rows, mut_stale_row, "RewindLow")],
    assumptions=[
        "a fork wins only when it is longer: every fork replaces a suffix above the finalized block and adds one block",
        "explored schedules: the code as repaired for F6 (the detector's range removal is a step of its own after the acknowledgement, the "
        "subscriber's tracked list is locked from the accepted notification until it is done) and fewer than 6 forks per range query; the "
        "model of the code before the repair (EVMSyncF6probe.cfg) and of a repair by hash (EVMSyncF6byhash.cfg) violate RewindLow as "
        "expected; the F6 schedule checks/regress/C06_F6.json is replayed as a regression (its track step before the removal must block); "
        "6 hash mismatches in a row - finding F7, replayed from a fixed schedule",
        "node start order is Start (load tracked blocks) then Subscribe, as cmd/run.go commonly runs it; the Start/Subscribe race is not explored",
        "environment moves are scheduled only immediately before a step that can observe them (hand-made partial-order reduction)",
        "restart = context cancelled with every goroutine parked at a gate (or in its select); the old goroutines never touch the DB files again",
        "the driver's select between a downloaded block and a reorg notification, and the two rendezvous of the notify/ack handshake, are "
        "scheduled by relays at the interfaces the driver takes (Downloader, ReorgDetector)",
        "RewindLow is judged at rest (a rewind above the first replaced block is accepted if a later one repairs it); NoSpurious accepts a "
        "rewind if some tracked or processed block at or above it is not canonical",
    ],
)

if __name__ == "__main__":
    V.main(lambda: E.body(PROP, PLAN), PROP)
