#!/usr/bin/env python3
"""C20 - claim details are taken only from the matching, non-reverted bridge call.

 (A) specs/ClaimCall.tla        implementation-shaped: setClaimCalldata / findCall's stack machine / tryDecodeClaimCalldata as
                                coded; TLC checks it against Eligible(tree, gi) for every call tree within the bound
 (B) harness/areas/claimcall    every exported tree (+ seeded random trees up to 12 frames) is ABI-encoded with the real bridge
                                ABIs, served as debug_traceTransaction answer, pushed through the REAL claim event handler,
                                the real ProcessBlock into SQLite and read back with the real GetClaims
 (C) specs/ClaimCallTrace.tla   property monitor; TLC judges every recorded outcome
"""
import os, sys, json, random
sys.path.insert(0, os.path.join(os.path.dirname(os.path.abspath(__file__)), "..", "lib"))
import vcheck as V

PROP = "C20"
CLAIM = ["asset", "msg", "preAsset", "preMsg"]
FIELDS = ["pler", "prer", "mer", "rer", "ger", "dnet", "meta", "msg", "from"]


def random_cases(rng, count, precondition=True):
    """seeded random canonical trees with 2..12 frames; gi names A,B (32 bit), C (mainnet flag), D (low 32 bits = B)"""
    out = []
    for _ in range(count):
        n = rng.randrange(2, 13)
        evgi = rng.choice("AABBCD")
        par, path = [0], [1]          # path = root..previous frame
        deep = rng.random()
        for i in range(2, n + 1):
            k = len(path) - 1 if rng.random() < deep else rng.randrange(len(path))
            par.append(path[k])
            path = path[:k + 1] + [i]
        kind, gi, rev = [], [], []
        prev = rng.choice([0.1, 0.25, 0.5])
        for i in range(1, n + 1):
            r = rng.random()
            if not precondition and r < 0.15:
                k = "bridgeOther"
            elif r < 0.35:
                k = "other"
            elif r < 0.43:
                k = "decoy"
            else:
                k = rng.choice(CLAIM)
            if k in ("other", "bridgeOther"):
                g = "-"
            else:
                allowed = "AB" if k.startswith("pre") else "ABCD"
                g = evgi if (evgi in allowed and rng.random() < 0.5) else rng.choice(allowed)
            kind.append(k); gi.append(g)
            rev.append(rng.random() < (0.04 if i == 1 else prev))
        c = dict(par=par, kind=kind, gi=gi, rev=rev, evgi=evgi)
        if evgi in "CD":
            c["ev"] = ["etrog"]
        out.append(c)
    return out


def eligible(e):
    n = len(e["par"])
    def clean(f):
        while f != 0:
            if e["rev"][f - 1]:
                return False
            f = e["par"][f - 1]
        return True
    return [f for f in range(1, n + 1) if e["tb"][f - 1] and e["gi"][f - 1] == e["evgi"] and clean(f)]


def body():
    res = V.Result(PROP)
    sc = V.Scratch(PROP)
    try:
        thorough = res.tier == "thorough"
        rng = random.Random(V.seed())
        # (A) design: the stack machine as coded against Eligible, exhaustive
        mc = V.model_check("ClaimCall.tla", "ClaimCallThorough.cfg" if thorough else "ClaimCall.cfg", sc, timeout=1500)
        # cases: every tree of the generator configuration (one CASE line per input)
        cases, gst = V.export_cases("ClaimCall.tla", "ClaimCallGenThorough.cfg" if thorough else "ClaimCallGen.cfg", sc, timeout=900)
        n_export = len(cases)
        # a reverted root makes the rest of the tree irrelevant: all such trees up to 2 frames, a seeded 1/16 of the larger ones
        cases = [c for c in cases if not c["rev"][0] or len(c["par"]) <= 2 or rng.random() < 1 / 16]
        cases.sort(key=lambda c: json.dumps(c, sort_keys=True))
        n_exh = len(cases)
        cases += random_cases(rng, 20000 if thorough else 2000)
        n_in = len(cases)
        cases += random_cases(rng, 300, precondition=False)     # outside the precondition: consumed, counted, not judged
        rb = V.replay_behaviours()
        if rb is not None:
            cases, n_exh, n_in = rb, len(rb), len(rb)
        # (B) real code
        drv = V.build_driver("claimcall")
        if rb is None:
            # a transaction can be included again after a reorg and execute differently: every fourth case re-uses the
            # transaction hash of the event before it (same hash, this case's call tree)
            for i, c in enumerate(cases):
                if i > 0 and rng.random() < 0.25:
                    c["sametx"] = True
        cf, tf = sc.path("cases.json"), sc.path("trace.ndjson")
        json.dump(cases, open(cf, "w"))
        V.run_driver(drv, ["-in", cf, "-out", tf])
        # (C) judge
        info = V.validate_traces("ClaimCallTrace.tla", "ClaimCallTrace.cfg", tf, sc)
        if not info["consumed_ok"]:
            raise V.Infra("monitor did not consume the trace:\n" + info.get("tail", ""))
        evs = V.read_ndjson(tf)
        for v in info["violations"]:
            e = evs[v["l"] - 1]
            b = dict(cases[v["t"]]); b["ev"] = [e["evgen"]]; b.pop("pick", None)
            res.add_violation("%s for case %d (%s event, gi %s): tree par=%s kind=%s gi=%s rev=%s -> err=%s %s; %s" % (
                v["inv"], v["t"], e["evgen"], e["evgi"], e["par"], e["kind"], e["gi"], e["rev"], e["err"], e["errmsg"][:80],
                json.dumps(v["info"])), dict(behaviour=b, violation=v, recorded=e))
        # statistics measured on the recorded lines (not a verdict)
        stored = [e for e in evs if not e["err"] and e["rows"]]
        errs = [e for e in evs if e["err"]]
        nontriv = drift = 0
        for e in evs:
            el = eligible(e)
            bridge = [f for f in range(1, len(e["par"]) + 1) if e["tb"][f - 1]]
            if e["err"]:
                nontriv += any(e["gi"][f - 1] == e["evgi"] for f in bridge) and not e["rev"][0]
            else:
                nontriv += len(bridge) > len(el) or len(el) > 1
            if e["pick"] >= 0:   # the code-shaped model predicted which frame the code uses
                got = 0 if e["err"] else next((f for f in range(1, len(e["par"]) + 1)
                                               if e["rows"] and all(f in e["rows"][0]["tags"][x] for x in FIELDS)), -1)
                drift += got != e["pick"]
        skipped = info["done"][0]["skipped"] if info["done"] else 0
        # why the property has its precondition: a non-claim call to the bridge met before the eligible call aborts the search
        outside_err = sum(1 for e in evs if "bridgeOther" in e["kind"] and e["err"] and eligible(e))
        if rb is None:
            # binding self-test on real recorded lines: a corrupted field, a swallowed error, an invented error
            badl = set(v["l"] for v in info["violations"])
            good = [e for i, e in enumerate(evs) if i + 1 not in badl and all(k != "bridgeOther" for k in e["kind"])]
            a = next((e for e in good if not e["err"] and e["rows"] and len(e["par"]) >= 3 and eligible(e)), None)
            b = next((e for e in good if e["err"] and not e["rev"][0] and not eligible(e)), None)
            if not stored or not errs:
                raise V.Infra("no stored claim / no error recorded at all - driver is dead")
        if rb is None and a is not None and b is not None:
            m1 = json.loads(json.dumps(a)); m1["rows"][0]["tags"]["mer"] = []
            m2 = json.loads(json.dumps(b)); m2["err"] = False
            m3 = json.loads(json.dumps(a)); m3["err"] = True
            m4 = json.loads(json.dumps(a))
            other = next((f for f in range(1, len(a["par"]) + 1) if f not in a["rows"][0]["tags"]["from"]), 1)
            m4["rows"][0]["tags"]["from"] = [other]
            mf = sc.path("mut.ndjson")
            V.write_ndjson(mf, [m1, m2, m3, m4, a, b])
            minfo = V.validate_traces("ClaimCallTrace.tla", "ClaimCallTrace.cfg", mf, sc)
            got = sorted((v["l"], v["inv"]) for v in minfo["violations"])
            want = [(1, "DetailsFromOneEligibleCall"), (2, "ErrorWhenNoEligibleCall"), (3, "ErrorOnlyWithoutEligibleCall"),
                    (3, "NothingRecordedOnError"), (4, "DetailsFromOneEligibleCall")]
            if got != want:
                raise V.Infra("binding self-test failed: monitor said %s, expected %s" % (got, want))
            selftest = "4 corrupted real lines rejected (%s), the 2 originals accepted" % ", ".join(sorted(set(w[1] for w in want)))
        else:
            selftest = "skipped (--replay mode, or no accepted line of both sorts next to the violations)"
        res.coverage = dict(
            states=mc["distinct"], transitions=mc["generated"],
            traces_validated_against_impl=len(evs),
            samples=[cases[0], cases[max(0, n_exh - 1)], cases[max(0, n_in - 1)]],
            exhaustive=True,
            evaluations=len(evs), distinct_nontrivial=int(nontriv),
            rule="cases = every canonical call tree TLC enumerates from ClaimCall.tla (generator cfg: all six frame kinds up to 3 "
                 "frames, {other, claimAsset} x {A,B} above, every reverted set; trees with a reverted root and > 2 frames sampled "
                 "1/16) + seeded random trees with 2..12 frames, all kinds, four global indexes; each case is run with an Etrog and a "
                 "pre-Etrog ClaimEvent; non-trivial = outcomes where the code had to tell eligible from non-eligible bridge calls "
                 "(a stored row with a non-eligible or a second eligible bridge call in the tree, or an error although a bridge "
                 "call carries the event's index)",
            model=dict(spec="ClaimCall.tla", cfg=mc["cfg"], depth=mc["depth"], wall_s=mc["wall_s"],
                       constants="all ordered call trees with <= %d frames (preorder-canonical parent vectors), every reverted set, "
                                 "frame kinds other/decoy/claimAsset/claimMessage/pre-Etrog claimAsset/claimMessage, call indexes {A,B}, event index A"
                                 % (5 if thorough else 4),
                       invariants=["C20", "StackClean", "NoWriteWithoutMatch"], exhaustive=True),
            exported_cases=n_export, replayed_exhaustive_cases=n_exh, random_cases=n_in - n_exh, generator_states=gst["distinct"],
            stored_rows=len(stored), errors=len(errs), outside_precondition_skipped=skipped, outside_precondition_error_despite_eligible_call=outside_err,
            model_vs_code_drift=drift,
            monitor=dict(spec="ClaimCallTrace.tla", events=len(evs), wall_s=info["wall_s"]),
            binding_selftest=selftest,
        )
        if drift:
            res.notes.append("%d outcomes differ from the frame predicted by the code-shaped model (drift is not a violation)" % drift)
        res.assumptions = [
            "precondition of the property: every call addressed to the bridge is a claim call (other lines are counted, not judged)",
            "debug_traceTransaction answers have geth's callTracer shape (from,to,input,error,calls); the scripted client decodes "
            "them into the caller's struct with encoding/json exactly as rpc.Client does",
            "a stored field is attributed to the frames whose ABI-encoded call data carries exactly that value (values are unique per frame "
            "except the message flag and the absent rollup proof of pre-Etrog calls)",
            "no error and no stored row for an event with an eligible call is not judged here (event delivery is C05's subject)",
        ]
    finally:
        sc.close()
    res.finish()


if __name__ == "__main__":
    V.main(body, PROP)
