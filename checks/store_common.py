"""Shared orchestration for the store family (C01 C04 C07 C08 C11 C14): Store.tla -> behaviours -> real stores -> StoreTrace.tla."""
import os, sys, json, random, re, subprocess, concurrent.futures as cf
_RESET = re.compile(r'"ev": ?"reset"')
sys.path.insert(0, os.path.join(os.path.dirname(os.path.abspath(__file__)), "..", "lib"))
import vcheck as V

REGRESS = os.path.join(V.VERIF, "checks", "regress")


# which monitor predicates decide which property (every predicate has at least one owner)
_ROOTS = {"ReaderSeesCommittedState", "RootMirrors", "LeafValue", "RootByHash", "LastProcessedBlock", "FaultFreeProcessFailed", "InfoLeaves", "InfoByBlock", "RollupTree"}
OWNERS = {
    "C01": _ROOTS,
    "C11": _ROOTS,
    "C08": {"ProofFolds", "ProofUnderReadFault"},
    "C14": {"StopWhileHalted", "GuardWhileHalted", "UnhaltOnlyByReorg", "HaltClearedByEffectiveReorg"},
    "C04": None,   # None = every predicate (state after a reorg must equal the never-seen state in every respect)
    "C07": None,
}


def run_driver_parallel(drv, behs, sc, extra_args=(), procs=12, tag="t"):
    """replay behaviours with several driver processes; returns path of the concatenated trace and per-trace index."""
    # at most 250 behaviours per driver process (each store the driver opens leaks a file handle inside the repository's
    # migration runner), at most `procs` processes at a time
    n = max(1, (len(behs) + 249) // 250, min(procs, (len(behs) + 19) // 20))
    chunks = [behs[i::n] for i in range(n)]
    order = [list(range(len(behs)))[i::n] for i in range(n)]

    def one(i):
        bf, tf = sc.path("%s-beh-%d.json" % (tag, i)), sc.path("%s-trace-%d.ndjson" % (tag, i))
        json.dump(chunks[i], open(bf, "w"))
        V.run_driver(drv, ["-in", bf, "-out", tf] + list(extra_args), timeout=3000)
        return tf

    with cf.ThreadPoolExecutor(max_workers=procs) as ex:
        files = list(ex.map(one, range(n)))
    # concatenate, renumbering traces globally so that viol.t indexes `index`
    out = sc.path("%s-trace.ndjson" % tag)
    index = []
    with open(out, "w") as o:
        for i, f in enumerate(files):
            for line in open(f):
                if _RESET.search(line[:300]):
                    e = json.loads(line)
                    local = e["t"] - 1
                    index.append(order[i][local])
                    e["t"] = len(index)
                    line = json.dumps(e, sort_keys=True) + "\n"
                o.write(line)
            os.remove(f)
    return out, index


def sample(behs, k, rng, keep_first=0):
    if len(behs) <= k:
        return behs
    head, rest = behs[:keep_first], behs[keep_first:]
    return head + rng.sample(rest, k - keep_first)


def sparsify(b, rng):
    """block numbers in production are sparse (only blocks with events and range-end blocks are stored): map the model's
    consecutive numbers onto increasing numbers with gaps, and a reorg point onto any number in (previous block, block]"""
    real, last_model = {}, 0
    def r(n):
        for k in range(1, n + 1):
            if k not in real:
                real[k] = (real[k - 1] if k > 1 else rng.choice([0, 0, 4])) + rng.choice([1, 2, 3, 5])
        return real[n] if n > 0 else 0
    ops = []
    for o in b["ops"]:
        o = dict(o)
        if o["op"] in ("process", "reorg") and rng.random() < (0.4 if o["op"] == "reorg" else 0.15):
            o["busy"] = True       # a query is in flight on the store's connection pool while the syncer writes
        if o["op"] in ("process", "reorg") and o.get("fault", {}).get("kind", "none") == "none" and rng.random() < 0.2:
            o["peek"] = rng.choice([-1, -1, 1, 2, 3, 5, 8, 34])   # a reader looks at the store in the middle of the operation
        if o["op"] == "process":
            o["num"] = r(o["num"])
            if o.get("fault", {}).get("kind") == "readinit":
                o["fault"] = dict(kind="readinit", at=0, r=rng.randrange(1, 100))     # which column read of the node walk fails
            if o.get("fault", {}).get("kind") == "read":
                # r >= 0: which of the reads in front of that write fails (0 / beyond the last one: the write itself);
                # frac > 0: the read at frac/1000 of all reads of the operation (counted by a probe run on the twin)
                o["fault"] = dict(kind="read", at=o["fault"]["at"], r=rng.choice([0, rng.randrange(1, 40)]), frac=rng.choice([0, rng.randrange(1, 1000), rng.randrange(1, 1000), rng.randrange(1, 1000)]))
            if o.get("fault", {}).get("kind") == "stmt" and rng.random() < 0.15 and not any(e.get("t") == "v2" for e in o.get("evs", [])):
                o["fault"] = dict(kind="kill", at=o["fault"]["at"])      # the process is killed inside that statement instead
            # the disk fails under a running statement instead (harness/iofault: EIO from the r-th page read / write of the
            # operation - an error out of rows.Next()/Scan() or out of the COMMIT, not out of Query/Exec)
            if o.get("fault", {}).get("kind") == "read" and rng.random() < 0.35:
                o["fault"] = dict(kind="ioread", at=0, r=rng.randrange(1, 9), frac=rng.choice([0, rng.randrange(1, 1000), rng.randrange(1, 1000)]))
            elif o.get("fault", {}).get("kind") == "stmt" and rng.random() < 0.12:
                o["fault"] = dict(kind="iowrite", at=0, r=rng.choice([1, 1, 2, 3]))
        elif o["op"] == "reorg":
            if o.get("fault", {}).get("kind") == "stmt" and rng.random() < 0.3:
                o["fault"] = dict(kind="commit", at=0)          # the reorg's COMMIT fails instead of one of its DELETEs
            elif o.get("fault", {}).get("kind") == "stmt" and rng.random() < 0.2:
                o["fault"] = dict(kind="iowrite", at=0, r=rng.choice([1, 1, 2]))   # ... or the disk, while the COMMIT writes
            f = o["from"]
            lo, hi = r(f - 1) + 1, r(f)
            o["from"] = rng.randint(lo, hi)
        ops.append(o)
    out = dict(kind=b["kind"], ops=ops)
    if rng.random() < 0.08:
        out["noise"] = 3       # other syncers of the same process append to their own trees meanwhile
    return out


FIXTURES = os.path.join(V.VERIF, "fixtures")


def fixture_behaviours(kind, rng):
    """the node starts on a store file written by an earlier run of the code (fixtures/*.sqlite, generated once with the
    repository at the commit named in fixtures/README.md): everything it serves from it, and everything it adds to it,
    must be what a store written from scratch by the current code holds (upgrade compatibility of the on-disk format)"""
    out = []
    for f in sorted(os.listdir(FIXTURES)) if os.path.isdir(FIXTURES) else []:
        if not f.endswith(".json"):
            continue
        m = json.load(open(os.path.join(FIXTURES, f)))
        if m.get("kind") != kind:
            continue
        base = dict(kind=kind, seed=m["seed"], fixture=os.path.join(FIXTURES, m["file"]), preload=len(m["ops"]))
        last = max(o["num"] for o in m["ops"])
        nleaf = sum(1 for o in m["ops"] for e in o["evs"] if e["t"] == "leaf")
        none = dict(kind="none", at=0)
        # as it is; restarted; continued with new blocks; continued after a reorg of its last block
        out.append(dict(base, ops=list(m["ops"])))
        out.append(dict(base, ops=list(m["ops"]) + [dict(op="restart")]))
        more = [dict(op="process", num=last + 2, fault=none, evs=[dict(t="leaf", x=100, dc=nleaf)]),
                dict(op="process", num=last + 3, fault=none, evs=[dict(t="leaf", x=101, dc=nleaf + 1)] + ([dict(t="other")] if kind == "bridge" else []))]
        out.append(dict(base, ops=list(m["ops"]) + more))
        lastleaves = sum(1 for e in m["ops"][-1]["evs"] if e["t"] == "leaf")
        out.append(dict(base, ops=list(m["ops"]) + [dict(op="reorg", **{"from": m["ops"][-1]["num"]}),
                                                     dict(op="process", num=last + 1, fault=none, evs=[dict(t="leaf", x=102, dc=nleaf - lastleaves)])]))
    return out


def fault_sweep(kind, rng, thorough):
    """one small history per kind, and in it one block whose processing is hit by a fault at *every* position in turn: the
    failing call sweeps over the whole operation (the disk under a running statement: page reads and page writes, harness/iofault;
    a statement that cannot be compiled: harness/sqlfault), then the same block is processed again without a fault and the
    history goes on. Positions are fractions of the calls the operation makes (counted on the twin first)."""
    none = dict(kind="none", at=0)
    def P(num, evs, fault=none):
        return dict(op="process", num=num, fault=fault, evs=evs)
    if kind == "bridge":
        pre = [P(2, [dict(t="leaf", x=1, dc=0), dict(t="leaf", x=2, dc=1), dict(t="leaf", x=3, dc=2)])]
        hit = [dict(t="leaf", x=4, dc=3), dict(t="other"), dict(t="leaf", x=5, dc=4)]
        post = [P(7, [dict(t="leaf", x=6, dc=5)])]
    elif kind == "l1info":
        pre = [P(2, [dict(t="verify", r=1, x=1), dict(t="leaf", x=1, dc=0)]), P(3, [dict(t="verify", r=2, x=1), dict(t="leaf", x=2, dc=1)])]
        hit = [dict(t="verify", r=3, x=2), dict(t="leaf", x=3, dc=2), dict(t="verify", r=1, x=2)]
        post = [P(7, [dict(t="leaf", x=4, dc=3), dict(t="verify", r=2, x=2)])]
    else:
        return []
    n = 40 if thorough else 10
    out = []
    for fk in ("ioread", "iowrite", "read"):
        fr = sorted(rng.sample(range(1, 1000), n)) if fk != "iowrite" else sorted(rng.sample(range(1, 1000), max(3, n // 4)))
        for f in fr:
            fault = dict(kind=fk, at=0, r=-1 if fk == "read" else 1, frac=f)
            ops = pre + [P(5, hit, fault), P(5, hit)] + post + [dict(op="restart"), P(9, [dict(t="leaf", x=7, dc=(6 if kind == "bridge" else 4))])]
            out.append(dict(kind=kind, ops=ops))
    return out


def model_conformance(tf, behs, index):
    """Store.tla predicts ProcessBlock's answer for every operation of an exported behaviour (field exp): compare it with the
    answer of the real store. Information about the specification (reported as drift), never a verdict about the code."""
    want = {"ok": "ok", "inconsistent": "incons"}
    compared = drift = 0
    by, sample, ops, k = {}, None, None, 0
    for line in open(tf):
        if '"ev":"reset"' in line[:300].replace(" ", ""):
            e = json.loads(line)
            ops = [o for o in behs[index[e["t"] - 1]]["ops"] if o["op"] == "process"]
            k = 0
        elif ops is not None and '"ev":"process"' in line[:600].replace(" ", ""):
            e = json.loads(line)
            if k < len(ops) and "exp" in ops[k] and ops[k]["num"] == e["num"]:
                o = ops[k]
                # a fault that was not reached (disk faults), or a kill that came after the block was done, is no fault
                if not (e.get("fault") in ("ioread", "iowrite") and not e.get("fired")) and not (e.get("fault") == "kill" and e["res"] == "ok"):
                    compared += 1
                    w = want.get(o["exp"], "err")
                    if e["res"] != w:
                        drift += 1
                        fk = e.get("fault", "none")
                        by[fk] = by.get(fk, 0) + 1
                        if os.environ.get("VERIF_DEBUG_DRIFT"):
                            print("DRIFT", json.dumps(dict(op=o, code=e["res"], err=e.get("err"), fired=e.get("fired"), evfault=e.get("fault"))))
                        sample = sample or dict(op={x: o[x] for x in ("num", "evs", "fault")}, model=o["exp"], code=e["res"], err=e.get("err"))
            k += 1
    return dict(compared=compared, drift=drift, drift_by_fault=by, sample=sample,
                meaning="answers of the real ProcessBlock (ok / error / inconsistent state) against the answer Store.tla predicts for the same operation of the same behaviour")


def count_ops(behs):
    return sum(len(b["ops"]) for b in behs)


def load_regress(prefix):
    out = []
    if os.path.isdir(REGRESS):
        for f in sorted(os.listdir(REGRESS)):
            if f.startswith(prefix) and f.endswith(".json"):
                out.extend(json.load(open(os.path.join(REGRESS, f))))
    return out


def store_check(prop, model_cfgs, gen_cfgs, quick_n, thorough_n, kinds_note, invs, extra_behaviours=None, assumptions=(),
                filt=None, selftest=None, relevant=None, counterexamples=(), oracle=False):
    """generic body: model_cfgs [(cfg, heap)] exhaustive; gen_cfgs [cfg] edge-cover export; sample sizes per tier."""
    res = V.Result(prop)
    sc = V.Scratch(prop)
    try:
        thorough = res.tier == "thorough"
        rng = random.Random(V.seed())
        rb = V.replay_behaviours()
        def pick(cfg):
            tcfg = cfg.replace(".cfg", "T.cfg")
            return tcfg if thorough and os.path.exists(os.path.join(V.SPECS, tcfg)) else cfg
        behs, gstats = [], []
        reg = load_regress(prop)
        jobs = [("mc", pick(c)) for c in model_cfgs] + ([("gen", c) for c in gen_cfgs] if rb is None else [])
        nw = max(2, 16 // max(1, len(jobs)))

        def run(job):
            kind, cfg = job
            if kind == "mc":
                return V.model_check("Store.tla", cfg, sc, timeout=3000, heap="10g", workers=nw)
            return V.export_cases("Store.tla", cfg, sc, timeout=3000, heap="8g", workers=nw)

        with cf.ThreadPoolExecutor(max_workers=len(jobs)) as ex:
            results = list(ex.map(run, jobs))
        mcs = [r for (k, _), r in zip(jobs, results) if k == "mc"]
        cex = [V.model_counterexample("Store.tla", c, inv, sc, timeout=900) for c, inv in counterexamples]
        if rb is None:
            for (k, cfg), r in zip(jobs, results):
                if k != "gen":
                    continue
                cases, gst = r
                paths = V.drop_prefixes([[c["kind"]] + c["ops"] for c in cases])
                bs = [dict(kind=p[0], ops=p[1:]) for p in paths]
                if filt:
                    bs = [b for b in bs if filt(b)]
                gstats.append(dict(cfg=cfg, edges=len(cases), behaviours=len(bs), states=gst["distinct"]))
                picked = sample(bs, thorough_n if thorough else quick_n, rng)
                behs += [sparsify(x, rng) if rng.random() < 0.5 else x for x in picked]
            if extra_behaviours:
                behs += extra_behaviours(rng, thorough)
            if prop in ("C01", "C07", "C11"):
                for k in sorted(set(b["kind"] for b in behs)):
                    behs += fault_sweep(k, rng, thorough)
            fx = [b for k in sorted(set(b["kind"] for b in behs)) for b in fixture_behaviours(k, rng)]
            if prop != "C04":     # reorgs belong to C04 (and bring its known finding F10 with them)
                fx = [b for b in fx if not any(o["op"] == "reorg" for o in b["ops"])]
            behs = reg + fx + behs
        else:
            behs = rb
        drv = V.build_driver("store")
        # C08 also asks for proofs while one read of the query fails (an error or the right proof, never another proof)
        try:
            tf, index = run_driver_parallel(drv, behs, sc, extra_args=(["-readfaultqueries", "3"] if prop == "C08" else []))
        except V.NodePanic as e:
            if prop not in ("C01", "C11"):
                raise
            # the syncer's own code panicked while it processed blocks (no fault is injected in these checks): the block was not
            # processed and the node is gone
            res.add_violation("FaultFreeProcessFailed: %s" % e, dict(panic=str(e), behaviours=behs[:3]))
            res.coverage = dict(explanation="the code under test panicked during the replay", evaluations=0, distinct_nontrivial=0,
                                states=sum(m["distinct"] for m in mcs), transitions=sum(m["generated"] for m in mcs),
                                traces_validated_against_impl=0, samples=behs[:1])
            res.finish()
        info = V.validate_traces_chunked("StoreTrace.tla", "StoreTrace.cfg", tf, sc, lambda ln: bool(_RESET.search(ln[:300])),
                                         per_chunk=1500, parallel=4, timeout=3000, heap="6g")
        if not info["consumed_ok"]:
            raise V.Infra("monitor did not consume the trace:\n" + info.get("tail", ""))
        seen = set()
        known = {f["id"]: f for f in V.load_known(prop)}
        own = OWNERS.get(prop)
        for v in info["violations"]:
            if v["inv"].startswith("INFRA"):
                raise V.Infra("driver problem reported in trace: %s" % json.dumps(v)[:500])
            if own is not None and v["inv"] not in own:
                note = "predicate owned by another property failed: %s" % v["inv"]
                if note not in res.notes:
                    res.notes.append(note)
                continue
            kf = v["info"].get("kf") if isinstance(v["info"], dict) else None
            if kf and kf != "none" and kf in known:
                res.add_known(kf, known[kf]["what"])
                continue
            b = behs[index[v["t"] - 1]]
            key = (v["t"], v["inv"])
            if key in seen:
                continue
            seen.add(key)
            res.add_violation("%s after %s (trace %d line %d): %s" % (v["inv"], json.dumps(v.get("after")), v["t"], v["l"],
                              json.dumps(v["info"])[:700]), dict(behaviour=b, violation=v))
        # binding self-test on the first trace that has a root: corrupt one recorded root name / drop the block event
        if rb is None:
            st = selftest or default_selftest
            st(tf, sc)
        conf = model_conformance(tf, behs, index)
        if conf["drift"]:
            res.notes.append("model drift: %d of %d ProcessBlock answers differ from Store.tla's own prediction (by fault kind: %s), e.g. %s"
                             % (conf["drift"], conf["compared"], json.dumps(conf["drift_by_fault"]), json.dumps(conf["sample"])[:400]))
        nproc = sum(1 for b in behs for o in b["ops"] if o["op"] == "process")
        nfault = sum(1 for b in behs for o in b["ops"] if o["op"] == "process" and o.get("fault", {}).get("kind", "none") != "none")
        nreorg = sum(1 for b in behs for o in b["ops"] if o["op"] == "reorg")
        # failing reads (SQLite authorizer): how many were really injected, and where
        rfired, rwhere = 0, {}
        if any(o.get("fault", {}).get("kind") in ("read", "readinit", "ioread", "iowrite") for b in behs for o in b["ops"]):
            for line in open(tf):
                if '"fired":true' in line.replace(" ", ""):
                    e = json.loads(line)
                    rfired += 1
                    k = re.sub(r"\d+", "N", e.get("what", ""))
                    rwhere[k] = rwhere.get(k, 0) + 1
        res.coverage = dict(
            states=sum(m["distinct"] for m in mcs), transitions=sum(m["generated"] for m in mcs),
            traces_validated_against_impl=len(behs),
            samples=[behs[0], behs[len(behs) // 2], behs[-1]],
            model_conformance=conf,
            exhaustive=False, evaluations=count_ops(behs), distinct_nontrivial=len(set(json.dumps(b, sort_keys=True) for b in behs if len(b["ops"]) >= 2)),
            rule="behaviours = prefix-maximal paths of TLC's edge cover of Store.tla under the generator configs (seeded sample in the quick "
                 "tier) + regression behaviours of fixed findings; evaluations = operations replayed into the real store, each followed by "
                 "a full named snapshot judged by TLC; non-trivial = distinct behaviours with at least two operations",
            models=[dict(cfg=m["cfg"], states=m["distinct"], transitions=m["generated"], depth=m["depth"], wall_s=m["wall_s"]) for m in mcs],
            model_invariants=invs, defect_models=cex, generators=gstats, kinds=kinds_note,
            ops=dict(process=nproc, with_fault=nfault, reorg=nreorg, restart=sum(1 for b in behs for o in b["ops"] if o["op"] == "restart"),
                     read_faults_injected=rfired, read_fault_sites=dict(sorted(rwhere.items(), key=lambda kv: -kv[1])[:40])),
            monitor=dict(spec="StoreTrace.tla", lines=info["stats"]["distinct"], wall_s=info["wall_s"]),
            regression_behaviours=len(reg),
        )
        if oracle and rb is None:
            # ground the reference implementation (and the node) in the real Solidity contracts, executed in an in-process EVM
            import contracts_oracle as CO
            CO.attach(res, sc, prop)
        res.assumptions = list(assumptions) + [
            "keccak is injective and deposits with different atoms have different contents (names identify hashes; a repeated content carries the same atom)",
            ("names are grounded in the real contracts by the contract oracle run (coverage.contract_oracle)" if oracle else
             "the reference implementation in harness/names (plain keccak Merkle tree, Solidity leaf packing) is the ground truth for names; "
             "it is grounded in the real contracts by the contract oracle run of C01/C11"),
        ]
    finally:
        sc.close()
    res.finish()




def default_selftest(tf, sc):
    lines = open(tf).read().splitlines()
    start = None
    for i, l in enumerate(lines):
        if _RESET.search(l[:300]):
            start = i
            continue
        if start is None or '"snap"' not in l[:40]:
            continue
        e = json.loads(l)
        if not [r for r in e["s"].get("roots", []) if r.get("c") == "ok"]:
            continue
        end = next((j for j in range(i + 1, len(lines)) if _RESET.search(lines[j][:300])), len(lines))
        mut = [json.loads(x) for x in lines[start:end]]
        for r in mut[i - start]["s"]["roots"]:
            if r.get("c") == "ok":
                r["n"] = dict(t="unk", h=-1, ls=[])
                break
        mf = sc.path("mut.ndjson")
        V.write_ndjson(mf, mut)
        minfo = V.validate_traces("StoreTrace.tla", "StoreTrace.cfg", mf, sc)
        if not any(v["inv"] == "RootMirrors" for v in minfo["violations"]):
            raise V.Infra("binding self-test failed: a corrupted root name was accepted by the monitor")
        # second mutation: drop the first successful process event -> later snapshots must be rejected
        mut2 = [json.loads(x) for x in lines[start:end]]
        j = next((q for q, e2 in enumerate(mut2) if e2["ev"] == "process" and e2["res"] == "ok"), None)
        if j is not None:
            del mut2[j]
            V.write_ndjson(mf, mut2)
            minfo = V.validate_traces("StoreTrace.tla", "StoreTrace.cfg", mf, sc)
            if not minfo["violations"]:
                raise V.Infra("binding self-test failed: a dropped ProcessBlock event was accepted by the monitor")
        return
    raise V.Infra("binding self-test: no trace with a recorded root found - driver is dead")
