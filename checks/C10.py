#!/usr/bin/env python3
"""C10 - the signature commits to exactly what is sent and stored.

 (A) specs/CertCommit.tla (+ CertCommitMatrix.tla)  the COVERAGE MATRIX (which field enters PPHashToSign / FEPHashToSign /
                                  Certificate.Hash, where it travels on the wire and in the stored JSON) and the pipeline
                                  Build -> Sign(h) -> Send(w) -> Store(s) with the codecs as coded (nil amounts, empty
                                  metadata, in-place Hash() side effects, one-field global index); TLC exhaustive over the
                                  certificate shapes; it also exports the shapes x single-field perturbations as CASE lines
 (B) harness/areas/certcommit     every shape instantiated with seeded values and run through the REAL flow BuildCertificate
                                  (PP and FEP, recording signer with a real ECDSA key) -> REAL AggSender.sendCertificate ->
                                  REAL AgglayerGRPCClient (loopback gRPC server keeps the protobuf) -> json.Marshal + REAL
                                  SaveLastSentCertificate; read back with GetCertificateByHeight + json.Unmarshal
 (C) specs/CertCommitTrace.tla    property monitor; TLC judges every recorded certificate

Level "other": the TLA+ side holds the matrix, enumerates the case space and judges equalities; nothing temporal is explored
(DESIGN.md section 8).
"""
import os, sys, json, random, copy
sys.path.insert(0, os.path.join(os.path.dirname(os.path.abspath(__file__)), "..", "lib"))
import vcheck as V

PROP = "C10"
AMT = ["nil", "zero", "one", "max", "rand"]
META = ["empty", "b32", "b1", "b33", "long"]
PART = ["z", "lo", "hi", "max", "rand"]


def rand_exit(rng):
    return dict(amt=rng.choice(AMT), meta=rng.choice(META), leaf=rng.choice(["asset", "message"]))


def rand_imp(rng):
    k = rng.choice(["mainnet", "rollup"])
    return dict(kind=k, amt=rng.choice(AMT), meta=rng.choice(META), leaf=rng.choice(["asset", "message"]),
                r=("z" if rng.random() < 0.6 else rng.choice(PART)) if k == "mainnet" else rng.choice(PART), l=rng.choice(PART))


def random_shapes(rng, n, maxlen):
    """seeded random certificates beyond TLC's bound: any number of exits / imported exits, further value classes"""
    out = []
    for _ in range(n):
        sch = rng.choice(["pp", "fep"])
        ne, ni = rng.randrange(0, maxlen + 1), rng.randrange(0, maxlen + 1)
        if sch == "pp" and ne + ni == 0:
            ne = 1
        imps, fixed = [], set()
        while len(imps) < ni:
            x = rand_imp(rng)
            k = (x["kind"], x["r"] if x["kind"] == "rollup" else "-", x["l"])   # (junk rollup bits of a mainnet index do not distinguish claims)
            if set(k[1:]) <= {"z", "max", "-"}:  # a fully determined global index: at most once per certificate
                if k in fixed:
                    continue
                fixed.add(k)
            imps.append(x)
        out.append(dict(scheme=sch, hc=rng.choice(["h0", "h1", "hbig", "rand"]), pc=rng.choice(["zero", "rand"]) if sch == "fep" else "-",
                        exits=[rand_exit(rng) for _ in range(ne)], imps=imps, src="random"))
    return out


def shape_key(b):
    return json.dumps([b["scheme"], b["hc"], b["pc"], b["exits"], b["imps"]], sort_keys=True)


def body():
    res = V.Result(PROP, level="other")
    sc = V.Scratch(PROP)
    try:
        thorough = res.tier == "thorough"
        rng = random.Random(V.seed())
        # (A) design: matrix consistency (ASSUME), pipeline invariants, exactness of the matrix - exhaustive over the shapes
        mc = V.model_check("CertCommit.tla", "CertCommitThorough.cfg" if thorough else "CertCommit.cfg", sc, timeout=1500)
        cases, gst = V.export_cases("CertCommit.tla", "CertCommitGenThorough.cfg" if thorough else "CertCommitGen.cfg", sc, timeout=900)
        top, gst2 = V.export_cases("CertCommit.tla", "CertCommitGenTop.cfg", sc, timeout=300)
        seenk, behs = set(), []
        for c in cases + top:
            c["src"] = "tlc"
            k = shape_key(c)
            if k not in seenk:
                seenk.add(k)
                behs.append(c)
        if len(behs) < 800:
            raise V.Infra("expected >= 800 certificate shapes from TLC, got %d" % len(behs))
        n_tlc = len(behs)
        tlc_perts = sum(len(b["perts"]) for b in behs)
        tlc_covered = sum(1 for b in behs for p in b["perts"] if p["c"] or p["d"])
        behs += random_shapes(rng, 1200 if thorough else 150, 6)
        for b in behs:
            b["trials"] = 2 if thorough else 1
        rng.shuffle(behs)
        # a quarter of the certificates are judged as the *retry* of an InError certificate: nothing changed in between / the node
        # restarted with another signing key / an L2 reorg changed a bridge of the range (the first attempt runs unrecorded)
        for b in behs:
            if rng.random() < 0.25:
                b["retry"] = rng.choice(["same", "signer", "content"])
        rb = V.replay_behaviours()
        if rb is not None:
            behs = rb
        # (B) real code
        drv = V.build_driver("certcommit")
        bf, tf = sc.path("beh.json"), sc.path("trace.ndjson")
        json.dump(behs, open(bf, "w"))
        V.run_driver(drv, ["-in", bf, "-out", tf])
        # (C) judge
        info = V.validate_traces("CertCommitTrace.tla", "CertCommitTrace.cfg", tf, sc)
        if not info["consumed_ok"]:
            raise V.Infra("monitor did not consume the trace:\n" + info.get("tail", ""))
        done = info["done"][0] if info["done"] else {}
        total_viol = done.get("violations", len(info["violations"]))
        if total_viol > len(info["violations"]):
            res.notes.append("monitor reported %d failed predicates, the first %d are kept in full" % (total_viol, len(info["violations"])))
        per_beh = {}
        for v in info["violations"]:
            per_beh.setdefault(v["t"], []).append(v)
        for t, vs in sorted(per_beh.items()):
            b = behs[t - 1]
            v = vs[0]
            shape = dict(scheme=b["scheme"], hc=b["hc"], pc=b["pc"], exits=b["exits"], imps=b["imps"])
            res.add_violation("%s at certificate %d line %d (%d findings on this certificate; invariants %s): shape %s: %s" % (
                v["inv"], t, v["l"], len(vs), sorted(set(x["inv"] for x in vs)), json.dumps(shape), json.dumps(v["info"])[:900]),
                dict(behaviour=b, violation=v, invariants=sorted(set(x["inv"] for x in vs))))
        evs = V.read_ndjson(tf)
        # what was really recorded, per certificate
        certs, cur = [], None
        for e in evs:
            if e["ev"] == "cert":
                cur = dict(cert=e, lines=[e], error=None)
                certs.append(cur)
            elif cur is not None:
                cur["lines"].append(e)
                if e["ev"] == "error":
                    cur["error"] = e
        if len(certs) != len(behs):
            raise V.Infra("driver recorded %d certificates for %d behaviours" % (len(certs), len(behs)))
        errs = [(i, c["error"]) for i, c in enumerate(certs) if c["error"]]
        for i, e in errs[:5]:
            res.notes.append("the code refused to produce certificate %d (%s): %s: %s" % (
                i + 1, json.dumps({k: behs[i][k] for k in ("scheme", "hc", "pc", "exits", "imps")}), e["where"], e["what"][:300]))
        if len(errs) > len(certs) // 20 and rb is None:
            raise V.Infra("%d of %d certificates were refused by the code under test (first: %s) - nothing to judge" % (
                len(errs), len(certs), errs[0][1]))
        ok = [c for c in certs if not c["error"]]
        if done.get("judged") != len(ok):
            raise V.Infra("monitor judged %s certificates, %d were recorded" % (done.get("judged"), len(ok)))
        # binding self-test on a real recorded certificate (an FEP one with an imported exit if there is one):
        # (1) one covered field of the stored copy corrupted, (2) the signed line dropped, (3) one perturbation result flipped
        def good(c):
            return c["cert"]["scheme"] == "fep" and c["cert"]["kinds"] and c["cert"]["ne"] > 0
        one = next((c for c in ok if good(c)), ok[0] if ok else None)
        if one is None:
            if rb is not None:
                res.coverage = dict(explanation="replay of a stored behaviour", evaluations=len(evs), distinct_nontrivial=0,
                                    states=mc["distinct"], transitions=mc["generated"], traces_validated_against_impl=len(behs), samples=behs[:1])
                res.finish()
            raise V.Infra("no certificate went through - driver is dead")
        lines = one["lines"]
        ks = next(i for i, e in enumerate(lines) if e["ev"] == "place" and e["at"] == "stored")
        kg = next(i for i, e in enumerate(lines) if e["ev"] == "signed")
        kp = next(i for i, e in enumerate(lines) if e["ev"] == "perts")
        mutA = copy.deepcopy(lines)
        mutA[ks]["f"]["top"]["0"]["new_ler"] = "00" * 32
        mutB = copy.deepcopy(lines)
        del mutB[kg]
        mutC = copy.deepcopy(lines)
        mutC[kp]["p"]["top"]["0"]["new_ler"]["cr"] = 0
        mf = sc.path("mut.ndjson")
        V.write_ndjson(mf, mutA + mutB + mutC)
        minfo = V.validate_traces("CertCommitTrace.tla", "CertCommitTrace.cfg", mf, sc)
        got = {(v["t"], v["inv"]) for v in minfo["violations"]}
        if (1, "FieldStored") not in got:
            raise V.Infra("binding self-test failed: a corrupted stored field was accepted by the monitor")
        if (2, "Complete") not in got:
            raise V.Infra("binding self-test failed: a dropped signer observation was accepted by the monitor")
        if (3, "CoveredChangesCommit") not in got:
            raise V.Infra("binding self-test failed: an ineffective perturbation of a covered field was accepted by the monitor")
        # measured coverage
        n_fields = n_pert = n_pert_cov = 0
        drift = {}
        shapes_done = set()
        cls_seen = dict(amt=set(), meta=set(), kind=set(), gi=set(), scheme=set(), hc=set(), pc=set(), ne=set(), ni=set())
        for i, c in enumerate(certs):
            if c["error"]:
                continue
            b = behs[i]
            shapes_done.add(shape_key(b))
            cls_seen["scheme"].add(b["scheme"]); cls_seen["hc"].add(b["hc"]); cls_seen["pc"].add(b["pc"])
            cls_seen["ne"].add(len(b["exits"])); cls_seen["ni"].add(len(b["imps"]))
            for x in b["exits"] + b["imps"]:
                cls_seen["amt"].add(x["amt"]); cls_seen["meta"].add(x["meta"])
            for x in b["imps"]:
                cls_seen["kind"].add(x["kind"]); cls_seen["gi"].add((x["kind"], x["r"], x["l"]))
            want = {(p["g"], p["i"], p["n"]): p for p in b.get("perts", [])}
            for e in c["lines"]:
                if e["ev"] == "place" and e["at"] == "wire":
                    n_fields += sum(len(d) for g in e["f"].values() for d in g.values())
                if e["ev"] == "perts":
                    for g, gi in e["p"].items():
                        for si, d in gi.items():
                            for n, p in d.items():
                                n_pert += p["t"]
                                w = want.get((g, int(si), n))
                                if w is not None and (w["c"] or w["d"]):
                                    n_pert_cov += p["t"]
                                # drift of the matrix against the code (not a verdict): a field listed as uncovered that changes a commitment
                                if w is not None and ((not w["c"] and p["cc"]) or (not w["d"] and p["ic"])):
                                    drift[(g, n)] = drift.get((g, n), 0) + 1
                    missing = [k for k, w in want.items() if (w["c"] or w["d"]) and not (k[0] in e["p"] and str(k[1]) in e["p"][k[0]] and k[2] in e["p"][k[0]][str(k[1])])]
                    if missing:
                        res.notes.append("certificate %d: %d covered perturbations of TLC's case were not executed: %s" % (i + 1, len(missing), missing[:3]))
        for (g, n), k in sorted(drift.items()):
            res.notes.append("matrix drift (informational): field %s.%s is listed as not covered but changing it changed a commitment of the code in %d certificates" % (g, n, k))
        si = [0, len(behs) // 2, len(behs) - 1]
        samples = [dict(behaviour={k: behs[i][k] for k in ("scheme", "hc", "pc", "exits", "imps", "src")},
                        recorded=[e for e in certs[i]["lines"] if e["ev"] in ("cert", "signed", "hdr", "error")]) for i in si]
        res.coverage = dict(
            explanation="Byte-level fidelity property: TLC holds the coverage matrix as the specification, enumerates the case space and "
                        "judges equalities; nothing temporal is explored. (A) CertCommitMatrix.tla states for each of the %d certificate fields "
                        "where it travels (protobuf, stored JSON) and whether it enters PPHashToSign / FEPHashToSign / Certificate.Hash; "
                        "CertCommit.tla runs Build -> Sign -> Send -> Store with the codecs as coded and TLC checks, for every certificate "
                        "shape (exits 0..2, imported exits 0..2, both claim kinds, amounts nil/0/1/2^256-1, empty/non-empty metadata, both "
                        "leaf types, leading-zero classes of the global index, heights, aggchain params, PP and FEP; %d states), that "
                        "h = Commit(w) = Commit(s), Id(w) = Id(s) = Id(built), every covered field arrives, every single-field perturbation "
                        "of a covered field changes the commitment / identity and no uncovered one does (matrix exact), and the matrix is "
                        "consistent (every travelling field is covered or explicitly listed as uncovered). (B) TLC exports %d shapes with "
                        "their %d single-field perturbations (%d of covered fields); each shape plus %d seeded random certificates (up to 6 "
                        "exits / imported exits, random amounts, metadata of 1/33/100+ bytes, random heights) is instantiated with seeded "
                        "values and driven through the real flow BuildCertificate with a recording ECDSA signer, the real "
                        "AggSender.sendCertificate, the real gRPC client (loopback server records the protobuf) and the real SQLite storage. "
                        "The driver re-assembles a certificate from the captured protobuf (its own inverse conversion, FixedBytes widths "
                        "enforced) and from the JSON read back, applies the code's own PPHashToSign / FEPHashToSign / Hash and an "
                        "independent reference of the layouts, recovers the signer from the carried signature, and perturbs every field "
                        "of the wire certificate (%d random single-bit changes per field). (C) TLC judges every certificate with "
                        "CertCommitTrace.tla." % (
                            54, mc["distinct"], n_tlc, tlc_perts, tlc_covered, len(behs) - n_tlc if rb is None else 0, behs[0].get("trials", 1)),
            states=mc["distinct"], transitions=mc["generated"],
            traces_validated_against_impl=len(ok),
            samples=samples,
            exhaustive=False,
            evaluations=n_pert + n_fields, distinct_nontrivial=n_pert_cov,
            rule="evaluations = field observations on the wire + single-field perturbations executed on re-assembled wire certificates; "
                 "distinct non-trivial = executed perturbations of fields the matrix lists as covered (each must change the commitment "
                 "or the identity, by the code's function and by the reference), counted from the trace",
            certificates=dict(total=len(behs), completed=len(ok), refused_by_code=len(errs), retries=sum(1 for b in behs if b.get("retry")), tlc_shapes=n_tlc, distinct_shapes_completed=len(shapes_done),
                              pp=sum(1 for b in behs if b["scheme"] == "pp"), fep=sum(1 for b in behs if b["scheme"] == "fep")),
            field_observations_wire=n_fields, perturbations_executed=n_pert, perturbations_of_covered_fields=n_pert_cov,
            classes_seen={k: sorted(map(str, v)) for k, v in cls_seen.items() if k != "gi"}, global_index_classes_seen=len(cls_seen["gi"]),
            trace_events=len(evs),
            model=dict(spec="CertCommit.tla", cfg=mc["cfg"], depth=mc["depth"], wall_s=mc["wall_s"],
                       invariants=["TypeOK", "CommitAgree", "IdAgree", "FieldsArrive", "SignatureOK", "CoveredChanges", "UncoveredFree", "ASSUME MatrixConsistent"],
                       exhaustive=True),
            generator=dict(cfgs=["CertCommitGenThorough.cfg" if thorough else "CertCommitGen.cfg", "CertCommitGenTop.cfg"], shapes=n_tlc,
                           perturbation_cases=tlc_perts, states=gst["distinct"] + gst2["distinct"]),
            monitor=dict(spec="CertCommitTrace.tla", events=len(evs), wall_s=info["wall_s"], judged=done.get("judged")),
            binding_selftest="corrupted stored field rejected (FieldStored); dropped signer observation rejected (Complete); "
                             "ineffective perturbation of a covered field rejected (CoveredChangesCommit)",
        )
        res.assumptions = [
            "the commitment layouts of the two schemes and of the identity (CertCommitMatrix.tla, reference implementation in the driver) "
            "are the specification: PP keccak(new_ler | keccak(keccak(LE32(global index))...)); FEP keccak(new_ler | keccak((LE32(global "
            "index) | bridge exit hash)...) | LE64(height) | aggchain params); a deliberate change of a layout needs a spec update",
            "a nil amount and the amount 0 are the same value (BridgeExit.Hash hashes nil as 0; the wire carries no amount, the JSON '<nil>')",
            "quantifier: canonical on-chain global indexes (mainnet flag set => rollup bits zero); leaf types asset / message; amounts in "
            "0..2^256-1; for a mainnet claim the rollup index is not a covered field",
            "the wire is read the way its schema says (FixedBytes20/32 must have that width; leaf type enum TRANSFER=asset, MESSAGE=message; "
            "global index = one 32-byte big-endian number with bit 64 = mainnet flag); the stored copy is read with the node's own json.Unmarshal",
            "fields the matrix lists as uncovered (certificate metadata, custom_chain_data, l1_info_tree_leaf_count, proof / version / vkey / "
            "context, l1_leaf index / rer / mer) are recorded but not judged; changing them after signing is outside the property",
            "trusted: TLC, go-ethereum keccak / secp256k1 recovery, grpc loopback, SQLite, the driver's inverse wire conversion and reference (~250 lines)",
        ]
    finally:
        sc.close()
    res.finish()


if __name__ == "__main__":
    V.main(body, PROP)
