#!/usr/bin/env python3
"""C11 - the L1 info tree and rollup exit tree mirror the L1 contracts (any interleaving of info updates, V2 announcements, batch verifications)."""
import os, sys
sys.path.insert(0, os.path.dirname(os.path.abspath(__file__)))
import store_common as S
import vcheck as V

PROP = "C11"


def body():
    S.store_check(
        PROP, model_cfgs=["StoreC11.cfg", "StoreL1U13.cfg"], gen_cfgs=["StoreGenC11.cfg", "StoreGenL1C04.cfg", "StoreGenL1U13.cfg"], quick_n=700, thorough_n=8000,
        oracle=True,
        kinds_note="l1info", invs=["RootsMirror", "ConsecutiveIdx", "ProofsVerify", "RollupTreeMirror", "UProofsVerify", "FaultFreeSucceeds"],
        assumptions=["leaf and GER values are named by the reference packing in harness/names: keccak(MER,RER) and keccak(GER, parentHash, uint64 timestamp)", "the rollup exit tree expectation is the property's own: per rollup the last non-zero exit root, unchanged values produce no new root"])


if __name__ == "__main__":
    V.main(body, PROP)
