#!/usr/bin/env python3
"""C08 - every Merkle proof served verifies against the root it was asked for (all recorded roots x covered positions, after reorgs, faults, restarts)."""
import os, sys
sys.path.insert(0, os.path.dirname(os.path.abspath(__file__)))
import store_common as S
import vcheck as V

PROP = "C08"


def body():
    S.store_check(
        PROP, model_cfgs=["StoreBridge.cfg", "StoreDup.cfg", "StoreL1.cfg"], gen_cfgs=["StoreGenC04.cfg", "StoreGenC07.cfg", "StoreGenC07big.cfg", "StoreGenDup.cfg", "StoreGenDupR.cfg", "StoreGenL1C04.cfg", "StoreGenL1C07.cfg", "StoreGenL1U13.cfg"], quick_n=150, thorough_n=3000,
        kinds_note="bridge, l1info (L1 info tree and rollup exit tree)", invs=["ProofsVerify", "RootsMirror"],
        assumptions=["a proof is judged structurally: every sibling must carry the name of the reference sibling subtree, which implies that it folds to the root (keccak injective)"])


if __name__ == "__main__":
    V.main(body, PROP)
