#!/usr/bin/env python3
"""C09 - claim proofs inside a certificate verify against the L1 info root it names."""
import os, sys
sys.path.insert(0, os.path.dirname(os.path.abspath(__file__)))
import aggsender_common as A
import vcheck as V

PROP = "C09"


def body():
    A.aggsender_check(PROP, model_cfgs=["AggSenderC02b.cfg"], gen_cfgs=["AggSenderGenC02.cfg", "AggSenderGenC02b.cfg", "AggSenderGenFEP.cfg"], quick_n=200, thorough_n=4000, invs=["C02"], finality=True, assumptions=["precondition of C09: claims reference L1 info leaves at or below the finalized root (the driver only lets an L2 block claim against a finalized leaf)"])


if __name__ == "__main__":
    V.main(body, PROP)
