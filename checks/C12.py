#!/usr/bin/env python3
"""C12 - the bridge API's claim flow yields proofs the bridge contract would accept.

 (A) specs/BridgeAPI.tla        implementation-shaped: joint L1/L2 histories, the two binary searches of
                                L1InfoTreeIndexForBridge and the proof assembly of ClaimProof written as coded; TLC exhaustive
                                (joint config + one focus config per lookup); invariants IndexSafe / ErrorsExplained / ClaimOK
 (B) harness/areas/bridgeapi    every exported history (seeded sample in the quick tier) + seeded random larger histories are fed to
                                the REAL bridgeservice.New over the REAL L1/L2 bridge stores, L1 info store and injected-GER store;
                                /l1-info-tree-index, /claim-proof, /injected-l1-info-leaf are requested through the real gin routes
 (C) specs/BridgeAPITrace.tla   property monitor: returned index covers the bridge (or an error); claim proofs for covering leaves are
                                the reference sibling lists for both legs; injected leaf is a later, injected leaf of the history
"""
import os, sys, json, random, concurrent.futures as cf
sys.path.insert(0, os.path.join(os.path.dirname(os.path.abspath(__file__)), "..", "lib"))
sys.path.insert(0, os.path.dirname(os.path.abspath(__file__)))
import vcheck as V
import store_common as S     # run_driver_parallel (generic: splits behaviours over driver processes, renumbers traces)

PROP = "C12"
SPEC, MON, MONCFG = "BridgeAPI.tla", "BridgeAPITrace.tla", "BridgeAPITrace.cfg"

MODELS = {"quick": ["BridgeAPI.cfg", "BridgeAPIL1.cfg", "BridgeAPIL2.cfg"],
          "thorough": ["BridgeAPIT.cfg", "BridgeAPIL1T.cfg", "BridgeAPIL2T.cfg", "BridgeAPIJ2T.cfg", "BridgeAPIL2bT.cfg"]}
GENS = {"quick": ["BridgeAPIGen.cfg", "BridgeAPIGenL1.cfg", "BridgeAPIGenL2.cfg"],
        "thorough": ["BridgeAPIGenT.cfg", "BridgeAPIGenL1T.cfg", "BridgeAPIGenL2T.cfg"]}
SAMPLE = {"quick": 260, "thorough": 5000}       # per generator config
RANDOM = {"quick": 150, "thorough": 2500}


# the same service over an L1 that is reorged while it runs (specs/BridgeAPIReorg.tla)
SPEC_R = "BridgeAPIReorg.tla"
MODELS_R = {"quick": ["BridgeAPIReorg.cfg", "BridgeAPIReorgDrop.cfg"],
            "thorough": ["BridgeAPIReorg.cfg", "BridgeAPIReorgDrop.cfg", "BridgeAPIReorgL2.cfg"]}
GENS_R = ["BridgeAPIReorgGen.cfg", "BridgeAPIReorgGenL2.cfg"]
SAMPLE_R = {"quick": 90, "thorough": 2500}
RANDOM_R = {"quick": 60, "thorough": 1200}

VARIANTS = ["offByOne", "bestOnSmall", "noInitTest", "wrongTree", "wrongRER"]
SENS_CFG = """CONSTANTS
  H = 2
  MaxDeps = 2
  MaxL2 = 2
  MaxInfos = 3
  MaxBlocks = 3
  MaxVer = 2
  Ours = 1
  Others = {2}
  AllowSkipped = FALSE
  Variant = "%s"
INIT Init
NEXT Next
INVARIANT Inv
CHECK_DEADLOCK FALSE
"""


def sensitivity(variant, sc):
    """the invariants of BridgeAPI.tla are not vacuous: each deliberately wrong variant of the spec must violate them"""
    cfg = sc.path("sens-%s.cfg" % variant)
    open(cfg, "w").write(SENS_CFG % variant)
    rc, out, wall = V.run_tlc(SPEC, cfg, sc, workers=2, timeout=600, heap="2g")
    if "Invariant Inv is violated" not in out:
        raise V.Infra("model sensitivity: variant %s of BridgeAPI.tla does not violate the invariants:\n%s" % (variant, out[-1500:]))
    return variant


def to_case(c, every=True):
    """TLC CASE line -> driver case (block numbers 1..n; an empty block is a gap)"""
    return dict(ours=c["ours"], n2=c["n2"], every=every,
                blocks=[dict(num=i + 1, evs=[dict(t=e["t"], r=e["r"], k=e["k"]) for e in b]) for i, b in enumerate(c["blocks"])])


def to_reorg_case(c):
    """TLC CASE line of BridgeAPIReorg.tla -> driver case: the old history, the number of blocks kept, the new history (the
    blocks after the kept ones take the heights of the blocks they replace)"""
    ev = lambda b: [dict(t=e["t"], r=e["r"], k=e["k"]) for e in b]
    return dict(ours=c["ours"], n2=c["n2"], every=True, kept=c["kept"],
                old=[dict(num=i + 1, evs=ev(b)) for i, b in enumerate(c["old"])],
                blocks=[dict(num=i + 1, evs=ev(b)) for i, b in enumerate(c["blocks"])])


def n_events(case):
    return sum(len(b["evs"]) for b in case["blocks"])


def pick(cases, k, rng):
    """seeded sample, biased to the longer histories (their block-boundary prefixes are snapshotted too)"""
    if len(cases) <= k:
        return list(cases)
    cases = sorted(cases, key=lambda x: (-n_events(x[0]), json.dumps(x[0], sort_keys=True)))
    top = cases[:max(k, len(cases) // 3)]
    a = rng.sample(top, (2 * k) // 3)
    rest = [c for c in cases if c not in a] if len(cases) < 4000 else cases[len(top):]
    return a + rng.sample(rest, min(len(rest), k - len(a)))


def random_case(rng, prefix=None):
    """a consistent joint history beyond the exhaustive bound: more bridges/leaves/blocks, block-number gaps, up to 3 rollups.
    prefix = (case, kept): a history that shares its first `kept` blocks with that case and goes on differently"""
    ours = rng.choice([1, 1, 2, 3])
    others = [r for r in (1, 2, 3) if r != ours][:rng.choice([0, 1, 2])]
    n2 = rng.randrange(1, 7)
    max_dep, max_info, max_ver, nblocks = rng.randrange(0, 7), rng.randrange(1, 11), rng.randrange(0, 7), rng.randrange(1, 9)
    n1, f, last_ger, deps, infos, vers = 0, {}, None, 0, 0, 0
    blocks, num = [], rng.choice([1, 1, 5, 1000])
    if prefix is not None:
        pc, kept = prefix
        ours, n2 = pc["ours"], pc["n2"]
        others = sorted(set(e["r"] for b in pc["blocks"] for e in b["evs"] if e["t"] == "ver" and e["r"] != ours) | set(others) - {ours})
        blocks = [dict(num=b["num"], evs=list(b["evs"])) for b in pc["blocks"][:kept]]
        for b in blocks:
            for e in b["evs"]:
                if e["t"] == "dep":
                    n1 += 1
                elif e["t"] == "info":
                    last_ger = (n1, tuple(sorted(f.items())))
                elif e["t"] == "ver" and e["k"] != 0:
                    f[e["r"]] = e["k"]
        num = pc["blocks"][kept]["num"] + rng.choice([0, 0, 0, 1])     # mostly the height of the first replaced block
        nblocks = rng.randrange(1, 6)
    for _ in range(nblocks):
        evs = []
        for _ in range(rng.choice([0, 1, 1, 2, 3, 4, 6])):
            t = rng.choice(["dep", "info", "info", "ver"])
            if t == "dep" and deps < max_dep:
                n1 += 1; deps += 1
                evs.append(dict(t="dep", r=0, k=0))
            elif t == "info" and infos < max_info:
                ger = (n1, tuple(sorted(f.items())))
                if ger == last_ger or ger == (0, ()):
                    continue
                last_ger = ger; infos += 1
                evs.append(dict(t="info", r=0, k=0))
            elif t == "ver" and vers < max_ver:
                r = rng.choice([ours, ours] + others)
                if r == ours:
                    lo = f.get(r, 0)
                    k = rng.randrange(lo, n2 + 1)        # k = lo: skipped by the processor (zero / unchanged)
                else:
                    k = f.get(r, 0) + 1
                if k != 0:
                    f[r] = k
                vers += 1
                evs.append(dict(t="ver", r=r, k=k))
        blocks.append(dict(num=num, evs=evs))
        num += rng.choice([1, 1, 1, 2, 3, 7, 100, 12345])
    while prefix is None and blocks and not blocks[0]["evs"]:
        blocks.pop(0)
    return dict(ours=ours, n2=n2, every=True, blocks=blocks)


def random_reorg_case(rng):
    while True:
        old = random_case(rng)
        if len(old["blocks"]) >= 2:
            break
    kept = rng.randrange(0, len(old["blocks"]))
    new = random_case(rng, prefix=(old, kept))
    return dict(ours=old["ours"], n2=old["n2"], every=True, kept=kept, old=old["blocks"], blocks=new["blocks"])


def validate_parallel(tf, sc, ntraces):
    """split the concatenated trace at reset lines into chunks and let one TLC per chunk judge it"""
    per = 400
    if ntraces <= per:
        return [V.validate_traces(MON, MONCFG, tf, sc, timeout=3000, heap="6g")]
    files, cur, cnt, k = [], None, 0, 0
    for line in open(tf):
        if '"ev": "reset"' in line[:40] or '"ev":"reset"' in line[:40]:
            if cur is None or cnt >= per:
                if cur:
                    cur.close()
                k += 1
                files.append(sc.path("chunk-%d.ndjson" % k))
                cur, cnt = open(files[-1], "w"), 0
            cnt += 1
        cur.write(line)
    if cur:
        cur.close()
    with cf.ThreadPoolExecutor(max_workers=6) as ex:
        return list(ex.map(lambda f: V.validate_traces(MON, MONCFG, f, sc, timeout=3000, heap="6g"), files))


def merge_stats(infos):
    tot = {}
    soft = []
    for i in infos:
        for d in i["done"]:
            for k, v in d["stats"].items():
                tot[k] = tot.get(k, 0) + v
            soft += d.get("soft", [])
    return tot, soft


def final_snaps(tf):
    """per trace: (index answers of the last snapshot, non-trivial?)"""
    out, cur = {}, None
    for line in open(tf):
        e = json.loads(line)
        if e["ev"] == "reset":
            cur = e["t"]
            out[cur] = dict(index=[], nontrivial=False)
        elif e["ev"] == "snap":
            s = e["s"]
            out[cur]["index"] = s["index"]
            if any(q["st"] == 200 for q in s["index"]) and any(q["st"] == 200 and (q.get("pl") or q.get("pr")) for q in s["proofs"]):
                out[cur]["nontrivial"] = True
    return out


def selftest(tf, sc):
    """binding: (1) a lookup answer replaced by a leaf that (by the history alone) does not cover the L1 bridge, (2) corrupted
    sibling / rollup-exit-root names in the L2 claim proofs, (3) a dropped L1 block must each be rejected by the monitor"""
    lines = open(tf).read().splitlines()
    starts = [i for i, l in enumerate(lines) if l.startswith('{"ev": "reset"') or l.startswith('{"ev":"reset"')] + [len(lines)]
    done = set()
    for a, b in zip(starts, starts[1:]):
        evs = [json.loads(x) for x in lines[a:b]]
        snaps = [i for i, e in enumerate(evs) if e["ev"] == "snap"]
        if not snaps:
            continue
        last = evs[snaps[-1]]["s"]
        mf = sc.path("mut.ndjson")
        # mainnet exit root of leaf j commits to as many L1 leaves as there were deposits before it (history only, no code answer used)
        mers, deps = [], 0
        for e in evs:
            if e["ev"] == "block":
                for x in e["evs"]:
                    deps += x["t"] == "dep"
                    if x["t"] == "info":
                        mers.append(deps)
        cand = [(q, j) for q in last["index"] if q["net"] == 0 for j, m in enumerate(mers) if m <= q["dc"]]
        if 1 not in done and cand:
            mut = json.loads(json.dumps(evs))
            q0, j = cand[0]
            q = next(q for q in mut[snaps[-1]]["s"]["index"] if q["net"] == 0 and q["dc"] == q0["dc"])
            q.update(st=200, idx=j)
            V.write_ndjson(mf, mut)
            if not any(v["inv"] == "IndexCovers" for v in V.validate_traces(MON, MONCFG, mf, sc)["violations"]):
                raise V.Infra("binding self-test failed: a non-covering index answer was accepted by the monitor")
            done.add(1)
        if 2 not in done and any(q["st"] == 200 and q["net"] != 0 and q.get("pl") and q.get("pr") for q in last["proofs"]):
            base = V.validate_traces(MON, MONCFG, _write(mf, evs), sc)
            if base["done"] and base["done"][0]["stats"]["proofsL2"] > 0:
                for field in ("pl", "pr", "rer"):
                    mut = json.loads(json.dumps(evs))
                    for q in [q for i in snaps for q in mut[i]["s"]["proofs"]]:
                        if q["st"] == 200 and q["net"] != 0:
                            if field == "rer":
                                q["leaf"]["rer"] = dict(t="unk", h=-1, ls=[])
                            elif q.get(field):
                                q[field][0][1] = dict(t="unk", h=-1, ls=[])
                            else:
                                q[field] = [[5, dict(t="unk", h=-1, ls=[])]]
                    V.write_ndjson(mf, mut)
                    if not any(v["inv"] == "ProofFolds" for v in V.validate_traces(MON, MONCFG, mf, sc)["violations"]):
                        raise V.Infra("binding self-test failed: a corrupted %s name was accepted by the monitor" % field)
                done.add(2)
        if 3 not in done and any(q["st"] == 200 for q in last["index"]):
            j = next((i for i, e in enumerate(evs) if e["ev"] == "block" and any(x["t"] == "info" for x in e["evs"])), None)
            if j is not None:
                mut = [e for i, e in enumerate(evs) if i != j]
                V.write_ndjson(mf, mut)
                if not V.validate_traces(MON, MONCFG, mf, sc)["violations"]:
                    raise V.Infra("binding self-test failed: a dropped L1 block was accepted by the monitor")
                done.add(3)
        if done == {1, 2, 3}:
            return "non-covering index, corrupted local/rollup sibling and RER names, dropped L1 block: all rejected"
    raise V.Infra("binding self-test: no suitable trace found (missing %s) - driver is dead?" % sorted({1, 2, 3} - done))


def _write(path, evs):
    V.write_ndjson(path, evs)
    return path


def body():
    res = V.Result(PROP)
    sc = V.Scratch(PROP)
    try:
        tier = res.tier
        rng = random.Random(V.seed())
        rb = V.replay_behaviours()
        jobs = [("mc", c) for c in MODELS[tier]] + [("mcr", c) for c in MODELS_R[tier]] + \
               ([("gen", c) for c in GENS[tier]] + [("genr", c) for c in GENS_R] + [("sens", v) for v in VARIANTS] if rb is None else [])
        nw = max(2, 16 // len([j for j in jobs if j[0] != "sens"]))

        def run(job):
            kind, cfg = job
            if kind == "mc":
                return V.model_check(SPEC, cfg, sc, timeout=2400, heap="8g", workers=nw)
            if kind == "mcr":
                return V.model_check(SPEC_R, cfg, sc, timeout=2400, heap="6g", workers=nw)
            if kind == "genr":
                return V.export_cases(SPEC_R, cfg, sc, timeout=2400, heap="6g", workers=nw)
            if kind == "sens":
                return sensitivity(cfg, sc)
            return V.export_cases(SPEC, cfg, sc, timeout=2400, heap="6g", workers=nw)

        with cf.ThreadPoolExecutor(max_workers=len(jobs)) as ex:
            results = list(ex.map(run, jobs))
        mcs = [r for (k, _), r in zip(jobs, results) if k in ("mc", "mcr")]
        # a design TLC must refute: answered lookups remembered across a reorg of the stores
        keep = V.model_counterexample(SPEC_R, "BridgeAPIReorgKeep.cfg", "InvR", sc, timeout=600)
        gstats, behs, expect = [], [], []
        if rb is None:
            for (k, cfg), r in zip(jobs, results):
                if k != "gen":
                    continue
                cases, gst = r
                uniq = {}
                for c in cases:
                    uniq.setdefault(json.dumps(c["blocks"], sort_keys=True), c)
                pairs = [(to_case(c), c["exp"]) for c in uniq.values()]
                chosen = pick(pairs, SAMPLE[tier], rng)
                gstats.append(dict(cfg=cfg, histories=len(pairs), replayed=len(chosen), states=gst["distinct"]))
                for case, exp in chosen:
                    behs.append(case)
                    expect.append(exp)
            for (k, cfg), r in zip(jobs, results):
                if k != "genr":
                    continue
                cases, gst = r
                rc = [to_reorg_case(c) for c in cases]
                rc.sort(key=lambda c: (-n_events(c) - sum(len(b["evs"]) for b in c["old"]), json.dumps(c, sort_keys=True)))
                nS = SAMPLE_R[tier]
                chosen = rc if len(rc) <= nS else rng.sample(rc[:max(nS, len(rc) // 3)], (2 * nS) // 3) + rng.sample(rc[len(rc) // 3:], nS - (2 * nS) // 3)
                gstats.append(dict(cfg=cfg, histories=len(rc), replayed=len(chosen), states=gst["distinct"]))
                behs += chosen
                expect += [None] * len(chosen)
            n_model = len(behs)
            for _ in range(RANDOM[tier]):
                behs.append(random_case(rng))
                expect.append(None)
            for _ in range(RANDOM_R[tier]):
                behs.append(random_reorg_case(rng))
                expect.append(None)
        else:
            behs, expect, n_model = rb, [None] * len(rb), 0
        drv = V.build_driver("bridgeapi")
        tf, index = S.run_driver_parallel(drv, behs, sc, tag="c12")
        infos = validate_parallel(tf, sc, len(behs))
        for info in infos:
            if not info["consumed_ok"]:
                raise V.Infra("monitor did not consume the trace:\n" + info.get("tail", ""))
        seen = set()
        for info in infos:
            for v in info["violations"]:
                if v["inv"].startswith("INFRA"):
                    raise V.Infra("driver problem reported in trace: %s" % json.dumps(v)[:600])
                key = (v["t"], v["inv"])
                if key in seen:
                    continue
                seen.add(key)
                b = behs[index[v["t"] - 1]]
                res.add_violation("%s (trace %d line %d): %s" % (v["inv"], v["t"], v["l"], json.dumps(v["info"])[:900]),
                                  dict(behaviour=b, violation=v))
        stats, soft = merge_stats(infos)
        if stats.get("snaps", 0) == 0 or stats.get("idxOk", 0) == 0 or stats.get("proofsJudged", 0) == 0:
            if rb is None:
                raise V.Infra("nothing was judged (stats %s) - driver is dead" % stats)
        # conformance of the implementation-shaped spec: its predicted lookup answers against the real ones (drift is a note)
        fin = final_snaps(tf)
        compared = drift = 0
        drift_ex = None
        for tno, orig in enumerate(index, start=1):
            exp = expect[orig]
            if exp is None:
                continue
            got = {(q["net"], q["dc"]): q for q in fin[tno]["index"]}
            for x in exp:
                q = got.get((x["net"], x["dc"]))
                if q is None:
                    continue
                compared += 1
                same = (q["st"] == 200 and x["ok"] and q["idx"] == x["idx"]) or (q["st"] != 200 and not x["ok"] and
                        (x["err"] == "notyet") == (q.get("ec") == "notyet"))
                if not same:
                    drift += 1
                    drift_ex = drift_ex or dict(history=behs[orig]["blocks"], model=x, real={k: q.get(k) for k in ("st", "idx", "ec")})
        if drift:
            res.notes.append("model drift: %d of %d lookup answers of the real service differ from BridgeAPI.tla's prediction, e.g. %s"
                             % (drift, compared, json.dumps(drift_ex)[:500]))
        if stats.get("idxErrCovered"):
            res.notes.append("lookup answered an error although a processed leaf covers the bridge: %d of %d lookups (%d of them with the "
                             "'not yet included' text); the statement allows an error, so this is recorded, not judged; e.g. %s"
                             % (stats["idxErrCovered"], stats["idxOk"] + stats["idxErr"], stats.get("idxNotYetCovered", 0),
                                json.dumps(soft[0])[:400] if soft else ""))
        # (a run that already has a violation has shown that the monitor objects; its verdict must not be masked by the self-test)
        st_txt = selftest(tf, sc) if rb is None and not res.violations else "skipped (--replay or violations present)"
        nontriv = len(set(json.dumps(behs[orig], sort_keys=True) for tno, orig in enumerate(index, start=1) if fin[tno]["nontrivial"]))
        res.coverage = dict(
            states=sum(m["distinct"] for m in mcs), transitions=sum(m["generated"] for m in mcs),
            traces_validated_against_impl=len(behs),
            samples=[behs[0], behs[len(behs) // 2], behs[-1]],
            exhaustive=False,
            evaluations=stats.get("idxOk", 0) + stats.get("idxErr", 0) + stats.get("proofsJudged", 0) + stats.get("injOk", 0),
            distinct_nontrivial=nontriv,
            rule="behaviours = joint L1/L2 histories: every reachable history of BridgeAPI.tla under the generator configs (each TLC state is "
                 "one history; seeded sample biased to the longer ones in the quick tier) + seeded random larger histories (block gaps, up to "
                 "3 rollups); every history is replayed into fresh real stores with a snapshot of all claim-flow requests after every L1 "
                 "block; + histories with a reorg of the L1 while the service keeps running (BridgeAPIReorg.tla: the old history, Reorg on both "
                 "L1 stores, another continuation; from the model and random), a snapshot after every block and after the reorg; evaluations = HTTP answers judged by TLC (lookups + claim proofs of covering pairs + injected leaves); non-trivial = "
                 "distinct histories whose last snapshot has a lookup answered with an index and a claim proof with a non-zero sibling",
            models=[dict(cfg=m["cfg"], states=m["distinct"], transitions=m["generated"], depth=m["depth"], wall_s=m["wall_s"]) for m in mcs],
            model_invariants=["IndexSafe", "ErrorsExplained", "ClaimOK"],
            model_sensitivity="wrong variants of the spec rejected by the invariants: %s" % ", ".join(
                r for (k, _), r in zip(jobs, results) if k == "sens"),
            generators=gstats, from_model=n_model, random_histories=len(behs) - n_model,
            reorg_histories=sum(1 for b in behs if b.get("old")),
            refuted_design=keep,
            judged=stats,
            model_conformance=dict(lookup_answers_compared=compared, drift=drift),
            monitor=dict(spec=MON, tlc_runs=len(infos), wall_s=round(sum(i["wall_s"] for i in infos), 1)),
            binding_selftest=st_txt,
        )
        res.assumptions = [
            "keccak is injective and generated leaf contents are pairwise distinct (names identify hashes); the reference implementation in "
            "harness/names (plain keccak Merkle trees, Solidity leaf packing) is the ground truth for names",
            "the four stores have processed the whole history when the requests are made (the L2 bridge store may be ahead of what is verified)",
            "an L1 info leaf exists only for a new global exit root (contract behaviour; the store enforces UNIQUE on it); before the first L1 "
            "deposit the mainnet exit root is the zero hash, before the first exit root the rollup exit root is the empty-tree root",
            "an error answer of the index lookup is accepted even when a covering leaf exists (statement: 'when it cannot name a covering "
            "index it returns an error'); such answers are counted in coverage.judged.idxErrCovered",
            "a /claim-proof error for a recorded bridge and a covering leaf is a violation (the flow must yield a proof)",
        ]
    finally:
        sc.close()
    res.finish()


if __name__ == "__main__":
    V.main(body, PROP)
