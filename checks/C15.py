#!/usr/bin/env python3
"""C15 - the GER oracle injects only finalized, current, not-yet-present roots (and keeps injecting).

 (A) specs/Oracle.tla        implementation-shaped (processLatestGER with the cell blockNumToFetch; constant Rule:
                             "code" = as it is, "naive" / "proposed" = repair candidates that TLC refutes,
                             "fixed" = keep the sampled block on ErrBlockNotProcessed, reset on any other error).
                             TLC: exhaustive safety (bounded L1) for "code" and "fixed"; liveness (TLC's liveness
                             checker, weak fairness, no state constraint) on the treadmill quotient for all four rules.
 (B) harness/areas/oracle    replays TLC's edge cover (both rules) + named treadmill schedules + seeded random long
                             schedules into the real AggOracle (one real processLatestGER per tick) on the real L1-info
                             store, scripted L1 client, recording chain sender
 (C) specs/OracleTrace.tla   property monitor (safety per received call, bounded liveness per run of ticks); TLC judges
"""
import os, sys, json, random, re, shutil, tempfile
from concurrent.futures import ThreadPoolExecutor
sys.path.insert(0, os.path.join(os.path.dirname(os.path.abspath(__file__)), "..", "lib"))
import vcheck as V

PROP = "C15"
NOTE = ["-noGenerateSpecTE"]

# expected outcome of the liveness runs: fixed per spec version (they do not depend on the code under test)
LIVE_EXPECT = {
    ("treadmill", "code"): "violated",      # F3: the sampled block is never kept -> starvation behind a moving finalized head
    ("treadmill", "naive"): "violated",     # keeping the block on ErrNotFound deadlocks on a block without roots
    ("treadmill", "proposed"): "violated",  # keep on NotProcessed, leave the cell alone otherwise: NotProcessed, then NotFound on the kept block -> same deadlock
    ("treadmill", "fixed"): "holds",
    ("bounded", "code"): "holds",           # a bounded L1 ends with F = S = H and hides F3
    ("bounded", "naive"): "violated",
    ("bounded", "proposed"): "violated",
    ("bounded", "fixed"): "holds",
}


def live_run(shape, rule, sfx, sc, workers):
    cfg = "OracleLive%s%s%s.cfg" % ("" if shape == "treadmill" else "B", rule.capitalize(), sfx)
    rc, out, wall = V.run_tlc("Oracle.tla", cfg, sc, workers=workers, extra=NOTE, timeout=1200)
    st = V.parse_tlc_stats(out)
    if "Model checking completed. No error has been found." in out and rc == 0:
        got = "holds"
    elif re.search(r"Temporal propert(y|ies) .*violated", out):
        got = "violated"
    else:
        raise V.Infra("liveness run %s did not finish:\n%s" % (cfg, out[-3000:]))
    lasso = None
    if got == "violated":
        acts = re.findall(r"^State \d+: <(\w+)", out, re.M)
        back = re.search(r"Back to state (\d+)", out)
        lasso = dict(actions=acts, back_to=int(back.group(1)) if back else None, stuttering="Stuttering" in out)
    V.log("[tlc] liveness Oracle.tla/%s: %s (%d distinct states, %.1fs)" % (cfg, got, st["distinct"], wall))
    if got != LIVE_EXPECT[(shape, rule)]:
        raise V.Infra("liveness run %s: property Live %s, expected %s (spec/cfg changed?)\n%s"
                      % (cfg, got, LIVE_EXPECT[(shape, rule)], out[-3000:]))
    return dict(shape=shape, rule=rule, cfg=cfg, outcome=got, states=st["distinct"], transitions=st["generated"],
                wall_s=round(wall, 1), counterexample=lasso)


# ------------------------------------------------------------------------------------------------ behaviours

def treadmill(lag, rounds, first_leaf=1, every=2, name=None):
    """finalized head +1 per tick, syncer always `lag` blocks short, a new info leaf every `every` blocks"""
    st, g, h = [], 0, 0

    def mine():
        nonlocal g, h
        h += 1
        ls = []
        if h >= first_leaf and (h - first_leaf) % every == 0:
            g += 1
            ls = [g]
        st.append(dict(a="mine", leaves=ls))
    for _ in range(lag + 1):
        mine()
    F, S = lag + 1, 1
    st += [dict(a="fin", to=F), dict(a="sync", to=S), dict(a="tick", fail="none")]
    for _ in range(rounds):
        mine()
        F += 1
        S += 1
        st += [dict(a="fin", to=F), dict(a="sync", to=S), dict(a="tick", fail="none")]
    return dict(name=name or "treadmill-lag%d" % lag, steps=st)


def failed_commit(waiting):
    """two roots become final in one step; the store holds block 1, the COMMIT of ProcessBlock(2) fails, the oracle
    ticks before the retry (waiting: it had already sampled block 2 and was waiting for it)"""
    st = [dict(a="mine", leaves=[1]), dict(a="mine", leaves=[2]), dict(a="fin", to=2)]
    if waiting:
        st += [dict(a="tick", fail="none")]
    st += [dict(a="sync", to=2, failcommit=True), dict(a="tick", fail="none"), dict(a="tick", fail="none"),
           dict(a="sync", to=2), dict(a="tick", fail="none"), dict(a="tick", fail="none")]
    return dict(name="failed-commit-%s" % ("waiting" if waiting else "fresh"), steps=st)


def syncer_mid_read(r):
    """the store holds exactly the finalized block; while the oracle reads the store (its r-th read), the syncer commits the
    next block, which carries a newer root that is not final"""
    st = [dict(a="mine", leaves=[1]), dict(a="fin", to=1), dict(a="sync", to=1), dict(a="tick", fail="none"),
          dict(a="mine", leaves=[2]), dict(a="tick", fail="none", mid=r), dict(a="tick", fail="none"),
          dict(a="mine", leaves=[]), dict(a="mine", leaves=[3]), dict(a="fin", to=2), dict(a="sync", to=3), dict(a="tick", fail="none", mid=r),
          dict(a="tick", fail="none")]
    return dict(name="syncer-mid-read-%d" % r, steps=st)


def named_behaviours():
    return [treadmill(1, 12), treadmill(2, 16), treadmill(3, 24, every=1),
            treadmill(1, 14, first_leaf=4, name="treadmill-lag1-first-leaf-late"),
            failed_commit(False), failed_commit(True)] + [syncer_mid_read(r) for r in range(1, 16)]


def random_behaviour(rng, k):
    """a long schedule; styles: syncer lagging behind a moving finalized head, syncer ahead, anything goes"""
    style = rng.choice(["lag", "lag", "ahead", "mixed", "mixed", "follow"])
    n = rng.randrange(30, 140)
    pfail = rng.choice([0, 0, 0.05, 0.15])
    st = []
    h = f = s = 0
    nextg = 1
    leaves = []          # (blk, g) on the canonical chain
    dropped = []         # GER names of leaves lost in a reorg (may come back in a new block)
    lag = rng.randrange(1, 4)

    def mine():
        nonlocal h, nextg
        h += 1
        ls = []
        for _ in range(rng.choice([0, 0, 1, 1, 1, 2])):
            if dropped and rng.random() < 0.5:
                g = dropped.pop()
            else:
                g = nextg
                nextg += 1
            ls.append(g)
            leaves.append((h, g))
        st.append(dict(a="mine", leaves=ls))

    def tick():
        fail = "none"
        if rng.random() < pfail:
            fail = rng.choice(["l1", "sync", "isinj", "inject"])
        t = dict(a="tick", fail=fail)
        if rng.random() < 0.2:
            t["mid"] = rng.randrange(1, 14)     # the syncer processes its next block in the middle of the oracle's read
        st.append(t)
    while len(st) < n:
        if style == "follow":
            # the syncer follows the finalized head closely; now and then the COMMIT of its last block fails and the
            # block is retried after the oracle has ticked
            for _ in range(rng.choice([1, 1, 2, 3])):
                mine()
            nf = h if rng.random() < 0.8 else h - 1
            if nf > f:
                f = nf
                st.append(dict(a="fin", to=f))
            to = rng.randrange(s + 1, h + 1)
            if rng.random() < 0.35:
                st.append(dict(a="sync", to=to, failcommit=True, sparse=rng.random() < 0.3))
                s = to - 1
                tick()
                if rng.random() < 0.5:
                    tick()
            st.append(dict(a="sync", to=to, sparse=rng.random() < 0.3))
            s = to
            tick()
        elif style == "lag":
            # finalized head moves 1..2 blocks, the syncer follows `lag` short, sometimes catches up / falls back
            mine()
            if rng.random() < 0.3:
                mine()
            nf = min(h, f + rng.choice([1, 1, 2]))
            if nf > f:
                f = nf
                st.append(dict(a="fin", to=f))
            if rng.random() < 0.1:
                lag = rng.randrange(0, 4)
            ns = min(h, max(s + 1, f - lag)) if rng.random() < 0.9 else s
            if ns > s:
                if rng.random() < 0.08:
                    st.append(dict(a="sync", to=ns, failcommit=True))
                    s = ns - 1
                    tick()
                s = ns
                st.append(dict(a="sync", to=s, sparse=rng.random() < 0.3))
            tick()
            if rng.random() < 0.15:
                tick()
        else:
            r = rng.random()
            if r < 0.25 and h < 2 ** 20:
                mine()
            elif r < 0.40 and f < h:
                top = min(h, s) if style == "ahead" else h      # "ahead": the syncer stays at/above the finalized block
                if top > f:
                    f = rng.randrange(f + 1, top + 1)
                    st.append(dict(a="fin", to=f))
                else:
                    tick()
            elif r < 0.60 and s < h:
                s = h if style == "ahead" and rng.random() < 0.7 else rng.randrange(s + 1, h + 1)
                st.append(dict(a="sync", to=s, sparse=rng.random() < 0.3))
            elif r < 0.64 and f < h:
                frm = rng.randrange(f + 1, h + 1)
                for (b, g) in [x for x in leaves if x[0] >= frm]:
                    leaves.remove((b, g))
                    dropped.append(g)
                h = frm - 1
                s = min(s, h)
                st.append(dict(a="reorg", **{"from": frm}))
            elif r < 0.68 and leaves:
                st.append(dict(a="ext", g=rng.choice(leaves)[1]))
            else:
                tick()
    return dict(name="random-%s-%d" % (style, k), steps=st)


def sanitize(b):
    """replay files / TLC output -> driver input (only the fields the driver reads)"""
    keep = ("a", "leaves", "to", "from", "g", "fail", "sparse", "failcommit", "mid")
    return dict(name=b.get("name", ""), steps=[{k: v for k, v in s.items() if k in keep} for s in b["steps"]])


# ------------------------------------------------------------------------------------------------ reading traces

def split_traces(evs):
    out = []
    for e in evs:
        if e["ev"] == "cfg":
            out.append([])
        out[-1].append(e)
    return out


def tick_outcome(e):
    """recorded tick -> the model's name of the outcome"""
    for c in e["calls"]:
        if c["res"] == "err":
            return "err_" + c["dep"]
    if e["ret"] != "ok":
        return e["ret"]
    if any(c["dep"] == "inject" for c in e["calls"]):
        return "inject"
    return "present"


def drift(behs, traces):
    """conformance of the recorded ticks with the outcome / cell value the model predicted (information only)"""
    per = {}
    for b, tr in zip(behs, traces):
        rule = b.get("rule")
        if not rule:
            continue
        d = per.setdefault(rule, dict(ticks=0, differing=0, first=None))
        lines = tr[1:]
        if len(lines) != len(b["steps"]):
            raise V.Infra("trace of %s has %d lines for %d steps" % (b["name"], len(lines), len(b["steps"])))
        for s, e in zip(b["steps"], lines):
            if s["a"] != "tick":
                continue
            d["ticks"] += 1
            got = (tick_outcome(e), e["cell"])
            if got != (s["res"], s["cell"]):
                d["differing"] += 1
                if d["first"] is None:
                    d["first"] = dict(behaviour=b["name"], expected=[s["res"], s["cell"]], recorded=list(got))
    return per


def body():
    res = V.Result(PROP)
    sc = V.Scratch(PROP)
    dbdir = None
    try:
        thorough = res.tier == "thorough"
        rng = random.Random(V.seed())
        rb = V.replay_behaviours()
        sfx = "Thorough" if thorough else ""
        # (A) design: safety exhaustively for the code as it is and for the repaired rule; liveness for all four rules;
        #     behaviour export.  The TLC runs are independent: run them side by side.
        with ThreadPoolExecutor(max_workers=4) as ex:
            f_code = ex.submit(V.model_check, "Oracle.tla", "Oracle%s.cfg" % sfx, sc, 6, 1500, NOTE)
            f_fixed = ex.submit(V.model_check, "Oracle.tla", "OracleFixed%s.cfg" % sfx, sc, 6, 1500, NOTE)
            shapes = ["treadmill", "bounded"] if thorough else ["treadmill"]
            f_live = [ex.submit(live_run, sh, r, sfx, sc, 3) for sh in shapes for r in ("code", "naive", "proposed", "fixed")]
            f_gen = []
            if rb is None:
                f_gen = [ex.submit(V.export_cases, "Oracle.tla", c, sc, "CASE", 3, 1500, NOTE)
                         for c in ("OracleGen%s.cfg" % sfx, "OracleGenFixed%s.cfg" % sfx)]
            mc_code, mc_fixed = f_code.result(), f_fixed.result()
            # a design TLC must refute: GetLatestInfoUntilBlock as two separate reads with the syncer committing in between
            two_reads = V.model_counterexample("Oracle.tla", "OracleTwoReads.cfg", "SafeInject", sc, timeout=900)
            live = [f.result() for f in f_live]
            gens = [f.result() for f in f_gen]
        # behaviours
        named = named_behaviours()
        n_cover = 0
        if rb is not None:
            behs = [dict(b, name=b.get("name", "replay-%d" % i)) for i, b in enumerate(rb)]
            n_named = n_edge = 0
        else:
            edge = []
            for cases, _ in gens:
                n_cover += len(cases)
                want = (25000 if thorough else 2500)
                pick = cases if len(cases) <= want else rng.sample(cases, want)
                paths = V.drop_prefixes([[c["rule"]] + [json.dumps(s, sort_keys=True) for s in c["steps"]] for c in pick])
                edge += [dict(name="edge-%s-%d" % (p[0], i), rule=p[0], steps=[json.loads(s) for s in p[1:]])
                         for i, p in enumerate(paths)]
            rnd = [random_behaviour(rng, k) for k in range(1500 if thorough else 150)]
            behs = named + edge + rnd
            n_named, n_edge = len(named), len(edge)
        # (B) real code
        drv = V.build_driver("oracle")
        tf = sc.path("trace.ndjson")
        if os.path.isdir("/dev/shm") and os.access("/dev/shm", os.W_OK):
            dbdir = tempfile.mkdtemp(prefix="verif-%s-db-" % PROP, dir="/dev/shm")   # store files on tmpfs: no fsync cost
        # the store's constructor leaves one database handle open per store (db.RunMigrations never closes its own), so
        # a driver process replays a bounded chunk of behaviours; chunks run side by side, traces are concatenated in order
        chunks = [behs[i:i + 2000] for i in range(0, len(behs), 2000)]

        def replay(k):
            bf, of = sc.path("beh%d.json" % k), sc.path("trace%d.ndjson" % k)
            json.dump([sanitize(b) for b in chunks[k]], open(bf, "w"))
            V.run_driver(drv, ["-in", bf, "-out", of, "-workers", "4"] + (["-dbdir", dbdir] if dbdir else []))
            return of
        with ThreadPoolExecutor(max_workers=4) as ex:
            outs = list(ex.map(replay, range(len(chunks))))
        with open(tf, "w") as o:
            for of in outs:
                with open(of) as i:
                    shutil.copyfileobj(i, o)
        # (C) judge
        info = V.validate_traces("OracleTrace.tla", "OracleTrace.cfg", tf, sc)
        if not info["consumed_ok"]:
            raise V.Infra("monitor did not consume the trace:\n" + info.get("tail", ""))
        evs = V.read_ndjson(tf)
        traces = split_traces(evs)
        if len(traces) != len(behs):
            raise V.Infra("driver recorded %d traces for %d behaviours" % (len(traces), len(behs)))
        by_inv, seen = {}, set()
        for v in info["violations"]:
            by_inv[v["inv"]] = by_inv.get(v["inv"], 0) + 1
            b = behs[v["t"] - 1]
            if (v["t"], v["inv"]) in seen:      # one report per behaviour and predicate
                continue
            seen.add((v["t"], v["inv"]))
            res.add_violation("%s in behaviour %s (trace %d, line %d): %s" % (v["inv"], b["name"], v["t"], v["l"], json.dumps(v["info"])),
                              dict(behaviour=sanitize(b), violation=v))
        dr = drift(behs, traces)
        conforms = [r for r, d in sorted(dr.items()) if d["differing"] == 0]
        # binding self-tests on real recorded traces
        selftests = []
        ntick = sum(1 for e in evs if e["ev"] == "tick")
        ninj = sum(1 for e in evs if e["ev"] == "tick" for c in e["calls"] if c["dep"] == "inject" and c["res"] == "ok")
        pick = None
        for ti, tr in enumerate(traces):
            for li, e in enumerate(tr):
                if e["ev"] == "tick":
                    for ci, c in enumerate(e["calls"]):
                        if c["dep"] == "inject" and c["res"] == "ok" and c["g"] > 0:
                            mi = next((j for j, m in enumerate(tr) if m["ev"] == "mine" and c["g"] in m["leaves"]), None)
                            if mi is not None:
                                pick = (ti, li, ci, mi)
                                break
                if pick:
                    break
            if pick:
                break
        if pick is None:
            if rb is None:
                raise V.Infra("no injection recorded at all - driver is dead")
        else:
            ti, li, ci, mi = pick
            src = traces[ti]
            # 1. corrupt one recorded field: the injected root becomes another one
            m1 = json.loads(json.dumps(src))
            m1[li]["calls"][ci]["g"] += 1000
            # 2. drop one event: the block that carried the injected root
            m2 = [e for j, e in enumerate(json.loads(json.dumps(src))) if j != mi]
            for tag, mut, want in (("corrupted injected root", m1, "InjectsLatestRootAtOrBelowSampledBlock"),
                                   ("dropped mine event", m2, "InjectsLatestRootAtOrBelowSampledBlock")):
                mf = sc.path("mut.ndjson")
                V.write_ndjson(mf, mut)
                mi_ = V.validate_traces("OracleTrace.tla", "OracleTrace.cfg", mf, sc)
                if want not in [v["inv"] for v in mi_["violations"]]:
                    raise V.Infra("binding self-test failed: %s was accepted by the monitor" % tag)
                selftests.append("%s rejected: %s" % (tag, want))
        if rb is None:
            # 3. bounded liveness: the recorded treadmill with every sender call removed must be rejected
            src = traces[0]
            m3 = json.loads(json.dumps(src))
            for e in m3:
                if e["ev"] == "tick":
                    e["calls"] = [c for c in e["calls"] if c["dep"] in ("l1", "sync")]
            mf = sc.path("mut.ndjson")
            V.write_ndjson(mf, m3)
            mi_ = V.validate_traces("OracleTrace.tla", "OracleTrace.cfg", mf, sc)
            if "BoundedLiveness" not in [v["inv"] for v in mi_["violations"]]:
                raise V.Infra("binding self-test failed: a treadmill trace without any injection was accepted by the monitor")
            selftests.append("treadmill trace stripped of its injections rejected: BoundedLiveness")
        mc = mc_code if (not conforms or "code" in conforms) else mc_fixed
        samples = [sanitize(behs[0])]
        if rb is None:
            samples += [sanitize(behs[n_named + n_edge // 2]), sanitize(behs[-1])]
            samples[-1]["steps"] = samples[-1]["steps"][:40]
        res.coverage = dict(
            states=mc["distinct"], transitions=mc["generated"],
            traces_validated_against_impl=len(behs),
            samples=samples,
            exhaustive=False,
            evaluations=ntick, distinct_nontrivial=ninj,
            rule="behaviours = named treadmill schedules (finalized head +1 per tick, syncer 1/2/3 blocks short, first leaf late) + "
                 "seeded sample of the prefix-maximal paths of TLC's edge cover of Oracle.tla (Rule=code and Rule=fixed generator cfgs) + "
                 "seeded random long schedules (lagging / ahead / mixed syncer, failures of every dependency, reorgs above the finalized "
                 "block, foreign injections, sparse block storage, store commits that fail and are retried); evaluations = real processLatestGER calls judged; non-trivial = "
                 "ticks in which the real oracle injected a root",
            refuted_designs=[dict(two_reads, note="the store read in two steps (last processed block, then the newest leaf without a block "
                                  "filter): the syncer's commit in between leaks a root above the sampled block; the real code is driven "
                                  "into that interleaving by the tick parameter mid (harness/sqlfault)")],
            model=dict(spec="Oracle.tla", exhaustive=True,
                       invariants=["TypeOK", "SafeInject", "TargetFinal", "CellDead"],
                       runs=[dict(cfg=m["cfg"], states=m["distinct"], transitions=m["generated"], depth=m["depth"], wall_s=m["wall_s"])
                             for m in (mc_code, mc_fixed)],
                       constants="bounded L1 of %d blocks, <= 3 leaves (0..2 per block), 3 GER values, 1 dependency failure, 1 reorg, "
                                 "1 foreign injection; every interleaving of Mine/Finalize/Sync/SyncFail (commit of the last block fails)/Reorg/Ext/Tick" % (6 if thorough else 4)),
            liveness=dict(
                property="Live == Pending ~> (Injected \\/ ~Pending) under WF(Tick) /\\ WF(Sync), finitely many failures; "
                         "TLC liveness checker, no state constraint; treadmill = sliding-window quotient of an unbounded L1",
                runs=live,
                reading="code: violated on the treadmill (F3 starvation lasso); naive and proposed: violated (deadlock on a kept block "
                        "without roots); fixed: holds in both shapes"),
            edge_cover=dict(transitions_exported=n_cover, behaviours_replayed=n_edge,
                            note="seeded sample of the exported edge paths, prefix-maximal ones kept"),
            named_behaviours=n_named, random_behaviours=len(behs) - n_named - n_edge if rb is None else 0,
            conformance=dict(per_rule=dr, tree_conforms_to=conforms,
                             note="recorded outcome and cell value of every replayed tick compared with the model's prediction; "
                                  "information only, never a verdict"),
            monitor=dict(spec="OracleTrace.tla", events=len(evs), wall_s=info["wall_s"], violations_by_predicate=by_inv),
            binding_selftest=selftests,
        )
        res.assumptions = [
            "configured finality = FinalizedBlock; reorgs only above the finalized block; the syncer follows a reorg at once",
            "a dependency call that returns a scripted error had no effect (InjectGER that failed did not inject)",
            "a store commit is made to fail with a deferred foreign key violated by a trigger on the store's own database file "
            "(nothing of the store is replaced); the monitor counts a block as processed only when its ProcessBlock returned nil",
            "GER names: keccak(MER||RER) recomputed by the driver; a hash that is no root of the schedule is named 0 and never matches",
            "bounded liveness: an injection is demanded within 2*lag+2 consecutive failure-free ticks with a pending root and an "
            "advancing store (lag+2 plus lag for an attempt that began before the window) - see OracleTrace.tla",
            "the treadmill quotient bounds the distance between the L1 head and the slowest of finalized head / syncer / kept block "
            "by the window (4 blocks quick, 5 thorough); larger lags are covered by replayed schedules only",
        ]
    finally:
        sc.close()
        if dbdir:
            shutil.rmtree(dbdir, ignore_errors=True)
    res.finish()


if __name__ == "__main__":
    V.main(body, PROP)
