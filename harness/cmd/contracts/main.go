// Command contracts is the contract oracle (C01 C11 ground truth): the real Solidity contracts in go-ethereum's simulated
// backend against the reference implementation in harness/names and the real bridgesync / l1infotreesync processors.
package main

import (
	"verifharness/areas/contracts"
	"verifharness/cmdutil"
)

func main() { cmdutil.Main("contracts", contracts.Run) }
