// Command globalindex runs the real global-index codec and its consumers over the given triples (C19).
package main

import (
	"verifharness/areas/globalindex"
	"verifharness/cmdutil"
)

func main() { cmdutil.Main("globalindex", globalindex.Run) }
