// Command store replays Store.tla behaviours into the real SQLite stores (C01 C04 C07 C08 C11 C14).
package main

import (
	"verifharness/areas/store"
	"verifharness/cmdutil"
)

func main() { cmdutil.Main("store", store.Run) }
