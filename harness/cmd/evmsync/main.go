// Command evmsync replays behaviours of specs/EVMSync.tla into the real downloader / driver / reorg detector (C05, C06).
package main

import (
	"verifharness/areas/evmsync"
	"verifharness/cmdutil"
)

func main() { cmdutil.Main("evmsync", evmsync.Run) }
