// Command pollepoch replays behaviours into the real BlockNotifierPolling + EpochNotifierPerBlock pair (C18, composition).
package main

import (
	"verifharness/areas/pollepoch"
	"verifharness/cmdutil"
)

func main() { cmdutil.Main("pollepoch", pollepoch.Run) }
