// Command claimcall replays call trees into the real claim event handlers of the bridge syncer (C20).
package main

import (
	"verifharness/areas/claimcall"
	"verifharness/cmdutil"
)

func main() { cmdutil.Main("claimcall", claimcall.Run) }
