// Command certcommit drives certificates through the real build/sign/send/store path of the aggsender (C10).
package main

import (
	"verifharness/areas/certcommit"
	"verifharness/cmdutil"
)

func main() { cmdutil.Main("certcommit", certcommit.Run) }
