// Command lastger replays environment schedules into the real lastgersync (PP mode) stack (C16).
package main

import (
	"verifharness/areas/lastger"
	"verifharness/cmdutil"
)

func main() { cmdutil.Main("lastger", lastger.Run) }
