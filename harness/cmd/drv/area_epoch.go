package main

import "verifharness/areas/epoch"

func init() { areas["epoch"] = epoch.Run }
