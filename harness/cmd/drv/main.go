// Command drv replays TLC-generated behaviours into the real aggkit code and records ndjson traces.
//
//	drv <area> -in <behaviours.json> -out <trace.ndjson> [area flags]
package main

import (
	"fmt"
	"os"

	"github.com/agglayer/aggkit/log"
)

type areaFn func(args []string) error

var areas = map[string]areaFn{}

func main() {
	if len(os.Args) < 2 {
		fmt.Fprintln(os.Stderr, "usage: drv <area> [flags]")
		os.Exit(2)
	}
	fn, ok := areas[os.Args[1]]
	if !ok {
		fmt.Fprintf(os.Stderr, "unknown area %q\n", os.Args[1])
		os.Exit(2)
	}
	// the node's own logging is noise here; VERIF_LOG=debug turns it on (stderr)
	lvl := os.Getenv("VERIF_LOG")
	outs := []string{"stderr"}
	if lvl == "" {
		lvl, outs = "fatal", []string{"/dev/null"}
	}
	log.Init(log.Config{Environment: log.EnvironmentDevelopment, Level: lvl, Outputs: outs})
	if err := fn(os.Args[2:]); err != nil {
		fmt.Fprintf(os.Stderr, "drv %s: %v\n", os.Args[1], err)
		os.Exit(3)
	}
}
