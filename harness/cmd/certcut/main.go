// Command certcut runs the real certificate range cutting code on enumerated cases (C17).
package main

import (
	"verifharness/areas/certcut"
	"verifharness/cmdutil"
)

func main() { cmdutil.Main("certcut", certcut.Run) }
