// Command epoch replays behaviours into the real EpochNotifierPerBlock (C18).
package main

import (
	"verifharness/areas/epoch"
	"verifharness/cmdutil"
)

func main() { cmdutil.Main("epoch", epoch.Run) }
