// Command oracle replays behaviours into the real AggOracle (C15).
package main

import (
	"verifharness/areas/oracle"
	"verifharness/cmdutil"
)

func main() { cmdutil.Main("oracle", oracle.Run) }
