// Command bridgeapi replays joint L1/L2 histories into the real bridge service over real stores (C12).
package main

import (
	"verifharness/areas/bridgeapi"
	"verifharness/cmdutil"
)

func main() { cmdutil.Main("bridgeapi", bridgeapi.Run) }
