// Command aggsender replays AggSender.tla behaviours into the real certificate send path (C02 C03 C09 C13).
package main

import (
	"verifharness/areas/aggsender"
	"verifharness/cmdutil"
)

func main() { cmdutil.Main("aggsender", aggsender.Run) }
