// Package sqlfault makes chosen statements of the code under test fail - or lets the harness run something else in the
// middle of them - through SQLite's authorizer.
//
// SQL triggers cannot make a SELECT fail, the authorizer can: it is consulted while a statement is compiled (database/sql
// compiles every statement right before it runs it) and a denial makes exactly that statement fail with SQLITE_AUTH - an
// ordinary storage error for the code under test. The hook is installed on the process-wide "sqlite3" driver object
// (sql.DB.Driver() hands it out), so the stores open their files exactly as in production. State is kept per database
// file, several behaviours can run in one process.
//
// A fault position is "the r-th read of the operation" (W <= 0) or, relative to the writes of the operation, "the r-th
// read after write W-1" - reads are the column reads, UPDATEs and BEGIN of the store's own tables; in the second form, if
// fewer than r reads precede write W (INSERT/DELETE number W), write W itself is denied. Tables named verif_* (trigger
// injector) are not counted. With a position beyond the last read the COMMIT of the operation fails instead (W >= 0).
package sqlfault

import (
	"database/sql"
	"fmt"
	"strings"
	"sync"

	sqlite3 "github.com/mattn/go-sqlite3"
)

const (
	sqliteOK      = 0
	sqliteDeny    = 1
	opDelete      = 9
	opInsert      = 18
	opRead        = 20
	opTransaction = 22
	opUpdate      = 23
)

// Spec describes what happens to the next operation on a database file.
type Spec struct {
	W, R   int      // see the package comment; W = -1: reads over the whole operation, no COMMIT fallback
	Count  bool     // only count the reads
	Tables []string // reads are counted only on these tables
	Call   func()   // instead of denying the R-th read, run this once (in the goroutine that compiles the statement)
	// with Call: run it when the W-th write is compiled (W > 0, R = 0) or when the COMMIT is compiled (AtCommit)
	AtCommit bool
}

type state struct {
	Spec
	seenW, seenR int
	fired        bool
	what         string
}

var (
	mu          sync.Mutex
	armed       = map[string]*state{}
	busyTimeout int // milliseconds; 0 = leave the connection as the code under test opened it
	cacheSize   int // pages; 0 = leave it
)

func init() {
	db, err := sql.Open("sqlite3", ":memory:")
	if err != nil {
		panic(err)
	}
	drv, ok := db.Driver().(*sqlite3.SQLiteDriver)
	db.Close()
	if !ok {
		panic("sqlite3 driver object is not *sqlite3.SQLiteDriver")
	}
	prev := drv.ConnectHook
	drv.ConnectHook = func(c *sqlite3.SQLiteConn) error {
		if prev != nil {
			if err := prev(c); err != nil {
				return err
			}
		}
		mu.Lock()
		bt, cs := busyTimeout, cacheSize
		mu.Unlock()
		if cs > 0 {
			if _, err := c.Exec(fmt.Sprintf("PRAGMA cache_size = %d", cs), nil); err != nil {
				return err
			}
		}
		if bt > 0 {
			if _, err := c.Exec(fmt.Sprintf("PRAGMA busy_timeout = %d", bt), nil); err != nil {
				return err
			}
		}
		file := c.GetFilename("main")
		c.RegisterAuthorizer(func(op int, a1, a2, _ string) int { return decide(file, op, a1, a2) })
		return nil
	}
}

// BusyTimeout makes every connection opened from now on wait at most ms milliseconds for a lock (harnesses that let a
// writer run in the middle of a reader's statement; the default of 5 s only costs time).
func BusyTimeout(ms int) {
	mu.Lock()
	busyTimeout = ms
	mu.Unlock()
}

// CacheSize gives every connection opened from now on a page cache of n pages (a host short of memory): statements then
// read their pages from the file again instead of finding them cached, which is what harness/iofault needs to strike.
func CacheSize(n int) {
	mu.Lock()
	cacheSize = n
	mu.Unlock()
}

func skip(op int, a1 string) bool {
	return strings.HasPrefix(a1, "verif_") || strings.HasPrefix(a1, "sqlite_") || a1 == "c" || // "c": CTE of the trigger injector
		(op == opTransaction && a1 != "BEGIN")
}

func decide(file string, op int, a1, a2 string) int {
	mu.Lock()
	var a *state
	for p, s := range armed {
		if strings.HasSuffix(file, p) {
			a = s
			break
		}
	}
	if a == nil || a.fired {
		mu.Unlock()
		return sqliteOK
	}
	var call func()
	res := sqliteOK
	switch op {
	case opInsert, opDelete:
		if a.Count || skip(op, a1) {
			break
		}
		a.seenW++
		if a.W > 0 && a.seenW == a.W && a.Call == nil {
			a.fired, a.what = true, fmt.Sprintf("write %d (%s)", a.seenW, a1)
			res = sqliteDeny
		} else if a.W > 0 && a.seenW == a.W && a.R == 0 && !a.AtCommit {
			a.fired, a.what = true, fmt.Sprintf("before write %d (%s)", a.seenW, a1)
			call = a.Call
		}
	case opRead, opUpdate, opTransaction:
		if a.Count {
			if !skip(op, a1) {
				a.seenR++
			}
			break
		}
		if op == opTransaction && a1 == "COMMIT" && a.Call != nil && a.AtCommit {
			a.fired, a.what = true, "before commit"
			call = a.Call
			break
		}
		if a.Call != nil && (a.AtCommit || a.R == 0) {
			break
		}
		if op == opTransaction && a1 == "COMMIT" && a.W >= 0 && a.Call == nil {
			a.fired, a.what = true, "commit"
			res = sqliteDeny
			break
		}
		if skip(op, a1) {
			break
		}
		if a.Tables != nil {
			hit := false
			for _, t := range a.Tables {
				hit = hit || (op == opRead && a1 == t)
			}
			if !hit {
				break
			}
		}
		if a.W <= 0 || a.seenW == a.W-1 {
			a.seenR++
			if a.seenR == a.R {
				a.fired, a.what = true, fmt.Sprintf("read %d after write %d (%s.%s)", a.seenR, a.seenW, a1, a2)
				if a.Call != nil {
					call = a.Call
				} else {
					res = sqliteDeny
				}
			}
		}
	}
	mu.Unlock()
	if call != nil {
		call()
	}
	return res
}

// Arm sets what happens to the next operation on the database file at path.
func Arm(path string, s Spec) {
	mu.Lock()
	armed[path] = &state{Spec: s}
	mu.Unlock()
}

// Disarm reports whether (and where) something was injected, and how many reads were seen.
func Disarm(path string) (fired bool, what string, reads int) {
	mu.Lock()
	defer mu.Unlock()
	a := armed[path]
	delete(armed, path)
	if a == nil {
		return false, "", 0
	}
	return a.fired, a.what, a.seenR
}
