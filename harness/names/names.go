// Package names is the projection of DESIGN.md 3.3: it turns every 32-byte value the real code returns into a
// structural *name* that TLC can reason about, using an independent reference implementation (plain keccak Merkle
// trees, Solidity leaf packing). The Go side never judges a property: it only translates; an unknown hash gets the
// name "unk", which equals nothing in the monitors.
//
// Names (JSON objects with exactly the fields t, h, ls so that TLC compares records of one shape):
//
//	{"t":"s","h":H,"ls":[x1,x2,...]}        hash of the height-H subtree of an append-only tree whose leaves are the leaf
//	                                        atoms x1.. (in order, left aligned; h=0: the leaf value itself)
//	{"t":"u","h":H,"ls":[[pos,x],...]}      same for an updatable tree: non-empty positions (relative to the subtree) sorted
//	{"t":"z","h":H,"ls":[]}                 zeroHashes[H]
//	{"t":"unk","h":-1,"ls":[]}              anything else
package names

import (
	"encoding/binary"
	"math/big"
	"sort"
	"sync"

	"github.com/ethereum/go-ethereum/common"
	"golang.org/x/crypto/sha3"
)

const Height = 32

// Name is the structural description of a hash.
type Name struct {
	T  string `json:"t"`
	H  int    `json:"h"`
	Ls []any  `json:"ls"`
}

var Unknown = Name{T: "unk", H: -1, Ls: []any{}}

func Keccak(parts ...[]byte) common.Hash {
	h := sha3.NewLegacyKeccak256()
	for _, p := range parts {
		h.Write(p)
	}
	var out common.Hash
	copy(out[:], h.Sum(nil))
	return out
}

func node(l, r common.Hash) common.Hash { return Keccak(l[:], r[:]) }

// Zero[h] is the root of an empty subtree of height h.
var Zero = func() [Height + 1]common.Hash {
	var z [Height + 1]common.Hash
	for i := 1; i <= Height; i++ {
		z[i] = node(z[i-1], z[i-1])
	}
	return z
}()

// Dict maps hashes to names. One Dict per tree namespace is not needed: names carry no tree id, the atoms do
// (leaf atoms are unique across the run).
type Dict struct {
	mu sync.Mutex
	m  map[common.Hash]Name
	// Ambiguous is set when one hash received two different names (two atoms with equal content): an
	// infrastructure problem of the driver, reported as such.
	Ambiguous []string
}

func NewDict() *Dict {
	d := &Dict{m: map[common.Hash]Name{}}
	for h := 0; h <= Height; h++ {
		d.m[Zero[h]] = Name{T: "z", H: h, Ls: []any{}}
	}
	return d
}

func sameName(a, b Name) bool {
	if a.T != b.T || a.H != b.H || len(a.Ls) != len(b.Ls) {
		return false
	}
	ja, jb := toKey(a), toKey(b)
	return ja == jb
}

func toKey(n Name) string {
	s := n.T + ":" + big.NewInt(int64(n.H)).String()
	for _, x := range n.Ls {
		switch v := x.(type) {
		case int:
			s += "," + big.NewInt(int64(v)).String()
		case []int:
			s += ",[" + big.NewInt(int64(v[0])).String() + "=" + big.NewInt(int64(v[1])).String() + "]"
		}
	}
	return s
}

func (d *Dict) Put(h common.Hash, n Name) {
	d.mu.Lock()
	defer d.mu.Unlock()
	if old, ok := d.m[h]; ok {
		if !sameName(old, n) {
			d.Ambiguous = append(d.Ambiguous, h.Hex()+" "+toKey(old)+" vs "+toKey(n))
		}
		return
	}
	d.m[h] = n
}

// Of returns the name of h.
func (d *Dict) Of(h common.Hash) Name {
	d.mu.Lock()
	defer d.mu.Unlock()
	if n, ok := d.m[h]; ok {
		return n
	}
	return Unknown
}

// OfProof names the 32 siblings of a proof.
func (d *Dict) OfProof(p [Height]common.Hash) []Name {
	out := make([]Name, Height)
	for i := range p {
		out[i] = d.Of(p[i])
	}
	return out
}

// ---------------------------------------------------------------------------------------- append-only reference tree

// AppendTree is the reference append-only tree: it keeps every leaf (atom id + hash) and registers the names of all
// subtrees on the path of each appended leaf.
type AppendTree struct {
	d      *Dict
	atoms  []int
	hashes []common.Hash
}

func NewAppendTree(d *Dict) *AppendTree { return &AppendTree{d: d} }

func (t *AppendTree) Len() int { return len(t.atoms) }

// Truncate keeps the first n leaves (reorg).
func (t *AppendTree) Truncate(n int) {
	t.atoms = t.atoms[:n]
	t.hashes = t.hashes[:n]
}

// sub computes the hash of the subtree (h,k) over the current leaves, recursively (int is 64-bit: k<<h cannot overflow).
func (t *AppendTree) sub(h int, k int) common.Hash {
	n := len(t.hashes)
	if k<<uint(h) >= n {
		return Zero[h]
	}
	if h == 0 {
		return t.hashes[k]
	}
	return node(t.sub(h-1, 2*k), t.sub(h-1, 2*k+1))
}

// Append adds a leaf and registers names of the H+1 nodes on its path. Returns the new root.
func (t *AppendTree) Append(atom int, leaf common.Hash) common.Hash {
	t.atoms = append(t.atoms, atom)
	t.hashes = append(t.hashes, leaf)
	idx := len(t.atoms) - 1
	t.d.Put(leaf, Name{T: "s", H: 0, Ls: []any{atom}})
	var root common.Hash
	for h := 1; h <= Height; h++ {
		k := idx >> uint(h)
		hash := t.sub(h, k)
		lo := k << uint(h)
		ls := make([]any, 0, idx+1-lo)
		for i := lo; i <= idx; i++ {
			ls = append(ls, t.atoms[i])
		}
		t.d.Put(hash, Name{T: "s", H: h, Ls: ls})
		root = hash
	}
	return root
}

// Root of the first n leaves.
func (t *AppendTree) RootOf(n int) common.Hash {
	c := &AppendTree{d: t.d, atoms: t.atoms[:n], hashes: t.hashes[:n]}
	return c.sub(Height, 0)
}

// ---------------------------------------------------------------------------------------- updatable reference tree

// UpdTree is the reference updatable tree over positions 0..2^32-1 (only small positions are used).
type UpdTree struct {
	d    *Dict
	leaf map[int]struct {
		atom int
		hash common.Hash
	}
}

func NewUpdTree(d *Dict) *UpdTree {
	return &UpdTree{d: d, leaf: map[int]struct {
		atom int
		hash common.Hash
	}{}}
}

func (t *UpdTree) sub(h, k int) (common.Hash, []any) {
	lo, hi := k<<uint(h), (k+1)<<uint(h) // positions covered: [lo, hi)
	var in []int
	for p := range t.leaf {
		if p >= lo && p < hi {
			in = append(in, p)
		}
	}
	if len(in) == 0 {
		return Zero[h], nil
	}
	sort.Ints(in)
	ls := make([]any, 0, len(in))
	for _, p := range in {
		ls = append(ls, []int{p - lo, t.leaf[p].atom})
	}
	if h == 0 {
		return t.leaf[lo].hash, ls
	}
	l, _ := t.sub(h-1, 2*k)
	r, _ := t.sub(h-1, 2*k+1)
	return node(l, r), ls
}

// Set writes a leaf and registers the names on its path; returns the new root.
func (t *UpdTree) Set(pos, atom int, hash common.Hash) common.Hash {
	t.leaf[pos] = struct {
		atom int
		hash common.Hash
	}{atom, hash}
	var root common.Hash
	for h := 0; h <= Height; h++ {
		hash, ls := t.sub(h, pos>>uint(h))
		t.d.Put(hash, Name{T: "u", H: h, Ls: ls})
		root = hash
	}
	return root
}

func (t *UpdTree) Root() common.Hash { r, _ := t.sub(Height, 0); return r }

// Clone copies the tree state (for reorg bookkeeping).
func (t *UpdTree) Clone() *UpdTree {
	c := NewUpdTree(t.d)
	for k, v := range t.leaf {
		c.leaf[k] = v
	}
	return c
}

// ---------------------------------------------------------------------------------------- leaf packings (Solidity)

// BridgeLeaf is PolygonZkEVMBridgeV2.getLeafValue: keccak(leafType, originNetwork, originAddress, destinationNetwork,
// destinationAddress, amount, keccak(metadata)) with abi.encodePacked widths 1,4,20,4,20,32,32.
func BridgeLeaf(leafType uint8, origNet uint32, origAddr common.Address, destNet uint32, destAddr common.Address,
	amount *big.Int, metadata []byte) common.Hash {
	var on, dn [4]byte
	binary.BigEndian.PutUint32(on[:], origNet)
	binary.BigEndian.PutUint32(dn[:], destNet)
	var am [32]byte
	if amount != nil {
		amount.FillBytes(am[:])
	}
	mh := Keccak(metadata)
	return Keccak([]byte{leafType}, on[:], origAddr[:], dn[:], destAddr[:], am[:], mh[:])
}

// GER is keccak(mainnetExitRoot, rollupExitRoot).
func GER(mer, rer common.Hash) common.Hash { return Keccak(mer[:], rer[:]) }

// L1InfoLeaf is PolygonZkEVMGlobalExitRootV2.getLeafValue: keccak(ger, blockhash, uint64 timestamp).
func L1InfoLeaf(ger, prevBlockHash common.Hash, ts uint64) common.Hash {
	var t [8]byte
	binary.BigEndian.PutUint64(t[:], ts)
	return Keccak(ger[:], prevBlockHash[:], t[:])
}

// RootWith returns the root the tree would have after appending the given leaf hashes (nothing is registered).
func (t *AppendTree) RootWith(pending []common.Hash) common.Hash {
	c := &AppendTree{d: t.d, hashes: append(append([]common.Hash{}, t.hashes...), pending...)}
	return c.sub(Height, 0)
}

// ProofOf returns the Merkle proof (32 siblings) of leaf idx in the tree over the first n leaves.
func (t *AppendTree) ProofOf(n, idx int) [Height]common.Hash {
	c := &AppendTree{d: t.d, atoms: t.atoms[:n], hashes: t.hashes[:n]}
	var p [Height]common.Hash
	for h := 0; h < Height; h++ {
		p[h] = c.sub(h, (idx>>uint(h))^1)
	}
	return p
}

// Atoms returns the leaf atoms.
func (t *AppendTree) Atoms() []int { return append([]int{}, t.atoms...) }

// ProofOf returns the Merkle proof of position pos under the current root.
func (t *UpdTree) ProofOf(pos int) [Height]common.Hash {
	var p [Height]common.Hash
	for h := 0; h < Height; h++ {
		p[h], _ = t.sub(h, (pos>>uint(h))^1)
	}
	return p
}
