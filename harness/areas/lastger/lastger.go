// Package lastger drives the REAL lastgersync.New(..., PP) end to end (C16): real downloaderPP, real sync.EVMDriver,
// real processor on a real SQLite file, real L1-info store for the index lookup. Only the environment is scripted:
// the L2 chain behind a fake eth client (real headers, real logs with the real event signatures), and a reorg
// detector that follows the real one's contract. The replayed behaviour (an environment schedule exported by TLC from
// specs/LastGER.tla) decides at the three gates - the downloader's poll (HeaderByNumber(<finality tag>)), its
// FilterLogs call and the driver's AddBlockToTrack - which goroutine moves next, so the run is deterministic.
//
// The Go side never judges: it records what the node was shown and what it answered; specs/LastGERTrace.tla decides.
package lastger

import (
	"context"
	"database/sql"
	"encoding/json"
	"errors"
	"flag"
	"fmt"
	"math/big"
	"os"
	"path/filepath"
	"strings"
	gosync "sync"
	"time"

	"github.com/agglayer/aggkit/db"
	"github.com/agglayer/aggkit/l1infotreesync"
	"github.com/agglayer/aggkit/lastgersync"
	"github.com/agglayer/aggkit/sync"
	aggkittypes "github.com/agglayer/aggkit/types"
	"github.com/ethereum/go-ethereum/common"
	_ "github.com/mattn/go-sqlite3"

	"verifharness/tr"
)

type step struct {
	A    string    `json:"a"` // mine | reorg | poll | fetch | track | detect | restart
	K    string    `json:"k"`
	G    int       `json:"g"`
	From uint64    `json:"from"`
	Evs  []blockEv `json:"evs"`
}

type behaviour struct {
	NG    int    `json:"ng"`
	Buf   int    `json:"buf"` // DownloadBufferSize of the syncer (0 = 100)
	Lag   int    `json:"lag"` // the node's L1 info tree syncer is behind: the first Lag look-ups of every GER find nothing yet (< retry limit)
	Steps []step `json:"steps"`
	// An upgraded node: the L2 chain already has the blocks Pre (mined before the node exists in this run) and the node starts on
	// a copy of Fixture, the store file an earlier run of the repository's code left behind after it had processed exactly those
	// blocks (written with Save at the end of a run without reorgs). GerSeed fixes the GER hashes the file was written with.
	Pre     []blockEv `json:"pre"`
	Fixture string    `json:"fixture"`
	GerSeed int64     `json:"gerseed"`
	Save    string    `json:"save"`
}

const waitFor = 3 * time.Second

// fatalState collects sync.LogFatalf calls of the node (the retry handler giving up). The calling goroutine is parked
// for good: the real process would be dead.
type fatalState struct {
	mu  gosync.Mutex
	msg string
}

func (f *fatalState) get() string {
	f.mu.Lock()
	defer f.mu.Unlock()
	return f.msg
}

var fatals = &fatalState{}

type run struct {
	w      *tr.W
	b      behaviour
	dir    string
	dbPath string
	gerOf  map[int]common.Hash
	idOf   map[common.Hash]int
	l1     *l1infotreesync.L1InfoTreeSync
	c      *chain
	g      *gates
	det    *detector
	// current incarnation of the node
	cl      *client
	syncer  *lastgersync.LastGERSync
	cancel  context.CancelFunc
	done    chan struct{}
	ro      *sql.DB
	pending bool   // a reorg happened that the detector has not looked at yet
	maxTip  uint64 // highest tip shown to the node (environment assumption: forks only win when longer)
	drifts  int
	stuck   bool
	gerSeed int64
}

// Run is the driver's entry point: -in behaviours.json -out trace.ndjson
func Run(args []string) error {
	fs := flag.NewFlagSet("lastger", flag.ContinueOnError)
	in := fs.String("in", "", "behaviours json")
	out := fs.String("out", "", "trace ndjson")
	maxG := fs.Int("maxg", 6, "number of GERs prepared in the L1 info store")
	if err := fs.Parse(args); err != nil {
		return err
	}
	var bs []behaviour
	if err := tr.ReadJSON(*in, &bs); err != nil {
		return err
	}
	w, err := tr.NewW(*out)
	if err != nil {
		return err
	}
	defer w.Close()
	dir, err := os.MkdirTemp("", "verif-lastger-")
	if err != nil {
		return err
	}
	defer os.RemoveAll(dir)

	sync.LogFatalf = func(format string, a ...interface{}) {
		fatals.mu.Lock()
		if fatals.msg == "" {
			fatals.msg = fmt.Sprintf(format, a...)
		}
		fatals.mu.Unlock()
		select {} // the process would be dead
	}

	// the real L1-info store, filled once: leaf index i carries GER i (index 0 is never injected)
	type l1store struct {
		l1    *l1infotreesync.L1InfoTreeSync
		gerOf map[int]common.Hash
		idOf  map[common.Hash]int
	}
	stores := map[int64]*l1store{}
	storeFor := func(seed int64) (*l1store, error) {
		if st := stores[seed]; st != nil {
			return st, nil
		}
		l1, gerOf, err := buildL1Info(filepath.Join(dir, fmt.Sprintf("l1info-%d.sqlite", seed)), *maxG, seed)
		if err != nil {
			return nil, fmt.Errorf("l1 info store: %w", err)
		}
		idOf := map[common.Hash]int{}
		for i, h := range gerOf {
			idOf[h] = i
		}
		stores[seed] = &l1store{l1, gerOf, idOf}
		return stores[seed], nil
	}
	for i, b := range bs {
		if b.NG < 1 || b.NG > *maxG {
			return fmt.Errorf("behaviour %d: ng=%d out of range", i, b.NG)
		}
		gs := b.GerSeed
		if gs == 0 {
			gs = tr.Seed()
		}
		st, err := storeFor(gs)
		if err != nil {
			return err
		}
		r := &run{w: w, b: b, dir: dir, dbPath: filepath.Join(dir, fmt.Sprintf("lastger-%d.sqlite", i)), gerOf: st.gerOf, idOf: st.idOf, l1: st.l1, gerSeed: gs}
		if err := r.play(i); err != nil {
			return fmt.Errorf("behaviour %d: %w", i, err)
		}
		for _, suf := range []string{"", "-wal", "-shm"} {
			os.Remove(r.dbPath + suf)
		}
	}
	return nil
}

func buildL1Info(path string, n int, seed int64) (*l1infotreesync.L1InfoTreeSync, map[int]common.Hash, error) {
	l1, err := l1infotreesync.NewVerifL1InfoTreeSync(path)
	if err != nil {
		return nil, nil, err
	}
	ctx := context.Background()
	for i := 0; i <= n; i++ {
		mer := common.BigToHash(new(big.Int).SetUint64(uint64(seed)*1000003 + uint64(i)*7919 + 1))
		rer := common.BigToHash(new(big.Int).SetUint64(uint64(seed)*999983 + uint64(i)*104729 + 2))
		blk := sync.Block{Num: uint64(10 + i), Hash: common.BigToHash(new(big.Int).SetUint64(uint64(500 + i))),
			Events: []interface{}{l1infotreesync.Event{UpdateL1InfoTree: &l1infotreesync.UpdateL1InfoTree{
				BlockPosition: 0, MainnetExitRoot: mer, RollupExitRoot: rer,
				ParentHash: common.BigToHash(new(big.Int).SetUint64(uint64(400 + i))), Timestamp: uint64(1700000000 + i),
			}}}}
		if err := l1.VerifProcessBlock(ctx, blk); err != nil {
			return nil, nil, fmt.Errorf("fill leaf %d: %w", i, err)
		}
	}
	gerOf := map[int]common.Hash{}
	for i := 0; i <= n; i++ {
		leaf, err := l1.GetInfoByIndex(ctx, uint32(i))
		if err != nil {
			return nil, nil, fmt.Errorf("GetInfoByIndex(%d): %w", i, err)
		}
		back, err := l1.GetInfoByGlobalExitRoot(leaf.GlobalExitRoot)
		if err != nil || back.L1InfoTreeIndex != uint32(i) {
			return nil, nil, fmt.Errorf("L1 info store does not map GER %d back to index %d (%v)", i, i, err)
		}
		gerOf[i] = leaf.GlobalExitRoot
	}
	return l1, gerOf, nil
}

// ---------------------------------------------------------------------------------------------- node life cycle

func (r *run) start() error {
	ctx, cancel := context.WithCancel(context.Background())
	r.cl = &client{c: r.c, g: r.g, w: r.w}
	r.det.resetTracks()
	buf := r.b.Buf
	if buf <= 0 {
		buf = 100
	}
	s, err := lastgersync.New(ctx, r.dbPath, r.det, r.cl, gerAddr, &lagL1{L1InfoTreeSync: r.l1, lag: r.b.Lag, seen: map[common.Hash]int{}},
		time.Millisecond, 3, aggkittypes.LatestBlock, time.Millisecond, buf, true, lastgersync.PP)
	if err != nil {
		cancel()
		return fmt.Errorf("lastgersync.New: %w", err)
	}
	r.syncer, r.cancel, r.done = s, cancel, make(chan struct{})
	go func(done chan struct{}) {
		_ = s.Start(ctx)
		close(done)
	}(r.done)
	ro, err := sql.Open("sqlite3", fmt.Sprintf("file:%s?mode=ro&_journal_mode=WAL", r.dbPath))
	if err != nil {
		return err
	}
	r.ro = ro
	if !r.g.await(func() bool { return r.g.find("poll", "fetch") != nil }, waitFor) {
		return fmt.Errorf("the downloader did not reach its first poll (fatal=%q)", fatals.get())
	}
	return nil
}

func (r *run) stop() error {
	r.cancel()
	if fatals.get() == "" {
		select {
		case <-r.done:
		case <-time.After(waitFor):
			return errors.New("Sync did not return after cancellation")
		}
	}
	r.cl.kill()
	if r.ro != nil {
		r.ro.Close()
	}
	if fatals.get() == "" {
		// with a parked (dead) driver goroutine the handle stays open; the file is simply reopened
		if err := r.syncer.VerifClose(); err != nil {
			return fmt.Errorf("close: %w", err)
		}
	}
	fatals.mu.Lock()
	fatals.msg = ""
	fatals.mu.Unlock()
	return nil
}

// ---------------------------------------------------------------------------------------------- observation

func (r *run) blockStored(n uint64) bool {
	var k int
	if err := r.ro.QueryRow(`SELECT COUNT(*) FROM block WHERE num = ?`, n).Scan(&k); err != nil {
		return false
	}
	return k > 0
}

func (r *run) sent() int { return r.cl.hdrCalls() }

// arrivals waits until every goroutine of the node is parked at a gate or idle: the downloader at poll/fetch, and the
// driver at AddBlockToTrack if a block is left in the channel.
func (r *run) arrivals() {
	if r.stuck || fatals.get() != "" {
		return
	}
	// With a small DownloadBufferSize the downloader can also be blocked on the full block channel while the driver is
	// parked at AddBlockToTrack: then nothing moves any more although the downloader is at no gate (settled = no RPC
	// and no tracking call for 30 ms with the driver parked).
	fp, since := "", time.Now()
	ok := r.g.await(func() bool {
		if fatals.get() != "" {
			return true
		}
		if r.g.find("poll", "fetch") == nil {
			if r.g.find("track") == nil {
				return false
			}
			if now := fmt.Sprint(r.sent(), r.det.tracks()); now != fp {
				fp, since = now, time.Now()
				return false
			}
			return time.Since(since) > 30*time.Millisecond
		}
		return r.det.tracks() >= r.sent() || r.g.find("track") != nil
	}, waitFor)
	if fatals.get() != "" {
		r.w.Emit(tr.M{"ev": "fatal", "msg": fatals.get()})
		r.stuck = true
		return
	}
	if !ok {
		r.w.Emit(tr.M{"ev": "stuck", "dl": r.g.find("poll", "fetch") != nil, "sent": r.sent(), "tracks": r.det.tracks()})
		r.stuck = true
	}
}

func (r *run) atRest() bool {
	return !r.stuck && r.g.find("poll") != nil && r.g.find("track") == nil && r.det.tracks() >= r.sent()
}

// queries asks every X and records the answers together with GetLastProcessedBlock (the node is parked meanwhile)
func (r *run) queries() error {
	ctx := context.Background()
	lpb, err := r.syncer.GetLastProcessedBlock(ctx)
	if err != nil {
		return fmt.Errorf("GetLastProcessedBlock: %w", err)
	}
	ans := []tr.M{}
	for x := 0; x <= r.b.NG+1; x++ {
		info, err := r.syncer.GetFirstGERAfterL1InfoTreeIndex(ctx, uint32(x))
		switch {
		case err == nil:
			id, known := r.idOf[info.GlobalExitRoot]
			if !known {
				id = -1
			}
			ans = append(ans, tr.M{"x": x, "found": true, "g": id, "idx": info.L1InfoTreeIndex})
		case errors.Is(err, db.ErrNotFound):
			ans = append(ans, tr.M{"x": x, "found": false, "g": 0, "idx": 0})
		default:
			return fmt.Errorf("GetFirstGERAfterL1InfoTreeIndex(%d): %w", x, err)
		}
	}
	r.w.Emit(tr.M{"ev": "q", "lpb": lpb, "rest": r.atRest(), "ans": ans})
	return nil
}

// ---------------------------------------------------------------------------------------------- steps

func (r *run) mine(ev blockEv) {
	n := r.c.mine(ev)
	r.w.Emit(tr.M{"ev": "mine", "n": n, "k": ev.K, "g": ev.G})
}

func (r *run) doPoll() bool {
	w := r.g.find("poll")
	if w == nil {
		return false
	}
	if t := r.c.tip(); t > r.maxTip {
		r.maxTip = t
	}
	r.g.release(w)
	r.arrivals()
	return true
}

func (r *run) doFetch() bool {
	w := r.g.find("fetch")
	if w == nil {
		return false
	}
	r.g.release(w)
	r.arrivals()
	return true
}

func (r *run) doTrack() bool {
	w := r.g.find("track")
	if w == nil {
		return false
	}
	n := w.num
	r.g.release(w)
	// handleNewBlock: AddBlockToTrack returns, then ProcessBlock commits the block row
	ok := r.g.await(func() bool { return fatals.get() != "" || r.blockStored(n) }, waitFor)
	if !ok && !r.stuck {
		r.w.Emit(tr.M{"ev": "stuck", "dl": true, "sent": r.sent(), "tracks": r.det.tracks(), "block": n})
		r.stuck = true
	}
	r.arrivals()
	return true
}

// doDetect is one tick of the reorg detector. It is only scheduled while the driver is idle (the real detector would
// block in the notification until the driver is back in its select loop).
func (r *run) doDetect() error {
	if r.g.find("track") != nil || r.det.tracks() < r.sent() {
		return nil // not idle: treated as drift by the caller
	}
	first := r.det.firstMismatch()
	r.pending = false
	if first == 0 {
		r.w.Emit(tr.M{"ev": "detect", "notice": 0})
		return nil
	}
	select {
	case r.det.sub.ReorgedBlock <- first:
	case <-time.After(waitFor):
		r.w.Emit(tr.M{"ev": "stuck", "dl": true, "sent": r.sent(), "tracks": r.det.tracks(), "notice": first})
		r.stuck = true
		return nil
	}
	select {
	case <-r.det.sub.ReorgProcessed:
	case <-time.After(waitFor):
		return errors.New("reorg notice was taken but never acknowledged")
	}
	r.det.dropFrom(first)
	// the driver goes back to `reset:` and starts a new downloader at lastProcessed+1
	r.cl.resetHdrCalls()
	r.det.resetTracks()
	r.w.Emit(tr.M{"ev": "detect", "notice": first})
	r.arrivals()
	return nil
}

func (r *run) doRestart() error {
	if err := r.stop(); err != nil {
		return err
	}
	r.stuck = false
	r.w.Emit(tr.M{"ev": "restart"})
	return r.start()
}

func (r *run) doReorg(from uint64, evs []blockEv) error {
	old := r.c.tip()
	if from < 1 || from > old || from-1+uint64(len(evs)) <= r.maxTip || from-1+uint64(len(evs)) <= old {
		return fmt.Errorf("reorg from %d with %d blocks violates the environment assumption (tip %d, shown %d)", from, len(evs), old, r.maxTip)
	}
	r.c.fork(from)
	r.w.Emit(tr.M{"ev": "reorg", "from": from})
	for _, e := range evs {
		r.mine(e)
	}
	r.pending = true
	return nil
}

// drain lets the node run (first come first served) until it is at rest in front of its next poll
func (r *run) drain() {
	for i := 0; i < 1000 && !r.stuck; i++ {
		if r.doTrack() || r.doFetch() {
			continue
		}
		return
	}
}

func (r *run) play(id int) error {
	r.c = newChain(r.gerOf)
	r.g = newGates()
	r.det = newDetector(r.c, r.g, r.w)
	r.w.Emit(tr.M{"ev": "cfg", "id": id, "ng": r.b.NG})
	if r.b.Fixture != "" {
		// the earlier life of the node, as the property-level monitor sees it: these blocks were produced, the node was shown
		// the last of them, stopped, and is now started again (by the code under test) on the file it left behind
		for _, e := range r.b.Pre {
			r.mine(e)
		}
		r.w.Emit(tr.M{"ev": "poll", "tip": r.c.tip(), "fixture": true})
		r.maxTip = r.c.tip()
		if err := copyFile(r.b.Fixture, r.dbPath); err != nil {
			return fmt.Errorf("fixture: %w", err)
		}
		r.w.Emit(tr.M{"ev": "restart", "fixture": true})
	}
	if err := r.start(); err != nil {
		return err
	}
	if err := r.queries(); err != nil {
		return err
	}
	for _, s := range r.b.Steps {
		did := true
		switch s.A {
		case "mine":
			r.mine(blockEv{K: s.K, G: s.G})
		case "reorg":
			if err := r.doReorg(s.From, s.Evs); err != nil {
				return err
			}
		case "poll":
			did = r.doPoll()
		case "fetch":
			did = r.doFetch()
		case "track":
			did = r.doTrack()
		case "detect":
			if r.g.find("track") != nil || r.det.tracks() < r.sent() || r.stuck {
				did = false
			} else if err := r.doDetect(); err != nil {
				return err
			}
		case "restart":
			if err := r.doRestart(); err != nil {
				return err
			}
		default:
			return fmt.Errorf("unknown step %q", s.A)
		}
		if !did {
			// the node is not where the implementation-shaped spec expects it: recorded, not judged here
			r.drifts++
			r.w.Emit(tr.M{"ev": "drift", "want": s.A})
			continue
		}
		if err := r.queries(); err != nil {
			return err
		}
	}
	// final polls: the chain has stopped; the detector looks once more, then the node polls the tip twice and is left
	// to finish whatever it wants to do after each poll.
	r.drain()
	if r.pending && !r.stuck {
		if err := r.doDetect(); err != nil {
			return err
		}
		r.drain()
	}
	for i := 0; i < 2 && !r.stuck; i++ {
		r.doPoll()
		r.drain()
	}
	if err := r.queries(); err != nil {
		return err
	}
	r.w.Emit(tr.M{"ev": "end", "drifts": r.drifts})
	if r.b.Save == "" {
		return r.stop()
	}
	lpb, err := r.syncer.GetLastProcessedBlock(context.Background())
	if err != nil {
		return err
	}
	if err := r.stop(); err != nil {
		return err
	}
	return r.save(lpb)
}

// save writes the store file of a finished run (no reorgs: the block hashes in the file are those of a chain rebuilt from the
// events alone) and the description a later run needs to put a node on it.
func (r *run) save(lpb uint64) error {
	if r.c.gen != 0 || lpb != r.c.tip() {
		return fmt.Errorf("save: the run had reorgs or did not end at rest (last processed %d, tip %d)", lpb, r.c.tip())
	}
	h, err := sql.Open("sqlite3", "file:"+r.dbPath)
	if err != nil {
		return err
	}
	if _, err := h.Exec(`PRAGMA wal_checkpoint(TRUNCATE)`); err != nil {
		h.Close()
		return err
	}
	h.Close()
	if err := copyFile(r.dbPath, r.b.Save); err != nil {
		return err
	}
	pre := []blockEv{}
	for _, b := range r.c.blocks[1:] {
		pre = append(pre, b.ev)
	}
	js, err := json.MarshalIndent(tr.M{"ng": r.b.NG, "gerseed": r.gerSeed, "pre": pre, "lpb": lpb, "steps": r.b.Steps}, "", " ")
	if err != nil {
		return err
	}
	return os.WriteFile(strings.TrimSuffix(r.b.Save, ".sqlite")+".json", js, 0o644)
}

func copyFile(from, to string) error {
	b, err := os.ReadFile(from)
	if err != nil {
		return err
	}
	return os.WriteFile(to, b, 0o600)
}

// lagL1 is the node's L1 info tree syncer seen while it is still catching up: a GER is found only from the (lag+1)-th
// look-up on (the leaf exists on L1; the syncer has not stored it yet).
type lagL1 struct {
	*l1infotreesync.L1InfoTreeSync
	mu   gosync.Mutex
	lag  int
	seen map[common.Hash]int
}

func (l *lagL1) GetInfoByGlobalExitRoot(ger common.Hash) (*l1infotreesync.L1InfoTreeLeaf, error) {
	l.mu.Lock()
	n := l.seen[ger]
	l.seen[ger] = n + 1
	l.mu.Unlock()
	if n < l.lag {
		return nil, db.ErrNotFound
	}
	return l.L1InfoTreeSync.GetInfoByGlobalExitRoot(ger)
}
