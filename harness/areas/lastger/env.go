package lastger

import (
	"context"
	"errors"
	"fmt"
	"math/big"
	"sync"
	"time"

	"github.com/agglayer/aggkit/reorgdetector"
	aggkittypes "github.com/agglayer/aggkit/types"
	"github.com/ethereum/go-ethereum"
	"github.com/ethereum/go-ethereum/common"
	"github.com/ethereum/go-ethereum/core/types"
	"github.com/ethereum/go-ethereum/crypto"

	"verifharness/tr"
)

// ---------------------------------------------------------------------------------------------- gates

// A gate turns a call of the node into a scheduling point: the calling goroutine parks until the scheduler (the
// replayed behaviour) releases it, or until its own context is cancelled.
type waiter struct {
	kind string // "poll" | "fetch" | "track"
	ctx  context.Context
	rel  chan struct{}
	num  uint64 // track: block number
}

type gates struct {
	mu  sync.Mutex
	ws  []*waiter
	sig chan struct{}
}

func newGates() *gates { return &gates{sig: make(chan struct{}, 1)} }

func (g *gates) signal() {
	select {
	case g.sig <- struct{}{}:
	default:
	}
}

func (g *gates) park(ctx context.Context, kind string, num uint64) error {
	w := &waiter{kind: kind, ctx: ctx, rel: make(chan struct{}), num: num}
	g.mu.Lock()
	g.ws = append(g.ws, w)
	g.mu.Unlock()
	g.signal()
	select {
	case <-w.rel:
		if ctx.Err() != nil {
			return ctx.Err()
		}
		return nil
	case <-ctx.Done():
		g.remove(w)
		g.signal()
		return ctx.Err()
	}
}

func (g *gates) remove(w *waiter) {
	g.mu.Lock()
	defer g.mu.Unlock()
	for i, x := range g.ws {
		if x == w {
			g.ws = append(g.ws[:i], g.ws[i+1:]...)
			return
		}
	}
}

// find returns the live waiter of one of the kinds (nil if none)
func (g *gates) find(kinds ...string) *waiter {
	g.mu.Lock()
	defer g.mu.Unlock()
	for _, w := range g.ws {
		if w.ctx.Err() != nil {
			continue
		}
		for _, k := range kinds {
			if w.kind == k {
				return w
			}
		}
	}
	return nil
}

func (g *gates) release(w *waiter) {
	g.remove(w)
	close(w.rel)
}

// await waits until pred holds (re-evaluated on every gate signal and every millisecond)
func (g *gates) await(pred func() bool, timeout time.Duration) bool {
	deadline := time.Now().Add(timeout)
	for {
		if pred() {
			return true
		}
		if time.Now().After(deadline) {
			return false
		}
		select {
		case <-g.sig:
		case <-time.After(time.Millisecond):
		}
	}
}

// ---------------------------------------------------------------------------------------------- fake L2 chain

var (
	gerAddr      = common.HexToAddress("0xa40d5f56745a118d0906a34e69aec8c0db1cb8fa")
	otherAddr    = common.HexToAddress("0x00000000000000000000000000000000000000aa")
	insertSig    = crypto.Keccak256Hash([]byte("UpdateHashChainValue(bytes32,bytes32)"))
	removeSig    = crypto.Keccak256Hash([]byte("UpdateRemovalHashChainValue(bytes32,bytes32)"))
	unrelatedSig = crypto.Keccak256Hash([]byte("Unrelated(bytes32)"))
	chainID      = big.NewInt(1001)
)

type blockEv struct {
	K string `json:"k"` // none | ins | rem
	G int    `json:"g"`
}

type block struct {
	hdr *types.Header
	ev  blockEv
}

// chain is the scripted L2: real headers (genuine hashes and parent hashes), one optional GER event per block.
type chain struct {
	mu     sync.Mutex
	blocks []*block // blocks[0] = genesis
	gen    uint64   // fork generation, part of the header so that forks differ
	gers   map[int]common.Hash
	ins    common.Hash // running insert hash chain (cosmetic, second indexed topic)
}

func newChain(gers map[int]common.Hash) *chain {
	c := &chain{gers: gers}
	c.blocks = []*block{{hdr: &types.Header{Number: big.NewInt(0), Time: 1000, Difficulty: big.NewInt(0), Extra: []byte("genesis")}}}
	return c
}

func (c *chain) tip() uint64 { return uint64(len(c.blocks) - 1) }

func (c *chain) mine(ev blockEv) uint64 {
	c.mu.Lock()
	defer c.mu.Unlock()
	parent := c.blocks[len(c.blocks)-1].hdr
	n := uint64(len(c.blocks))
	h := &types.Header{
		Number:     new(big.Int).SetUint64(n),
		ParentHash: parent.Hash(),
		Time:       1000 + n,
		Difficulty: big.NewInt(0),
		Extra:      []byte(fmt.Sprintf("fork-%d", c.gen)),
	}
	c.blocks = append(c.blocks, &block{hdr: h, ev: ev})
	return n
}

// fork drops the blocks >= from; the blocks mined afterwards belong to a new fork generation
func (c *chain) fork(from uint64) {
	c.mu.Lock()
	defer c.mu.Unlock()
	c.blocks = c.blocks[:from]
	c.gen++
}

func (c *chain) header(n uint64) *types.Header {
	c.mu.Lock()
	defer c.mu.Unlock()
	if n >= uint64(len(c.blocks)) {
		return nil
	}
	return types.CopyHeader(c.blocks[n].hdr)
}

func (c *chain) hash(n uint64) (common.Hash, bool) {
	h := c.header(n)
	if h == nil {
		return common.Hash{}, false
	}
	return h.Hash(), true
}

// logs returns what eth_getLogs returns for [from,to] and the addresses asked for: the GER manager's events as real
// types.Log entries (real signatures, indexed topics), plus - as on a real chain - an event of the same contract that
// the node does not watch and an event of another contract, which the node has to ignore.
func (c *chain) logs(from, to uint64, addrs []common.Address) []types.Log {
	c.mu.Lock()
	defer c.mu.Unlock()
	want := func(a common.Address) bool {
		if len(addrs) == 0 {
			return true
		}
		for _, x := range addrs {
			if x == a {
				return true
			}
		}
		return false
	}
	var out []types.Log
	for n := from; n <= to && n < uint64(len(c.blocks)); n++ {
		b := c.blocks[n]
		bh := b.hdr.Hash()
		mk := func(addr common.Address, idx uint, topics ...common.Hash) {
			if !want(addr) {
				return
			}
			out = append(out, types.Log{
				Address: addr, Topics: topics, Data: nil, BlockNumber: n, BlockHash: bh,
				TxHash: crypto.Keccak256Hash(bh[:], []byte{byte(idx)}), TxIndex: idx, Index: idx,
			})
		}
		mk(otherAddr, 0, insertSig, c.gers[1], bh) // another contract emitting the same signature
		switch b.ev.K {
		case "ins":
			mk(gerAddr, 1, insertSig, c.gers[b.ev.G], crypto.Keccak256Hash(bh[:], []byte("ins")))
		case "rem":
			mk(gerAddr, 1, removeSig, c.gers[b.ev.G], crypto.Keccak256Hash(bh[:], []byte("rem")))
		default:
			if n%2 == 0 {
				mk(gerAddr, 1, unrelatedSig, bh) // an event of the GER manager that is not watched
			}
		}
	}
	return out
}

// ---------------------------------------------------------------------------------------------- fake client

// client is one node incarnation's handle on the chain. It implements aggkittypes.BaseEthereumClienter as far as
// lastgersync (PP mode) uses it; anything else hits the embedded nil interface and panics (-> driver problem).
type client struct {
	aggkittypes.BaseEthereumClienter
	c    *chain
	g    *gates
	w    *tr.W
	mu   sync.Mutex
	dead bool
	hdrs int // numeric HeaderByNumber calls (each one is followed by exactly one block sent to the driver)
}

var errDead = context.Canceled

func (cl *client) isDead() bool {
	cl.mu.Lock()
	defer cl.mu.Unlock()
	return cl.dead
}

func (cl *client) kill() {
	cl.mu.Lock()
	cl.dead = true
	cl.mu.Unlock()
}

func (cl *client) hdrCalls() int {
	cl.mu.Lock()
	defer cl.mu.Unlock()
	return cl.hdrs
}

func (cl *client) resetHdrCalls() {
	cl.mu.Lock()
	cl.hdrs = 0
	cl.mu.Unlock()
}

func (cl *client) ChainID(ctx context.Context) (*big.Int, error) {
	return new(big.Int).Set(chainID), nil
}

func (cl *client) HeaderByNumber(ctx context.Context, number *big.Int) (*types.Header, error) {
	if cl.isDead() {
		return nil, errDead
	}
	if number == nil || number.Sign() < 0 {
		// finality tag (latest/safe/finalized/pending): this is the downloader's poll. The fake L2 has instant
		// finality for every tag, i.e. the tag that the node is configured with names the tip.
		if err := cl.g.park(ctx, "poll", 0); err != nil {
			return nil, err
		}
		if cl.isDead() {
			return nil, errDead
		}
		t := cl.c.tip()
		cl.w.Emit(tr.M{"ev": "poll", "tip": t})
		return cl.c.header(t), nil
	}
	n := number.Uint64()
	h := cl.c.header(n)
	if h == nil {
		cl.w.Emit(tr.M{"ev": "hdr", "n": n, "found": false})
		return nil, ethereum.NotFound
	}
	cl.mu.Lock()
	cl.hdrs++
	cl.mu.Unlock()
	cl.w.Emit(tr.M{"ev": "hdr", "n": n, "found": true})
	return h, nil
}

func (cl *client) FilterLogs(ctx context.Context, q ethereum.FilterQuery) ([]types.Log, error) {
	if cl.isDead() {
		return nil, errDead
	}
	if q.FromBlock == nil || q.ToBlock == nil || q.BlockHash != nil {
		return nil, errors.New("fake client: only numeric ranges are scripted")
	}
	if err := cl.g.park(ctx, "fetch", 0); err != nil {
		return nil, err
	}
	if cl.isDead() {
		return nil, errDead
	}
	from, to := q.FromBlock.Uint64(), q.ToBlock.Uint64()
	logs := cl.c.logs(from, to, q.Addresses)
	nums := []uint64{}
	for _, l := range logs {
		if len(nums) == 0 || nums[len(nums)-1] != l.BlockNumber {
			nums = append(nums, l.BlockNumber)
		}
	}
	cl.w.Emit(tr.M{"ev": "fetch", "from": from, "to": to, "nlogs": len(logs), "blocks": nums})
	return logs, nil
}

// ---------------------------------------------------------------------------------------------- fake reorg detector

// detector behaves like reorgdetector.ReorgDetector as far as a syncer can tell: it remembers the blocks the driver
// asked it to track (persisted across restarts, as the real one does in its DB), and on a tick (scheduler's "detect")
// it compares the tracked hashes with the canonical chain in ascending order, notifies the first block that differs,
// waits for the acknowledgement and drops the tracked blocks from there on. Blocks that were never tracked are never
// compared - exactly as in detectReorgInTrackedList.
type detector struct {
	c       *chain
	g       *gates
	w       *tr.W
	mu      sync.Mutex
	tracked map[uint64]common.Hash
	sub     *reorgdetector.Subscription
	ntrack  int // AddBlockToTrack calls completed for the current downloader run
}

func newDetector(c *chain, g *gates, w *tr.W) *detector {
	return &detector{c: c, g: g, w: w, tracked: map[uint64]common.Hash{},
		sub: &reorgdetector.Subscription{ReorgedBlock: make(chan uint64), ReorgProcessed: make(chan bool)}}
}

func (d *detector) Subscribe(id string) (*reorgdetector.Subscription, error) { return d.sub, nil }

func (d *detector) AddBlockToTrack(ctx context.Context, id string, num uint64, hash common.Hash) error {
	if err := d.g.park(ctx, "track", num); err != nil {
		return err
	}
	canon, _ := d.c.hash(num)
	d.mu.Lock()
	d.tracked[num] = hash
	d.ntrack++
	d.mu.Unlock()
	d.w.Emit(tr.M{"ev": "track", "n": num, "canon": canon == hash})
	return nil
}

func (d *detector) GetFinalizedBlockType() aggkittypes.BlockNumberFinality {
	return aggkittypes.FinalizedBlock
}

func (d *detector) String() string { return "verif fake reorg detector" }

func (d *detector) tracks() int {
	d.mu.Lock()
	defer d.mu.Unlock()
	return d.ntrack
}

func (d *detector) resetTracks() {
	d.mu.Lock()
	d.ntrack = 0
	d.mu.Unlock()
}

// firstMismatch returns the lowest tracked block whose hash is not the canonical one (0 = none)
func (d *detector) firstMismatch() uint64 {
	d.mu.Lock()
	defer d.mu.Unlock()
	var first uint64
	for n, h := range d.tracked {
		ch, ok := d.c.hash(n)
		if (!ok || ch != h) && (first == 0 || n < first) {
			first = n
		}
	}
	return first
}

func (d *detector) dropFrom(r uint64) {
	d.mu.Lock()
	defer d.mu.Unlock()
	for n := range d.tracked {
		if n >= r {
			delete(d.tracked, n)
		}
	}
}
