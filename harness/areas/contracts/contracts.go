// Package contracts is the contract oracle of DESIGN.md 3.3: it closes the chain
//
//	real Solidity contract = reference implementation (harness/names) = name = node's answer
//
// for C01 (exit tree of the bridge contract) and C11 (L1 info tree of the global exit root contract, rollup exit tree of
// the rollup manager).  In go-ethereum's in-process simulated backend it deploys the contracts the repository's own tests
// deploy (PolygonZkEVMBridgeV2 behind a TransparentUpgradeableProxy, PolygonZkEVMGlobalExitRootV2, VerifyBatchesMock),
// sends seeded transactions to them, reads the contracts' own answers (getRoot, depositCount, getLeafValue,
// getLastGlobalExitRoot, globalExitRootMap, getRollupExitRoot) and feeds the emitted logs - downloaded and converted by
// the REAL sync.EVMDownloaderImplementation with the REAL appenders of bridgesync / l1infotreesync - to the REAL
// processors.  Every 32-byte value is translated to a name with dictionaries that are filled ONLY by the reference
// implementation from the inputs the driver generated (never from contract or node output).  A contract value that
// carries the structural name the monitor expects therefore proves "contract = reference"; a node value carrying the same
// name proves "node = contract".  The Go side never judges: specs/ContractTrace.tla does.
//
// Two kinds of environment (one trace each, started by a "cfg" line):
//
//	bridge  bridge proxy (seeded network id) + GER contract whose bridgeAddress is that proxy + VerifyBatchesMock as rollup
//	        manager.  Steps: bridgeAsset (native token) / bridgeMessage with seeded field classes, with and without
//	        forceUpdateGlobalExitRoot (the forced ones make the bridge contract itself push its root into the GER contract,
//	        so the L1 info leaves of this environment carry the real mainnet exit roots).  Then pure getLeafValue calls for
//	        field combinations that cannot be sent.
//	l1      GER contract whose bridgeAddress is an EOA (as in l1infotreesync/e2e_test.go) + VerifyBatchesMock.  Steps:
//	        updateExitRoot by the bridge-address caller (fresh / zero / repeated values), verifyBatches and
//	        verifyBatchesTrustedAggregator on the mock for rollups 1..3 with and without updateGER (fresh / unchanged /
//	        shared-between-rollups / initial-zero exit roots; never zero after non-zero, where mock and property differ; never
//	        back to an earlier tree state, which is known finding F5).
//
// Trace lines: see specs/ContractTrace.tla.
package contracts

import (
	"context"
	"crypto/ecdsa"
	"errors"
	"flag"
	"fmt"
	"math/big"
	"math/rand"
	"os"
	"path/filepath"
	"sort"
	"strings"
	"time"

	"github.com/0xPolygon/cdk-contracts-tooling/contracts/pp/l2-sovereign-chain/polygonzkevmbridgev2"
	"github.com/0xPolygon/cdk-contracts-tooling/contracts/pp/l2-sovereign-chain/polygonzkevmglobalexitrootv2"
	"github.com/agglayer/aggkit/bridgesync"
	"github.com/agglayer/aggkit/l1infotreesync"
	"github.com/agglayer/aggkit/reorgdetector"
	aggsync "github.com/agglayer/aggkit/sync"
	"github.com/agglayer/aggkit/test/contracts/transparentupgradableproxy"
	"github.com/agglayer/aggkit/test/contracts/verifybatchesmock"
	aggkittypes "github.com/agglayer/aggkit/types"
	"github.com/ethereum/go-ethereum/accounts/abi/bind"
	"github.com/ethereum/go-ethereum/common"
	"github.com/ethereum/go-ethereum/core/types"
	"github.com/ethereum/go-ethereum/crypto"
	"github.com/ethereum/go-ethereum/ethclient/simulated"

	"verifharness/names"
	"verifharness/tr"
)

const (
	chainID       = 1337
	blockGasLimit = uint64(999999999999999999) // as test/helpers/simulated.go
	txGas         = uint64(3_000_000)
	extraAtom0    = 1000 // atoms of the pure getLeafValue cases: extraAtom0+k
)

// Run: drv_contracts -out trace.ndjson [-deposits N] [-cases K] [-l1steps N] [-envs E] [-parts bridge,l1]
func Run(args []string) (err error) {
	defer func() {
		if r := recover(); r != nil {
			err = fmt.Errorf("panic: %v", r)
		}
	}()
	fs := flag.NewFlagSet("contracts", flag.ContinueOnError)
	out := fs.String("out", "", "trace ndjson")
	nDep := fs.Int("deposits", 12, "deposits sent to the bridge contract (over all bridge environments)")
	nCases := fs.Int("cases", 12, "pure getLeafValue cases with unsendable field combinations")
	nL1 := fs.Int("l1steps", 24, "exit-root update steps in the l1 environment")
	nEnvs := fs.Int("envs", 2, "bridge environments (the first has network id 0, the others a seeded non-zero id)")
	parts := fs.String("parts", "bridge,l1", "which environments to run")
	if err := fs.Parse(args); err != nil {
		return err
	}
	w, err := tr.NewW(*out)
	if err != nil {
		return err
	}
	defer w.Close()
	dir, err := os.MkdirTemp("", "verif-contracts-")
	if err != nil {
		return err
	}
	defer os.RemoveAll(dir)
	rng := rand.New(rand.NewSource(tr.Seed()))
	t := 0
	for e := 0; e < *nEnvs && strings.Contains(*parts, "bridge"); e++ {
		// the first environment gets the larger share (thorough: 36 of 60 deposits, past the 2^5 carry boundary)
		n, c := *nDep / *nEnvs, *nCases / *nEnvs
		if *nEnvs == 2 {
			n = *nDep * 2 / 5
		}
		if e == 0 {
			n, c = *nDep-n*(*nEnvs-1), *nCases-c*(*nEnvs-1)
		}
		netID := uint32(0)
		if e > 0 {
			netID = []uint32{1, 2, 7, 0x7fffffff, 0xfffffffe}[rng.Intn(5)]
		}
		t++
		if err := runBridgeEnv(w, rng, filepath.Join(dir, fmt.Sprintf("b%d", e)), t, netID, n, c); err != nil {
			return fmt.Errorf("bridge environment %d (network %d): %w", e, netID, err)
		}
	}
	if strings.Contains(*parts, "l1") {
		t++
		if err := runL1Env(w, rng, filepath.Join(dir, "l1"), t, *nL1); err != nil {
			return fmt.Errorf("l1 environment: %w", err)
		}
	}
	return nil
}

// ------------------------------------------------------------------------------------------------------ chain

// ethClient is the simulated client plus the no-op debug_traceTransaction the repository's e2e helpers use
// (bridgesync's appender then takes the bridge call itself as the root call).
type ethClient struct {
	simulated.Client
	*aggkittypes.NoopRPCClient
}

type world struct {
	ctx   context.Context
	be    *simulated.Backend
	cl    *ethClient
	dep   *bind.TransactOpts // deployer, admin of the proxy (cannot call through it)
	user  *bind.TransactOpts // sender of every step
	rng   *rand.Rand
	w     *tr.W
	dir   string
	nonce uint64 // next nonce of user

	netID      uint32
	bridgeAddr common.Address
	bridge     *polygonzkevmbridgev2.Polygonzkevmbridgev2
	gerAddr    common.Address
	ger        *polygonzkevmglobalexitrootv2.Polygonzkevmglobalexitrootv2
	mockAddr   common.Address
	mock       *verifybatchesmock.Verifybatchesmock

	l1 *l1side
}

func seededKey(r *rand.Rand) *ecdsa.PrivateKey {
	for {
		b := make([]byte, 32)
		r.Read(b)
		if k, err := crypto.ToECDSA(b); err == nil {
			return k
		}
	}
}

func pow2(n uint) *big.Int { return new(big.Int).Lsh(big.NewInt(1), n) }

func newWorld(w *tr.W, rng *rand.Rand, dir string) (*world, error) {
	if err := os.MkdirAll(dir, 0o755); err != nil {
		return nil, err
	}
	dk, uk := seededKey(rng), seededKey(rng)
	dep, err := bind.NewKeyedTransactorWithChainID(dk, big.NewInt(chainID))
	if err != nil {
		return nil, err
	}
	user, err := bind.NewKeyedTransactorWithChainID(uk, big.NewInt(chainID))
	if err != nil {
		return nil, err
	}
	alloc := types.GenesisAlloc{
		dep.From:  {Balance: pow2(100)},
		user.From: {Balance: pow2(255)}, // msg.value is the deposit amount: large amounts need a large balance
	}
	be := simulated.NewBackend(alloc, simulated.WithBlockGasLimit(blockGasLimit))
	be.Commit()
	return &world{ctx: context.Background(), be: be, cl: &ethClient{Client: be.Client(), NoopRPCClient: &aggkittypes.NoopRPCClient{}},
		dep: dep, user: user, rng: rng, w: w, dir: dir}, nil
}

func (o *world) close() {
	if o.l1 != nil && o.l1.node != nil {
		o.l1.node.VerifClose()
	}
	o.be.Close()
}

// pooled waits until the pool has promoted the account's transactions up to nonce (the simulated backend adds
// transactions asynchronously; a block sealed before the promotion would miss them, and the pending nonce would lag).
func (o *world) pooled(from common.Address, nonce uint64) error {
	deadline := time.Now().Add(20 * time.Second)
	for {
		n, err := o.cl.PendingNonceAt(o.ctx, from)
		if err != nil {
			return err
		}
		if n > nonce {
			return nil
		}
		if time.Now().After(deadline) {
			return fmt.Errorf("transaction with nonce %d of %s never became pending", nonce, from)
		}
		time.Sleep(100 * time.Microsecond)
	}
}

// adjustTime seals an empty block with a later timestamp.  The backend refuses while the pool still lists the
// transactions of the block sealed just before (its reset runs in the background): retry, the refusal has no effect.
func (o *world) adjustTime(d time.Duration) error {
	deadline := time.Now().Add(20 * time.Second)
	for {
		err := o.be.AdjustTime(d)
		if err == nil || !strings.Contains(err.Error(), "non-empty block") || time.Now().After(deadline) {
			return err
		}
		time.Sleep(200 * time.Microsecond)
	}
}

// mined seals a block and requires that every given transaction is in it and succeeded.
func (o *world) mined(what string, txs ...*types.Transaction) (*types.Header, []*types.Receipt, error) {
	for _, tx := range txs {
		from, err := types.Sender(types.LatestSignerForChainID(big.NewInt(chainID)), tx)
		if err != nil {
			return nil, nil, err
		}
		if err := o.pooled(from, tx.Nonce()); err != nil {
			return nil, nil, fmt.Errorf("%s: %w", what, err)
		}
	}
	o.be.Commit()
	var rs []*types.Receipt
	for _, tx := range txs {
		r, err := o.cl.TransactionReceipt(o.ctx, tx.Hash())
		if err != nil {
			return nil, nil, fmt.Errorf("%s: receipt: %w", what, err)
		}
		if r.Status != types.ReceiptStatusSuccessful {
			return nil, nil, fmt.Errorf("%s: transaction %s reverted (block %d)", what, tx.Hash(), r.BlockNumber)
		}
		rs = append(rs, r)
	}
	h, err := o.cl.HeaderByNumber(o.ctx, nil)
	if err != nil {
		return nil, nil, err
	}
	for _, r := range rs {
		if r.BlockNumber.Uint64() != h.Number.Uint64() {
			return nil, nil, fmt.Errorf("%s: transactions spread over several blocks", what)
		}
	}
	return h, rs, nil
}

// deploy: [bridge implementation, bridge proxy,] VerifyBatchesMock, GER contract.  withBridge: the GER contract's
// bridgeAddress is the proxy; otherwise it is the user EOA (the bridge-address caller of the l1 environment).
func (o *world) deploy(withBridge bool, netID uint32) error {
	nonce, err := o.cl.PendingNonceAt(o.ctx, o.dep.From)
	if err != nil {
		return err
	}
	o.netID = netID
	nDeploys := uint64(2)
	if withBridge {
		nDeploys = 4
	}
	gerAddr := crypto.CreateAddress(o.dep.From, nonce+nDeploys-1)
	bridgeCaller := o.user.From
	if withBridge {
		implAddr, tx1, _, err := polygonzkevmbridgev2.DeployPolygonzkevmbridgev2(o.dep, o.cl)
		if err != nil {
			return fmt.Errorf("deploy PolygonZkEVMBridgeV2: %w", err)
		}
		if _, _, err := o.mined("bridge implementation", tx1); err != nil {
			return err
		}
		abi, err := polygonzkevmbridgev2.Polygonzkevmbridgev2MetaData.GetAbi()
		if err != nil {
			return err
		}
		init, err := abi.Pack("initialize", netID, common.Address{}, uint32(0), gerAddr, common.Address{}, []byte{})
		if err != nil {
			return err
		}
		proxyAddr, tx2, _, err := transparentupgradableproxy.DeployTransparentupgradableproxy(o.dep, o.cl, implAddr, o.dep.From, init)
		if err != nil {
			return fmt.Errorf("deploy TransparentUpgradeableProxy: %w", err)
		}
		if _, _, err := o.mined("bridge proxy", tx2); err != nil {
			return err
		}
		o.bridgeAddr = proxyAddr
		if o.bridge, err = polygonzkevmbridgev2.NewPolygonzkevmbridgev2(proxyAddr, o.cl); err != nil {
			return err
		}
		bridgeCaller = proxyAddr
	}
	mockAddr, tx3, mock, err := verifybatchesmock.DeployVerifybatchesmock(o.dep, o.cl, gerAddr)
	if err != nil {
		return fmt.Errorf("deploy VerifyBatchesMock: %w", err)
	}
	if _, _, err := o.mined("mock", tx3); err != nil {
		return err
	}
	gotGer, tx4, ger, err := polygonzkevmglobalexitrootv2.DeployPolygonzkevmglobalexitrootv2(o.dep, o.cl, mockAddr, bridgeCaller)
	if err != nil {
		return fmt.Errorf("deploy PolygonZkEVMGlobalExitRootV2: %w", err)
	}
	if _, _, err := o.mined("ger", tx4); err != nil {
		return err
	}
	if gotGer != gerAddr {
		return fmt.Errorf("GER contract at %s, precalculated %s", gotGer, gerAddr)
	}
	o.mockAddr, o.mock, o.gerAddr, o.ger = mockAddr, mock, gerAddr, ger
	if withBridge {
		a, err := o.bridge.GlobalExitRootManager(nil)
		if err != nil || a != gerAddr {
			return fmt.Errorf("bridge.globalExitRootManager = %s (%v), want %s", a, err, gerAddr)
		}
		if id, err := o.bridge.NetworkID(nil); err != nil || id != netID {
			return fmt.Errorf("bridge.networkID = %d (%v), want %d", id, err, netID)
		}
	}
	return nil
}

// txOpts: the user's transaction options with an explicit nonce (the pool adds transactions asynchronously, so the
// pending nonce it reports can lag behind; the previous transaction is awaited first so that this one is not parked in
// the pool's queue) and a fixed gas limit (no estimation against a cached pending block).
func (o *world) txOpts(value *big.Int) *bind.TransactOpts {
	c := *o.user
	c.Value = value
	c.GasLimit = txGas
	if o.nonce > 0 {
		if err := o.pooled(o.user.From, o.nonce-1); err != nil {
			panic(err) // reported as a driver problem by the deferred handler in Run
		}
	}
	c.Nonce = new(big.Int).SetUint64(o.nonce)
	o.nonce++
	return &c
}

func hx(h common.Hash) string { return h.Hex() }

func classify(err error) string {
	switch {
	case err == nil:
		return "ok"
	case errors.Is(err, aggsync.ErrInconsistentState):
		return "incons"
	default:
		if s := err.Error(); strings.Contains(s, "not found") || strings.Contains(s, "no rows") {
			return "notfound"
		}
		return "err"
	}
}

func newDownloader(id string, cl aggkittypes.BaseEthereumClienter, app aggsync.LogAppenderMap, addrs []common.Address,
) *aggsync.EVMDownloaderImplementation {
	return aggsync.NewEVMDownloaderImplementation(id, cl, nil, time.Millisecond, app, addrs,
		&aggsync.RetryHandler{MaxRetryAttemptsAfterError: 1, RetryAfterErrorPeriod: time.Millisecond}, nil)
}

// ------------------------------------------------------------------------------------------------------ L1 side

// l1side is what both environments share: the GER contract + mock, the reference L1 info tree / rollup exit tree, and
// the real l1infotreesync processor fed by the real downloader.
type l1side struct {
	o     *world
	dict  *names.Dict                // L1 info tree nodes and leaves
	gers  map[common.Hash]names.Name // global exit roots (own namespace: keccak(0,0) is both a GER and a zero subtree)
	ref   *names.AppendTree
	udict *names.Dict // rollup exit tree
	uref  *names.UpdTree
	ust   map[int]int         // reference state of the rollup exit tree: rollup id -> exit root atom (property semantics)
	exit  map[int]common.Hash // exit root atom -> value (0 = zero hash)
	mer   common.Hash         // reference lastMainnetExitRoot
	rer   common.Hash         // reference lastRollupExitRoot
	seenG map[common.Hash]bool
	nI    int // reference leaf count
	node  *l1infotreesync.L1InfoTreeSync
	dl    *aggsync.EVMDownloaderImplementation
	nRoll int
	// block of the first GER / rollup manager event of the history (0 = none yet)
	firstEvent uint64
}

func newL1Side(o *world) (*l1side, error) {
	d, ud := names.NewDict(), names.NewDict()
	s := &l1side{o: o, dict: d, ref: names.NewAppendTree(d), udict: ud, uref: names.NewUpdTree(ud), ust: map[int]int{},
		exit: map[int]common.Hash{0: {}}, seenG: map[common.Hash]bool{}, gers: map[common.Hash]names.Name{}}
	n, err := l1infotreesync.NewVerifL1InfoTreeSync(filepath.Join(o.dir, "l1info.sqlite"))
	if err != nil {
		return nil, err
	}
	s.node = n
	app, err := l1infotreesync.VerifBuildAppender(o.cl, o.gerAddr, o.mockAddr)
	if err != nil {
		return nil, fmt.Errorf("l1infotreesync buildAppender: %w", err)
	}
	s.dl = newDownloader("verif-contracts-l1", o.cl, app, []common.Address{o.gerAddr, o.mockAddr})
	return s, nil
}

// gerObs is what the GER contract itself said in one transaction: its UpdateL1InfoTree / UpdateL1InfoTreeV2 logs
// (present iff the transaction added a leaf).  Contract state cannot be read between two transactions of one block
// (the simulated backend caches its pending block), so per-transaction values come from the contract's own events and
// from its per-leaf-count storage (l1InfoRootMap); getRoot()/getLastGlobalExitRoot()/getRollupExitRoot() are read after
// the block and belong to its last transaction.
type gerObs struct {
	v1 *polygonzkevmglobalexitrootv2.Polygonzkevmglobalexitrootv2UpdateL1InfoTree
	v2 *polygonzkevmglobalexitrootv2.Polygonzkevmglobalexitrootv2UpdateL1InfoTreeV2
}

func (s *l1side) observe(r *types.Receipt) gerObs {
	var g gerObs
	for _, lg := range r.Logs {
		if lg.Address != s.o.gerAddr {
			continue
		}
		if e, err := s.o.ger.ParseUpdateL1InfoTree(*lg); err == nil {
			g.v1 = e
		}
		if e, err := s.o.ger.ParseUpdateL1InfoTreeV2(*lg); err == nil {
			g.v2 = e
		}
	}
	return g
}

func (s *l1side) gerName(h common.Hash) names.Name {
	if n, ok := s.gers[h]; ok {
		return n
	}
	return names.Unknown
}

func (s *l1side) exitRoot(x int) common.Hash {
	if h, ok := s.exit[x]; ok {
		return h
	}
	var h common.Hash
	s.o.rng.Read(h[:])
	s.exit[x] = h
	return h
}

// refVerify applies a verifyBatches(rid, exit root atom x) to the reference rollup exit tree with the property's
// semantics: a zero exit root and an unchanged exit root change nothing.
func (s *l1side) refVerify(rid, x int) {
	if x == 0 || s.ust[rid] == x {
		return
	}
	s.ust[rid] = x
	s.uref.Set(rid-1, x, s.exitRoot(x))
}

// refPush is the GER contract's updateExitRoot as the reference sees it: a new leaf iff the global exit root is new.
// (parent hash and timestamp of the including block come from the simulated chain.)
func (s *l1side) refPush(h *types.Header) {
	g := names.GER(s.mer, s.rer)
	if s.seenG[g] {
		return
	}
	s.seenG[g] = true
	s.nI++
	s.gers[g] = names.Name{T: "ger", H: 0, Ls: []any{s.nI}}
	s.ref.Append(s.nI, names.L1InfoLeaf(g, h.ParentHash, h.Time))
}

// feed downloads the block's GER / rollup manager logs with the real downloader and gives them to the real processor.
func (s *l1side) feed(h *types.Header) {
	for _, b := range s.dl.GetEventsByBlockRange(s.o.ctx, h.Number.Uint64(), h.Number.Uint64()) {
		err := s.node.VerifProcessBlock(s.o.ctx, aggsync.Block{Num: b.Num, Events: b.Events, Hash: b.Hash})
		m := tr.M{"ev": "process", "tree": "l1info", "blk": b.Num, "events": len(b.Events), "res": classify(err)}
		if err != nil {
			m["err"] = err.Error()
		}
		s.o.w.Emit(m)
	}
}

// emitInfo writes the l1info line of the leaf a transaction added (g: the contract's events of that transaction).
// last: the transaction is the last one of its block, so the values read from the sealed state belong to it.
func (s *l1side) emitInfo(g gerObs, h *types.Header, last bool) error {
	if g.v2 == nil {
		return fmt.Errorf("UpdateL1InfoTree without UpdateL1InfoTreeV2 in one transaction (block %d)", h.Number)
	}
	count := g.v2.LeafCount
	i := int(count) - 1
	root := common.Hash(g.v2.CurrentL1InfoRoot)
	byCount, err := s.o.ger.L1InfoRootMap(nil, count)
	if err != nil {
		return fmt.Errorf("GER.l1InfoRootMap: %w", err)
	}
	m := tr.M{"ev": "l1info", "i": i, "contract_root": s.dict.Of(root), "contract_rootmap": s.dict.Of(byCount), "contract_leafcount": count,
		"contract_getroot_c": "skip", "contract_getroot": names.Unknown, "ger_c": "skip", "ger": names.Unknown,
		"contract_leaf_c": "skip", "contract_leaf": names.Unknown, "known": false}
	raw := tr.M{"contract_root": hx(root), "contract_rootmap": hx(byCount), "mer": hx(g.v1.MainnetExitRoot), "rer": hx(g.v1.RollupExitRoot),
		"event_blockhash": hx(common.BigToHash(g.v2.Blockhash)), "event_mintimestamp": fmt.Sprint(g.v2.MinTimestamp),
		"parent": hx(h.ParentHash), "ts": fmt.Sprint(h.Time), "blk": fmt.Sprint(h.Number)}
	if last {
		gr, err := s.o.ger.GetRoot(nil)
		if err != nil {
			return fmt.Errorf("GER.getRoot: %w", err)
		}
		lg, err := s.o.ger.GetLastGlobalExitRoot(nil)
		if err != nil {
			return fmt.Errorf("GER.getLastGlobalExitRoot: %w", err)
		}
		// the contract's own leaf packing on the contract's own global exit root, with the chain's parent hash / timestamp
		cl, err := s.o.ger.GetLeafValue(nil, lg, new(big.Int).SetBytes(h.ParentHash[:]), h.Time)
		if err != nil {
			return fmt.Errorf("GER.getLeafValue: %w", err)
		}
		m["contract_getroot_c"], m["contract_getroot"] = "ok", s.dict.Of(gr)
		m["ger_c"], m["ger"] = "ok", s.gerName(lg)
		m["contract_leaf_c"], m["contract_leaf"] = "ok", s.dict.Of(cl)
		raw["contract_getroot"], raw["ger"], raw["contract_leaf"] = hx(gr), hx(lg), hx(cl)
	}
	info, err := s.node.GetInfoByIndex(s.o.ctx, uint32(i))
	m["node_c"] = classify(err)
	m["node_leaf"], m["node_ger"] = names.Unknown, names.Unknown
	if err == nil {
		m["node_leaf"], m["node_ger"] = s.dict.Of(info.Hash), s.gerName(info.GlobalExitRoot)
		raw["node_leaf"], raw["node_ger"] = hx(info.Hash), hx(info.GlobalExitRoot)
		// does the contract know the global exit root the node stored for this leaf?
		inMap, err := s.o.ger.GlobalExitRootMap(nil, info.GlobalExitRoot)
		if err != nil {
			return fmt.Errorf("GER.globalExitRootMap: %w", err)
		}
		m["known"] = inMap.Sign() != 0
		raw["globalExitRootMap"] = inMap.String()
	}
	r, err := s.node.GetL1InfoTreeRootByIndex(s.o.ctx, uint32(i))
	m["node_root_c"] = classify(err)
	m["node_root"] = names.Unknown
	if err == nil {
		m["node_root"] = s.dict.Of(r.Hash)
		raw["node_root"] = hx(r.Hash)
	}
	m["raw"] = raw
	s.o.w.Emit(m)
	return nil
}

func (s *l1side) counts() (contract, node int, err error) {
	c, err := s.o.ger.DepositCount(nil)
	if err != nil {
		return 0, 0, err
	}
	r, err := s.node.GetLastL1InfoTreeRoot(s.o.ctx)
	switch classify(err) {
	case "ok":
		node = int(r.Index) + 1
	case "notfound":
		node = 0
	default:
		node = -1
	}
	return int(c.Uint64()), node, nil
}

func ambiguous(w *tr.W, ds ...*names.Dict) {
	for _, d := range ds {
		if len(d.Ambiguous) > 0 {
			w.Emit(tr.M{"ev": "ambiguous", "what": d.Ambiguous})
		}
	}
}

// ------------------------------------------------------------------------------------------------------ bridge environment

type deposit struct {
	leafType uint8
	destNet  uint32
	destAddr common.Address
	amount   *big.Int
	meta     []byte
	force    bool
	// what the contract derives (the reference's expectation of the leaf's origin fields)
	origNet  uint32
	origAddr common.Address
	tx       *types.Transaction
}

func randAddr(r *rand.Rand) common.Address {
	var a common.Address
	switch r.Intn(6) {
	case 0:
	case 1:
		for i := range a {
			a[i] = 0xff
		}
	default:
		r.Read(a[:])
	}
	return a
}

// blockSize: half of the blocks carry one transaction (so that the contract's state can be read after every single
// step), the others two or three (several events per block for the node).
func blockSize(r *rand.Rand, left int) int {
	k := []int{1, 1, 2, 3}[r.Intn(4)]
	if k > left {
		k = left
	}
	return k
}

// genDeposit: a deposit whose leaf content differs from every earlier one (names identify hashes only if leaf contents
// are pairwise distinct; the small classes - zero address, amount 0, no metadata - collide quickly otherwise).
func (o *world) genDeposit(seen map[common.Hash]bool) *deposit {
	for {
		d := o.genDeposit1()
		h := names.Keccak([]byte{d.leafType}, big.NewInt(int64(d.destNet)).Bytes(), d.destAddr[:], d.amount.Bytes(), []byte{0xff}, d.meta)
		if !seen[h] {
			seen[h] = true
			return d
		}
	}
}

func (o *world) genDeposit1() *deposit {
	r := o.rng
	d := &deposit{leafType: uint8(r.Intn(2)), destAddr: randAddr(r), force: r.Intn(2) == 0}
	for {
		d.destNet = []uint32{0, 1, 2, 0xffffffff, r.Uint32()}[r.Intn(5)]
		if d.destNet != o.netID { // the contract refuses its own network as destination
			break
		}
	}
	switch r.Intn(6) {
	case 0:
		d.amount = big.NewInt(0)
	case 1:
		d.amount = big.NewInt(1)
	case 2:
		d.amount = pow2(248) // largest class: the sum of all amounts stays below the sender's 2^255
	default:
		d.amount = new(big.Int).Rand(r, pow2(uint(8+r.Intn(240))))
	}
	if d.leafType == 1 {
		d.meta = make([]byte, []int{0, 1, 32, 33, 100, 4096}[r.Intn(6)])
		r.Read(d.meta)
		d.origNet, d.origAddr = o.netID, o.user.From // bridgeMessage: origin = this network, msg.sender
	} else {
		d.meta = []byte{} // native token, no gas token configured: origin network 0, address 0, empty metadata
	}
	return d
}

func runBridgeEnv(w *tr.W, rng *rand.Rand, dir string, t int, netID uint32, nDep, nCases int) error {
	o, err := newWorld(w, rng, dir)
	if err != nil {
		return err
	}
	defer o.close()
	if err := o.deploy(true, netID); err != nil {
		return err
	}
	if o.l1, err = newL1Side(o); err != nil {
		return err
	}
	w.Emit(tr.M{"ev": "cfg", "t": t, "kind": "bridge", "network": fmt.Sprint(netID), "bridge": o.bridgeAddr.Hex(), "ger": o.gerAddr.Hex(),
		"rollupmanager": o.mockAddr.Hex(), "deposits": nDep})
	dict := names.NewDict()
	ref := names.NewAppendTree(dict)
	node, err := bridgesync.NewVerifBridgeSync(filepath.Join(dir, "bridge.sqlite"), "verif_contracts_bridge", netID)
	if err != nil {
		return err
	}
	defer node.VerifClose()
	app, err := bridgesync.VerifBuildAppender(o.cl, o.bridgeAddr, false)
	if err != nil {
		return fmt.Errorf("bridgesync buildAppender: %w", err)
	}
	dl := newDownloader("verif-contracts-bridge", o.cl, app, []common.Address{o.bridgeAddr})

	sent, seenDep := 0, map[common.Hash]bool{}
	firstDep := uint64(0) // block of the first deposit
	for sent < nDep {
		if rng.Intn(3) == 0 { // sparse block numbers, varying timestamps
			if err := o.adjustTime(time.Duration(1+rng.Intn(5000)) * time.Second); err != nil {
				return fmt.Errorf("AdjustTime: %w", err)
			}
		}
		k := blockSize(rng, nDep-sent)
		var ds []*deposit
		var txs []*types.Transaction
		for j := 0; j < k; j++ {
			d := o.genDeposit(seenDep)
			if d.leafType == 0 {
				d.tx, err = o.bridge.BridgeAsset(o.txOpts(d.amount), d.destNet, d.destAddr, d.amount, common.Address{}, d.force, []byte{})
			} else {
				d.tx, err = o.bridge.BridgeMessage(o.txOpts(d.amount), d.destNet, d.destAddr, d.force, d.meta)
			}
			if err != nil {
				return fmt.Errorf("deposit %d (%+v): %w", sent+j, d, err)
			}
			ds = append(ds, d)
			txs = append(txs, d.tx)
		}
		h, rcpts, err := o.mined("deposits", txs...)
		if err != nil {
			return err
		}
		sealedRoot, err := o.bridge.GetRoot(nil)
		if err != nil {
			return fmt.Errorf("bridge.getRoot: %w", err)
		}
		sealedCount, err := o.bridge.DepositCount(nil)
		if err != nil {
			return fmt.Errorf("bridge.depositCount: %w", err)
		}
		// reference, from the generated inputs only
		for j, d := range ds {
			atom := sent + j + 1
			root := ref.Append(atom, names.BridgeLeaf(d.leafType, d.origNet, d.origAddr, d.destNet, d.destAddr, d.amount, d.meta))
			if d.force {
				o.l1.mer = root
				o.l1.refPush(h)
			}
		}
		// the node: real downloader + real appender -> real processor
		for _, b := range dl.GetEventsByBlockRange(o.ctx, h.Number.Uint64(), h.Number.Uint64()) {
			err := node.VerifProcessBlock(o.ctx, aggsync.Block{Num: b.Num, Events: b.Events, Hash: b.Hash})
			m := tr.M{"ev": "process", "tree": "bridge", "blk": b.Num, "events": len(b.Events), "res": classify(err)}
			if err != nil {
				m["err"] = err.Error()
			}
			w.Emit(m)
		}
		o.l1.feed(h)
		rows, rerr := node.GetBridges(o.ctx, h.Number.Uint64(), h.Number.Uint64())
		for j, d := range ds {
			last := j == k-1
			// the event as the contract emitted it
			var ev *polygonzkevmbridgev2.Polygonzkevmbridgev2BridgeEvent
			for _, lg := range rcpts[j].Logs {
				if lg.Address == o.bridgeAddr {
					if e, err := o.bridge.ParseBridgeEvent(*lg); err == nil {
						ev = e
					}
				}
			}
			if ev == nil {
				return fmt.Errorf("deposit %d: no BridgeEvent in the receipt", sent+j)
			}
			i := int(ev.DepositCount)
			cl, err := o.bridge.GetLeafValue(nil, ev.LeafType, ev.OriginNetwork, ev.OriginAddress, ev.DestinationNetwork,
				ev.DestinationAddress, ev.Amount, crypto.Keccak256Hash(ev.Metadata))
			if err != nil {
				return fmt.Errorf("bridge.getLeafValue: %w", err)
			}
			g := o.l1.observe(rcpts[j])
			m := tr.M{"ev": "bridge", "i": i, "contract_leaf": dict.Of(cl), "contract_root_c": "skip", "contract_root": names.Unknown,
				"contract_count": -1, "node_root": names.Unknown, "node_leaf": names.Unknown}
			raw := tr.M{"contract_leaf": hx(cl), "leafType": ev.LeafType, "originNetwork": fmt.Sprint(ev.OriginNetwork),
				"originAddress": ev.OriginAddress.Hex(), "destinationNetwork": fmt.Sprint(ev.DestinationNetwork),
				"destinationAddress": ev.DestinationAddress.Hex(), "amount": "0x" + ev.Amount.Text(16), "metadataLen": len(ev.Metadata),
				"metadataHash": crypto.Keccak256Hash(ev.Metadata).Hex(), "force": d.force, "blk": fmt.Sprint(h.Number), "tx": d.tx.Hash().Hex()}
			switch {
			case last: // getRoot() / depositCount of the sealed block belong to the block's last deposit
				m["contract_root_c"], m["contract_root"], m["contract_count"] = "getRoot", dict.Of(sealedRoot), sealedCount.Uint64()
				raw["contract_root"] = hx(sealedRoot)
			case g.v1 != nil: // the bridge contract pushed getRoot() to the GER contract, which logged it
				m["contract_root_c"], m["contract_root"] = "pushed", dict.Of(g.v1.MainnetExitRoot)
				raw["contract_root"] = hx(g.v1.MainnetExitRoot)
			}
			nr, err := node.GetExitRootByIndex(o.ctx, uint32(i))
			m["node_root_c"] = classify(err)
			if err == nil {
				m["node_root"] = dict.Of(nr.Hash)
				raw["node_root"] = hx(nr.Hash)
			}
			m["node_leaf_c"] = classify(rerr)
			if rerr == nil {
				m["node_leaf_c"] = "notfound"
				for q := range rows {
					if rows[q].DepositCount == uint32(i) {
						lh := rows[q].Hash() // the leaf value the processor puts into its exit tree
						m["node_leaf"], m["node_leaf_c"] = dict.Of(lh), "ok"
						raw["node_leaf"] = hx(lh)
					}
				}
			}
			m["raw"] = raw
			w.Emit(m)
			if g.v1 != nil {
				if err := o.l1.emitInfo(g, h, last); err != nil {
					return err
				}
			}
		}
		sent += k
		all, err := node.GetBridges(o.ctx, 0, h.Number.Uint64())
		nb := len(all)
		if err != nil {
			nb = -1
		}
		lc, ln, err := o.l1.counts()
		if err != nil {
			return err
		}
		w.Emit(tr.M{"ev": "sync", "blk": h.Number.Uint64(), "bridge_contract": sealedCount.Uint64(), "bridge_node": nb, "l1_contract": lc, "l1_node": ln})
		if firstDep == 0 && sealedCount.Uint64() > 0 {
			firstDep = h.Number.Uint64()
		}
	}
	// the whole bridge syncer as cmd/run.go builds it (bridgesync.NewL1: constructor, real downloader, real driver), started now
	// on the finished history with InitialBlockNum below the block of the first deposit ("equal or below the creation of the
	// bridge contract")
	if firstDep > 1 && sent > 0 {
		if err := secondBridge(o, dict, netID, []uint64{0, firstDep - 1}[rng.Intn(2)], firstDep, uint64(1+rng.Intn(7)), sent); err != nil {
			return err
		}
	}

	// pure getLeafValue calls: field combinations that cannot be sent as a transaction
	seenCase := map[common.Hash]bool{}
	for k := 0; k < nCases; k++ {
		r := rng
		b := &bridgesync.Bridge{LeafType: []uint8{0, 1, 2, 255}[r.Intn(4)], OriginAddress: randAddr(r), DestinationAddress: randAddr(r)}
		nets := []uint32{0, 1, 0xffffffff, r.Uint32()}
		b.OriginNetwork, b.DestinationNetwork = nets[r.Intn(4)], nets[r.Intn(4)]
		b.Metadata = make([]byte, []int{0, 1, 32, 33, 100, 4096}[r.Intn(6)])
		r.Read(b.Metadata)
		max := new(big.Int).Sub(pow2(256), big.NewInt(1))
		switch k % 4 { // every case has an unsendable feature (an amount no account can pay); the first ones are the extreme corners
		case 0:
			b.Amount = max
		case 1:
			b.Amount, b.OriginNetwork = max, 0xffffffff
			for i := range b.OriginAddress {
				b.OriginAddress[i], b.DestinationAddress[i] = 0xff, 0xff
			}
		case 2:
			b.OriginNetwork, b.DestinationNetwork, b.Amount = 0xffffffff, 0xffffffff, max
		default:
			b.Amount = new(big.Int).Add(pow2(255), new(big.Int).Rand(r, pow2(255)))
		}
		rl := names.BridgeLeaf(b.LeafType, b.OriginNetwork, b.OriginAddress, b.DestinationNetwork, b.DestinationAddress, b.Amount, b.Metadata)
		if seenCase[rl] { // same content as an earlier case (the corner cases have few free fields): draw again
			k--
			continue
		}
		seenCase[rl] = true
		atom := extraAtom0 + k
		dict.Put(rl, names.Name{T: "s", H: 0, Ls: []any{atom}})
		cv, err := o.bridge.GetLeafValue(nil, b.LeafType, b.OriginNetwork, b.OriginAddress, b.DestinationNetwork, b.DestinationAddress,
			b.Amount, crypto.Keccak256Hash(b.Metadata))
		if err != nil {
			return fmt.Errorf("bridge.getLeafValue (case %d): %w", k, err)
		}
		nv := b.Hash()
		w.Emit(tr.M{"ev": "leafvalue", "case": k, "atom": atom, "contract": dict.Of(cv), "node": dict.Of(nv),
			"raw": tr.M{"contract": hx(cv), "node": hx(nv), "leafType": b.LeafType, "originNetwork": fmt.Sprint(b.OriginNetwork),
				"originAddress": b.OriginAddress.Hex(), "destinationNetwork": fmt.Sprint(b.DestinationNetwork),
				"destinationAddress": b.DestinationAddress.Hex(), "amount": "0x" + b.Amount.Text(16), "metadataLen": len(b.Metadata)}})
	}
	ambiguous(w, dict, o.l1.dict, o.l1.udict)
	return nil
}

// ------------------------------------------------------------------------------------------------------ l1 environment

type l1step struct {
	kind string // "mer" | "verify" | "verifyTA"
	val  common.Hash
	rid  int
	x    int
	upd  bool
	tx   *types.Transaction
}

func stateKey(m map[int]int) string {
	var ks []int
	for r, x := range m {
		if x != 0 {
			ks = append(ks, r)
		}
	}
	sort.Ints(ks)
	k := ""
	for _, r := range ks {
		k += fmt.Sprintf("%d=%d,", r, m[r])
	}
	return k
}

func runL1Env(w *tr.W, rng *rand.Rand, dir string, t, nSteps int) error {
	o, err := newWorld(w, rng, dir)
	if err != nil {
		return err
	}
	defer o.close()
	if err := o.deploy(false, 0); err != nil {
		return err
	}
	s, err := newL1Side(o)
	if err != nil {
		return err
	}
	o.l1 = s
	w.Emit(tr.M{"ev": "cfg", "t": t, "kind": "l1", "ger": o.gerAddr.Hex(), "rollupmanager": o.mockAddr.Hex(), "bridgecaller": o.user.From.Hex(),
		"steps": nSteps})
	var mers []common.Hash
	nextAtom, nBatch := 1, uint64(0)
	shadow := map[int]int{} // rollup state including the steps already generated
	seen := map[string]bool{"": true}
	done := 0
	for done < nSteps {
		if rng.Intn(3) == 0 {
			if err := o.adjustTime(time.Duration(1+rng.Intn(5000)) * time.Second); err != nil {
				return fmt.Errorf("AdjustTime: %w", err)
			}
		}
		k := blockSize(rng, nSteps-done)
		var steps []*l1step
		var txs []*types.Transaction
		for j := 0; j < k; j++ {
			st := &l1step{}
			if rng.Intn(3) == 0 {
				st.kind = "mer"
				switch c := rng.Intn(5); {
				case c == 0:
					// zero mainnet exit root
				case c == 1 && len(mers) > 0:
					st.val = mers[rng.Intn(len(mers))] // repeated value: the global exit root may already be known
				default:
					rng.Read(st.val[:])
				}
				mers = append(mers, st.val)
				st.tx, err = o.ger.UpdateExitRoot(o.txOpts(nil), st.val)
			} else {
				st.kind = []string{"verify", "verifyTA"}[rng.Intn(2)]
				st.rid, st.upd = 1+rng.Intn(3), rng.Intn(3) > 0
				cur := shadow[st.rid]
				switch c := rng.Intn(6); {
				case c == 0 && cur == 0:
					st.x = 0 // initial zero exit root (never zero after non-zero: the mock would empty the leaf, the property keeps it)
				case c == 1 && cur != 0:
					st.x = cur // unchanged
				case c == 2 && nextAtom > 1:
					st.x = 1 + rng.Intn(nextAtom-1) // a value seen before, maybe at another rollup
				default:
					st.x = nextAtom
				}
				// never return the whole tree to an earlier state (known finding F5 makes the node refuse such a block)
				try := map[int]int{}
				for r, x := range shadow {
					try[r] = x
				}
				if st.x != 0 {
					try[st.rid] = st.x
				}
				if st.x != 0 && st.x != cur && seen[stateKey(try)] {
					st.x = nextAtom
					try[st.rid] = st.x
				}
				if st.x == nextAtom {
					nextAtom++
				}
				shadow = try
				seen[stateKey(shadow)] = true
				nBatch++
				var sr common.Hash
				rng.Read(sr[:])
				if st.kind == "verify" {
					st.tx, err = o.mock.VerifyBatches(o.txOpts(nil), uint32(st.rid), nBatch, s.exitRoot(st.x), sr, st.upd)
				} else {
					st.tx, err = o.mock.VerifyBatchesTrustedAggregator(o.txOpts(nil), uint32(st.rid), nBatch, s.exitRoot(st.x), sr, st.upd)
				}
			}
			if err != nil {
				return fmt.Errorf("step %d (%+v): %w", done+j, st, err)
			}
			steps = append(steps, st)
			txs = append(txs, st.tx)
		}
		h, rcpts, err := o.mined("l1 steps", txs...)
		if err != nil {
			return err
		}
		sealedRollup, err := o.mock.GetRollupExitRoot(nil)
		if err != nil {
			return fmt.Errorf("mock.getRollupExitRoot: %w", err)
		}
		// reference, from the generated inputs only
		for _, st := range steps {
			switch st.kind {
			case "mer":
				s.mer = st.val
				s.refPush(h)
			default:
				s.refVerify(st.rid, st.x)
				if st.upd {
					s.rer = s.uref.Root()
					s.refPush(h)
				}
			}
		}
		s.feed(h)
		lastRoll := -1
		for j, st := range steps {
			if st.kind != "mer" {
				lastRoll = j
			}
		}
		for j, st := range steps {
			g := s.observe(rcpts[j])
			if st.kind != "mer" {
				s.nRoll++
				m := tr.M{"ev": "rollup", "step": s.nRoll, "rid": st.rid, "x": st.x, "upd": st.upd, "ta": st.kind == "verifyTA",
					"contract_c": "skip", "contract_rer": names.Unknown, "node_c": "skip", "node_rer": names.Unknown}
				raw := tr.M{"exit_root": hx(s.exitRoot(st.x)), "blk": fmt.Sprint(h.Number)}
				switch {
				case j == lastRoll: // getRollupExitRoot() of the sealed block and the node's last root reflect the whole block
					m["contract_c"], m["contract_rer"] = "getRollupExitRoot", s.udict.Of(sealedRollup)
					raw["contract_rer"] = hx(sealedRollup)
					r, err := s.node.GetLastRollupExitRoot(o.ctx)
					m["node_c"] = classify(err)
					if err == nil {
						m["node_rer"] = s.udict.Of(r.Hash)
						raw["node_rer"] = hx(r.Hash)
					}
				case g.v1 != nil: // the mock pushed getRollupExitRoot() to the GER contract, which logged it
					m["contract_c"], m["contract_rer"] = "pushed", s.udict.Of(g.v1.RollupExitRoot)
					raw["contract_rer"] = hx(g.v1.RollupExitRoot)
				}
				m["raw"] = raw
				w.Emit(m)
			}
			if g.v1 != nil {
				if err := s.emitInfo(g, h, j == k-1); err != nil {
					return err
				}
			}
		}
		done += k
		lc, ln, err := s.counts()
		if err != nil {
			return err
		}
		w.Emit(tr.M{"ev": "sync", "blk": h.Number.Uint64(), "bridge_contract": -1, "bridge_node": -1, "l1_contract": lc, "l1_node": ln})
		if s.firstEvent == 0 && (lc > 0 || len(s.ust) > 0) {
			s.firstEvent = h.Number.Uint64()
		}
	}
	// the whole syncer as cmd/run.go builds it (l1infotreesync.New: constructor, real downloader, real driver), started now on
	// the finished history with a configured InitialBlock at or below the block of the first event
	if s.firstEvent > 0 {
		ibs := []uint64{0, s.firstEvent}
		if s.firstEvent > 1 {
			ibs = append(ibs, s.firstEvent-1)
		}
		if err := s.second(ibs[rng.Intn(len(ibs))], uint64(1+rng.Intn(7))); err != nil {
			return err
		}
	}
	ambiguous(w, s.dict, s.udict)
	return nil
}

// secondBridge starts a second bridge syncer through the real constructor, lets it sync the finished history and records the
// exit root it holds for every deposit count (judged like the first node's).
func secondBridge(o *world, dict *names.Dict, netID uint32, ib, first, chunk uint64, n int) error {
	ctx, cancel := context.WithCancel(o.ctx)
	defer cancel()
	tip, err := o.cl.BlockNumber(ctx)
	if err != nil {
		return err
	}
	n2, err := bridgesync.NewL1(ctx, filepath.Join(o.dir, "bridge-second.sqlite"), o.bridgeAddr, chunk, aggkittypes.LatestBlock, noReorgs{}, o.cl, ib,
		time.Millisecond, time.Millisecond, 5, netID, false, false)
	if err != nil {
		o.w.Emit(tr.M{"ev": "second_bridge", "ib": ib, "first": first, "chunk": chunk, "c": "error", "err": err.Error(), "roots": []tr.M{}, "n": n})
		return nil
	}
	done := make(chan struct{})
	go func() { n2.Start(ctx); close(done) }()
	synced := false
	for t0 := time.Now(); time.Since(t0) < 30*time.Second; time.Sleep(2 * time.Millisecond) {
		if lpb, err := n2.GetLastProcessedBlock(ctx); err == nil && lpb >= tip {
			synced = true
			break
		}
	}
	roots := []tr.M{}
	for i := 0; i < n; i++ {
		m := tr.M{"i": i}
		r, err := n2.GetExitRootByIndex(ctx, uint32(i))
		m["c"] = classify(err)
		if err == nil {
			m["root"] = dict.Of(r.Hash)
		}
		roots = append(roots, m)
	}
	o.w.Emit(tr.M{"ev": "second_bridge", "ib": ib, "first": first, "chunk": chunk, "c": map[bool]string{true: "ok", false: "notsynced"}[synced],
		"roots": roots, "n": n})
	cancel()
	select {
	case <-done:
	case <-time.After(5 * time.Second):
	}
	return nil
}

type noReorgs struct{}

func (noReorgs) GetLastReorgEvent(context.Context) (reorgdetector.ReorgEvent, error) {
	return reorgdetector.ReorgEvent{}, nil
}

func (noReorgs) Subscribe(string) (*reorgdetector.Subscription, error) {
	return &reorgdetector.Subscription{ReorgedBlock: make(chan uint64), ReorgProcessed: make(chan bool)}, nil
}
func (noReorgs) AddBlockToTrack(context.Context, string, uint64, common.Hash) error { return nil }
func (noReorgs) GetFinalizedBlockType() aggkittypes.BlockNumberFinality {
	return aggkittypes.LatestBlock
}
func (noReorgs) String() string { return "verif: no reorgs" }

// second starts a second node through the real constructor with InitialBlock = ib, lets it sync the finished history and
// records what it answers for every leaf and for the rollup exit tree (judged like the first node's answers).
func (s *l1side) second(ib, chunk uint64) error {
	ctx, cancel := context.WithCancel(s.o.ctx)
	defer cancel()
	tip, err := s.o.cl.BlockNumber(ctx)
	if err != nil {
		return err
	}
	n2, err := l1infotreesync.New(ctx, filepath.Join(s.o.dir, "l1info-second.sqlite"), s.o.gerAddr, s.o.mockAddr, chunk, aggkittypes.LatestBlock,
		noReorgs{}, s.o.cl, time.Millisecond, ib, time.Millisecond, 5, l1infotreesync.FlagAllowWrongContractsAddrs, aggkittypes.LatestBlock, false)
	if err != nil {
		s.o.w.Emit(tr.M{"ev": "second", "ib": ib, "first": s.firstEvent, "chunk": chunk, "c": "error", "err": err.Error(), "leaves": []tr.M{}, "n": s.nI, "rer_c": "skip"})
		return nil
	}
	done := make(chan struct{})
	go func() { n2.Start(ctx); close(done) }()
	synced := false
	for t0 := time.Now(); time.Since(t0) < 30*time.Second; time.Sleep(2 * time.Millisecond) {
		if lpb, err := n2.GetLastProcessedBlock(ctx); err == nil && lpb >= tip {
			synced = true
			break
		}
	}
	m := tr.M{"ev": "second", "ib": ib, "first": s.firstEvent, "chunk": chunk, "c": map[bool]string{true: "ok", false: "notsynced"}[synced], "n": s.nI}
	leaves := []tr.M{}
	for i := 0; i < s.nI; i++ {
		lm := tr.M{"i": i}
		info, err := n2.GetInfoByIndex(ctx, uint32(i))
		lm["c"] = classify(err)
		if err == nil {
			lm["leaf"], lm["ger"] = s.dict.Of(info.Hash), s.gerName(info.GlobalExitRoot)
		}
		r, err := n2.GetL1InfoTreeRootByIndex(ctx, uint32(i))
		lm["root_c"] = classify(err)
		if err == nil {
			lm["root"] = s.dict.Of(r.Hash)
		}
		leaves = append(leaves, lm)
	}
	m["leaves"] = leaves
	m["rer_c"] = "skip"
	if len(s.ust) > 0 {
		r, err := n2.GetLastRollupExitRoot(ctx)
		m["rer_c"] = classify(err)
		if err == nil {
			m["rer"] = s.udict.Of(r.Hash)
		}
	}
	s.o.w.Emit(m)
	cancel()
	select {
	case <-done:
	case <-time.After(5 * time.Second):
	}
	return nil
}
