// Package certcut drives the real code that cuts a certificate's block range (C17):
//
//	size   flows.NewBaseFlow(...).GetCertificateBuildParamsInternal  -> baseFlow.limitCertSize (real entry point, the
//	       bridge querier and the certificate storage are scripted, everything else is the real code)
//	limit  flows.NewMaxL2BlockNumberLimiter(...).AdaptCertificate
//	range  (*types.CertificateBuildParams).Range
//	gap    types.BlockRange.Gap / IsEmpty / CountBlocks
//
// Input: JSON list of cases (exported by TLC from specs/CertCut.tla and mapped onto uint64 by the check, or seeded
// random cases). Output: one ndjson line per case with the inputs as the code saw them and the outputs, for
// specs/CertCutTrace.tla. Nothing is judged here.
//
// Block numbers travel symbolically as [zone, offset]: [0,k] = k, [1,k] = 2^64-1-k, so that the 32-bit integers of TLC
// can talk about both ends of uint64; a value in neither zone is written as [2,0].
package certcut

import (
	"context"
	"flag"
	"fmt"
	"math"
	"math/big"

	agglayertypes "github.com/agglayer/aggkit/agglayer/types"
	"github.com/agglayer/aggkit/aggsender/db"
	"github.com/agglayer/aggkit/aggsender/flows"
	"github.com/agglayer/aggkit/aggsender/types"
	"github.com/agglayer/aggkit/bridgesync"
	"github.com/agglayer/aggkit/log"

	"verifharness/tr"
)

const zoneWidth = 1 << 20

type sym [2]uint64

func (s sym) val() (uint64, error) {
	switch s[0] {
	case 0:
		return s[1], nil
	case 1:
		return math.MaxUint64 - s[1], nil
	}
	return 0, fmt.Errorf("bad symbolic block number %v", s)
}

func toSym(v uint64) sym {
	if v < zoneWidth {
		return sym{0, v}
	}
	if math.MaxUint64-v < zoneWidth {
		return sym{1, math.MaxUint64 - v}
	}
	return sym{2, 0}
}

type event struct {
	ID uint32 `json:"id"`
	B  sym    `json:"b"`
	M  int    `json:"m"`
}

type kase struct {
	K     string  `json:"k"`
	From  sym     `json:"from"`
	To    sym     `json:"to"`
	Typ   string  `json:"typ"`
	Br    []event `json:"br"`
	Cl    []event `json:"cl"`
	Max   uint    `json:"max"`   // size: MaxCertSize
	Mode  int     `json:"mode"`  // size: 0 first certificate (StartL2Block), 1 after a settled one, 2 retry of an InError one
	Retry bool    `json:"retry"` // limit: the build params are a retry
	Limit sym     `json:"limit"` // limit: maxL2BlockNumber
	Allow bool    `json:"allow"`
	Req   bool    `json:"req"`
	F     sym     `json:"f"` // range: requested range
	T     sym     `json:"t"`
	A     [2]sym  `json:"a"` // gap
	B     [2]sym  `json:"b"`
}

func certType(s string) types.CertificateType {
	if s == "fep" {
		return types.CertificateTypeFEP
	}
	return types.CertificateTypePP
}

func mkBridges(evs []event) ([]bridgesync.Bridge, error) {
	out := make([]bridgesync.Bridge, 0, len(evs))
	for i, e := range evs {
		b, err := e.B.val()
		if err != nil {
			return nil, err
		}
		out = append(out, bridgesync.Bridge{
			BlockNum: b, BlockPos: uint64(i), LeafType: 0, OriginNetwork: 1, DestinationNetwork: 2,
			Amount: big.NewInt(int64(e.ID)), Metadata: make([]byte, e.M), DepositCount: e.ID,
		})
	}
	return out, nil
}

func mkClaims(evs []event) ([]bridgesync.Claim, error) {
	out := make([]bridgesync.Claim, 0, len(evs))
	for i, e := range evs {
		b, err := e.B.val()
		if err != nil {
			return nil, err
		}
		out = append(out, bridgesync.Claim{
			BlockNum: b, BlockPos: uint64(i), GlobalIndex: big.NewInt(int64(e.ID)), OriginNetwork: 1, DestinationNetwork: 2,
			Amount: big.NewInt(int64(e.ID)), Metadata: make([]byte, e.M),
		})
	}
	return out, nil
}

func evBridges(bs []bridgesync.Bridge) []tr.M {
	out := make([]tr.M, 0, len(bs))
	for _, b := range bs {
		out = append(out, tr.M{"id": b.DepositCount, "b": toSym(b.BlockNum), "m": len(b.Metadata)})
	}
	return out
}

func evClaims(cs []bridgesync.Claim) []tr.M {
	out := make([]tr.M, 0, len(cs))
	for _, c := range cs {
		id := uint64(0)
		if c.GlobalIndex != nil {
			id = c.GlobalIndex.Uint64()
		}
		out = append(out, tr.M{"id": id, "b": toSym(c.BlockNum), "m": len(c.Metadata)})
	}
	return out
}

// result fields of a cut: what the property observes
func putResult(m tr.M, p *types.CertificateBuildParams, err error) {
	if err != nil || p == nil {
		m["ok"] = false
		if err != nil {
			m["err"] = err.Error()
		} else {
			m["err"] = "nil build params"
		}
		m["rfrom"], m["rto"], m["rbr"], m["rcl"], m["rsize"] = sym{2, 0}, sym{2, 0}, []uint32{}, []uint64{}, 0
		return
	}
	rbr := make([]uint32, 0, len(p.Bridges))
	for _, b := range p.Bridges {
		rbr = append(rbr, b.DepositCount)
	}
	rcl := make([]uint64, 0, len(p.Claims))
	for _, c := range p.Claims {
		rcl = append(rcl, c.GlobalIndex.Uint64())
	}
	m["ok"], m["err"] = true, ""
	m["rfrom"], m["rto"], m["rbr"], m["rcl"] = toSym(p.FromBlock), toSym(p.ToBlock), rbr, rcl
	m["rsize"] = p.EstimatedSize()
	m["rretry"] = p.IsARetry()
}

// scripted environment of the base flow
type querier struct {
	types.BridgeQuerier // nil: any other call is a driver problem (panic -> recovered as driver error)
	last                uint64
	bridges             []bridgesync.Bridge
	claims              []bridgesync.Claim
	asked               bool
	qFrom, qTo          uint64
	gotB                []bridgesync.Bridge
	gotC                []bridgesync.Claim
}

func (q *querier) GetLastProcessedBlock(context.Context) (uint64, error) { return q.last, nil }
func (q *querier) GetBridgesAndClaims(_ context.Context, from, to uint64) ([]bridgesync.Bridge, []bridgesync.Claim, error) {
	q.asked, q.qFrom, q.qTo = true, from, to
	q.gotB, q.gotC = []bridgesync.Bridge{}, []bridgesync.Claim{}
	for _, b := range q.bridges {
		if b.BlockNum >= from && b.BlockNum <= to {
			q.gotB = append(q.gotB, b)
		}
	}
	for _, c := range q.claims {
		if c.BlockNum >= from && c.BlockNum <= to {
			q.gotC = append(q.gotC, c)
		}
	}
	// the flow gets its own copies
	return append([]bridgesync.Bridge{}, q.gotB...), append([]bridgesync.Claim{}, q.gotC...), nil
}

type storage struct {
	db.AggSenderStorage
	last *types.CertificateHeader
}

func (s *storage) GetLastSentCertificateHeader() (*types.CertificateHeader, error) {
	return s.last, nil
}

func Run(args []string) error {
	fs := flag.NewFlagSet("certcut", flag.ContinueOnError)
	in := fs.String("in", "", "cases json")
	out := fs.String("out", "", "trace ndjson")
	if err := fs.Parse(args); err != nil {
		return err
	}
	var cs []kase
	if err := tr.ReadJSON(*in, &cs); err != nil {
		return err
	}
	w, err := tr.NewW(*out)
	if err != nil {
		return err
	}
	defer w.Close()
	logger := log.WithFields("verif", "certcut")
	// the size model's parameters as the code defines them (hundredths of a byte)
	w.Emit(tr.M{"ev": "consts",
		"br100":  int(math.Round(agglayertypes.EstimatedBridgeExitSize * 100)),
		"cl100":  int(math.Round(agglayertypes.EstimatedImportedBridgeExitSize * 100)),
		"sig100": int(math.Round(agglayertypes.EstimatedAggchainSignatureSize * 100)),
		"prf100": int(math.Round(agglayertypes.EstimatedAggchainProofSize * 100)),
	})
	for i, c := range cs {
		if err := one(w, logger, i, c); err != nil {
			return fmt.Errorf("case %d (%s): %w", i, c.K, err)
		}
	}
	return nil
}

func one(w *tr.W, logger *log.Logger, i int, c kase) (err error) {
	defer func() {
		if r := recover(); r != nil {
			err = fmt.Errorf("panic: %v", r)
		}
	}()
	switch c.K {
	case "size":
		return size(w, logger, i, c)
	case "limit":
		return limit(w, logger, i, c)
	case "range":
		return rng(w, i, c)
	case "gap":
		return gap(w, i, c)
	case "vgap":
		return vgap(w, logger, i, c)
	}
	return fmt.Errorf("unknown kind %q", c.K)
}

func params(c kase) (*types.CertificateBuildParams, error) {
	from, err := c.From.val()
	if err != nil {
		return nil, err
	}
	to, err := c.To.val()
	if err != nil {
		return nil, err
	}
	bs, err := mkBridges(c.Br)
	if err != nil {
		return nil, err
	}
	cls, err := mkClaims(c.Cl)
	if err != nil {
		return nil, err
	}
	return &types.CertificateBuildParams{FromBlock: from, ToBlock: to, Bridges: bs, Claims: cls,
		CertificateType: certType(c.Typ), CreatedAt: 7}, nil
}

func size(w *tr.W, logger *log.Logger, i int, c kase) error {
	p, err := params(c)
	if err != nil {
		return err
	}
	if p.FromBlock == 0 {
		return fmt.Errorf("a certificate built by the base flow cannot start at block 0")
	}
	q := &querier{last: p.ToBlock, bridges: p.Bridges, claims: p.Claims}
	st := &storage{}
	start := uint64(0)
	switch c.Mode {
	case 0:
		start = p.FromBlock - 1
	case 1:
		st.last = &types.CertificateHeader{Height: 3, FromBlock: p.FromBlock - 1, ToBlock: p.FromBlock - 1,
			Status: agglayertypes.Settled}
	case 2:
		st.last = &types.CertificateHeader{Height: 3, FromBlock: p.FromBlock, ToBlock: p.ToBlock,
			Status: agglayertypes.InError, RetryCount: 1}
	default:
		return fmt.Errorf("bad mode %d", c.Mode)
	}
	bf := flows.NewBaseFlow(logger, q, st, nil, nil, flows.NewBaseFlowConfig(c.Max, start, false))
	res, rerr := bf.GetCertificateBuildParamsInternal(context.Background(), p.CertificateType)
	m := tr.M{"ev": "size", "i": i, "typ": c.Typ, "max": c.Max, "mode": c.Mode}
	if q.asked {
		// the full certificate is what the flow asked the syncer for
		m["from"], m["to"], m["br"], m["cl"] = toSym(q.qFrom), toSym(q.qTo), evBridges(q.gotB), evClaims(q.gotC)
	} else {
		m["from"], m["to"], m["br"], m["cl"] = c.From, c.To, evBridges(p.Bridges), evClaims(p.Claims)
	}
	putResult(m, res, rerr)
	w.Emit(m)
	return nil
}

func limit(w *tr.W, logger *log.Logger, i int, c kase) error {
	p, err := params(c)
	if err != nil {
		return err
	}
	lim, err := c.Limit.val()
	if err != nil {
		return err
	}
	if c.Retry {
		p.RetryCount = 1
		p.LastSentCertificate = &types.CertificateHeader{Height: 3, FromBlock: p.FromBlock, ToBlock: p.ToBlock,
			Status: agglayertypes.InError}
	}
	m := tr.M{"ev": "limit", "i": i, "typ": c.Typ, "from": c.From, "to": c.To, "br": evBridges(p.Bridges), "cl": evClaims(p.Claims),
		"limit": c.Limit, "retry": p.IsARetry(), "allow": c.Allow, "req": c.Req}
	limiter := flows.NewMaxL2BlockNumberLimiter(lim, logger, c.Allow, c.Req)
	if i%2 == 1 {
		// the limiter lives as long as the flow: in every other case it has already been asked about an earlier version of this
		// certificate (same range, retry count and type; an L2 reorg has changed the events since) - it must not remember it
		p0 := *p
		if len(p.Bridges) > 0 {
			p0.Bridges = append([]bridgesync.Bridge(nil), p.Bridges[1:]...)
		}
		if len(p.Claims) > 0 {
			p0.Claims = append([]bridgesync.Claim(nil), p.Claims[:len(p.Claims)-1]...)
		}
		_, _ = limiter.AdaptCertificate(&p0)
		m["second"] = true
	}
	res, rerr := limiter.AdaptCertificate(p)
	putResult(m, res, rerr)
	w.Emit(m)
	return nil
}

func rng(w *tr.W, i int, c kase) error {
	p, err := params(c)
	if err != nil {
		return err
	}
	f, err := c.F.val()
	if err != nil {
		return err
	}
	t, err := c.T.val()
	if err != nil {
		return err
	}
	m := tr.M{"ev": "range", "i": i, "typ": c.Typ, "from": c.From, "to": c.To, "br": evBridges(p.Bridges), "cl": evClaims(p.Claims),
		"f": c.F, "t": c.T}
	res, rerr := p.Range(f, t)
	putResult(m, res, rerr)
	w.Emit(m)
	return nil
}

// vgap: the real baseFlow.VerifyBlockRangeGaps for a last certificate A (Mode 1 settled / pending, 2 in error) and a new
// range B; what it asks the syncer for is the gap it believes in.
func vgap(w *tr.W, logger *log.Logger, i int, c kase) error {
	var v [4]uint64
	for k, s := range []sym{c.A[0], c.A[1], c.B[0], c.B[1]} {
		x, err := s.val()
		if err != nil {
			return err
		}
		v[k] = x
	}
	last := &types.CertificateHeader{Height: 3, FromBlock: v[0], ToBlock: v[1], Status: agglayertypes.Settled}
	if c.Mode == 2 {
		last.Status = agglayertypes.InError
	}
	q := &querier{}
	bf := flows.NewBaseFlow(logger, q, &storage{}, nil, nil, flows.NewBaseFlowConfig(0, 0, false))
	err := bf.VerifyBlockRangeGaps(context.Background(), last, v[2], v[3])
	w.Emit(tr.M{"ev": "vgap", "i": i, "a": c.A, "b": c.B, "mode": c.Mode, "asked": q.asked,
		"q": [2]sym{toSym(q.qFrom), toSym(q.qTo)}, "err": err != nil})
	return nil
}

func gap(w *tr.W, i int, c kase) error {
	var v [4]uint64
	for k, s := range []sym{c.A[0], c.A[1], c.B[0], c.B[1]} {
		x, err := s.val()
		if err != nil {
			return err
		}
		v[k] = x
	}
	a, b := types.NewBlockRange(v[0], v[1]), types.NewBlockRange(v[2], v[3])
	g := a.Gap(b)
	w.Emit(tr.M{"ev": "gap", "i": i, "a": c.A, "b": c.B,
		"g": [2]sym{toSym(g.FromBlock), toSym(g.ToBlock)}, "empty": g.IsEmpty(), "count": toSym(g.CountBlocks())})
	return nil
}
