// Package epoch drives the real aggsender.EpochNotifierPerBlock (C18) through its public constructor.
//
// Input: JSON list of behaviours {n,s,p,blocks:[...]} exported by TLC from specs/Epoch.tla (or generated at random
// by the check for long sequences). Output: ndjson trace for specs/EpochTrace.tla.
package epoch

import (
	"context"
	"flag"
	"fmt"
	"sync"
	"sync/atomic"

	"github.com/agglayer/aggkit/aggsender"
	"github.com/agglayer/aggkit/aggsender/types"
	"github.com/agglayer/aggkit/log"

	"verifharness/tr"
)

type behaviour struct {
	N      uint     `json:"n"`
	S      uint64   `json:"s"`
	P      uint     `json:"p"`
	Blocks []uint64 `json:"blocks"`
}

// fakeBlockNotifier delivers the scripted blocks; like BlockNotifierPolling it records a block as current before the event is
// delivered (cur), so a status query can see a block the epoch loop has not been handed yet.
type fakeBlockNotifier struct {
	ch  chan types.EventNewBlock
	cur atomic.Uint64
}

func (f *fakeBlockNotifier) Subscribe(string) <-chan types.EventNewBlock { return f.ch }
func (f *fakeBlockNotifier) GetCurrentBlockNumber() uint64               { return f.cur.Load() }
func (f *fakeBlockNotifier) String() string                              { return "fake" }

// recSub records Publish calls synchronously (the property's observation point).
type recSub struct {
	mu  sync.Mutex
	got []uint64
}

func (r *recSub) Subscribe(string) <-chan types.EpochEvent { return make(chan types.EpochEvent) }
func (r *recSub) Publish(e types.EpochEvent) {
	r.mu.Lock()
	r.got = append(r.got, e.Epoch)
	r.mu.Unlock()
}
func (r *recSub) take() []uint64 {
	r.mu.Lock()
	defer r.mu.Unlock()
	g := r.got
	r.got = nil
	if g == nil {
		g = []uint64{}
	}
	return g
}

func Run(args []string) error {
	fs := flag.NewFlagSet("epoch", flag.ContinueOnError)
	in := fs.String("in", "", "behaviours json")
	out := fs.String("out", "", "trace ndjson")
	if err := fs.Parse(args); err != nil {
		return err
	}
	var bs []behaviour
	if err := tr.ReadJSON(*in, &bs); err != nil {
		return err
	}
	w, err := tr.NewW(*out)
	if err != nil {
		return err
	}
	defer w.Close()
	logger := log.WithFields("verif", "epoch")
	for _, b := range bs {
		if err := one(w, logger, b); err != nil {
			return err
		}
	}
	return nil
}

func one(w *tr.W, logger *log.Logger, b behaviour) error {
	bn := &fakeBlockNotifier{ch: make(chan types.EventNewBlock)}
	sub := &recSub{}
	en, err := aggsender.NewEpochNotifierPerBlock(bn, logger, aggsender.ConfigEpochNotifierPerBlock{
		StartingEpochBlock:          b.S,
		NumBlockPerEpoch:            b.N,
		EpochNotificationPercentage: b.P,
	}, sub)
	if err != nil {
		return fmt.Errorf("constructor: %w", err)
	}
	w.Emit(tr.M{"ev": "cfg", "n": b.N, "s": b.S, "p": b.P})
	ctx, cancel := context.WithCancel(context.Background())
	doneCh := make(chan struct{})
	go func() { en.Start(ctx); close(doneCh) }()
	// The loop is sequential and the channel unbuffered: a send completes when the loop receives, i.e. after the
	// previous iteration (step + Publish) has returned. Each block is therefore followed by a barrier delivery of the
	// same block number (ignored by the notifier as "no new block", and by the monitor as not increasing): when the
	// barrier send completes, everything published for the block has been recorded.
	for i, blk := range b.Blocks {
		bn.cur.Store(blk)
		if (i+int(b.S)+int(b.N))%3 == 0 {
			// somebody asks for the epoch status (AggSender.sendCertificate does, for its log lines) between the moment the block is
			// recorded and the moment the epoch loop is handed its event: a query, it must not change what is announced
			_ = en.GetEpochStatus()
		}
		bn.ch <- types.EventNewBlock{BlockNumber: blk}
		bn.ch <- types.EventNewBlock{BlockNumber: blk}
		w.Emit(tr.M{"ev": "block", "b": blk, "pub": sub.take()})
	}
	cancel()
	<-doneCh
	if late := sub.take(); len(late) > 0 && len(b.Blocks) > 0 {
		w.Emit(tr.M{"ev": "block", "b": b.Blocks[len(b.Blocks)-1], "pub": late})
	}
	return nil
}
