package aggsender

import (
	"context"
	"errors"
	"flag"
	"fmt"
	"math/big"
	"math/rand"
	"os"
	"path/filepath"
	"sync"
	"time"

	"github.com/0xPolygon/cdk-contracts-tooling/contracts/pp/l2-sovereign-chain/polygonrollupmanager"
	agglayertypes "github.com/agglayer/aggkit/agglayer/types"
	aggs "github.com/agglayer/aggkit/aggsender"
	"github.com/agglayer/aggkit/aggsender/config"
	"github.com/agglayer/aggkit/aggsender/db"
	"github.com/agglayer/aggkit/aggsender/flows"
	"github.com/agglayer/aggkit/aggsender/query"
	"github.com/agglayer/aggkit/aggsender/types"
	"github.com/agglayer/aggkit/bridgesync"
	cfgtypes "github.com/agglayer/aggkit/config/types"
	"github.com/agglayer/aggkit/l1infotreesync"
	"github.com/agglayer/aggkit/log"
	treetypes "github.com/agglayer/aggkit/tree/types"
	aggkittypes "github.com/agglayer/aggkit/types"
	"github.com/ethereum/go-ethereum/common"
	ethtypes "github.com/ethereum/go-ethereum/core/types"
	"github.com/ethereum/go-ethereum/crypto"

	"verifharness/names"
	"verifharness/sqlfault"
	"verifharness/tr"
)

// ---------------------------------------------------------------------------------------------- behaviours

type Step struct {
	A           string `json:"a"`   // block | tick | agmove | stop | losedb | restart
	Exp         any    `json:"exp"` // "tick": the specification's own prediction (passed through to the trace, never used here)
	Nb          int    `json:"nb"`
	Nc          int    `json:"nc"`
	Kind        string `json:"kind"`
	Checkfail   bool   `json:"checkfail"`
	O           string `json:"o"`
	ID          int    `json:"id"`
	St          string `json:"st"`
	Storefail   int    `json:"storefail"`   // k > 0: the first k save attempts fail (retried); k < 0: every attempt fails at statement -k
	Fin         int    `json:"fin"`         // "finalize": new finalized L1 block
	Pe          int    `json:"pe"`          // fep: the L2 block at which the prover's proof ends (0 = as requested)
	Jump        int    `json:"jump"`        // "block": distance to the previous block with events (default 1)
	L1readfault int    `json:"l1readfault"` // "tick": the k-th read of the L1 info store during this tick fails (a storage error)
	Midblock    int    `json:"midblock"`    // "tick": while the node compiles its k-th read of the L2 bridge store, the L2 syncer stores a new block
}

type Behaviour struct {
	Cfg struct {
		Retryimm  bool   `json:"retryimm"`
		Maxblocks int    `json:"maxblocks"`
		Hasprev   bool   `json:"hasprev"`
		Mode      string `json:"mode"`    // pp | fep
		L1shape   []int  `json:"l1shape"` // L1 block of each info leaf (default one per block)
		// Storeretries: MaxRetriesStoreCertificate (-1: "0 = retry for ever" of the configuration; 0 / absent: 3)
		Storeretries int     `json:"storeretries"`
		L1steps      string  `json:"l1steps"`  // L1 history, one info leaf per letter (m: mainnet deposit, o: deposit on the other rollup + verification)
		L1claims     [][]int `json:"l1claims"` // claim pool: [mainnet, deposit number, index of the info leaf it is made against]
	} `json:"cfg"`
	Steps []Step `json:"steps"`
}

// ---------------------------------------------------------------------------------------------- scripted Agglayer

type agCert struct {
	id     common.Hash
	cert   *agglayertypes.Certificate
	status agglayertypes.CertificateStatus
}

var errScripted = errors.New("scripted agglayer failure")

type crashPanic struct{ at string }

// agglayer is the scripted Agglayer: it stores what it receives, moves certificates only when told, fails on demand and
// can "crash the node" (panic) before or after registering a certificate. It enforces nothing.
type agglayer struct {
	mu           sync.Mutex
	certs        []*agCert
	failHeader   bool   // the next header query fails, with no effect (E1)
	failSend     bool   // the next SendCertificate fails, with no effect (E1)
	crashAt      string // "", "before_submit", "after_submit"
	hasPrev      bool
	onSubmit     func(i int, c *agglayertypes.Certificate)
	calls        int
	settledCalls int // GetLatestSettledCertificateHeader calls = reconciliation attempts
}

func (a *agglayer) fail() bool {
	a.calls++
	if a.failHeader {
		a.failHeader = false
		return true
	}
	return false
}

func (a *agglayer) SendCertificate(_ context.Context, c *agglayertypes.Certificate) (common.Hash, error) {
	a.mu.Lock()
	defer a.mu.Unlock()
	if a.crashAt == "before_submit" {
		a.crashAt = ""
		panic(crashPanic{"before_submit"})
	}
	a.calls++
	if a.failSend {
		a.failSend = false
		return common.Hash{}, errScripted
	}
	// certificate id as the real service computes it: it commits to the metadata too
	id := crypto.Keccak256Hash(c.Hash().Bytes(), c.Metadata.Bytes())
	a.certs = append(a.certs, &agCert{id: id, cert: c, status: agglayertypes.Pending})
	if a.onSubmit != nil {
		a.onSubmit(len(a.certs), c)
	}
	if a.crashAt == "after_submit" {
		a.crashAt = ""
		panic(crashPanic{"after_submit"})
	}
	return id, nil
}

func (a *agglayer) header(i int) *agglayertypes.CertificateHeader {
	c := a.certs[i]
	h := &agglayertypes.CertificateHeader{NetworkID: c.cert.NetworkID, Height: c.cert.Height, CertificateID: c.id,
		NewLocalExitRoot: c.cert.NewLocalExitRoot, Status: c.status, Metadata: c.cert.Metadata}
	if a.hasPrev {
		p := c.cert.PrevLocalExitRoot
		h.PreviousLocalExitRoot = &p
	}
	return h
}

func (a *agglayer) GetCertificateHeader(_ context.Context, id common.Hash) (*agglayertypes.CertificateHeader, error) {
	a.mu.Lock()
	defer a.mu.Unlock()
	if a.fail() {
		return nil, errScripted
	}
	// a certificate re-submitted with identical content has the same id (the id is the content hash): the most recent
	// submission is the one the Agglayer knows under that id
	for i := len(a.certs) - 1; i >= 0; i-- {
		if a.certs[i].id == id {
			return a.header(i), nil
		}
	}
	return nil, fmt.Errorf("certificate %s not found", id)
}

func (a *agglayer) GetLatestSettledCertificateHeader(_ context.Context, _ uint32) (*agglayertypes.CertificateHeader, error) {
	a.mu.Lock()
	defer a.mu.Unlock()
	a.settledCalls++
	if a.fail() {
		return nil, errScripted
	}
	best := -1
	for i, c := range a.certs {
		if c.status == agglayertypes.Settled && (best < 0 || c.cert.Height >= a.certs[best].cert.Height) {
			best = i
		}
	}
	if best < 0 {
		return nil, nil
	}
	return a.header(best), nil
}

func (a *agglayer) GetLatestPendingCertificateHeader(_ context.Context, _ uint32) (*agglayertypes.CertificateHeader, error) {
	a.mu.Lock()
	defer a.mu.Unlock()
	if a.fail() {
		return nil, errScripted
	}
	if n := len(a.certs); n > 0 && a.certs[n-1].status != agglayertypes.Settled {
		return a.header(n - 1), nil
	}
	return nil, nil
}

func (a *agglayer) GetEpochConfiguration(context.Context) (*agglayertypes.ClockConfiguration, error) {
	return &agglayertypes.ClockConfiguration{EpochDuration: 10, GenesisBlock: 1}, nil
}

// ---------------------------------------------------------------------------------------------- fakes for the FEP flow

// fakeProver answers GenerateAggchainProof: the proof ends at the requested block, or earlier when told so.
type fakeProver struct {
	endAt uint64 // 0 = as requested
	reqs  int
}

func (f *fakeProver) GenerateAggchainProof(_ context.Context, r *types.AggchainProofRequest) (*types.AggchainProof, error) {
	f.reqs++
	end := r.RequestedEndBlock
	if f.endAt > r.LastProvenBlock && f.endAt < end {
		end = f.endAt
	}
	return &types.AggchainProof{LastProvenBlock: r.LastProvenBlock, EndBlock: end, CustomChainData: []byte{9},
		AggchainParams: crypto.Keccak256Hash([]byte("params")), Context: map[string][]byte{},
		SP1StarkProof: &types.SP1StarkProof{Version: "v", Proof: []byte{1, 2, 3}, Vkey: []byte{4, 5}}}, nil
}

func (f *fakeProver) GenerateOptimisticAggchainProof(*types.AggchainProofRequest, []byte) (*types.AggchainProof, error) {
	return nil, errors.New("optimistic mode is not scripted")
}

type fakeGERQuerier struct{}

func (fakeGERQuerier) GetInjectedGERsProofs(context.Context, *treetypes.Root, uint64, uint64) (
	map[common.Hash]*agglayertypes.ProvenInsertedGERWithBlockNumber, error) {
	return map[common.Hash]*agglayertypes.ProvenInsertedGERWithBlockNumber{}, nil
}

type notOptimistic struct{}

func (notOptimistic) IsOptimisticModeOn() (bool, error) { return false, nil }

// ---------------------------------------------------------------------------------------------- small fakes

type fakeEpoch struct{ ch chan types.EpochEvent }

func (f *fakeEpoch) Subscribe(string) <-chan types.EpochEvent { return f.ch }
func (f *fakeEpoch) Start(context.Context)                    {}
func (f *fakeEpoch) GetEpochStatus() types.EpochStatus        { return types.EpochStatus{} }
func (f *fakeEpoch) String() string                           { return "fakeEpoch" }

// l1Client answers HeaderByNumber for the finalized tag and for block numbers of the scripted L1 history.
type l1Client struct {
	aggkittypes.BaseEthereumClienter
	w *world
}

func (c *l1Client) HeaderByNumber(_ context.Context, n *big.Int) (*ethtypes.Header, error) {
	num := c.w.finalized
	if n != nil && n.Sign() >= 0 {
		num = n.Uint64()
	}
	h, ok := c.w.l1hdr[num]
	if !ok {
		return nil, fmt.Errorf("no L1 block %d", num)
	}
	return h, nil
}

type fakeRollupData struct{}

func (fakeRollupData) GetRollupData(*big.Int) (polygonrollupmanager.PolygonRollupManagerRollupDataReturn, error) {
	return polygonrollupmanager.PolygonRollupManagerRollupDataReturn{}, nil // LastLocalExitRoot zero => start from the empty tree
}

// recSigner signs with a real key and records the hashes it was asked to sign.
type recSigner struct {
	key  *ecdsaKey
	seen []common.Hash
}

func (s *recSigner) Initialize(context.Context) error { return nil }
func (s *recSigner) PublicAddress() common.Address    { return s.key.addr }
func (s *recSigner) String() string                   { return "recSigner" }
func (s *recSigner) SignTx(_ context.Context, tx *ethtypes.Transaction) (*ethtypes.Transaction, error) {
	return tx, nil
}
func (s *recSigner) SignHash(_ context.Context, h common.Hash) ([]byte, error) {
	s.seen = append(s.seen, h)
	return crypto.Sign(h.Bytes(), s.key.priv)
}

// faultyStorage is the real SQL storage with on-demand failures of whole SaveLastSentCertificate calls (nothing is
// written by a failed call): the retry path of saveCertificateToStorage.
type faultyStorage struct {
	db.AggSenderStorage
	failSaves    int
	calls, fails int // observed SaveLastSentCertificate calls / failed calls since the last reset
}

func (f *faultyStorage) SaveLastSentCertificate(ctx context.Context, c types.Certificate) error {
	f.calls++
	if f.calls > 400 {
		// a node configured to retry the save for ever and failing every time: the operator restarts it (the loop does not look at
		// its context); for the bookkeeping this is a crash after the submission
		panic(crashPanic{at: "after_submit"})
	}
	if f.failSaves > 0 {
		f.failSaves--
		f.fails++
		return errors.New("verif: injected storage failure")
	}
	err := f.AggSenderStorage.SaveLastSentCertificate(ctx, c)
	if err != nil {
		f.fails++
	}
	return err
}

// ---------------------------------------------------------------------------------------------- node

type node struct {
	w       *world
	ag      *agglayer
	dir     string
	dbN     int
	cfg     config.Config
	storage *faultyStorage
	sender  *aggs.AggSender
	epoch   *fakeEpoch
	signer  *recSigner
	logger  *log.Logger
	up      bool
	ready   bool
	inj     *stInjector
	mode    string
	prover  *fakeProver
}

func (n *node) dbPath() string { return filepath.Join(n.dir, fmt.Sprintf("aggsender%d.sqlite", n.dbN)) }

// start builds every object of the node anew on the current DB file (process start).
func (n *node) start() error {
	st, err := db.NewAggSenderSQLStorage(n.logger, db.AggSenderSQLStorageConfig{DBPath: n.dbPath(), KeepCertificatesHistory: true})
	if err != nil {
		return err
	}
	n.storage = &faultyStorage{AggSenderStorage: st}
	if n.inj != nil {
		n.inj.close()
	}
	if n.inj, err = newStInjector(n.dbPath()); err != nil {
		return err
	}
	l2q := query.NewBridgeDataQuerier(n.logger, n.w.l2store, time.Millisecond)
	l1q := query.NewL1InfoTreeDataQuerier(&l1Client{w: n.w}, n.w.l1store)
	lerq, err := query.NewLERDataQuerier(common.Address{}, 0, fakeRollupData{})
	if err != nil {
		return err
	}
	base := flows.NewBaseFlow(n.logger, l2q, st, l1q, lerq, flows.NewBaseFlowConfig(n.cfg.MaxCertSize, 0, false))
	var flow types.AggsenderFlow
	if n.mode == "fep" {
		flow = flows.NewAggchainProverFlow(n.logger, flows.NewAggchainProverFlowConfigDefault(), base, n.prover, st, l1q, l2q,
			fakeGERQuerier{}, &l1Client{w: n.w}, n.signer, notOptimistic{}, nil)
	} else {
		flow = flows.NewPPFlow(n.logger, base, st, l1q, l2q, n.signer, false, 0)
	}
	n.epoch = &fakeEpoch{ch: make(chan types.EpochEvent)}
	n.sender = aggs.NewVerifAggSender(n.logger, n.cfg, n.storage, n.ag, n.epoch, flow, thisNet)
	n.up, n.ready = true, false
	return nil
}

// reconcile runs the real start-up reconciliation (CheckInitialStatus retries for ever): it is stopped after it has
// started its third attempt without success (attempts are counted at the scripted Agglayer, not by wall clock).
func (n *node) reconcile() (ok bool, lastErr string) {
	ctx, cancel := context.WithCancel(context.Background())
	defer cancel()
	n.ag.mu.Lock()
	base := n.ag.settledCalls
	n.ag.mu.Unlock()
	done := make(chan string, 1)
	go func() { done <- n.sender.VerifCheckInitialStatus(ctx) }()
	deadline := time.After(60 * time.Second)
	tick := time.NewTicker(2 * time.Millisecond)
	defer tick.Stop()
	for {
		select {
		case lastErr = <-done:
			if lastErr == "" {
				// Start goes on with the flow's own start-up check and panics if it fails (the FEP flow checks the block gap
				// between its start block and the last certificate)
				fctx, fcancel := context.WithTimeout(context.Background(), 20*time.Second)
				if err := n.sender.VerifFlowCheckInitialStatus(fctx); err != nil {
					lastErr = "flow start-up check: " + err.Error()
				}
				fcancel()
			}
			n.ready = lastErr == ""
			return n.ready, lastErr
		case <-tick.C:
			n.ag.mu.Lock()
			attempts := n.ag.settledCalls - base
			n.ag.mu.Unlock()
			if attempts >= 3 {
				cancel()
			}
		case <-deadline:
			cancel()
			lastErr = <-done
			panic("verif: start-up reconciliation did not finish within 60s: " + lastErr)
		}
	}
}

// tick runs exactly one iteration of the real sendCertificates loop; returns the crash point if the node "crashed".
func (n *node) tick(kind string) (crashed string) {
	done := make(chan string, 1)
	ctx, cancel := context.WithCancel(context.Background())
	defer cancel()
	if kind == "status" {
		n.sender.VerifSetCheckStatusInterval(time.Millisecond)
	} else {
		n.sender.VerifSetCheckStatusInterval(0)
	}
	go func() {
		defer func() {
			if r := recover(); r != nil {
				if cp, ok := r.(crashPanic); ok {
					done <- cp.at
					return
				}
				panic(r)
			}
		}()
		n.sender.VerifSendCertificates(ctx, 1)
		done <- ""
	}()
	if kind == "epoch" {
		select {
		case n.epoch.ch <- types.EpochEvent{Epoch: 1}:
		case c := <-done:
			return c
		}
	}
	return <-done
}

// ---------------------------------------------------------------------------------------------- run

func Run(args []string) error {
	fs := flag.NewFlagSet("aggsender", flag.ContinueOnError)
	in := fs.String("in", "", "behaviours json")
	out := fs.String("out", "", "trace ndjson")
	pw := fs.String("persistwrite", "", "write the aggsender database fixture (and its answers) with the current code")
	pc := fs.String("persistcheck", "", "open a copy of the aggsender database fixture with the code under test and record its answers")
	if err := fs.Parse(args); err != nil {
		return err
	}
	if *pw != "" {
		return persistWrite(*pw)
	}
	if *pc != "" {
		w, err := tr.NewW(*out)
		if err != nil {
			return err
		}
		defer w.Close()
		return persistCheck(w, *pc)
	}
	sqlfault.BusyTimeout(25) // a syncer write in the middle of one of the node's reads waits 25 ms for the lock, not 5 s
	var bs []Behaviour
	if err := tr.ReadJSON(*in, &bs); err != nil {
		return err
	}
	w, err := tr.NewW(*out)
	if err != nil {
		return err
	}
	defer w.Close()
	root, err := os.MkdirTemp("", "verif-aggsender-")
	if err != nil {
		return err
	}
	defer os.RemoveAll(root)
	rng := rand.New(rand.NewSource(tr.Seed()))
	for i, b := range bs {
		if err := runOne(w, root, i+1, b, rng.Int63()); err != nil {
			return fmt.Errorf("behaviour %d: %w", i+1, err)
		}
	}
	return nil
}

func runOne(tw *tr.W, root string, idx int, b Behaviour, seed int64) error {
	dir, err := os.MkdirTemp(root, "beh")
	if err != nil {
		return err
	}
	defer os.RemoveAll(dir)
	ctx := context.Background()
	d := names.NewDict()
	w := &world{seed: seed, dict: d, l1exit: names.NewAppendTree(d), otherLT: names.NewAppendTree(d), rollupT: names.NewUpdTree(d),
		infoT: names.NewAppendTree(d), l2exit: names.NewAppendTree(d), finalized: 5, l1shape: b.Cfg.L1shape, l1steps: b.Cfg.L1steps, l1claims: b.Cfg.L1claims}
	if w.l1steps != "" {
		w.finalized = uint64(len(w.l1steps))
	}
	if w.l1store, err = l1infotreesync.NewVerifL1InfoTreeSync(filepath.Join(dir, "l1info.sqlite")); err != nil {
		return err
	}
	defer w.l1store.VerifClose()
	if w.l2store, err = bridgesync.NewVerifBridgeSync(filepath.Join(dir, "l2bridge.sqlite"), "verif_l2", thisNet); err != nil {
		return err
	}
	defer w.l2store.VerifClose()
	if err := w.buildL1(ctx); err != nil {
		return err
	}
	key, err := newKey(seed)
	if err != nil {
		return err
	}
	n := &node{w: w, dir: dir, logger: log.WithFields("verif", "aggsender"), signer: &recSigner{key: key}, mode: b.Cfg.Mode,
		prover: &fakeProver{}}
	n.ag = &agglayer{hasPrev: b.Cfg.Hasprev}
	storeRetries := 3
	if b.Cfg.Storeretries < 0 {
		storeRetries = 0 // the configuration's "retry for ever"
	} else if b.Cfg.Storeretries > 0 {
		storeRetries = b.Cfg.Storeretries
	}
	n.cfg = config.Config{
		MaxRetriesStoreCertificate: storeRetries, DelayBetweenRetries: cfgtypes.Duration{Duration: time.Millisecond},
		KeepCertificatesHistory: true, RetryCertAfterInError: b.Cfg.Retryimm,
		CheckStatusCertificateInterval: cfgtypes.Duration{Duration: 0},
	}
	if b.Cfg.Maxblocks == 1 {
		// a size limit nothing fits in: limitCertSize cuts every certificate down to a single block (the model's
		// MaxCertBlocks = 1); the exact byte arithmetic is C17's business
		n.cfg.MaxCertSize = 1
	}
	rec := &recorder{tw: tw, w: w, n: n}
	n.ag.onSubmit = rec.onSubmit
	mode := b.Cfg.Mode
	if mode == "" {
		mode = "pp"
	}
	tw.Emit(tr.M{"ev": "reset", "t": idx, "cfg": tr.M{"retryimm": b.Cfg.Retryimm, "hasprev": b.Cfg.Hasprev, "mode": mode},
		"signer": key.addr.Hex(), "l1": rec.l1Description()})
	if err := n.start(); err != nil {
		return err
	}
	if ok, e := n.reconcile(); !ok {
		return fmt.Errorf("initial reconciliation on an empty system failed: %s", e)
	}
	for _, s := range b.Steps {
		switch s.A {
		case "block":
			leaves, claims, err := w.addL2Block(ctx, s.Nb, s.Nc, s.Jump)
			if err != nil {
				return err
			}
			tw.Emit(tr.M{"ev": "block", "num": w.l2last, "leaves": leaves, "claims": claims})
		case "l2reorg":
			// an L2 reorg of the tip (1-2 blocks) that no settled or still undecided certificate covers; the dropped blocks are
			// replaced by new ones with different content
			covered := uint64(0)
			n.ag.mu.Lock()
			for _, c := range n.ag.certs {
				if c.status != agglayertypes.InError {
					if m, err := types.NewCertificateMetadataFromHash(c.cert.Metadata); err == nil && m.FromBlock+uint64(m.Offset) > covered {
						covered = m.FromBlock + uint64(m.Offset)
					}
				}
			}
			n.ag.mu.Unlock()
			from, dropped := w.l2last, 1 // (block numbers can be sparse: the reorg point is the number of a stored block)
			if s.Nb > 1 && len(w.l2blocks) > 1 {
				from, dropped = w.l2blocks[len(w.l2blocks)-2].num, 2
			}
			if from <= covered || from == 0 {
				tw.Emit(tr.M{"ev": "skip", "why": "no uncovered L2 block to reorg"})
				continue
			}
			if err := w.reorgL2(ctx, from); err != nil {
				return err
			}
			tw.Emit(tr.M{"ev": "l2reorg", "from": from})
			for i := 0; i < dropped; i++ {
				leaves, claims, err := w.addL2Block(ctx, 1+i%2, s.Nc)
				if err != nil {
					return err
				}
				tw.Emit(tr.M{"ev": "block", "num": w.l2last, "leaves": leaves, "claims": claims})
			}
		case "finalize":
			w.finalized = uint64(s.Fin)
			tw.Emit(tr.M{"ev": "finalize", "blk": s.Fin})
		case "tick":
			if !n.up || !n.ready {
				tw.Emit(tr.M{"ev": "skip", "why": "node not running"})
				continue
			}
			n.ag.failHeader = s.Checkfail
			n.prover.endAt = uint64(s.Pe)
			switch s.O {
			case "sendfail":
				n.ag.failSend = true
			case "crash_before_submit":
				n.ag.crashAt = "before_submit"
			case "crash_after_submit":
				n.ag.crashAt = "after_submit"
			}
			if s.Storefail > 0 { // the first k save attempts of this tick fail as a whole (k < MaxRetriesStoreCertificate: retried)
				n.storage.failSaves = s.Storefail
			}
			if s.Storefail < 0 { // every save attempt fails, at statement -k of its transaction
				if err := n.inj.arm(-s.Storefail); err != nil {
					return err
				}
			}
			rec.sent = nil
			n.storage.calls, n.storage.fails = 0, 0
			l2path := filepath.Join(dir, "l2bridge.sqlite")
			if s.Midblock > 0 {
				sqlfault.Arm(l2path, sqlfault.Spec{W: -1, R: s.Midblock, Call: func() {
					// (runs in the node's goroutine; the driver is waiting for the tick to end. If the node holds the store's lock
					// the syncer's attempt fails as busy and nothing is added)
					n0, len0, pool0 := w.nextL2, w.l2exit.Len(), w.nextPool
					if leaves, claims, err := w.addL2Block(ctx, 1, 0); err == nil {
						tw.Emit(tr.M{"ev": "block", "num": w.l2last, "leaves": leaves, "claims": claims, "mid": true})
					} else { // nothing was stored: the scripted chain does not have that block either
						w.nextL2, w.nextPool = n0, pool0
						w.l2exit.Truncate(len0)
					}
				}})
			}
			l1path := filepath.Join(dir, "l1info.sqlite")
			if s.L1readfault > 0 {
				sqlfault.Arm(l1path, sqlfault.Spec{W: -1, R: s.L1readfault})
			}
			crashed := n.tick(s.Kind)
			if s.Midblock > 0 {
				sqlfault.Disarm(l2path)
			}
			if s.L1readfault > 0 {
				sqlfault.Disarm(l1path)
			}
			n.ag.failHeader, n.ag.failSend, n.ag.crashAt = false, false, ""
			n.inj.disarm()
			n.storage.failSaves = 0
			if crashed == "" && s.O == "crash_after_store" {
				crashed = "after_store"
			}
			ev := tr.M{"ev": "tick", "kind": s.Kind, "checkfail": s.Checkfail, "o": s.O, "sent": rec.sentIDs(), "crashed": crashed,
				"storefail": s.Storefail, "saves": n.storage.calls, "savefails": n.storage.fails}
			if s.Exp != nil {
				ev["exp"], ev["plain"] = s.Exp, s.Storefail == 0 && s.Midblock == 0 && s.L1readfault == 0
			}
			tw.Emit(ev)
			if crashed != "" {
				n.up, n.ready = false, false
				n.storage = nil
			}
		case "agmove":
			if s.ID < 1 || s.ID > len(n.ag.certs) {
				tw.Emit(tr.M{"ev": "skip", "why": "no such certificate"})
				continue
			}
			st := map[string]agglayertypes.CertificateStatus{"Proven": agglayertypes.Proven, "Candidate": agglayertypes.Candidate,
				"Settled": agglayertypes.Settled, "InError": agglayertypes.InError}[s.St]
			n.ag.mu.Lock()
			n.ag.certs[s.ID-1].status = st
			n.ag.mu.Unlock()
			tw.Emit(tr.M{"ev": "agmove", "id": s.ID, "st": s.St})
		case "stop":
			n.up, n.ready = false, false
			tw.Emit(tr.M{"ev": "stop"})
		case "losedb":
			if n.up {
				tw.Emit(tr.M{"ev": "skip", "why": "node is up"})
				continue
			}
			n.dbN++
			tw.Emit(tr.M{"ev": "losedb"})
		case "restart":
			if !n.up {
				if err := n.start(); err != nil {
					return err
				}
			}
			n.ag.failHeader = s.Checkfail
			ok, e := n.reconcile()
			n.ag.failHeader = false
			tw.Emit(tr.M{"ev": "restart", "ok": ok, "checkfail": s.Checkfail, "err": fmt.Sprintf("%.200s", e)})
		default:
			return fmt.Errorf("unknown step %q", s.A)
		}
		rec.dbRows()
	}
	if n.inj != nil {
		n.inj.close()
	}
	return nil
}
