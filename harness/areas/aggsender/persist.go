package aggsender

// An upgraded node (C13 "across restarts"): the aggsender's database file written by an earlier run of the repository's code
// is opened by the code under test (which applies whatever migrations it brings) and every getter is asked. What the file
// answered when it was written is kept next to it (fixtures/aggsender_v1.json); the monitor compares answer by answer
// (AggSenderTrace.tla, event "persist", predicate StoredCertificatesSurviveUpgrade).
//
//	-persistwrite <file.sqlite>   write the fixture with the current code (done once, see fixtures/README.md)
//	-persistcheck <file.sqlite>   copy it, open the copy with the code under test, record the answers

import (
	"context"
	"database/sql"
	"encoding/json"
	"fmt"
	"math/big"
	"os"
	"path/filepath"
	"strings"

	agglayertypes "github.com/agglayer/aggkit/agglayer/types"
	"github.com/agglayer/aggkit/aggsender/db"
	"github.com/agglayer/aggkit/aggsender/types"
	"github.com/agglayer/aggkit/log"
	"github.com/ethereum/go-ethereum/common"

	"verifharness/tr"
)

func ph(tag string, i int) common.Hash {
	return common.BigToHash(new(big.Int).SetBytes([]byte(fmt.Sprintf("verif-%s-%d-padpadpadpadpadpadpad", tag, i))[:30]))
}

func persistCerts() []types.Certificate {
	mk := func(h uint64, retry int, st agglayertypes.CertificateStatus, fep bool, tag int) types.Certificate {
		prev, fin := ph("prev", tag), ph("fin", tag)
		signed := fmt.Sprintf(`{"network_id":7,"height":%d,"note":"signed certificate %d"}`, h, tag)
		c := types.Certificate{Header: &types.CertificateHeader{Height: h, RetryCount: retry, CertificateID: ph("id", tag),
			PreviousLocalExitRoot: &prev, NewLocalExitRoot: ph("new", tag), FromBlock: 10 * h, ToBlock: 10*h + 9, Status: st,
			CreatedAt: 1700000000 + uint32(tag), UpdatedAt: 1700000100 + uint32(tag), FinalizedL1InfoTreeRoot: &fin,
			L1InfoTreeLeafCount: uint32(40 + tag), CertType: types.CertificateTypePP, CertSource: types.CertificateSourceLocal},
			SignedCertificate: &signed, ExtraData: fmt.Sprintf("extra-%d", tag)}
		if h == 0 {
			c.Header.PreviousLocalExitRoot = nil
		}
		if fep {
			c.Header.CertType = types.CertificateTypeFEP
			c.AggchainProof = &types.AggchainProof{LastProvenBlock: 10*h - 1, EndBlock: 10*h + 9, CustomChainData: []byte{1, 2, byte(tag)},
				LocalExitRoot: ph("ler", tag), AggchainParams: ph("params", tag), Context: map[string][]byte{"k": {byte(tag)}},
				SP1StarkProof: &types.SP1StarkProof{Version: "v4", Proof: []byte{9, 8, 7, byte(tag)}, Vkey: []byte{5, byte(tag)}}}
		}
		return c
	}
	return []types.Certificate{
		mk(0, 0, agglayertypes.Settled, false, 1),
		mk(1, 0, agglayertypes.InError, false, 2), // replaced by its retry: moves to the history table
		mk(1, 1, agglayertypes.Settled, false, 3),
		mk(2, 0, agglayertypes.Settled, true, 4),
		mk(3, 0, agglayertypes.InError, true, 5),
		mk(3, 1, agglayertypes.InError, true, 6), // the last certificate: InError, with its aggchain proof
	}
}

// answers asks every getter of the storage; each answer is one canonical JSON string
func persistAnswers(st *db.AggSenderSQLStorage) (map[string]string, error) {
	out := map[string]string{}
	put := func(k string, v any, err error) {
		if err != nil {
			out[k] = "error: " + strings.SplitN(err.Error(), "\n", 2)[0]
			return
		}
		b, _ := json.Marshal(v)
		out[k] = string(b)
	}
	for h := uint64(0); h <= 4; h++ {
		c, err := st.GetCertificateByHeight(h)
		put(fmt.Sprintf("GetCertificateByHeight(%d)", h), c, err)
		hd, err := st.GetCertificateHeaderByHeight(h)
		put(fmt.Sprintf("GetCertificateHeaderByHeight(%d)", h), hd, err)
	}
	c, err := st.GetLastSentCertificate()
	put("GetLastSentCertificate", c, err)
	hd, err := st.GetLastSentCertificateHeader()
	put("GetLastSentCertificateHeader", hd, err)
	hd2, proof, err := st.GetLastSentCertificateHeaderWithProofIfInError(context.Background())
	put("GetLastSentCertificateHeaderWithProofIfInError", []any{hd2, proof}, err)
	for _, s := range []agglayertypes.CertificateStatus{agglayertypes.Settled, agglayertypes.InError, agglayertypes.Pending} {
		hs, err := st.GetCertificateHeadersByStatus([]agglayertypes.CertificateStatus{s})
		put(fmt.Sprintf("GetCertificateHeadersByStatus(%s)", s.String()), hs, err)
	}
	na, err := st.GetNonAcceptedCertificate()
	put("GetNonAcceptedCertificate", na, err)
	return out, nil
}

func persistHistory(path string) (string, error) {
	h, err := sql.Open("sqlite3", "file:"+path+"?mode=ro")
	if err != nil {
		return "", err
	}
	defer h.Close()
	rows, err := h.Query(`SELECT height, retry_count, certificate_id, status FROM certificate_info_history ORDER BY height, retry_count`)
	if err != nil {
		return "error: " + err.Error(), nil
	}
	defer rows.Close()
	var out []string
	for rows.Next() {
		var hh, rc, st int
		var id string
		if err := rows.Scan(&hh, &rc, &id, &st); err != nil {
			return "error: " + err.Error(), nil
		}
		out = append(out, fmt.Sprintf("%d/%d/%s/%d", hh, rc, id, st))
	}
	return strings.Join(out, " "), rows.Err()
}

func persistWrite(path string) error {
	for _, suf := range []string{"", "-wal", "-shm"} {
		os.Remove(path + suf)
	}
	st, err := db.NewAggSenderSQLStorage(log.WithFields("verif", "persist"), db.AggSenderSQLStorageConfig{DBPath: path, KeepCertificatesHistory: true})
	if err != nil {
		return err
	}
	ctx := context.Background()
	for _, c := range persistCerts() {
		if err := st.SaveLastSentCertificate(ctx, c); err != nil {
			return fmt.Errorf("SaveLastSentCertificate(%d/%d): %w", c.Header.Height, c.Header.RetryCount, err)
		}
	}
	if err := st.SaveNonAcceptedCertificate(ctx, &db.NonAcceptedCertificate{Height: 4, SignedCertificate: `{"height":4}`, CreatedAt: 1700000999,
		Error: "refused by the agglayer"}); err != nil {
		return err
	}
	ans, err := persistAnswers(st)
	if err != nil {
		return err
	}
	h, err := sql.Open("sqlite3", "file:"+path)
	if err != nil {
		return err
	}
	if _, err := h.Exec(`PRAGMA wal_checkpoint(TRUNCATE)`); err != nil {
		return err
	}
	h.Close()
	hist, err := persistHistory(path)
	if err != nil {
		return err
	}
	ans["history table"] = hist
	js, _ := json.MarshalIndent(ans, "", " ")
	return os.WriteFile(strings.TrimSuffix(path, ".sqlite")+".json", js, 0o644)
}

func persistCheck(w *tr.W, fixture string) error {
	var want map[string]string
	if err := tr.ReadJSON(strings.TrimSuffix(fixture, ".sqlite")+".json", &want); err != nil {
		return err
	}
	dir, err := os.MkdirTemp("", "verif-persist-")
	if err != nil {
		return err
	}
	defer os.RemoveAll(dir)
	path := filepath.Join(dir, "aggsender.sqlite")
	b, err := os.ReadFile(fixture)
	if err != nil {
		return err
	}
	if err := os.WriteFile(path, b, 0o600); err != nil {
		return err
	}
	// twice: the first start applies what the code under test brings, the second is an ordinary restart
	for round := 1; round <= 2; round++ {
		st, err := db.NewAggSenderSQLStorage(log.WithFields("verif", "persist"), db.AggSenderSQLStorageConfig{DBPath: path, KeepCertificatesHistory: true})
		if err != nil {
			w.Emit(tr.M{"ev": "persist", "round": round, "q": "open", "want": "ok", "got": "error: " + err.Error()})
			return nil
		}
		got, err := persistAnswers(st)
		if err != nil {
			return err
		}
		hist, err := persistHistory(path)
		if err != nil {
			return err
		}
		got["history table"] = hist
		for q, wv := range want {
			w.Emit(tr.M{"ev": "persist", "round": round, "q": q, "want": wv, "got": got[q]})
		}
	}
	return nil
}
