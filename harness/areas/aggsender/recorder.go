package aggsender

import (
	"crypto/ecdsa"
	"database/sql"
	"fmt"
	"math/rand"
	"strings"

	agglayertypes "github.com/agglayer/aggkit/agglayer/types"
	"github.com/agglayer/aggkit/aggsender/types"
	"github.com/agglayer/aggkit/tree"
	"github.com/ethereum/go-ethereum/common"
	"github.com/ethereum/go-ethereum/crypto"

	"verifharness/names"
	"verifharness/tr"
)

type ecdsaKey struct {
	priv *ecdsa.PrivateKey
	addr common.Address
}

func newKey(seed int64) (*ecdsaKey, error) {
	r := rand.New(rand.NewSource(seed))
	for {
		var b [32]byte
		r.Read(b[:])
		k, err := crypto.ToECDSA(b[:])
		if err == nil {
			return &ecdsaKey{priv: k, addr: crypto.PubkeyToAddress(k.PublicKey)}, nil
		}
	}
}

// recorder translates what the scripted Agglayer receives / what the node stores into trace events (names, no judgement).
type recorder struct {
	tw   *tr.W
	w    *world
	n    *node
	sent []int
}

func (r *recorder) sentIDs() []int {
	if r.sent == nil {
		return []int{}
	}
	return r.sent
}

func elide(d *names.Dict, pr [names.Height]common.Hash) [][]any {
	sib := [][]any{}
	for h, hsh := range pr {
		n := d.Of(hsh)
		if n.T == "z" && n.H == h {
			continue
		}
		sib = append(sib, []any{h, n})
	}
	return sib
}

// exitLeaf recomputes, with the reference packing, the leaf value an Agglayer would compute for a bridge exit.
// (metadata in a BridgeExit is already the keccak of the original metadata, or empty)
func exitLeaf(be *agglayertypes.BridgeExit) common.Hash {
	var metaHash common.Hash
	if len(be.Metadata) == 0 {
		metaHash = names.Keccak(nil)
	} else {
		copy(metaHash[:], be.Metadata)
	}
	var on, dn [4]byte
	on[0], on[1], on[2], on[3] = byte(be.TokenInfo.OriginNetwork>>24), byte(be.TokenInfo.OriginNetwork>>16), byte(be.TokenInfo.OriginNetwork>>8), byte(be.TokenInfo.OriginNetwork)
	dn[0], dn[1], dn[2], dn[3] = byte(be.DestinationNetwork>>24), byte(be.DestinationNetwork>>16), byte(be.DestinationNetwork>>8), byte(be.DestinationNetwork)
	var am [32]byte
	if be.Amount != nil {
		be.Amount.FillBytes(am[:])
	}
	return names.Keccak([]byte{byte(be.LeafType)}, on[:], be.TokenInfo.OriginTokenAddress[:], dn[:], be.DestinationAddress[:], am[:], metaHash[:])
}

func (r *recorder) onSubmit(i int, c *agglayertypes.Certificate) {
	d := r.w.dict
	r.sent = append(r.sent, i)
	ev := tr.M{"ev": "submit", "id": i, "h": c.Height, "net": c.NetworkID, "prev": d.Of(c.PrevLocalExitRoot), "new": d.Of(c.NewLocalExitRoot),
		"leafcount": c.L1InfoTreeLeafCount}
	exits := []names.Name{}
	for _, be := range c.BridgeExits {
		exits = append(exits, d.Of(exitLeaf(be)))
	}
	ev["exits"] = exits
	if m, err := types.NewCertificateMetadataFromHash(c.Metadata); err == nil {
		ev["meta"] = tr.M{"v": m.Version, "from": m.FromBlock, "off": m.Offset, "type": m.CertType, "created": m.CreatedAt > 0}
	} else {
		ev["meta"] = tr.M{"v": -1, "from": 0, "off": 0, "type": 0, "created": false}
	}
	// signature: recovers to the configured signer over the commitment the code itself defines (C10 checks the commitment)
	sigOK := false
	if sg, ok := c.AggchainData.(*agglayertypes.AggchainDataSignature); ok && len(sg.Signature) == 65 {
		if pub, err := crypto.SigToPub(c.PPHashToSign().Bytes(), sg.Signature); err == nil {
			sigOK = crypto.PubkeyToAddress(*pub) == r.n.signer.key.addr
		}
	}
	if pr, ok := c.AggchainData.(*agglayertypes.AggchainDataProof); ok && len(pr.Signature) == 65 {
		if pub, err := crypto.SigToPub(c.FEPHashToSign().Bytes(), pr.Signature); err == nil {
			sigOK = crypto.PubkeyToAddress(*pub) == r.n.signer.key.addr
		}
	}
	ev["sig"] = sigOK
	imported := []tr.M{}
	for _, ibe := range c.ImportedBridgeExits {
		m := tr.M{"leaf": d.Of(exitLeaf(ibe.BridgeExit)), "mainnet": ibe.GlobalIndex.MainnetFlag, "ri": ibe.GlobalIndex.RollupIndex,
			"li": ibe.GlobalIndex.LeafIndex}
		describeLeaf := func(l *agglayertypes.L1InfoTreeLeaf) {
			m["l1idx"] = l.L1InfoTreeIndex
			m["mer"], m["rer"] = d.Of(l.MainnetExitRoot), d.Of(l.RollupExitRoot)
			m["ger"] = d.Of(l.Inner.GlobalExitRoot)
			m["gerok"] = names.GER(l.MainnetExitRoot, l.RollupExitRoot) == l.Inner.GlobalExitRoot
			m["l1leaf"] = d.Of(names.L1InfoLeaf(l.Inner.GlobalExitRoot, l.Inner.BlockHash, l.Inner.Timestamp))
		}
		switch cd := ibe.ClaimData.(type) {
		case *agglayertypes.ClaimFromMainnnet:
			m["kind"] = "mainnet"
			describeLeaf(cd.L1Leaf)
			m["pleaf"] = tr.M{"root": d.Of(cd.ProofLeafMER.Root), "sib": elide(d, cd.ProofLeafMER.Proof)}
			m["pger"] = tr.M{"root": d.Of(cd.ProofGERToL1Root.Root), "sib": elide(d, cd.ProofGERToL1Root.Proof)}
			m["pler"] = tr.M{"root": names.Unknown, "sib": [][]any{}}
		case *agglayertypes.ClaimFromRollup:
			m["kind"] = "rollup"
			describeLeaf(cd.L1Leaf)
			m["pleaf"] = tr.M{"root": d.Of(cd.ProofLeafLER.Root), "sib": elide(d, cd.ProofLeafLER.Proof)}
			m["pler"] = tr.M{"root": d.Of(cd.ProofLERToRER.Root), "sib": elide(d, cd.ProofLERToRER.Proof)}
			m["pger"] = tr.M{"root": d.Of(cd.ProofGERToL1Root.Root), "sib": elide(d, cd.ProofGERToL1Root.Proof)}
			// the leaf -> LER leg is a fold the node computed itself: record the reference fold of what it sent
			m["lerfold"] = d.Of(tree.CalculateRoot(exitLeaf(ibe.BridgeExit), cd.ProofLeafLER.Proof, ibe.GlobalIndex.LeafIndex))
		default:
			m["kind"] = "none"
		}
		imported = append(imported, m)
	}
	ev["imported"] = imported
	r.tw.Emit(ev)
}

// l1Description is the scripted L1 history in the vocabulary of the monitor.
func (r *recorder) l1Description() tr.M {
	leaves := []tr.M{}
	for _, lf := range r.w.leaves {
		leaves = append(leaves, tr.M{"atom": lf.atom, "idx": lf.idx, "blk": lf.blk, "nmain": lf.nMain, "nother": lf.nOther})
	}
	pool := []tr.M{}
	for _, c := range r.w.pool {
		pool = append(pool, tr.M{"id": c.id, "mainnet": c.mainnet, "atom": c.d.atom, "li": c.leafIdx, "info": c.info.idx})
	}
	return tr.M{"leaves": leaves, "pool": pool, "mainbase": atomMainBase, "otherbase": atomOtherBase, "infobase": atomInfoBase, "lerbase": atomLERBase}
}

// dbRows reads certificate_info directly (second connection) and emits its rows.
func (r *recorder) dbRows() {
	rows := []tr.M{}
	c, err := sql.Open("sqlite3", fmt.Sprintf("file:%s?mode=ro&_busy_timeout=5000", r.n.dbPath()))
	if err == nil {
		defer c.Close()
		q, err := c.Query(`SELECT height, certificate_id, status, from_block, to_block, previous_local_exit_root, new_local_exit_root, retry_count
			FROM certificate_info ORDER BY height`)
		if err == nil {
			defer q.Close()
			for q.Next() {
				var h, st, from, to, retry int
				var id, nw string
				var prev sql.NullString
				if err := q.Scan(&h, &id, &st, &from, &to, &prev, &nw, &retry); err != nil {
					continue
				}
				idx := 0
				for i, ac := range r.n.ag.certs {
					if strings.EqualFold(ac.id.Hex(), id) {
						idx = i + 1
					}
				}
				m := tr.M{"h": h, "id": idx, "cid": strings.ToLower(id), "st": agglayertypes.CertificateStatus(st).String(), "from": from, "to": to, "retry": retry,
					"new": r.w.dict.Of(common.HexToHash(nw))}
				if prev.Valid && prev.String != "" { // a NULL previous LER is stored as an empty value
					m["prev"] = r.w.dict.Of(common.HexToHash(prev.String))
				} else {
					m["prev"] = names.Name{T: "null", H: -1, Ls: []any{}}
				}
				rows = append(rows, m)
			}
		}
	}
	r.tw.Emit(tr.M{"ev": "db", "rows": rows, "up": r.n.up, "ready": r.n.ready})
}

// ---------------------------------------------------------------------------------------------- storage fault injector

// stInjector makes INSERT/DELETE statements on the aggsender DB fail (SQL triggers on the DB file, second connection):
// arm(j): in every transaction, every such statement from the j-th on fails, until disarmed - a save that fails on every
// attempt, at a chosen depth inside its transaction. (The counter lives in the same DB, so it is rolled back with each
// failed attempt and every retry fails at the same statement. One-shot failures are injected at the storage interface
// instead, see faultyStorage.)
type stInjector struct{ c *sql.DB }

func newStInjector(path string) (*stInjector, error) {
	c, err := sql.Open("sqlite3", fmt.Sprintf("file:%s?_busy_timeout=5000", path))
	if err != nil {
		return nil, err
	}
	c.SetMaxOpenConns(1)
	if _, err := c.Exec(`CREATE TABLE IF NOT EXISTS verif_ctl (id INTEGER PRIMARY KEY CHECK (id = 1), target INTEGER NOT NULL, cnt INTEGER NOT NULL);
		INSERT OR IGNORE INTO verif_ctl VALUES (1, 0, 0);`); err != nil {
		return nil, err
	}
	for _, t := range []string{"certificate_info", "certificate_info_history"} {
		for _, op := range []string{"INSERT", "DELETE"} {
			q := fmt.Sprintf(`CREATE TRIGGER IF NOT EXISTS verif_%s_%s BEFORE %s ON %s BEGIN
				UPDATE verif_ctl SET cnt = cnt + 1;
				SELECT RAISE(ABORT, 'verif injected fault') WHERE (SELECT target > 0 AND cnt >= target FROM verif_ctl);
			END;`, strings.ToLower(op), t, op, t)
			if _, err := c.Exec(q); err != nil {
				return nil, err
			}
		}
	}
	return &stInjector{c: c}, nil
}

func (i *stInjector) arm(j int) error {
	_, err := i.c.Exec(`UPDATE verif_ctl SET target = ?, cnt = 0`, j)
	return err
}
func (i *stInjector) disarm() { i.c.Exec(`UPDATE verif_ctl SET target = 0, cnt = 0`) }
func (i *stInjector) close()  { i.c.Close() }
