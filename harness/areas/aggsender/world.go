// Package aggsender drives the real certificate send path of aggkit (C02 C03 C09 C13): real AggSender loop iterations
// (hook aggsender/export_verif.go), real PP flow, real SQL certificate storage, real status checker and start-up
// reconciliation, real L2 bridge store and real L1 info tree store (processor facades), against a scripted Agglayer that
// enforces nothing. It replays behaviours exported by TLC from specs/AggSender.tla and records what the Agglayer received.
package aggsender

import (
	"context"
	"fmt"
	"math/big"
	"math/rand"

	"github.com/agglayer/aggkit/bridgesync"
	"github.com/agglayer/aggkit/l1infotreesync"
	aggsync "github.com/agglayer/aggkit/sync"
	"github.com/ethereum/go-ethereum/common"
	ethtypes "github.com/ethereum/go-ethereum/core/types"

	"verifharness/names"
)

// Networks: 0 = mainnet (L1), 1 = this L2 (rollup id 1, rollup index 0), 2 = another rollup (rollup index 1).
const (
	thisNet  = 1
	otherNet = 2
)

// dep is a deposit (a leaf of some exit tree) with its reference leaf hash.
type dep struct {
	atom     int
	leafType uint8
	origNet  uint32
	origAddr common.Address
	destNet  uint32
	destAddr common.Address
	amount   *big.Int
	meta     []byte
	hash     common.Hash
}

func (w *world) newDep(atom int, destNet uint32) *dep {
	r := rand.New(rand.NewSource(w.seed ^ int64(atom)*7919))
	d := &dep{atom: atom, leafType: uint8(r.Intn(2)), origNet: []uint32{0, 1, 2, 7}[r.Intn(4)], destNet: destNet}
	r.Read(d.origAddr[:])
	r.Read(d.destAddr[:])
	switch r.Intn(4) {
	case 0:
		d.amount = big.NewInt(0)
	case 1:
		d.amount = new(big.Int).Sub(new(big.Int).Lsh(big.NewInt(1), 256), big.NewInt(1))
	default:
		d.amount = new(big.Int).Rand(r, new(big.Int).Lsh(big.NewInt(1), uint(8+r.Intn(200))))
	}
	d.meta = make([]byte, []int{0, 0, 1, 32, 33, 200}[r.Intn(6)])
	r.Read(d.meta)
	d.hash = names.BridgeLeaf(d.leafType, d.origNet, d.origAddr, d.destNet, d.destAddr, d.amount, d.meta)
	return d
}

// l1leaf is one L1 info tree leaf of the scripted L1 history.
type l1leaf struct {
	atom     int // leaf atom (also names its GER)
	idx      int
	blk      uint64
	mer, rer common.Hash
	parent   common.Hash
	ts       uint64
	nMain    int                       // mainnet deposits covered by mer
	nOther   int                       // deposits of the other rollup covered by rer (through its verified LER)
	uproof   [names.Height]common.Hash // proof of the other rollup's LER in the rollup exit tree of rer
}

// claimSpec is one claim of the pool: a deposit (mainnet or other rollup) claimed against an L1 info leaf covering it.
type claimSpec struct {
	id      int
	mainnet bool
	d       *dep
	leafIdx int
	info    *l1leaf
	claim   bridgesync.Claim // as fed to the L2 bridge store (block/pos filled when used)
}

// world is the scripted environment of one behaviour: L1 history (deposits, verified batches, info leaves), the pool of
// claims, the L2 history as it grows, and the reference trees / naming dictionary.
type world struct {
	seed int64
	dict *names.Dict

	l1exit    *names.AppendTree // mainnet exit tree
	otherLT   *names.AppendTree // other rollup's local exit tree
	rollupT   *names.UpdTree    // rollup exit tree
	infoT     *names.AppendTree // L1 info tree
	leaves    []*l1leaf
	l1hdr     map[uint64]*ethtypes.Header
	l1tip     uint64
	l1shape   []int
	l1steps   string
	l1claims  [][]int
	finalized uint64

	pool     []*claimSpec
	nextPool int

	l2exit   *names.AppendTree // this L2's exit tree (the certificate's LER chain)
	l2deps   map[int]*dep
	nextL2   int
	l2last   uint64
	l2blocks []l2blk // per L2 block: how many deposits / pool claims it used (for reorgs)

	l1store *l1infotreesync.L1InfoTreeSync
	l2store *bridgesync.BridgeSync
}

const (
	atomL2Base    = 0    // L2 deposits: 1, 2, ...
	atomMainBase  = 1000 // mainnet deposits
	atomOtherBase = 2000 // other rollup's deposits
	atomInfoBase  = 3000 // L1 info leaves
	atomLERBase   = 4000 // other rollup's LER values as rollup-exit-tree leaves (atom = base + number of deposits)
)

func l1Header(num uint64, seed int64) *ethtypes.Header {
	return &ethtypes.Header{Number: new(big.Int).SetUint64(num), Extra: []byte(fmt.Sprintf("verif-%d", seed)), Difficulty: big.NewInt(0)}
}

// buildL1 creates the fixed L1 history: 3 mainnet deposits, 2 deposits on the other rollup (verified in two steps),
// 5 info leaves over 5 L1 blocks, and feeds it to the real L1 info tree store.
func (w *world) buildL1(ctx context.Context) error {
	w.l1hdr = map[uint64]*ethtypes.Header{}
	type step struct {
		main, other int // deposits existing after this block
	}
	steps := []step{{1, 0}, {1, 1}, {2, 1}, {2, 2}, {3, 2}}
	if w.l1steps != "" { // one info leaf per letter: m = a deposit on mainnet, o = a deposit on the other rollup + its verification
		steps = nil
		cur := step{}
		for _, c := range w.l1steps {
			if c == 'm' {
				cur.main++
			} else {
				cur.other++
			}
			steps = append(steps, cur)
		}
	}
	shape := w.l1shape // L1 block of each info leaf (non-decreasing); several leaves may share a block
	if len(shape) != len(steps) {
		shape = nil
		for i := range steps {
			shape = append(shape, i+1)
		}
	}
	nMain, nOther := 0, 0
	var evs []any
	pos := uint64(0)
	flush := func(blk uint64) error {
		hdr := l1Header(blk, w.seed)
		w.l1hdr[blk] = hdr
		if err := w.l1store.VerifProcessBlock(ctx, aggsync.Block{Num: blk, Hash: hdr.Hash(), Events: evs}); err != nil {
			return fmt.Errorf("L1 info store refused block %d: %w", blk, err)
		}
		w.l1tip = blk
		evs, pos = nil, 0
		return nil
	}
	for i, s := range steps {
		blk := uint64(shape[i])
		for nMain < s.main {
			nMain++
			d := w.newDep(atomMainBase+nMain, thisNet)
			w.l2depsOrInit()[d.atom] = d
			w.l1exit.Append(d.atom, d.hash)
		}
		if nOther < s.other {
			for nOther < s.other {
				nOther++
				d := w.newDep(atomOtherBase+nOther, thisNet)
				w.l2depsOrInit()[d.atom] = d
				w.otherLT.Append(d.atom, d.hash)
			}
			ler := w.otherLT.RootOf(nOther)
			w.rollupT.Set(otherNet-1, atomLERBase+nOther, ler)
			evs = append(evs, l1infotreesync.Event{VerifyBatches: &l1infotreesync.VerifyBatches{BlockPosition: pos, RollupID: otherNet,
				NumBatch: uint64(i + 1), ExitRoot: ler, StateRoot: names.Keccak([]byte{byte(i + 1)})}})
			pos++
		}
		lf := &l1leaf{atom: atomInfoBase + i, idx: i, blk: blk, mer: w.l1exit.RootOf(nMain), rer: w.rollupT.Root(),
			ts: uint64(1700000000 + i), nMain: nMain, nOther: nOther, uproof: w.rollupT.ProofOf(otherNet - 1)}
		lf.parent = names.Keccak([]byte(fmt.Sprintf("parent-%d-%d", w.seed, i)))
		ger := names.GER(lf.mer, lf.rer)
		w.dict.Put(ger, names.Name{T: "ger", H: 0, Ls: []any{lf.atom}})
		w.infoT.Append(lf.atom, names.L1InfoLeaf(ger, lf.parent, lf.ts))
		w.leaves = append(w.leaves, lf)
		evs = append(evs, l1infotreesync.Event{UpdateL1InfoTree: &l1infotreesync.UpdateL1InfoTree{BlockPosition: pos,
			MainnetExitRoot: lf.mer, RollupExitRoot: lf.rer, ParentHash: lf.parent, Timestamp: lf.ts}})
		pos++
		if i+1 == len(steps) || shape[i+1] != shape[i] {
			if err := flush(blk); err != nil {
				return err
			}
		}
	}
	for w.l1tip < uint64(len(steps)) { // empty L1 blocks up to the number of leaves (the finalized pointer ranges over them)
		if err := flush(w.l1tip + 1); err != nil {
			return err
		}
	}
	// claim pool: each deposit claimed once, against a leaf that covers it (not always the first covering one)
	mk := func(mainnet bool, n int, leaf int) {
		lf := w.leaves[leaf]
		var d *dep
		if mainnet {
			d = w.l2deps[atomMainBase+n]
		} else {
			d = w.l2deps[atomOtherBase+n]
		}
		c := &claimSpec{id: len(w.pool) + 1, mainnet: mainnet, d: d, leafIdx: n - 1, info: lf}
		cl := bridgesync.Claim{
			OriginNetwork: d.origNet, OriginAddress: d.origAddr, DestinationAddress: d.destAddr, Amount: d.amount,
			MainnetExitRoot: lf.mer, RollupExitRoot: lf.rer, GlobalExitRoot: names.GER(lf.mer, lf.rer),
			DestinationNetwork: d.destNet, Metadata: d.meta, IsMessage: d.leafType == 1,
		}
		if mainnet {
			cl.GlobalIndex = bridgesync.GenerateGlobalIndex(true, 0, uint32(n-1))
			cl.ProofLocalExitRoot = w.l1exit.ProofOf(lf.nMain, n-1)
		} else {
			cl.GlobalIndex = bridgesync.GenerateGlobalIndex(false, otherNet-1, uint32(n-1))
			cl.ProofLocalExitRoot = w.otherLT.ProofOf(lf.nOther, n-1)
			cl.ProofRollupExitRoot = lf.uproof
		}
		cl.FromAddress = common.BytesToAddress([]byte{0xc1, byte(c.id)})
		cl.TxHash = names.Keccak([]byte(fmt.Sprintf("claimtx-%d-%d", w.seed, c.id)))
		c.claim = cl
		w.pool = append(w.pool, c)
	}
	if w.l1claims != nil {
		for _, c := range w.l1claims { // [mainnet, deposit number, leaf index]; the leaf must cover the deposit
			if len(c) != 3 || c[2] < 0 || c[2] >= len(w.leaves) || c[1] < 1 ||
				(c[0] == 1 && w.leaves[c[2]].nMain < c[1]) || (c[0] != 1 && w.leaves[c[2]].nOther < c[1]) {
				return fmt.Errorf("claim %v is not covered by the L1 history %q", c, w.l1steps)
			}
			mk(c[0] == 1, c[1], c[2])
		}
		return nil
	}
	mk(true, 1, 0)
	mk(false, 1, 2)
	mk(true, 2, 3)
	mk(false, 2, 3)
	mk(true, 3, 4)
	return nil
}

func (w *world) l2depsOrInit() map[int]*dep {
	if w.l2deps == nil {
		w.l2deps = map[int]*dep{}
	}
	return w.l2deps
}

type l2blk struct {
	num            uint64
	leaves, claims int
}

// reorgL2 drops the L2 blocks >= from in the real bridge store and in the reference history.
func (w *world) reorgL2(ctx context.Context, from uint64) error {
	if err := w.l2store.VerifReorg(ctx, from); err != nil {
		return fmt.Errorf("L2 bridge store reorg: %w", err)
	}
	for len(w.l2blocks) > 0 && w.l2blocks[len(w.l2blocks)-1].num >= from {
		b := w.l2blocks[len(w.l2blocks)-1]
		w.l2blocks = w.l2blocks[:len(w.l2blocks)-1]
		w.l2exit.Truncate(w.l2exit.Len() - b.leaves)
		w.nextPool -= b.claims
	}
	w.l2last = 0
	if len(w.l2blocks) > 0 {
		w.l2last = w.l2blocks[len(w.l2blocks)-1].num
	}
	return nil
}

// addL2Block feeds one L2 block with nb deposits (to mainnet) and nc claims (next of the pool) to the real bridge store.
func (w *world) addL2Block(ctx context.Context, nb, nc int, jump ...int) (leaves []int, claims []int, err error) {
	num := w.l2last + 1
	if len(jump) > 0 && jump[0] > 1 {
		num = w.l2last + uint64(jump[0]) // the chain was idle: blocks without events in between are never stored
	}
	blk := aggsync.Block{Num: num, Hash: names.Keccak([]byte(fmt.Sprintf("l2-%d-%d", w.seed, num)))}
	pos := uint64(0)
	for i := 0; i < nc && w.nextPool < len(w.pool); i++ {
		c := w.pool[w.nextPool]
		if c.info.blk > w.finalized {
			// C09's precondition (the oracle only injects finalized roots): a claim can only have been made against an
			// L1 info leaf at or below the finalized L1 block
			break
		}
		w.nextPool++
		cl := c.claim
		cl.BlockNum, cl.BlockPos, cl.BlockTimestamp = num, pos, 1700001000+num
		pos++
		blk.Events = append(blk.Events, bridgesync.Event{Claim: &cl})
		claims = append(claims, c.id)
	}
	for i := 0; i < nb; i++ {
		w.nextL2++
		d := w.newDep(atomL2Base+w.nextL2, 0)
		w.l2deps[d.atom] = d
		dc := uint32(w.l2exit.Len())
		w.l2exit.Append(d.atom, d.hash)
		b := &bridgesync.Bridge{BlockNum: num, BlockPos: pos, LeafType: d.leafType, OriginNetwork: d.origNet, OriginAddress: d.origAddr,
			DestinationNetwork: d.destNet, DestinationAddress: d.destAddr, Amount: d.amount, Metadata: d.meta, DepositCount: dc,
			BlockTimestamp: 1700001000 + num, TxHash: names.Keccak([]byte(fmt.Sprintf("l2tx-%d-%d", w.seed, d.atom)))}
		pos++
		blk.Events = append(blk.Events, bridgesync.Event{Bridge: b})
		leaves = append(leaves, d.atom)
	}
	if err := w.l2store.VerifProcessBlock(ctx, blk); err != nil {
		return nil, nil, fmt.Errorf("L2 bridge store refused block %d: %w", num, err)
	}
	w.l2last = num
	w.l2blocks = append(w.l2blocks, l2blk{num: num, leaves: len(leaves), claims: len(claims)})
	if leaves == nil {
		leaves = []int{}
	}
	if claims == nil {
		claims = []int{}
	}
	return leaves, claims, nil
}
