// Package claimcall drives the real claim event handlers of the bridge syncer (C20).
//
// Input: JSON list of cases {par,kind,gi,rev,evgi[,ev][,pick]} exported by TLC from specs/ClaimCall.tla (or generated
// at random by the check). par is the canonical parent vector (frames 1..n in preorder, 0 = parent of the root).
//
// For every case and every requested event generation the driver
//   - ABI-encodes real call data per frame with the bridge ABIs (Etrog / pre-Etrog claimAsset / claimMessage); every
//     call-derived detail (proofs, exit roots, destination network, metadata, sender) has a value that is unique to the frame,
//   - serves the tree as the JSON answer of debug_traceTransaction(callTracer) from a scripted RPC client,
//   - builds a real ClaimEvent log and passes it to the REAL appender (buildAppender's handler for the log's topic),
//   - stores the resulting block through the REAL processor.ProcessBlock into a real SQLite DB,
//   - reads the claims of that block back through the real query (BridgeSync.GetClaims),
//
// and records one ndjson line for specs/ClaimCallTrace.tla: the tree, the event, whether the handler returned an error, and
// the stored rows, each call-derived field NAMED by the set of frames whose call data carries exactly that value.
// The driver does not judge.
package claimcall

import (
	"bytes"
	"context"
	"encoding/binary"
	"encoding/json"
	"flag"
	"fmt"
	"math/big"
	"os"
	"path/filepath"

	"github.com/0xPolygon/cdk-contracts-tooling/contracts/fep/etrog/polygonzkevmbridge"
	"github.com/0xPolygon/cdk-contracts-tooling/contracts/pp/l2-sovereign-chain/polygonzkevmbridgev2"
	"github.com/agglayer/aggkit/bridgesync"
	"github.com/agglayer/aggkit/sync"
	treetypes "github.com/agglayer/aggkit/tree/types"
	aggkittypes "github.com/agglayer/aggkit/types"
	"github.com/ethereum/go-ethereum"
	"github.com/ethereum/go-ethereum/accounts/abi"
	"github.com/ethereum/go-ethereum/common"
	"github.com/ethereum/go-ethereum/common/hexutil"
	"github.com/ethereum/go-ethereum/core/types"
	"github.com/ethereum/go-ethereum/crypto"

	"verifharness/tr"
)

type kase struct {
	Par  []int    `json:"par"`
	Kind []string `json:"kind"`
	GI   []string `json:"gi"`
	Rev  []bool   `json:"rev"`
	EvGI string   `json:"evgi"`
	Ev   []string `json:"ev,omitempty"`   // event generations to run ("etrog","pre"); default both
	Pick *int     `json:"pick,omitempty"` // the frame the code-shaped model picks (passed through for drift statistics)
	// SameTx: the transaction of the previous event is included again (another block, after a reorg) and executes as this
	// case's call tree this time: same transaction hash, different trace
	SameTx bool `json:"sametx,omitempty"`
}

var (
	bridgeAddr   = common.HexToAddress("0xB21d9e0000000000000000000000000000000001")
	gasTokenAddr = common.HexToAddress("0x6a5000000000000000000000000000000000beef")
)

// global index names -> values. C has the mainnet flag (no pre-Etrog index can equal it), D's low 32 bits equal B.
func giValue(name string) (*big.Int, error) {
	switch name {
	case "A":
		return big.NewInt(5), nil
	case "B":
		return big.NewInt(7), nil
	case "C":
		return new(big.Int).Add(new(big.Int).Lsh(big.NewInt(1), 64), big.NewInt(5)), nil
	case "D":
		return new(big.Int).Add(new(big.Int).Lsh(big.NewInt(1), 32), big.NewInt(7)), nil
	}
	return nil, fmt.Errorf("unknown global index name %q", name)
}

func giName(v *big.Int) string {
	if v == nil {
		return "nil"
	}
	for _, n := range []string{"A", "B", "C", "D"} {
		x, _ := giValue(n)
		if x.Cmp(v) == 0 {
			return n
		}
	}
	return "?" + v.String()
}

// ---- per-frame recognisable values --------------------------------------------------------------------------------

func h32(tag byte, f int, j int) (h [32]byte) {
	h[0], h[1] = tag, 0xC2
	binary.BigEndian.PutUint16(h[2:], uint16(f))
	binary.BigEndian.PutUint16(h[4:], uint16(j))
	h[31] = byte(f)
	return h
}

func proofOf(tag byte, f int) (p [32][32]byte) {
	for j := range p {
		p[j] = h32(tag, f, j+1)
	}
	return p
}

func fromOf(f int) common.Address {
	a := common.Address{0xF0}
	binary.BigEndian.PutUint16(a[18:], uint16(f))
	return a
}
func contractOf(f int) common.Address {
	a := common.Address{0xC0}
	binary.BigEndian.PutUint16(a[18:], uint16(f))
	return a
}
func merOf(f int) [32]byte  { return h32(0x03, f, 0) }
func rerOf(f int) [32]byte  { return h32(0x04, f, 0) }
func dnetOf(f int) uint32   { return uint32(1000 + f) }
func metaOf(f int) []byte   { return append(bytes.Repeat([]byte{0xEE}, f), byte(f)) }
func gerOf(f int) common.Hash {
	m, r := merOf(f), rerOf(f)
	return crypto.Keccak256Hash(m[:], r[:])
}

// event-derived values (the same for every call carrying that global index)
func amountOf(gi string) *big.Int          { return big.NewInt(int64(100 + int(gi[0]))) }
func originAddrOf(gi string) common.Address { return common.Address{0x0A, gi[0]} }
func destAddrOf(gi string) common.Address   { return common.Address{0xD0, gi[0]} }

const originNetwork = uint32(1)

func isPre(kind string) bool    { return kind == "preAsset" || kind == "preMsg" }
func isEtrogC(kind string) bool { return kind == "asset" || kind == "msg" || kind == "decoy" }
func hasData(kind string) bool  { return isPre(kind) || isEtrogC(kind) }
func toBridge(kind string) bool {
	return kind == "asset" || kind == "msg" || kind == "preAsset" || kind == "preMsg" || kind == "bridgeOther"
}
func isMsg(kind string) bool { return kind == "msg" || kind == "preMsg" }

type env struct {
	v2, v1 *abi.ABI
	cache  map[string]string
}

func (e *env) input(f int, kind, gi string) (string, error) {
	key := fmt.Sprintf("%d/%s/%s", f, kind, gi)
	if s, ok := e.cache[key]; ok {
		return s, nil
	}
	var (
		b   []byte
		err error
	)
	switch {
	case isEtrogC(kind):
		var g *big.Int
		if g, err = giValue(gi); err != nil {
			return "", err
		}
		m := "claimAsset"
		if kind == "msg" {
			m = "claimMessage"
		}
		b, err = e.v2.Pack(m, proofOf(0x01, f), proofOf(0x02, f), g, merOf(f), rerOf(f), originNetwork, originAddrOf(gi),
			dnetOf(f), destAddrOf(gi), amountOf(gi), metaOf(f))
	case isPre(kind):
		var g *big.Int
		if g, err = giValue(gi); err != nil {
			return "", err
		}
		if !g.IsUint64() || g.Uint64() > 0xFFFFFFFF {
			return "", fmt.Errorf("frame %d: pre-Etrog call cannot carry global index %s", f, gi)
		}
		m := "claimAsset"
		if kind == "preMsg" {
			m = "claimMessage"
		}
		b, err = e.v1.Pack(m, proofOf(0x01, f), uint32(g.Uint64()), merOf(f), rerOf(f), originNetwork, originAddrOf(gi),
			dnetOf(f), destAddrOf(gi), amountOf(gi), metaOf(f))
	case kind == "bridgeOther":
		// bridgeAsset(uint32,address,uint256,address,bool,bytes) selector + some words: a non-claim call to the bridge
		b = append(common.Hex2Bytes("cd586579"), bytes.Repeat([]byte{byte(f)}, 64)...)
	case kind == "other":
		if f%2 == 1 { // ERC-20 transfer(address,uint256)
			b = append(common.Hex2Bytes("a9059cbb"), bytes.Repeat([]byte{byte(f)}, 64)...)
		} // else: plain value transfer, empty input
	default:
		return "", fmt.Errorf("unknown frame kind %q", kind)
	}
	if err != nil {
		return "", err
	}
	s := hexutil.Encode(b)
	e.cache[key] = s
	return s, nil
}

// frameJSON is one frame of geth's callTracer output.
type frameJSON struct {
	From         string       `json:"from"`
	Gas          string       `json:"gas"`
	GasUsed      string       `json:"gasUsed"`
	To           string       `json:"to"`
	Input        string       `json:"input"`
	Output       string       `json:"output,omitempty"`
	Error        string       `json:"error,omitempty"`
	RevertReason string       `json:"revertReason,omitempty"`
	Calls        []*frameJSON `json:"calls,omitempty"`
	Value        string       `json:"value"`
	Type         string       `json:"type"`
}

func (e *env) tree(c kase) ([]byte, error) {
	n := len(c.Par)
	if n == 0 || len(c.Kind) != n || len(c.GI) != n || len(c.Rev) != n || c.Par[0] != 0 {
		return nil, fmt.Errorf("malformed case %+v", c)
	}
	fr := make([]*frameJSON, n+1)
	for i := 1; i <= n; i++ {
		kind := c.Kind[i-1]
		in, err := e.input(i, kind, c.GI[i-1])
		if err != nil {
			return nil, err
		}
		to := contractOf(i)
		if toBridge(kind) {
			to = bridgeAddr
		}
		f := &frameJSON{From: fromOf(i).Hex(), To: to.Hex(), Gas: "0x7a120", GasUsed: "0x5208", Input: in, Value: "0x0", Type: "CALL"}
		if c.Rev[i-1] {
			if i%2 == 0 {
				f.Error, f.RevertReason, f.Output = "execution reverted", "verif", "0x08c379a0"
			} else {
				f.Error = "out of gas"
			}
		}
		fr[i] = f
		if i > 1 {
			p := c.Par[i-1]
			if p < 1 || p >= i {
				return nil, fmt.Errorf("malformed parent vector %v", c.Par)
			}
			fr[p].Calls = append(fr[p].Calls, f) // preorder numbering: appending keeps the children in index order
		}
	}
	return json.Marshal(fr[1])
}

// ---- scripted RPC environment ---------------------------------------------------------------------------------------

type fakeClient struct {
	aggkittypes.BaseEthereumClienter // nil: anything the code under test is not expected to call panics
	curTx                            common.Hash
	curTrace                         []byte
	traceCalls                       int
	bad                              string
}

func (c *fakeClient) CallContract(_ context.Context, msg ethereum.CallMsg, _ *big.Int) ([]byte, error) {
	// the only view call of buildAppender: gasTokenAddress()
	if msg.To == nil || *msg.To != bridgeAddr || !bytes.Equal(msg.Data, crypto.Keccak256([]byte("gasTokenAddress()"))[:4]) {
		return nil, fmt.Errorf("verif: unexpected eth_call %x", msg.Data)
	}
	return common.LeftPadBytes(gasTokenAddr.Bytes(), 32), nil
}

func (c *fakeClient) Call(result any, method string, args ...any) error {
	if method != "debug_traceTransaction" || len(args) != 2 {
		c.bad = fmt.Sprintf("unexpected rpc %s/%d", method, len(args))
		return fmt.Errorf("verif: %s", c.bad)
	}
	h, ok := args[0].(common.Hash)
	cfg, _ := json.Marshal(args[1])
	if !ok || h != c.curTx || string(cfg) != `{"tracer":"callTracer"}` {
		c.bad = fmt.Sprintf("unexpected debug_traceTransaction args %v %s", args[0], cfg)
		return fmt.Errorf("verif: %s", c.bad)
	}
	c.traceCalls++
	return json.Unmarshal(c.curTrace, result) // what rpc.Client.Call does with the node's answer
}

// ---- run ---------------------------------------------------------------------------------------------------------------

func Run(args []string) error {
	fs := flag.NewFlagSet("claimcall", flag.ContinueOnError)
	in := fs.String("in", "", "cases json")
	out := fs.String("out", "", "trace ndjson")
	if err := fs.Parse(args); err != nil {
		return err
	}
	var cs []kase
	if err := tr.ReadJSON(*in, &cs); err != nil {
		return err
	}
	w, err := tr.NewW(*out)
	if err != nil {
		return err
	}
	defer w.Close()

	v2, err := polygonzkevmbridgev2.Polygonzkevmbridgev2MetaData.GetAbi()
	if err != nil {
		return err
	}
	v1, err := polygonzkevmbridge.PolygonzkevmbridgeMetaData.GetAbi()
	if err != nil {
		return err
	}
	e := &env{v2: v2, v1: v1, cache: map[string]string{}}

	dir, err := os.MkdirTemp("", "verif-claimcall-db-")
	if err != nil {
		return err
	}
	defer os.RemoveAll(dir)
	bs, err := bridgesync.NewVerifBridgeSync(filepath.Join(dir, "bridge.sqlite"), "verif-claimcall", 0)
	if err != nil {
		return fmt.Errorf("processor: %w", err)
	}
	defer bs.VerifClose()

	client := &fakeClient{}
	appender, err := bridgesync.VerifBuildAppender(client, bridgeAddr, true)
	if err != nil {
		return fmt.Errorf("buildAppender: %w", err)
	}

	ctx := context.Background()
	blk := uint64(0)
	prev, lastTx := common.Hash{}, common.Hash{}
	for id, c := range cs {
		raw, err := e.tree(c)
		if err != nil {
			return fmt.Errorf("case %d: %w", id, err)
		}
		evs := c.Ev
		if len(evs) == 0 {
			evs = []string{"etrog", "pre"}
		}
		for _, gen := range evs {
			blk++
			var nb [8]byte
			binary.BigEndian.PutUint64(nb[:], blk)
			txHash := crypto.Keccak256Hash([]byte("verif-c20-tx"), nb[:])
			if c.SameTx && lastTx != (common.Hash{}) {
				txHash = lastTx
			}
			lastTx = txHash
			bhash := crypto.Keccak256Hash([]byte("verif-c20-block"), nb[:])
			l, err := claimLog(e, gen, c.EvGI, txHash, blk, bhash)
			if err != nil {
				return fmt.Errorf("case %d: %w", id, err)
			}
			client.curTx, client.curTrace, client.traceCalls, client.bad = txHash, raw, 0, ""

			handler, ok := appender[l.Topics[0]]
			if !ok {
				return fmt.Errorf("case %d: no appender for topic %s", id, l.Topics[0])
			}
			b := &sync.EVMBlock{EVMBlockHeader: sync.EVMBlockHeader{Num: blk, Hash: bhash, ParentHash: prev, Timestamp: 1700000000 + blk},
				Events: []interface{}{}}
			herr := handler(b, l)
			if client.bad != "" {
				return fmt.Errorf("case %d: %s", id, client.bad)
			}
			if client.traceCalls > 1 {
				return fmt.Errorf("case %d: %d debug_traceTransaction calls", id, client.traceCalls)
			}
			// what the EVM driver does with a downloaded block
			if perr := bs.VerifProcessBlock(ctx, sync.Block{Num: b.Num, Events: b.Events, Hash: b.Hash}); perr != nil {
				return fmt.Errorf("case %d: ProcessBlock: %w", id, perr)
			}
			prev = bhash
			claims, gerr := bs.GetClaims(ctx, blk, blk)
			if gerr != nil {
				return fmt.Errorf("case %d: GetClaims: %w", id, gerr)
			}
			rows := make([]tr.M, 0, len(claims))
			for i := range claims {
				rows = append(rows, describe(c, &claims[i], txHash))
			}
			n := len(c.Par)
			tb := make([]bool, n)
			for i := range tb {
				tb[i] = toBridge(c.Kind[i])
			}
			line := tr.M{"ev": "case", "id": id, "evgen": gen, "evgi": c.EvGI, "par": c.Par, "kind": c.Kind, "tb": tb,
				"gi": c.GI, "rev": c.Rev, "err": herr != nil, "errmsg": "", "appended": len(b.Events), "rows": rows, "pick": -1,
				"traced": client.traceCalls, "sametx": c.SameTx}
			if herr != nil {
				line["errmsg"] = herr.Error()
			}
			if c.Pick != nil {
				line["pick"] = *c.Pick
			}
			w.Emit(line)
		}
	}
	return nil
}

func claimLog(e *env, gen, gi string, txHash common.Hash, blk uint64, bhash common.Hash) (types.Log, error) {
	g, err := giValue(gi)
	if err != nil {
		return types.Log{}, err
	}
	var (
		ev   abi.Event
		data []byte
	)
	switch gen {
	case "etrog":
		ev = e.v2.Events["ClaimEvent"]
		data, err = ev.Inputs.Pack(g, originNetwork, originAddrOf(gi), destAddrOf(gi), amountOf(gi))
	case "pre":
		if !g.IsUint64() || g.Uint64() > 0xFFFFFFFF {
			return types.Log{}, fmt.Errorf("pre-Etrog event cannot carry global index %s", gi)
		}
		ev = e.v1.Events["ClaimEvent"]
		data, err = ev.Inputs.Pack(uint32(g.Uint64()), originNetwork, originAddrOf(gi), destAddrOf(gi), amountOf(gi))
	default:
		return types.Log{}, fmt.Errorf("unknown event generation %q", gen)
	}
	if err != nil {
		return types.Log{}, err
	}
	return types.Log{Address: bridgeAddr, Topics: []common.Hash{ev.ID}, Data: data, BlockNumber: blk, TxHash: txHash,
		TxIndex: 0, BlockHash: bhash, Index: 3}, nil
}

// describe names every call-derived field of a stored claim row by the frames (1-based) whose call data carries that value.
func describe(c kase, cl *bridgesync.Claim, txHash common.Hash) tr.M {
	fields := []string{"pler", "prer", "mer", "rer", "ger", "dnet", "meta", "msg", "from"}
	tags := map[string][]int{}
	for _, x := range fields {
		tags[x] = []int{}
	}
	zero := treetypes.Proof{}
	for i := 1; i <= len(c.Par); i++ {
		kind := c.Kind[i-1]
		if cl.FromAddress == fromOf(i) {
			tags["from"] = append(tags["from"], i)
		}
		if !hasData(kind) {
			continue
		}
		if cl.ProofLocalExitRoot == toProof(proofOf(0x01, i)) {
			tags["pler"] = append(tags["pler"], i)
		}
		if (isPre(kind) && cl.ProofRollupExitRoot == zero) || (!isPre(kind) && cl.ProofRollupExitRoot == toProof(proofOf(0x02, i))) {
			tags["prer"] = append(tags["prer"], i)
		}
		if cl.MainnetExitRoot == common.Hash(merOf(i)) {
			tags["mer"] = append(tags["mer"], i)
		}
		if cl.RollupExitRoot == common.Hash(rerOf(i)) {
			tags["rer"] = append(tags["rer"], i)
		}
		if cl.GlobalExitRoot == gerOf(i) {
			tags["ger"] = append(tags["ger"], i)
		}
		if cl.DestinationNetwork == dnetOf(i) {
			tags["dnet"] = append(tags["dnet"], i)
		}
		if bytes.Equal(cl.Metadata, metaOf(i)) {
			tags["meta"] = append(tags["meta"], i)
		}
		if cl.IsMessage == isMsg(kind) {
			tags["msg"] = append(tags["msg"], i)
		}
	}
	return tr.M{"gi": giName(cl.GlobalIndex), "tags": tags, "ismsg": cl.IsMessage, "from": cl.FromAddress.Hex(),
		"dnet": cl.DestinationNetwork, "tx": cl.TxHash == txHash}
}

func toProof(p [32][32]byte) (r treetypes.Proof) {
	for i := range p {
		r[i] = p[i]
	}
	return r
}
