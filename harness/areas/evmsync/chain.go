package evmsync

import (
	"context"
	"errors"
	"fmt"
	"math/big"
	"sync"

	aggkittypes "github.com/agglayer/aggkit/types"
	"github.com/ethereum/go-ethereum"
	"github.com/ethereum/go-ethereum/common"
	"github.com/ethereum/go-ethereum/core/types"
	"github.com/ethereum/go-ethereum/crypto"

	"verifharness/tr"
)

// ---------------------------------------------------------------------------------------------- fake chain

var (
	watchedAddr  = common.HexToAddress("0x8464135c8f25da09e49bc8782676a84730c318bc")
	watchedAddr2 = common.HexToAddress("0x71c95911e9a5d330f4d621842ec243ee1343292e")
	otherAddr    = common.HexToAddress("0x00000000000000000000000000000000000000aa")
	// the real signature of the L1 info tree update (so that the second pass can feed the real L1 info store)
	watchedSig   = crypto.Keccak256Hash([]byte("UpdateL1InfoTree(bytes32,bytes32)"))
	unrelatedSig = crypto.Keccak256Hash([]byte("Unrelated(bytes32,bytes32)"))
	chainID      = big.NewInt(1337)
	errTransient = errors.New("verif: transient RPC failure")
)

// blk is one block of one fork: a genuine header (fork id in Extra, real parent hash) and its logs
type blk struct {
	hdr     *types.Header
	v       int         // version = number of the fork that created it
	pv      int         // version of its parent
	logs    []types.Log // everything eth_getLogs could return for the block (all addresses, all topics, removed ones too)
	watched []int       // ids of the watched, non-removed logs in log order
}

// chain is the scripted L1. Every access goes through mu: it serialises RPCs and mutations and stamps the global
// sequence number of the trace.
type chain struct {
	mu     sync.Mutex
	w      *tr.W
	seq    int
	seed   uint64
	blocks []*blk // blocks[n], blocks[0] = genesis
	fin    uint64
	nforks int
	nextID int
	names  map[common.Hash][2]int // hash -> (n, v) of every block that ever existed
}

func newChain(w *tr.W, seed uint64) *chain {
	c := &chain{w: w, seed: seed, names: map[common.Hash][2]int{}, nextID: 1}
	g := &blk{hdr: &types.Header{Number: big.NewInt(0), Time: 1000, Difficulty: big.NewInt(0), Extra: []byte("genesis")}}
	c.blocks = []*blk{g}
	c.names[g.hdr.Hash()] = [2]int{0, 0}
	return c
}

// emit writes one trace line with the next sequence number; callers hold mu
func (c *chain) emit(m tr.M) {
	c.seq++
	m["seq"] = c.seq
	c.w.Emit(m)
}

// Emit is emit for callers that do not hold mu
func (c *chain) Emit(m tr.M) {
	c.mu.Lock()
	defer c.mu.Unlock()
	c.emit(m)
}

func (c *chain) tip() uint64 { return uint64(len(c.blocks) - 1) }

func mix(a ...uint64) uint64 {
	h := uint64(1469598103934665603)
	for _, x := range a {
		for i := 0; i < 8; i++ {
			h ^= (x >> (8 * i)) & 0xff
			h *= 1099511628211
		}
	}
	return h
}

// build makes block n of version v on top of parent: content c = 1 means watched logs (1..3 of them), and every
// block is decorated (by seed) with what a real node also returns: a log of the watched contract with a topic that is
// not watched, a log with the watched topic from another contract, a removed log of the watched kind.
func (c *chain) build(n uint64, v int, parent *blk, content int) *blk {
	h := &types.Header{
		Number:     new(big.Int).SetUint64(n),
		ParentHash: parent.hdr.Hash(),
		Time:       1000 + 12*n + uint64(v),
		Difficulty: big.NewInt(0),
		Extra:      []byte(fmt.Sprintf("fork-%d", v)),
	}
	b := &blk{hdr: h, v: v, pv: parent.v}
	bh := h.Hash()
	r := mix(c.seed, n, uint64(v))
	idx := uint(0)
	add := func(addr common.Address, removed bool, topics ...common.Hash) {
		b.logs = append(b.logs, types.Log{
			Address: addr, Topics: topics, BlockNumber: n, BlockHash: bh, Removed: removed,
			TxHash: crypto.Keccak256Hash(bh[:], []byte{byte(idx)}), TxIndex: idx / 2, Index: idx,
		})
		idx++
	}
	id2h := func(x int) common.Hash { return common.BigToHash(big.NewInt(int64(x))) }
	watched := func(addr common.Address) {
		id := c.nextID
		c.nextID++
		add(addr, false, watchedSig, id2h(id), id2h(1000000+id))
		b.watched = append(b.watched, id)
	}
	k := 0
	if content > 0 {
		k = 1 + int(r%3)
	}
	if r&8 != 0 {
		add(watchedAddr, false, unrelatedSig, id2h(7), id2h(8))
	}
	if r&16 != 0 {
		add(otherAddr, false, watchedSig, id2h(900000+int(n)), id2h(9))
	}
	for i := 0; i < k; i++ {
		if i%2 == 0 {
			watched(watchedAddr)
		} else {
			watched(watchedAddr2)
		}
		if i == 0 && r&32 != 0 {
			add(watchedAddr, true, watchedSig, id2h(800000+int(n)), id2h(10)) // removed log between two live ones
		}
		if i == 1 && r&64 != 0 {
			add(watchedAddr2, false, unrelatedSig, id2h(11), id2h(12))
		}
	}
	if k == 0 && r&32 != 0 {
		add(watchedAddr, true, watchedSig, id2h(800000+int(n)), id2h(10)) // a block whose only watched log was removed
	}
	if r&128 != 0 {
		add(otherAddr, false, unrelatedSig, id2h(13), id2h(14))
	}
	c.names[bh] = [2]int{int(n), v}
	return b
}

func (c *chain) describe(bs []*blk) []tr.M {
	out := make([]tr.M, 0, len(bs))
	for _, b := range bs {
		w := b.watched
		if w == nil {
			w = []int{}
		}
		out = append(out, tr.M{"n": b.hdr.Number.Uint64(), "v": b.v, "pv": b.pv, "w": w, "nlogs": len(b.logs)})
	}
	return out
}

// prefill gives the chain k finalized blocks without watched events below the scripted ones (a syncer that starts far behind
// the tip, or a chain with long quiet stretches: the ranges the downloader asks for become wide)
func (c *chain) prefill(k int) {
	c.mu.Lock()
	defer c.mu.Unlock()
	var nb []*blk
	for i := 0; i < k; i++ {
		b := c.build(c.tip()+1, 0, c.blocks[c.tip()], 0)
		c.blocks = append(c.blocks, b)
		nb = append(nb, b)
	}
	c.fin = c.tip()
	// one compact line: blocks 1..tip of version 0, none of them with a watched log
	for _, b := range nb {
		if len(b.watched) != 0 {
			panic("prefill block with watched logs")
		}
	}
	c.emit(tr.M{"ev": "chain", "op": "prefill", "tip": c.tip(), "fin": c.fin, "blocks": []tr.M{}})
}

func (c *chain) mine(content int) {
	c.mu.Lock()
	defer c.mu.Unlock()
	b := c.build(c.tip()+1, c.nforks, c.blocks[c.tip()], content)
	c.blocks = append(c.blocks, b)
	c.emit(tr.M{"ev": "chain", "op": "mine", "tip": c.tip(), "fin": c.fin, "blocks": c.describe([]*blk{b})})
}

func (c *chain) finalize() error {
	c.mu.Lock()
	defer c.mu.Unlock()
	if c.fin >= c.tip() {
		return fmt.Errorf("finalize beyond the tip (%d)", c.tip())
	}
	c.fin++
	c.emit(tr.M{"ev": "chain", "op": "fin", "tip": c.tip(), "fin": c.fin, "blocks": []tr.M{}})
	return nil
}

// fork replaces the blocks from..tip by new ones and appends one more block (a fork wins only when it is longer)
func (c *chain) fork(from uint64, contents []int) error {
	c.mu.Lock()
	defer c.mu.Unlock()
	if from <= c.fin || from > c.tip() || uint64(len(contents)) != c.tip()-from+2 {
		return fmt.Errorf("fork at %d with %d blocks: tip %d finalized %d", from, len(contents), c.tip(), c.fin)
	}
	c.nforks++
	var nb []*blk
	for i, ct := range contents {
		n := from + uint64(i)
		b := c.build(n, c.nforks, c.blocks[n-1], ct)
		if n < uint64(len(c.blocks)) {
			c.blocks[n] = b
		} else {
			c.blocks = append(c.blocks, b)
		}
		nb = append(nb, b)
	}
	c.emit(tr.M{"ev": "chain", "op": "fork", "from": from, "tip": c.tip(), "fin": c.fin, "blocks": c.describe(nb)})
	return nil
}

// name returns the version of the block with that hash if it is (or was) block n of the chain, else -1
func (c *chain) name(n uint64, h common.Hash) int {
	c.mu.Lock()
	defer c.mu.Unlock()
	return c.nameLocked(n, h)
}

// canonVersion is the version of the canonical block n (-2 above the tip)
func (c *chain) canonVersion(n uint64) int {
	c.mu.Lock()
	defer c.mu.Unlock()
	if n > c.tip() {
		return -2
	}
	return c.blocks[n].v
}

func (c *chain) nameLocked(n uint64, h common.Hash) int {
	if x, ok := c.names[h]; ok && uint64(x[0]) == n {
		return x[1]
	}
	return -1
}

// ---------------------------------------------------------------------------------------------- gated client handle

// client is one component's handle ("dl" downloader, "rd" reorg detector) of one node incarnation. It implements what
// the code under test calls of aggkittypes.BaseEthereumClienter; anything else hits the embedded nil interface and
// panics (a driver problem). HeaderByNumber and FilterLogs are gates: the call parks until the scheduler releases it.
type client struct {
	aggkittypes.BaseEthereumClienter
	who string
	e   *env
	tag string // "latest" | "finalized": what the downloader's block-finality tag means
	// onHeader (detector handle only) is told every answer of HeaderByNumber before the caller gets it (ok = answered)
	onHeader func(key string, n uint64, hash common.Hash, ok bool)
}

func (cl *client) ChainID(ctx context.Context) (*big.Int, error) {
	return new(big.Int).Set(chainID), nil
}

func (cl *client) BlockNumber(ctx context.Context) (uint64, error) {
	cl.e.c.mu.Lock()
	defer cl.e.c.mu.Unlock()
	return cl.e.c.tip(), nil
}

func (cl *client) HeaderByNumber(ctx context.Context, number *big.Int) (*types.Header, error) {
	key := ""
	switch {
	case number == nil || number.Int64() == int64(aggkittypes.Latest) || number.Int64() == int64(aggkittypes.Pending):
		key = "tip"
	case number.Sign() < 0:
		key = "fin"
	default:
		key = fmt.Sprintf("hdr:%d", number.Uint64())
	}
	var res *types.Header
	err := cl.e.gatedRPC(ctx, cl.who, key, func(fail bool) (tr.M, error) {
		c := cl.e.c
		if fail {
			if cl.onHeader != nil {
				cl.onHeader(key, 0, common.Hash{}, false)
			}
			return tr.M{"res": "error"}, errTransient
		}
		var n uint64
		switch key {
		case "tip":
			n = c.tip()
		case "fin":
			n = c.fin
		default:
			n = number.Uint64()
			if n > c.tip() {
				if cl.onHeader != nil {
					cl.onHeader(key, 0, common.Hash{}, false)
				}
				return tr.M{"res": "notfound"}, ethereum.NotFound
			}
		}
		res = types.CopyHeader(c.blocks[n].hdr)
		if cl.onHeader != nil {
			cl.onHeader(key, n, res.Hash(), true)
		}
		return tr.M{"n": n, "v": c.blocks[n].v}, nil
	})
	return res, err
}

func (cl *client) FilterLogs(ctx context.Context, q ethereum.FilterQuery) ([]types.Log, error) {
	if q.FromBlock == nil || q.ToBlock == nil || q.BlockHash != nil {
		return nil, errors.New("fake client: only numeric ranges are scripted")
	}
	from, to := q.FromBlock.Uint64(), q.ToBlock.Uint64()
	var res []types.Log
	err := cl.e.gatedRPC(ctx, cl.who, fmt.Sprintf("logs:%d:%d", from, to), func(fail bool) (tr.M, error) {
		c := cl.e.c
		if fail {
			return tr.M{"res": "error"}, errTransient
		}
		nums := []uint64{}
		for n := from; n <= to && n <= c.tip(); n++ {
			for _, l := range c.blocks[n].logs {
				if !matches(q, l) {
					continue
				}
				cp := l
				cp.Topics = append([]common.Hash(nil), l.Topics...)
				res = append(res, cp)
				if len(nums) == 0 || nums[len(nums)-1] != n {
					nums = append(nums, n)
				}
			}
		}
		return tr.M{"nlogs": len(res), "blocks": nums}, nil
	})
	return res, err
}

// matches is eth_getLogs' filter: address list, positional topic alternatives
func matches(q ethereum.FilterQuery, l types.Log) bool {
	if len(q.Addresses) > 0 {
		ok := false
		for _, a := range q.Addresses {
			ok = ok || a == l.Address
		}
		if !ok {
			return false
		}
	}
	for i, alt := range q.Topics {
		if len(alt) == 0 {
			continue
		}
		if i >= len(l.Topics) {
			return false
		}
		ok := false
		for _, t := range alt {
			ok = ok || t == l.Topics[i]
		}
		if !ok {
			return false
		}
	}
	return true
}
