package evmsync

import (
	"context"
	"sync"
	"time"

	"verifharness/tr"
)

// A gate turns a call of the node into a scheduling point: the calling goroutine parks until the scheduler (the
// replayed TLC behaviour) releases it, or until its own context is cancelled. The gated effect (the RPC answer, the
// call into the real detector / processor) runs under the chain mutex and is recorded with the next sequence number,
// so the trace order is the linearization order, never wall clock.
type waiter struct {
	who  string // dl | drv | rd
	key  string // tip | fin | logs:f:t | hdr:n | track:n | process:n | reorg:b | notify:n | acked
	ctx  context.Context
	rel  chan bool     // the scheduler's release; the value asks the call to fail
	done chan struct{} // closed when the effect has been applied and recorded
}

type env struct {
	c   *chain
	mu  sync.Mutex
	ws  []*waiter
	sig chan struct{}
	// reorg events the detector has recorded in this behaviour (its DB file outlives restarts): "second/from/to"
	rdEvents map[string]bool
	// handover: the relay has been released to hand a reorg notification to the driver and has not done so yet (the detector's
	// send may still be on its way): no new block is delivered to the driver meanwhile, it must be idle when the send arrives
	handover int32
}

func newEnv(c *chain) *env { return &env{c: c, sig: make(chan struct{}, 1)} }

func (e *env) signal() {
	select {
	case e.sig <- struct{}{}:
	default:
	}
}

// gated parks the caller at gate (who,key); after the release it runs fn under the chain mutex and records it.
func (e *env) gated(ctx context.Context, who, key, ev string, fn func(fail bool) (tr.M, error)) error {
	if ctx.Err() != nil {
		return ctx.Err()
	}
	w := &waiter{who: who, key: key, ctx: ctx, rel: make(chan bool, 1), done: make(chan struct{})}
	e.mu.Lock()
	e.ws = append(e.ws, w)
	e.mu.Unlock()
	e.signal()
	var fail bool
	select {
	case fail = <-w.rel:
	case <-ctx.Done():
		e.remove(w)
		e.signal()
		return ctx.Err()
	}
	defer func() {
		close(w.done)
		e.signal()
	}()
	if ctx.Err() != nil {
		return ctx.Err()
	}
	e.c.mu.Lock()
	defer e.c.mu.Unlock()
	info, err := fn(fail)
	if info == nil {
		info = tr.M{}
	}
	info["ev"], info["who"], info["key"], info["fail"] = ev, who, key, fail
	e.c.emit(info)
	return err
}

// gatedFree is gated for calls into the code under test that may themselves wait for another goroutine of the node (a lock
// inside the detector): call runs without the chain mutex, so whoever it waits for can still pass its own gates; record
// then renders the result under the mutex.
func (e *env) gatedFree(ctx context.Context, who, key, ev string, call func() error, record func(err error) tr.M) error {
	if ctx.Err() != nil {
		return ctx.Err()
	}
	w := &waiter{who: who, key: key, ctx: ctx, rel: make(chan bool, 1), done: make(chan struct{})}
	e.mu.Lock()
	e.ws = append(e.ws, w)
	e.mu.Unlock()
	e.signal()
	var fail bool
	select {
	case fail = <-w.rel:
	case <-ctx.Done():
		e.remove(w)
		e.signal()
		return ctx.Err()
	}
	defer func() {
		close(w.done)
		e.signal()
	}()
	if ctx.Err() != nil {
		return ctx.Err()
	}
	err := call()
	e.c.mu.Lock()
	defer e.c.mu.Unlock()
	info := record(err)
	info["ev"], info["who"], info["key"], info["fail"] = ev, who, key, fail
	e.c.emit(info)
	return err
}

func (e *env) gatedRPC(ctx context.Context, who, key string, fn func(fail bool) (tr.M, error)) error {
	return e.gated(ctx, who, key, "rpc", fn)
}

func (e *env) remove(w *waiter) {
	e.mu.Lock()
	defer e.mu.Unlock()
	for i, x := range e.ws {
		if x == w {
			e.ws = append(e.ws[:i], e.ws[i+1:]...)
			return
		}
	}
}

// findAll returns every live waiter of a component (code that parks one component at several gates at once - calls made
// concurrently - is scheduled gate by gate in free mode)
func (e *env) findAll(who string) []*waiter {
	e.mu.Lock()
	defer e.mu.Unlock()
	var out []*waiter
	for _, w := range e.ws {
		if w.who == who && w.ctx.Err() == nil {
			out = append(out, w)
		}
	}
	return out
}

// find returns the live waiter of a component (nil if it is not parked at a gate)
func (e *env) find(who string) *waiter {
	e.mu.Lock()
	defer e.mu.Unlock()
	var first *waiter
	for _, w := range e.ws {
		if w.who == who && w.ctx.Err() == nil {
			// the detector can be parked at several gates at once (it walks the lists of its subscribers concurrently): the
			// hand-over of an acknowledgement always comes first - the subscriber's tracked list is locked until it is done
			if w.key == "acked" {
				return w
			}
			if first == nil {
				first = w
			}
		}
	}
	return first
}

// await waits until pred holds (re-evaluated on every gate signal and every 200 microseconds)
func (e *env) await(pred func() bool, timeout time.Duration) bool {
	deadline := time.Now().Add(timeout)
	for {
		if pred() {
			return true
		}
		if time.Now().After(deadline) {
			return false
		}
		select {
		case <-e.sig:
		case <-time.After(200 * time.Microsecond):
		}
	}
}

// release lets the parked call go on and waits until its effect has been recorded
func (e *env) release(w *waiter, fail bool, timeout time.Duration) bool {
	e.remove(w)
	w.rel <- fail
	select {
	case <-w.done:
		return true
	case <-time.After(timeout):
		return false
	}
}
