package evmsync

import (
	"context"
	"errors"
	"fmt"
	"os"
	"runtime"
	"runtime/pprof"
	"strings"
	gosync "sync"
	"sync/atomic"
	"time"

	cfgtypes "github.com/agglayer/aggkit/config/types"
	dbtypes "github.com/agglayer/aggkit/db/types"
	"github.com/agglayer/aggkit/l1infotreesync"
	"github.com/agglayer/aggkit/reorgdetector"
	"github.com/agglayer/aggkit/sync"
	aggkittypes "github.com/agglayer/aggkit/types"
	"github.com/ethereum/go-ethereum/common"
	"github.com/ethereum/go-ethereum/core/types"

	"verifharness/tr"
)

const syncerID = "verif-syncer"

var errInjected = errors.New("verif: injected ProcessBlock failure")

// ---------------------------------------------------------------------------------------------- appender

// appender is what l1infotreesync's buildAppender does for UpdateL1InfoTree (both fields are indexed topics), without
// the contract bindings: the events it produces are genuine l1infotreesync.Event values, accepted by the real store.
func appender() sync.LogAppenderMap {
	return sync.LogAppenderMap{
		watchedSig: func(b *sync.EVMBlock, l types.Log) error {
			if len(l.Topics) != 3 {
				return fmt.Errorf("UpdateL1InfoTree log with %d topics", len(l.Topics))
			}
			b.Events = append(b.Events, l1infotreesync.Event{UpdateL1InfoTree: &l1infotreesync.UpdateL1InfoTree{
				BlockPosition:   uint64(l.Index),
				MainnetExitRoot: l.Topics[1],
				RollupExitRoot:  l.Topics[2],
				ParentHash:      b.ParentHash,
				Timestamp:       b.Timestamp,
			}})
			return nil
		},
	}
}

// eventIDs reads the log ids back out of the events of a block (-1: not an event the appender made)
func eventIDs(evs []interface{}) []int {
	out := make([]int, 0, len(evs))
	for _, e := range evs {
		ev, ok := e.(l1infotreesync.Event)
		if !ok || ev.UpdateL1InfoTree == nil {
			out = append(out, -1)
			continue
		}
		out = append(out, int(ev.UpdateL1InfoTree.MainnetExitRoot.Big().Int64()))
	}
	return out
}

// ---------------------------------------------------------------------------------------------- processor wrapper

// store is what sits behind the driver's processor interface: the recording store or the real L1 info store
type store interface {
	GetLastProcessedBlock(ctx context.Context) (uint64, error)
	ProcessBlock(ctx context.Context, b sync.Block) error
	Reorg(ctx context.Context, first uint64) error
	rows(ctx context.Context) ([]row, error)
	reopen() error
	close() error
}

type row struct {
	N    uint64
	Hash common.Hash
	Evs  []int
}

// procWrap is the driver's processor: ProcessBlock and Reorg are gates in front of the store; every call and its
// result is recorded. Compatibility data is kept as the store's DB would keep it.
type procWrap struct {
	e      *env
	in     store
	compat *compatData
	n      *node
}

type compatData struct {
	mu  gosync.Mutex
	set bool
	val sync.RuntimeData
}

func (p *procWrap) GetLastProcessedBlock(ctx context.Context) (uint64, error) {
	return p.in.GetLastProcessedBlock(ctx)
}

func (p *procWrap) GetCompatibilityData(ctx context.Context, tx dbtypes.Querier) (bool, sync.RuntimeData, error) {
	p.compat.mu.Lock()
	defer p.compat.mu.Unlock()
	return p.compat.set, p.compat.val, nil
}

func (p *procWrap) SetCompatibilityData(ctx context.Context, tx dbtypes.Querier, d sync.RuntimeData) error {
	p.compat.mu.Lock()
	defer p.compat.mu.Unlock()
	p.compat.set, p.compat.val = true, d
	return nil
}

func errStr(err error) string {
	if err == nil {
		return ""
	}
	return err.Error()
}

func (p *procWrap) ProcessBlock(ctx context.Context, b sync.Block) (err error) {
	defer func() {
		if err == nil {
			atomic.AddInt32(&p.n.inflight, -1)
		}
	}()
	return p.e.gated(ctx, "drv", fmt.Sprintf("process:%d", b.Num), "process", func(fail bool) (tr.M, error) {
		m := tr.M{"n": b.Num, "v": p.e.c.nameLocked(b.Num, b.Hash), "evs": eventIDs(b.Events)}
		if fail {
			// a store that can be made to fail for real fails for real (a storage fault inside its transaction)
			if fs, ok := p.in.(interface {
				ProcessBlockFaulty(ctx context.Context, b sync.Block) error
			}); ok {
				err := fs.ProcessBlockFaulty(ctx, b)
				m["ok"], m["err"], m["real"] = err == nil, errStr(err), true
				return m, err
			}
			m["ok"], m["err"] = false, "injected"
			return m, errInjected
		}
		err := p.in.ProcessBlock(ctx, b)
		m["ok"], m["err"] = err == nil, errStr(err)
		return m, err
	})
}

func (p *procWrap) Reorg(ctx context.Context, first uint64) error {
	err := p.e.gated(ctx, "drv", fmt.Sprintf("reorg:%d", first), "reorg", func(fail bool) (tr.M, error) {
		before, err1 := p.in.rows(ctx)
		err := p.in.Reorg(ctx, first)
		after, err2 := p.in.rows(ctx)
		if err1 != nil || err2 != nil {
			return tr.M{"from": first, "ok": false, "rows": 0, "err": "cannot read rows: " + errStr(err1) + errStr(err2)}, err
		}
		if err == nil {
			atomic.StoreInt32(&p.n.inflight, 0) // whatever was in the driver's channel is dropped with it
			p.n.expectGen()                     // handleReorg is followed by `goto reset`
		}
		return tr.M{"from": first, "ok": err == nil, "rows": len(before) - len(after), "err": errStr(err)}, err
	})
	if err != nil && ctx.Err() != nil {
		// handleReorg retries without looking at its context; the node is being stopped: this goroutine is dead
		runtime.Goexit()
	}
	return err
}

// ---------------------------------------------------------------------------------------------- recording store

type recStore struct {
	mu gosync.Mutex
	rs []row
}

func (s *recStore) GetLastProcessedBlock(ctx context.Context) (uint64, error) {
	s.mu.Lock()
	defer s.mu.Unlock()
	var m uint64
	for _, r := range s.rs {
		if r.N > m {
			m = r.N
		}
	}
	return m, nil
}

func (s *recStore) ProcessBlock(ctx context.Context, b sync.Block) error {
	s.mu.Lock()
	defer s.mu.Unlock()
	s.rs = append(s.rs, row{N: b.Num, Hash: b.Hash, Evs: eventIDs(b.Events)})
	return nil
}

func (s *recStore) Reorg(ctx context.Context, first uint64) error {
	s.mu.Lock()
	defer s.mu.Unlock()
	keep := s.rs[:0:0]
	for _, r := range s.rs {
		if r.N < first {
			keep = append(keep, r)
		}
	}
	s.rs = keep
	return nil
}

func (s *recStore) rows(ctx context.Context) ([]row, error) {
	s.mu.Lock()
	defer s.mu.Unlock()
	return append([]row(nil), s.rs...), nil
}
func (s *recStore) reopen() error { return nil }
func (s *recStore) close() error  { return nil }

// ---------------------------------------------------------------------------------------------- real L1 info store

// l1Store is the real l1infotreesync processor (through its verif facade); its content is read back through the
// syncer's own query methods.
type l1Store struct {
	reorgs int
	path   string
	s      *l1infotreesync.L1InfoTreeSync
}

func (s *l1Store) reopen() error {
	x, err := l1infotreesync.NewVerifL1InfoTreeSync(s.path)
	if err != nil {
		return err
	}
	s.s = x
	return nil
}

func (s *l1Store) close() error {
	if s.s == nil {
		return nil
	}
	err := s.s.VerifClose()
	s.s = nil
	return err
}

func (s *l1Store) GetLastProcessedBlock(ctx context.Context) (uint64, error) {
	return s.s.GetLastProcessedBlock(ctx)
}
func (s *l1Store) ProcessBlock(ctx context.Context, b sync.Block) error {
	return s.s.VerifProcessBlock(ctx, b)
}
func (s *l1Store) Reorg(ctx context.Context, first uint64) error {
	// every other reorg runs while another goroutine of the node has a query in flight on the store's connection pool
	if s.reorgs++; s.reorgs%2 == 1 {
		if rows, err := s.s.VerifDB().Query(`SELECT 1 UNION ALL SELECT 2`); err == nil {
			rows.Next()
			defer rows.Close()
		}
	}
	return s.s.VerifReorg(ctx, first)
}

func (s *l1Store) rows(ctx context.Context) ([]row, error) {
	ctx = context.Background()
	last, err := s.s.GetLastProcessedBlock(ctx)
	if err != nil {
		return nil, err
	}
	var rs []row
	for x := last; x > 0; {
		n, h, err := s.s.GetProcessedBlockUntil(ctx, x)
		if err != nil {
			break // no processed block at or below x
		}
		rs = append([]row{{N: n, Hash: h, Evs: []int{}}}, rs...)
		if n == 0 {
			break
		}
		x = n - 1
	}
	for i := uint32(0); ; i++ {
		leaf, err := s.s.GetInfoByIndex(ctx, i)
		if err != nil {
			break
		}
		found := false
		for k := range rs {
			if rs[k].N == leaf.BlockNumber {
				rs[k].Evs = append(rs[k].Evs, int(leaf.MainnetExitRoot.Big().Int64()))
				found = true
			}
		}
		if !found {
			return nil, fmt.Errorf("leaf %d belongs to block %d which is not in the block table", i, leaf.BlockNumber)
		}
	}
	return rs, nil
}

// ---------------------------------------------------------------------------------------------- downloader wrapper

// gen is one Download call (one downloader goroutine). The real downloader writes into chA (capacity = the
// configured buffer size); the scheduler's "deliver" step hands the next block over to the driver's channel, so that
// the driver's select between a downloaded block and a reorg notification is scheduled and not left to chance.
type gen struct {
	id     int
	ctx    context.Context
	chA    chan sync.EVMBlock
	drvCh  chan sync.EVMBlock
	mu     gosync.Mutex
	closed bool
	exited chan struct{}
}

func (g *gen) isExited() bool {
	select {
	case <-g.exited:
		return true
	default:
		return false
	}
}

type dlWrap struct {
	real *sync.EVMDownloader
	n    *node
}

func (d *dlWrap) RuntimeData(ctx context.Context) (sync.RuntimeData, error) {
	return d.real.RuntimeData(ctx)
}

func (d *dlWrap) Download(ctx context.Context, from uint64, drvCh chan sync.EVMBlock) {
	g := &gen{ctx: ctx, chA: make(chan sync.EVMBlock, cap(drvCh)), drvCh: drvCh, exited: make(chan struct{})}
	d.n.addGen(g)
	d.n.e.c.Emit(tr.M{"ev": "download", "from": from, "gen": g.id})
	// a cancelled downloader that is blocked on its full channel can only leave if somebody reads
	go func() {
		<-ctx.Done()
		for range g.chA { //nolint:revive
		}
	}()
	defer close(g.exited)
	defer func() {
		if p := recover(); p != nil {
			d.n.e.c.Emit(tr.M{"ev": "panic", "who": "dl", "msg": fmt.Sprint(p)})
			return
		}
		g.mu.Lock()
		g.closed = true
		close(drvCh)
		g.mu.Unlock()
	}()
	d.real.Download(ctx, from, g.chA)
}

// ---------------------------------------------------------------------------------------------- detector wrapper

// detWrap is the driver's view of the real reorg detector. AddBlockToTrack is a gate in front of the real call.
// The subscription handed to the driver is a relay of the real one: the notification and the acknowledgement are
// forwarded when the scheduler says so (unbuffered on both sides, as in the real subscription), which makes the two
// rendezvous of the handshake scheduling points: "notify" (the driver's select takes the notification) and "ack" (the
// detector goroutine runs again after the acknowledgement).
// rdPredict follows one detection tick of the real detector through the headers it is served and tells when the tick is
// about to notify its subscriber: the snapshot of the tracked blocks is taken when the finalized header is answered (the
// detector takes its own right after it, nothing else runs in between), each answered header is compared as the detector
// compares it, and the finalized block itself is compared with the cached header (no RPC).
type rdPredict struct {
	mu      gosync.Mutex
	rd      *reorgdetector.ReorgDetector
	nums    []uint64
	hashes  []common.Hash
	pos     int
	fin     uint64
	finHash common.Hash
	active  bool
	lost    bool  // the prediction lost track of the current tick
	sec     int64 // the second in which the tick started (the detector reads the clock right after the finalized header)
	e       *env
	ch      chan uint64
}

func (p *rdPredict) onHeader(key string, n uint64, hash common.Hash, ok bool) {
	p.mu.Lock()
	defer p.mu.Unlock()
	if !ok {
		p.active = false
		return
	}
	switch {
	case key == "fin":
		p.nums, p.hashes = p.rd.VerifTracked(syncerID)
		p.pos, p.fin, p.finHash, p.active, p.sec, p.lost = 0, n, hash, true, time.Now().Unix(), false
	case strings.HasPrefix(key, "hdr:") && p.active:
		if p.pos >= len(p.nums) || p.nums[p.pos] != n {
			// not where the prediction thinks the tick is (a block was tracked between the finalized header's answer and the
			// detector's own snapshot): no prediction for the rest of this tick; the relay falls back on "the detector has
			// been silent for a while, so it is blocked in its notification" (lost)
			p.active, p.lost = false, true
			return
		}
		if p.hashes[p.pos] != hash {
			p.predict(n)
			return
		}
		p.pos++
	default:
		return
	}
	for p.pos < len(p.nums) && p.nums[p.pos] == p.fin { // compared with the cached finalized header, no RPC
		if p.hashes[p.pos] != p.finHash {
			p.predict(p.fin)
			return
		}
		p.pos++
	}
}

func (p *rdPredict) predict(n uint64) {
	p.active = false
	// the detector records the event before it notifies; the primary key of reorg_event is (second of the tick's start,
	// subscriber, from, to): the same range detected twice within one second fails the insert and ends the tick without a
	// notification (DESIGN: information on reorg_event)
	key := fmt.Sprintf("%d/%d/%d", p.sec, n, p.nums[len(p.nums)-1])
	p.e.mu.Lock()
	if p.e.rdEvents == nil {
		p.e.rdEvents = map[string]bool{}
	}
	dup := p.e.rdEvents[key]
	p.e.rdEvents[key] = true
	p.e.mu.Unlock()
	if dup {
		return
	}
	select {
	case p.ch <- n:
	default:
	}
}

type detWrap struct {
	pred   *rdPredict
	rd     *reorgdetector.ReorgDetector
	n      *node
	shadow bool
}

func (d *detWrap) GetFinalizedBlockType() aggkittypes.BlockNumberFinality {
	return d.rd.GetFinalizedBlockType()
}
func (d *detWrap) String() string { return d.rd.String() }

func (d *detWrap) AddBlockToTrack(ctx context.Context, id string, num uint64, hash common.Hash) error {
	return d.n.e.gatedFree(ctx, "drv", fmt.Sprintf("track:%d", num), "track",
		func() error {
			if d.shadow { // the other syncer saw the same block (its own bookkeeping is not the subject here)
				_ = d.rd.AddBlockToTrack(ctx, shadowID, num, hash)
			}
			return d.rd.AddBlockToTrack(ctx, id, num, hash)
		},
		func(err error) tr.M {
			return tr.M{"n": num, "v": d.n.e.c.nameLocked(num, hash), "ok": err == nil, "err": errStr(err)}
		})
}

func (d *detWrap) Subscribe(id string) (*reorgdetector.Subscription, error) {
	realSub, err := d.rd.Subscribe(id)
	if err != nil {
		return nil, err
	}
	h := &reorgdetector.Subscription{ReorgedBlock: make(chan uint64), ReorgProcessed: make(chan bool)}
	go d.relay(realSub, h)
	return h, nil
}

// The relay must not take the detector's notification before the driver is ready to take it from the relay: a detector
// may rely on its unbuffered hand-over ("once my send completed, the subscriber is handling the reorg and tracks nothing
// until it acknowledges"). That the detector is about to notify is therefore not observed but predicted (rdPredict,
// from the detector's own view of its tracked blocks and the headers it was served); the notification is taken from the
// detector and handed to the driver in one go when the scheduler releases the notify gate (the driver is idle then).
func (d *detWrap) relay(realSub, h *reorgdetector.Subscription) {
	ctx := d.n.ctx
	nop := func(bool) (tr.M, error) { return tr.M{}, nil }
	for {
		var n uint64
		silent := 0
	wait:
		for {
			select {
			case n = <-d.pred.ch:
				break wait
			case <-ctx.Done():
				return
			case <-time.After(20 * time.Millisecond):
				// fallback when the prediction lost track of the tick: a detector that is at no gate for 100 ms is blocked in its
				// notification (between two RPCs it only touches its own database)
				d.pred.mu.Lock()
				lost := d.pred.lost
				d.pred.mu.Unlock()
				if lost && d.n.e.find("rd") == nil {
					if silent++; silent >= 5 {
						d.pred.mu.Lock()
						d.pred.lost = false
						d.pred.mu.Unlock()
						break wait
					}
				} else {
					silent = 0
				}
			}
		}
		if d.n.e.gated(ctx, "rd", fmt.Sprintf("notify:%d", n), "notify", nop) != nil {
			return
		}
		// hand-over: not before the driver can take the notification at once (no delivered block unprocessed, not parked in a
		// call); nothing is held while waiting. From here until the driver has the notification no new block is delivered to it
		// (the detector's send can arrive late - e.g. behind another subscriber's walk - and must still find the driver idle).
		atomic.StoreInt32(&d.n.e.handover, 1)
		for atomic.LoadInt32(&d.n.inflight) != 0 || d.n.e.find("drv") != nil {
			select {
			case <-ctx.Done():
				atomic.StoreInt32(&d.n.e.handover, 0)
				return
			case <-time.After(200 * time.Microsecond):
			}
		}
		var m uint64
		select {
		case m = <-realSub.ReorgedBlock:
		case <-time.After(10 * time.Second):
			atomic.StoreInt32(&d.n.e.handover, 0)
			d.n.e.c.Emit(tr.M{"ev": "panic", "who": "rd", "msg": "predicted notification did not come"})
			return
		case <-ctx.Done():
			atomic.StoreInt32(&d.n.e.handover, 0)
			return
		}
		// (when the node is stopped in the middle of the hand-over the old detector stays blocked: the process would be dead.
		// It must NOT be acknowledged on the subscriber's behalf - it would delete the tracked range of a reorg that the
		// subscriber never handled)
		select {
		case h.ReorgedBlock <- m:
			atomic.StoreInt32(&d.n.e.handover, 0)
		case <-ctx.Done():
			atomic.StoreInt32(&d.n.e.handover, 0)
			return
		}
		select {
		case <-h.ReorgProcessed:
		case <-ctx.Done():
			return
		}
		if d.n.e.gated(ctx, "rd", "acked", "ack", nop) != nil {
			return
		}
		select {
		case realSub.ReorgProcessed <- true:
		case <-ctx.Done():
			return
		}
	}
}

// ---------------------------------------------------------------------------------------------- node life cycle

// node is one incarnation of the syncer stack: real detector (own SQLite file), real downloader, real driver.
type node struct {
	e        *env
	ctx      context.Context
	cancel   context.CancelFunc
	syncDone chan struct{}
	mu       gosync.Mutex
	gens     []*gen
	// the driver starts a downloader when Sync starts and after every Reorg it has processed: until it has done so (or a
	// generous time has passed) the node is not considered at rest
	wantGens int
	wantAt   time.Time
	// blocks handed to the driver and not yet stored (the driver is in handleNewBlock or has them in its channel)
	inflight int32
}

func (n *node) expectGen() {
	n.mu.Lock()
	defer n.mu.Unlock()
	n.wantGens++
	n.wantAt = time.Now()
}

// genPending: a downloader start is due and may still come
func (n *node) genPending(grace time.Duration) bool {
	n.mu.Lock()
	defer n.mu.Unlock()
	return len(n.gens) < n.wantGens && time.Since(n.wantAt) < grace
}

func (n *node) addGen(g *gen) {
	n.mu.Lock()
	defer n.mu.Unlock()
	g.id = len(n.gens) + 1
	n.gens = append(n.gens, g)
}

// cur is the live downloader generation (nil if none)
func (n *node) cur() *gen {
	n.mu.Lock()
	defer n.mu.Unlock()
	for i := len(n.gens) - 1; i >= 0; i-- {
		if n.gens[i].ctx.Err() == nil {
			return n.gens[i]
		}
	}
	return nil
}

func (n *node) genCount() int {
	n.mu.Lock()
	defer n.mu.Unlock()
	return len(n.gens)
}

type nodeCfg struct {
	chunk  uint64
	tag    string
	buf    int
	rdPath string
	st     store
	compat *compatData
	shadow bool
}

const shadowID = "verif-shadow"

func startNode(e *env, cfg nodeCfg) (*node, error) {
	ctx, cancel := context.WithCancel(context.Background())
	n := &node{e: e, ctx: ctx, cancel: cancel, syncDone: make(chan struct{})}
	atomic.StoreInt32(&e.handover, 0)
	// as cmd/run.go commonly orders it: detector Start (load tracked blocks), then the syncer subscribes
	pred := &rdPredict{ch: make(chan uint64, 1), e: e}
	rd, err := reorgdetector.New(&client{who: "rd", e: e, tag: cfg.tag, onHeader: pred.onHeader}, reorgdetector.Config{
		DBPath:              cfg.rdPath,
		CheckReorgsInterval: cfgtypes.NewDuration(time.Millisecond),
		FinalizedBlock:      aggkittypes.FinalizedBlock,
	}, reorgdetector.L1)
	if err != nil {
		cancel()
		return nil, fmt.Errorf("reorgdetector.New: %w", err)
	}
	pred.rd = rd
	if err := rd.Start(ctx); err != nil {
		cancel()
		return nil, fmt.Errorf("reorgdetector.Start: %w", err)
	}
	if cfg.shadow {
		sub, err := rd.Subscribe(shadowID)
		if err != nil {
			cancel()
			return nil, fmt.Errorf("shadow subscriber: %w", err)
		}
		go func() {
			for {
				select {
				case <-sub.ReorgedBlock:
					// always answered: the detector holds this subscriber's list locked until it has the acknowledgement
					sub.ReorgProcessed <- true
				case <-ctx.Done():
					return
				}
			}
		}()
	}
	finality := aggkittypes.LatestBlock
	if cfg.tag == "finalized" {
		finality = aggkittypes.FinalizedBlock
	}
	rh := &sync.RetryHandler{RetryAfterErrorPeriod: time.Microsecond, MaxRetryAttemptsAfterError: -1}
	dl, err := sync.NewEVMDownloader("verif", &client{who: "dl", e: e, tag: cfg.tag}, cfg.chunk, finality, time.Millisecond,
		appender(), []common.Address{watchedAddr, watchedAddr2}, rh, aggkittypes.FinalizedBlock)
	if err != nil {
		cancel()
		return nil, fmt.Errorf("NewEVMDownloader: %w", err)
	}
	drv, err := sync.NewEVMDriver(&detWrap{rd: rd, n: n, pred: pred, shadow: cfg.shadow}, &procWrap{e: e, in: cfg.st, compat: cfg.compat, n: n},
		&dlWrap{real: dl, n: n}, syncerID, cfg.buf, rh, true)
	if err != nil {
		cancel()
		return nil, fmt.Errorf("NewEVMDriver: %w", err)
	}
	n.expectGen()
	go func() {
		defer close(n.syncDone)
		defer func() {
			if p := recover(); p != nil {
				e.c.Emit(tr.M{"ev": "panic", "who": "drv", "msg": fmt.Sprint(p)})
			}
		}()
		drv.Sync(ctx)
	}()
	return n, nil
}

// stop cancels the node's context (every parked call returns with the context's error) and waits for the driver and
// the downloaders to be gone. The detector's goroutines end with the context; a goroutine of the old detector that is
// blocked in its notification handshake stays blocked: it is dead and must not touch the DB any more.
func (n *node) stop(timeout time.Duration) error {
	n.cancel()
	select {
	case <-n.syncDone:
	case <-time.After(timeout):
		if os.Getenv("VERIF_DEBUG_STACKS") != "" {
			_ = pprof.Lookup("goroutine").WriteTo(os.Stderr, 2)
		}
		return errors.New("Sync did not return after cancellation")
	}
	n.mu.Lock()
	gens := append([]*gen(nil), n.gens...)
	n.mu.Unlock()
	for _, g := range gens {
		select {
		case <-g.exited:
		case <-time.After(timeout):
			return fmt.Errorf("downloader %d did not return after cancellation", g.id)
		}
	}
	return nil
}
