package evmsync

import (
	"context"
	"fmt"
	"math/big"
	"sort"

	"github.com/agglayer/aggkit/bridgesync"
	"github.com/agglayer/aggkit/l1infotreesync"
	"github.com/agglayer/aggkit/sync"
	"github.com/ethereum/go-ethereum/common"

	"verifharness/sqlfault"
)

// bridgeStore puts the real bridge store (bridgesync processor, exit tree included) behind the driver. The watched
// events of the fake chain are turned into bridge events (even ids; the deposit count continues the stored ones, so the
// tree never sees a gap) and claim events (odd ids; they do not touch the tree). A scripted ProcessBlock failure is a
// real storage fault: the second write of the block's transaction fails (the exit root of the first bridge, inside
// AppendOnlyTree.AddLeaf, when the block starts with a bridge).
type bridgeStore struct {
	reorgs int
	path   string
	s      *bridgesync.BridgeSync
}

func (s *bridgeStore) reopen() error {
	x, err := bridgesync.NewVerifBridgeSync(s.path, "verif_evmsync", 1)
	if err != nil {
		return err
	}
	s.s = x
	return nil
}

func (s *bridgeStore) close() error {
	if s.s == nil {
		return nil
	}
	err := s.s.VerifClose()
	s.s = nil
	return err
}

func (s *bridgeStore) GetLastProcessedBlock(ctx context.Context) (uint64, error) {
	return s.s.GetLastProcessedBlock(ctx)
}

func (s *bridgeStore) convert(b sync.Block) (sync.Block, error) {
	var n uint32
	if err := s.s.VerifDB().QueryRow(`SELECT COUNT(*) FROM bridge`).Scan(&n); err != nil {
		return b, fmt.Errorf("counting bridges: %w", err)
	}
	out := sync.Block{Num: b.Num, Hash: b.Hash}
	for i, e := range b.Events {
		ev, ok := e.(l1infotreesync.Event)
		if !ok || ev.UpdateL1InfoTree == nil {
			return b, fmt.Errorf("event %d of block %d is not one the appender made", i, b.Num)
		}
		id := ev.UpdateL1InfoTree.MainnetExitRoot.Big().Int64()
		if id%2 == 1 { // odd ids are bridges, even ids claims
			out.Events = append(out.Events, bridgesync.Event{Bridge: &bridgesync.Bridge{BlockNum: b.Num, BlockPos: uint64(i),
				DepositCount: n, Amount: big.NewInt(id), Metadata: []byte{}, DestinationNetwork: 7, TxHash: common.BigToHash(big.NewInt(id))}})
			n++
		} else {
			out.Events = append(out.Events, bridgesync.Event{Claim: &bridgesync.Claim{BlockNum: b.Num, BlockPos: uint64(i),
				GlobalIndex: big.NewInt(id), Amount: big.NewInt(id), Metadata: []byte{}, TxHash: common.BigToHash(big.NewInt(id))}})
		}
	}
	return out, nil
}

func (s *bridgeStore) ProcessBlock(ctx context.Context, b sync.Block) error {
	blk, err := s.convert(b)
	if err != nil {
		return err
	}
	return s.s.VerifProcessBlock(ctx, blk)
}

// ProcessBlockFaulty is ProcessBlock with a real storage fault on the second write of its transaction.
func (s *bridgeStore) ProcessBlockFaulty(ctx context.Context, b sync.Block) error {
	blk, err := s.convert(b)
	if err != nil {
		return err
	}
	sqlfault.Arm(s.path, sqlfault.Spec{W: 2})
	defer sqlfault.Disarm(s.path)
	return s.s.VerifProcessBlock(ctx, blk)
}

func (s *bridgeStore) Reorg(ctx context.Context, first uint64) error {
	// every other reorg runs while another goroutine of the node has a query in flight on the store's connection pool
	// (the bridge service, the aggsender): the reorg cannot reuse the pool's first connection
	if s.reorgs++; s.reorgs%2 == 1 {
		if rows, err := s.s.VerifDB().Query(`SELECT 1 UNION ALL SELECT 2`); err == nil {
			rows.Next()
			defer rows.Close()
		}
	}
	return s.s.VerifReorg(ctx, first)
}

func (s *bridgeStore) rows(ctx context.Context) ([]row, error) {
	ctx = context.Background()
	q, err := s.s.VerifDB().QueryContext(ctx, `SELECT num, hash FROM block ORDER BY num`)
	if err != nil {
		return nil, err
	}
	var rs []row
	for q.Next() {
		var n uint64
		var h string
		if err := q.Scan(&n, &h); err != nil {
			q.Close()
			return nil, err
		}
		rs = append(rs, row{N: n, Hash: common.HexToHash(h), Evs: []int{}})
	}
	q.Close()
	if len(rs) == 0 {
		return rs, nil
	}
	last := rs[len(rs)-1].N
	type pe struct {
		pos uint64
		id  int
	}
	per := map[uint64][]pe{}
	bs, err := s.s.GetBridges(ctx, 0, last)
	if err != nil {
		return nil, err
	}
	for _, x := range bs {
		per[x.BlockNum] = append(per[x.BlockNum], pe{x.BlockPos, int(x.Amount.Int64())})
	}
	cs, err := s.s.GetClaims(ctx, 0, last)
	if err != nil {
		return nil, err
	}
	for _, x := range cs {
		per[x.BlockNum] = append(per[x.BlockNum], pe{x.BlockPos, int(x.Amount.Int64())})
	}
	for k := range rs {
		es := per[rs[k].N]
		sort.Slice(es, func(i, j int) bool { return es[i].pos < es[j].pos })
		for _, e := range es {
			rs[k].Evs = append(rs[k].Evs, e.id)
		}
		delete(per, rs[k].N)
	}
	if len(per) > 0 {
		return nil, fmt.Errorf("events of %d blocks that are not in the block table", len(per))
	}
	return rs, nil
}
