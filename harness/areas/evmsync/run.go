// Package evmsync drives the REAL syncer stack of agglayer/aggkit (C05, C06): sync.EVMDownloader, sync.EVMDriver and
// reorgdetector.ReorgDetector (own SQLite file), with a recording processor or the real L1 info store behind the
// driver. Only the environment is scripted: a fake chain with genuine headers behind gated client handles, and
// delegating wrappers at the interfaces the driver takes (processor, reorg detector, downloader).
//
// A behaviour is a path of specs/EVMSync.tla exported by TLC. Every step names one gate (an RPC of the downloader or
// of the detector, a call of the driver into the detector / processor, a hand-over on one of the channels) or one
// move of the chain; the scheduler releases exactly that gate and waits until every goroutine is parked where the
// specification says it is. A goroutine that is not there within the timeout has diverged from the specification:
// DRIFT is recorded, the rest of the behaviour's chain moves are applied and the node is run first come first served
// until it is at rest. The Go side never judges: specs/EVMSyncTrace.tla decides on the recorded trace.
package evmsync

import (
	"context"
	"database/sql"
	"flag"
	"fmt"
	"math/rand"
	"os"
	"path/filepath"
	"runtime/pprof"
	"strings"
	"sync/atomic"
	"syscall"
	"time"

	"github.com/agglayer/aggkit/sync"
	"github.com/ethereum/go-ethereum/common"
	_ "github.com/mattn/go-sqlite3"

	"verifharness/tr"
)

type step struct {
	A    string   `json:"a"`
	N    uint64   `json:"n"`
	C    []int    `json:"c"`
	Fail bool     `json:"fail"`
	At   []string `json:"at"`
}

type behaviour struct {
	Chunk uint64 `json:"chunk"`
	Tag   string `json:"tag"`
	Buf   int    `json:"buf"`
	Proc  string `json:"proc"` // rec | l1
	Steps []step `json:"steps"`
	// Free: only the moves of the chain (and restarts) are taken from Steps; between them the node is scheduled at random,
	// whatever order of calls the code under test makes (no gate of the specification is expected)
	Free bool `json:"free"`
	// Shadow: a second syncer of the node shares the reorg detector (as bridgesync and l1infotreesync share the L1 detector):
	// it tracks the same blocks under its own subscriber id and acknowledges its reorg notifications at once
	Shadow bool `json:"shadow"`
	// Offset (free behaviours only): that many finalized blocks without watched events lie below the scripted chain
	Offset int `json:"offset"`
}

var (
	gateWait  = 2 * time.Second
	stuckWait = 10 * time.Second
)

type run struct {
	offset    uint64 // blocks below the scripted chain (free behaviours)
	abandoned bool   // the node could not be joined after it was recorded as stuck: the behaviour ends there
	w         *tr.W
	b         behaviour
	c         *chain
	e         *env
	n         *node
	cfg       nodeCfg
	drifts    int
	stuck     string
	loop      bool // the chain has stopped and the node is rewound again and again: it will never be at rest
	fatal     string
	// the detector stamps a detected reorg with the wall-clock second (primary key of reorg_event together with
	// subscriber and range): a second detection of the same range within the same second fails and is retried on the
	// next tick. The replay keeps two detections of one behaviour in different seconds.
	lastDetect int64
}

// Run is the driver's entry point: -in behaviours.json -out trace.ndjson
func Run(args []string) error {
	fs := flag.NewFlagSet("evmsync", flag.ContinueOnError)
	in := fs.String("in", "", "behaviours json")
	out := fs.String("out", "", "trace ndjson")
	gw := fs.Int("gatewait", 2000, "milliseconds to wait for a named gate before DRIFT")
	if err := fs.Parse(args); err != nil {
		return err
	}
	gateWait = time.Duration(*gw) * time.Millisecond
	var lim syscall.Rlimit
	if syscall.Getrlimit(syscall.RLIMIT_NOFILE, &lim) == nil {
		lim.Cur = lim.Max
		_ = syscall.Setrlimit(syscall.RLIMIT_NOFILE, &lim)
	}
	var bs []behaviour
	if err := tr.ReadJSON(*in, &bs); err != nil {
		return err
	}
	w, err := tr.NewW(*out)
	if err != nil {
		return err
	}
	defer w.Close()
	dir, err := os.MkdirTemp("", "verif-evmsync-")
	if err != nil {
		return err
	}
	defer os.RemoveAll(dir)
	seed := uint64(tr.Seed())
	for i, b := range bs {
		r := &run{w: w, b: b}
		if err := r.play(i, dir, seed); err != nil {
			return fmt.Errorf("behaviour %d: %w", i, err)
		}
	}
	return nil
}

func (r *run) play(id int, dir string, seed uint64) error {
	b := r.b
	if b.Buf < 1 || b.Chunk < 1 || (b.Tag != "latest" && b.Tag != "finalized") {
		return fmt.Errorf("bad configuration %+v", b)
	}
	r.c = newChain(r.w, seed*1000003+uint64(id))
	if b.Offset > 0 && !b.Free {
		return fmt.Errorf("offset needs a free behaviour (gate names of guided steps carry block numbers)")
	}
	r.offset = uint64(b.Offset)
	r.e = newEnv(r.c)
	fatalCh := make(chan string, 16)
	sync.LogFatalf = func(format string, a ...interface{}) {
		select {
		case fatalCh <- fmt.Sprintf(format, a...):
		default:
		}
		select {} // the process would be dead
	}
	var st store
	switch b.Proc {
	case "l1":
		l := &l1Store{path: filepath.Join(dir, fmt.Sprintf("l1-%d.sqlite", id))}
		if err := l.reopen(); err != nil {
			return fmt.Errorf("L1 info store: %w", err)
		}
		st = l
	case "bridge":
		l := &bridgeStore{path: filepath.Join(dir, fmt.Sprintf("bridge-%d.sqlite", id))}
		if err := l.reopen(); err != nil {
			return fmt.Errorf("bridge store: %w", err)
		}
		st = l
	case "rec", "":
		st = &recStore{}
		b.Proc = "rec"
	default:
		return fmt.Errorf("unknown processor %q", b.Proc)
	}
	r.cfg = nodeCfg{chunk: b.Chunk, tag: b.Tag, buf: b.Buf, rdPath: filepath.Join(dir, fmt.Sprintf("rd-%d.sqlite", id)),
		st: st, compat: &compatData{}, shadow: b.Shadow}
	defer func() {
		for _, p := range []string{r.cfg.rdPath, filepath.Join(dir, fmt.Sprintf("l1-%d.sqlite", id)), filepath.Join(dir, fmt.Sprintf("bridge-%d.sqlite", id))} {
			for _, suf := range []string{"", "-wal", "-shm"} {
				os.Remove(p + suf)
			}
		}
	}()
	r.c.Emit(tr.M{"ev": "cfg", "id": id, "chunk": b.Chunk, "tag": b.Tag, "buf": b.Buf, "proc": b.Proc})
	if b.Offset > 0 {
		r.c.prefill(b.Offset)
	}
	n, err := startNode(r.e, r.cfg)
	if err != nil {
		return err
	}
	r.n = n
	if !r.e.await(func() bool { return r.e.find("dl") != nil && r.e.find("rd") != nil }, stuckWait) || !r.settle([]string{"tip", "idle", "fin"}) {
		return fmt.Errorf("the node did not reach its first gates (dl=%v rd=%v)", r.e.find("dl") != nil, r.e.find("rd") != nil)
	}
	if b.Free {
		rng := rand.New(rand.NewSource(int64(seed*7919 + uint64(id))))
		for _, s := range b.Steps {
			switch s.A {
			case "mine", "finalize", "fork", "restart":
			default:
				continue
			}
			for k := rng.Intn(7); k > 0 && r.stuck == ""; k-- {
				r.freeAct(rng)
			}
			if r.stuck != "" {
				break
			}
			if err := r.envStep(s, false); err != nil {
				return err
			}
		}
		for k := rng.Intn(10); k > 0 && r.stuck == ""; k-- {
			r.freeAct(rng)
		}
		b.Steps = nil
	}
	for i, s := range b.Steps {
		if r.abandoned {
			break
		}
		if r.drifts > 0 {
			// diverged: only the chain keeps moving as scripted; the node is run to rest afterwards
			if err := r.envStep(s, false); err != nil {
				return err
			}
			continue
		}
		got, err := r.doStep(i, s)
		if err != nil {
			return err
		}
		if got != "" {
			r.drifts++
			r.c.Emit(tr.M{"ev": "drift", "step": i, "want": s.A, "at": s.At, "got": got})
		}
	}
	quiet := false
	if !r.abandoned {
		quiet = r.quiesce()
	}
	select {
	case r.fatal = <-fatalCh:
	default:
	}
	storeErr := ""
	rows, err := st.rows(context.Background())
	if err != nil {
		// recorded, judged by the monitor: a store that cannot be read back consistently has not converged to anything
		storeErr, rows = err.Error(), nil
	}
	last, err := st.GetLastProcessedBlock(context.Background())
	if err != nil {
		storeErr += " GetLastProcessedBlock: " + err.Error()
	}
	content := make([]tr.M, 0, len(rows))
	for _, x := range rows {
		content = append(content, tr.M{"n": x.N, "v": r.c.name(x.N, x.Hash), "evs": x.Evs})
	}
	r.c.Emit(tr.M{"ev": "end", "quiet": quiet, "stuck": r.stuck, "loop": r.loop, "fatal": r.fatal, "drift": r.drifts, "last": last, "store": content, "storeerr": storeErr})
	if r.abandoned {
		return nil
	}
	if err := r.n.stop(stuckWait); err != nil {
		if r.stuck != "" {
			// the behaviour is already recorded as stuck (a goroutine of the node neither parked nor finished): its goroutines are
			// left behind with their own files, the run goes on with the next behaviour
			return nil
		}
		return err
	}
	return st.close()
}

// ---------------------------------------------------------------------------------------------- guided replay

func (r *run) norm(key string) string {
	if r.b.Tag == "finalized" && key == "tip" {
		return "fin" // the block-finality tag and the finalized tag are the same RPC
	}
	return key
}

func isGate(who, key string) bool {
	switch key {
	case "blocked", "off", "idle", "ackwait", "":
		return false
	}
	return true
}

// settle waits until every goroutine that the specification places at a gate is parked there
func (r *run) settle(at []string) bool {
	if len(at) != 3 {
		return true
	}
	ok := true
	for i, who := range []string{"dl", "drv", "rd"} {
		want := r.norm(at[i])
		if !isGate(who, want) {
			continue
		}
		// parked at another gate is a definite answer; not parked at all is given the full time
		if !r.e.await(func() bool { return r.e.find(who) != nil }, gateWait) {
			ok = false
		} else if w := r.e.find(who); w == nil || w.key != want {
			ok = false
		}
	}
	return ok
}

func (r *run) where() string {
	var s []string
	for _, who := range []string{"dl", "drv", "rd"} {
		if w := r.e.find(who); w != nil {
			s = append(s, who+"="+w.key)
		} else {
			s = append(s, who+"=-")
		}
	}
	return strings.Join(s, " ")
}

// envStep applies a move of the chain (or a restart); strict: a move that the chain cannot make is a driver problem
func (r *run) envStep(s step, strict bool) error {
	var err error
	switch s.A {
	case "mine":
		c := 0
		if len(s.C) > 0 {
			c = s.C[0]
		}
		r.c.mine(c)
	case "finalize":
		err = r.c.finalize()
	case "fork":
		err = r.c.fork(s.N+r.offset, s.C)
	case "restart":
		return r.restart()
	}
	if err != nil && strict {
		return err
	}
	return nil
}

func (r *run) restart() error {
	if err := r.n.stop(stuckWait); err != nil {
		if r.stuck != "" {
			r.abandoned = true // recorded as stuck; nothing more can be asked of this node
			return nil
		}
		return err
	}
	if err := r.cfg.st.close(); err != nil {
		return err
	}
	r.c.Emit(tr.M{"ev": "restart"})
	if err := r.cfg.st.reopen(); err != nil {
		return err
	}
	n, err := startNode(r.e, r.cfg)
	if err != nil {
		return err
	}
	r.n = n
	return nil
}

// doStep performs one step of the behaviour; a non-empty answer says where the node was instead (DRIFT)
func (r *run) doStep(i int, s step) (string, error) {
	gate := func(who, prefix string) string {
		want := r.norm(prefix)
		r.e.await(func() bool { return r.e.find(who) != nil }, gateWait) // hand-written schedules carry no "at"
		w := r.e.find(who)
		if w == nil || !(w.key == want || strings.HasPrefix(w.key, want+":")) {
			return "not at " + prefix + ": " + r.where()
		}
		if !r.e.release(w, s.Fail, gateWait) {
			return "released call did not finish: " + r.where()
		}
		return ""
	}
	got := ""
	switch s.A {
	case "mine", "finalize", "fork", "restart":
		if err := r.envStep(s, true); err != nil {
			return "", err
		}
	case "dlwait":
		got = gate("dl", "tip")
	case "dlfin":
		got = gate("dl", "fin")
	case "dllogs":
		got = gate("dl", "logs")
	case "dlhdr":
		got = gate("dl", "hdr")
	case "rdtick":
		// the detector stamps a detection with the second in which its tick started
		if r.tickDetects(i) {
			r.spaceDetections()
		}
		got = gate("rd", "fin")
	case "rdcmp":
		got = gate("rd", "hdr")
	case "track":
		got = gate("drv", "track")
	case "process":
		got = gate("drv", "process")
	case "reorg":
		got = gate("drv", "reorg")
	case "notify":
		got = gate("rd", "notify")
	case "ack":
		got = gate("rd", "acked")
	case "deliver":
		if !r.deliver(gateWait) {
			got = "nothing to deliver: " + r.where()
		}
	default:
		return "", fmt.Errorf("unknown step %q", s.A)
	}
	if got != "" {
		return got, nil
	}
	if !r.settle(s.At) {
		return "after " + s.A + ": " + r.where(), nil
	}
	return "", nil
}

// tickDetects: does the tick that starts with step i end in a notification (according to the behaviour)?
func (r *run) tickDetects(i int) bool {
	for k := i; k < len(r.b.Steps); k++ {
		s := r.b.Steps[k]
		if k > i && (s.A == "rdtick" || s.A == "restart") {
			return false
		}
		if (s.A == "rdtick" || s.A == "rdcmp") && len(s.At) == 3 && strings.HasPrefix(s.At[2], "notify") {
			return true
		}
	}
	return false
}

func (r *run) spaceDetections() {
	now := time.Now()
	if now.Unix() == r.lastDetect {
		time.Sleep(time.Until(time.Unix(now.Unix()+1, 0)) + 5*time.Millisecond)
	}
	r.lastDetect = time.Now().Unix()
}

// staleTracked reads the detector's own table: is a block tracked whose hash is not the canonical one? (an observation
// that decides whether the node is at rest, never a verdict)
func (r *run) staleTracked() bool {
	db, err := sql.Open("sqlite3", fmt.Sprintf("file:%s?mode=ro&_journal_mode=WAL", r.cfg.rdPath))
	if err != nil {
		return false
	}
	defer db.Close()
	rows, err := db.Query(`SELECT num, hash FROM tracked_block WHERE subscriber_id = ?`, syncerID)
	if err != nil {
		return false
	}
	defer rows.Close()
	for rows.Next() {
		var n uint64
		var h string
		if rows.Scan(&n, &h) != nil {
			return false
		}
		if r.c.name(n, common.HexToHash(h)) != r.c.canonVersion(n) {
			return true
		}
	}
	return false
}

// deliver hands the next downloaded block to the driver's select
func (r *run) deliver(timeout time.Duration) bool {
	g := r.n.cur()
	if g == nil {
		return false
	}
	// not while a reorg notification is on its way to the driver (see detWrap.relay)
	for t0 := time.Now(); atomic.LoadInt32(&r.e.handover) != 0; {
		if time.Since(t0) > timeout {
			return false
		}
		time.Sleep(200 * time.Microsecond)
	}
	select {
	case b, ok := <-g.chA:
		if !ok {
			return false
		}
		g.mu.Lock()
		defer g.mu.Unlock()
		if g.closed {
			return false
		}
		select {
		case g.drvCh <- b:
			atomic.AddInt32(&r.n.inflight, 1)
			r.c.Emit(tr.M{"ev": "deliver", "n": b.Num, "v": r.c.name(b.Num, b.Hash), "fin": b.IsFinalizedBlock})
			return true
		default:
			return false
		}
	case <-time.After(timeout):
		return false
	}
}

// ---------------------------------------------------------------------------------------------- free scheduling

// freeAct lets one randomly chosen goroutine of the node take one step (free mode): a parked call is released, a
// downloaded block is handed to the driver, or the detector's notification is handed over (only to an idle driver).
// The detector's removal after an acknowledged reorg always comes first (the tracked list is locked until then).
func (r *run) freeAct(rng *rand.Rand) {
	if w := r.e.find("rd"); w != nil && w.key == "acked" {
		if !r.e.release(w, false, stuckWait) {
			r.stuck = "hand-over did not finish"
			return
		}
		r.e.await(func() bool { return r.e.find("rd") != nil }, gateWait)
		return
	}
	type opt struct {
		kind string
		w    *waiter
	}
	var opts []opt
	drv, g := r.e.find("drv"), r.n.cur()
	for _, w := range r.e.findAll("drv") {
		opts = append(opts, opt{"drv", w})
	}
	if w := r.e.find("rd"); w != nil {
		if strings.HasPrefix(w.key, "notify") {
			if drv == nil && atomic.LoadInt32(&r.n.inflight) == 0 {
				opts = append(opts, opt{"notify", w})
			}
		} else {
			opts = append(opts, opt{"rd", w})
		}
	}
	if w := r.e.find("dl"); w != nil {
		opts = append(opts, opt{"dl", w})
	}
	if g != nil && len(g.chA) > 0 && drv == nil {
		opts = append(opts, opt{"deliver", nil})
	}
	if len(opts) == 0 {
		r.e.await(func() bool { return r.e.find("drv") != nil || r.e.find("dl") != nil || r.e.find("rd") != nil }, 20*time.Millisecond)
		return
	}
	o := opts[rng.Intn(len(opts))]
	switch o.kind {
	case "deliver":
		if r.deliver(gateWait) {
			r.e.await(func() bool { return r.e.find("drv") != nil }, gateWait)
		}
	case "notify":
		if !r.e.release(o.w, false, stuckWait) {
			r.stuck = "hand-over did not finish"
			return
		}
		r.lastDetect = time.Now().Unix()
		r.e.await(func() bool { return r.e.find("drv") != nil }, gateWait)
	default:
		if !r.e.release(o.w, false, stuckWait) {
			r.stuck = o.kind + " call did not finish"
			return
		}
		// give the released goroutine the time to park again (or to block / to go idle)
		r.e.await(func() bool { return r.e.find(o.kind) != nil }, 5*time.Millisecond)
	}
}

// ---------------------------------------------------------------------------------------------- running to rest

// quiesce runs the node first come first served (driver, hand-overs, downloader, detector) with the chain stopped,
// until every goroutine is positively at rest: the downloader parked in its poll loop with no news (or gone), the
// driver in its select with empty channels, the detector parked at a tick after full ticks without a notification.
// Anything else (a goroutine that is neither parked nor provably blocked) is reported as stuck, never as at rest.
func (r *run) quiesce() bool {
	dlPolls, rdTicks, inTick := 0, 0, false
	reset := func() { dlPolls, rdTicks, inTick = 0, 0, false }
	gens := r.n.genCount()
	lastDrv, sameDrv := "", 0
	var staleSince time.Time
	newSecond := false
	rewinds := 0
	for it := 0; it < 5000; it++ {
		if r.n.genCount() != gens {
			gens = r.n.genCount()
			reset()
		}
		// the detector's removal after an acknowledged reorg comes first: the subscriber's tracked list is locked until it is
		// done, a driver call released before it would wait for it
		if w := r.e.find("rd"); w != nil && w.key == "acked" {
			if !r.e.release(w, false, stuckWait) {
				r.stuck = "hand-over did not finish"
				return false
			}
			if !r.e.await(func() bool { return r.e.find("rd") != nil }, stuckWait) {
				r.stuck = "nobody arrived after " + w.key
				return false
			}
			reset()
			inTick = false
			staleSince, newSecond = time.Time{}, false
			r.lastDetect = time.Now().Unix()
			continue
		}
		if w := r.e.find("drv"); w != nil {
			if w.key == lastDrv {
				sameDrv++
			} else {
				lastDrv, sameDrv = w.key, 0
			}
			if sameDrv > 25 {
				// the chain has stopped and the driver keeps failing at the same call although no failure is injected any more:
				// the node does not converge (judged like an endless rewind)
				r.stuck, r.loop = "the driver retries "+w.key+" for ever", true
				return false
			}
			if !r.e.release(w, false, stuckWait) {
				r.stuck = "driver call did not finish"
				if os.Getenv("VERIF_DEBUG_STACKS") != "" {
					_ = pprof.Lookup("goroutine").WriteTo(os.Stderr, 2)
				}
				return false
			}
			reset()
			continue
		}
		g := r.n.cur()
		if w := r.e.find("rd"); w != nil && strings.HasPrefix(w.key, "notify") && atomic.LoadInt32(&r.n.inflight) != 0 {
			// the driver still has a delivered block in its hands (its goroutine has not reached the next gate yet): the
			// notification is handed over when it is idle
			if !r.e.await(func() bool { return r.e.find("drv") != nil }, stuckWait) {
				r.stuck = "not at rest and nobody arrives: " + r.where()
				return false
			}
			it--
			continue
		}
		if w := r.e.find("rd"); w != nil && (strings.HasPrefix(w.key, "notify") || w.key == "acked") {
			if !r.e.release(w, false, stuckWait) {
				r.stuck = "hand-over did not finish"
				return false
			}
			who := "drv"
			if w.key == "acked" {
				who = "rd"
			} else if rewinds++; rewinds > 30 {
				r.stuck, r.loop = "rewound 30 times with the chain stopped", true
				return false
			}
			if !r.e.await(func() bool { return r.e.find(who) != nil }, stuckWait) {
				r.stuck = "nobody arrived after " + w.key
				return false
			}
			reset()
			inTick = false
			staleSince, newSecond = time.Time{}, false
			r.lastDetect = time.Now().Unix()
			continue
		}
		if g != nil && len(g.chA) > 0 && atomic.LoadInt32(&r.e.handover) == 0 {
			if !r.deliver(gateWait) || !r.e.await(func() bool { return r.e.find("drv") != nil }, stuckWait) {
				r.stuck = "delivered block did not reach the driver"
				return false
			}
			reset()
			continue
		}
		if w := r.e.find("dl"); w != nil && dlPolls < 3 {
			if w.key == "tip" || w.key == "fin" {
				dlPolls++
			} else {
				dlPolls = 0
				rdTicks = 0
			}
			if !r.e.release(w, false, stuckWait) {
				r.stuck = "downloader call did not finish"
				return false
			}
			// next arrival, or blocked on its full channel, or gone
			if !r.e.await(func() bool {
				return r.e.find("dl") != nil || g == nil || len(g.chA) == cap(g.chA) || g.isExited() || g.ctx.Err() != nil
			}, stuckWait) {
				r.stuck = "downloader is neither parked nor blocked"
				return false
			}
			continue
		}
		if w := r.e.find("rd"); w != nil && rdTicks < 2 {
			if w.key == "fin" {
				if inTick {
					rdTicks++ // the previous tick ran to its end without a notification
				}
				inTick = true
				if rdTicks >= 2 {
					continue
				}
			}
			if !r.e.release(w, false, stuckWait) {
				r.stuck = "detector call did not finish"
				return false
			}
			if !r.e.await(func() bool { return r.e.find("rd") != nil }, stuckWait) {
				r.stuck = "detector is not parked"
				return false
			}
			continue
		}
		// nothing was released in this round: is everybody positively at rest?
		dlRest := (r.e.find("dl") != nil && dlPolls >= 3) || g == nil || g.isExited()
		rdRest := r.e.find("rd") != nil && rdTicks >= 2
		if r.n.genPending(gateWait) {
			time.Sleep(200 * time.Microsecond)
			it-- // waiting is not a release
			continue
		}
		// (a block that was handed to the driver and is neither stored nor dropped by a rewind is still in its hands, however
		// long its goroutine takes to reach the next gate on a loaded machine: that is not rest)
		if dlRest && rdRest && r.e.find("drv") == nil && (g == nil || len(g.chA) == 0) && atomic.LoadInt32(&r.n.inflight) == 0 &&
			atomic.LoadInt32(&r.e.handover) == 0 {
			// a tracked block that is not canonical must lead to a notification; a detection that collides with an earlier
			// one of the same second is retried by the detector on a later tick: give it that second
			if r.staleTracked() {
				now := time.Now()
				if staleSince.IsZero() {
					staleSince = now
				}
				if now.Unix() == staleSince.Unix() {
					time.Sleep(20 * time.Millisecond) // same second: a tick that starts now may still collide
					rdTicks, inTick = 0, false
					it--
					continue
				}
				if !newSecond {
					newSecond = true // two more full ticks that start in the new second
					rdTicks, inTick = 0, false
					continue
				}
			}
			return true
		}
		// somebody is on the way to a gate: wait for the arrival
		if !r.e.await(func() bool {
			return r.e.find("drv") != nil || (r.e.find("dl") != nil && dlPolls < 3) || (r.e.find("rd") != nil && rdTicks < 2) ||
				(g != nil && len(g.chA) > 0 && atomic.LoadInt32(&r.e.handover) == 0)
		}, stuckWait) {
			r.stuck = "not at rest and nobody arrives: " + r.where()
			return false
		}
	}
	r.stuck = "no rest after 5000 releases: " + r.where()
	return false
}
