// Package bridgeapi drives the REAL bridge service (bridgeservice.New) over REAL stores for property C12:
//
//	L1 bridge store, L2 bridge store   bridgesync processors      (facade bridgesync.NewVerifBridgeSync, two instances)
//	L1 info store                      l1infotreesync processor   (facade l1infotreesync.NewVerifL1InfoTreeSync)
//	injected-GER store                 lastgersync processor      (facade lastgersync.NewVerifLastGERSync)
//
// A case is a joint L1/L2 history exported by TLC from specs/BridgeAPI.tla (or generated at random by the check): a
// sequence of L1 blocks whose events are L1 deposits, L1 info tree updates (carrying the exit roots of that moment) and
// verified batches (carrying the L2 exit root over the first k L2 deposits). The driver feeds the stores through their
// real ProcessBlock with events consistent with that history, then sends every request of the claim flow through
// net/http/httptest to the real gin routes
//
//	GET /bridge/v1/l1-info-tree-index?network_id=&deposit_count=
//	GET /bridge/v1/claim-proof?network_id=&leaf_index=&deposit_count=
//	GET /bridge/v1/injected-l1-info-leaf?network_id=&leaf_index=
//
// and records status and answer, every hash translated to a structural name (package names; siblings that are the zero
// hash of their own height are elided). The Go side never judges: specs/BridgeAPITrace.tla does.
package bridgeapi

import (
	"context"
	"encoding/json"
	"flag"
	"fmt"
	"math/big"
	"math/rand"
	"net/http"
	"net/http/httptest"
	"os"
	"path/filepath"
	"sort"
	"strings"
	"time"

	"github.com/agglayer/aggkit/bridgeservice"
	bstypes "github.com/agglayer/aggkit/bridgeservice/types"
	"github.com/agglayer/aggkit/bridgesync"
	"github.com/agglayer/aggkit/l1infotreesync"
	"github.com/agglayer/aggkit/lastgersync"
	"github.com/agglayer/aggkit/log"
	aggsync "github.com/agglayer/aggkit/sync"
	"github.com/ethereum/go-ethereum/common"

	"verifharness/names"
	"verifharness/tr"
)

// ---------------------------------------------------------------------------------------------- cases

type Ev struct {
	T string `json:"t"` // dep | info | ver
	R int    `json:"r"` // ver: rollup id
	K int    `json:"k"` // ver: for R = ours the number of L2 leaves under the exit root (0 = zero hash); else the rollup's k-th value
}

type Block struct {
	Num uint64 `json:"num"`
	Evs []Ev   `json:"evs"`
}

type Case struct {
	Ours   int     `json:"ours"`   // network id served by the API (>= 1)
	N2     int     `json:"n2"`     // deposits recorded by the L2 bridge store
	Blocks []Block `json:"blocks"` // L1 history
	Every  bool    `json:"every"`  // snapshot after every L1 block (else after the last one only)
	// A reorg of the L1 while the service keeps running (specs/BridgeAPIReorg.tla): first the history Old is recorded, then
	// both L1 stores forget every block after the first Kept ones (the real Reorg of both processors, and of the injected-GER
	// store for the leaves that are gone), then the blocks of Blocks after the first Kept ones follow - with other deposits.
	Old  []Block `json:"old"`
	Kept int     `json:"kept"`
}

// ---------------------------------------------------------------------------------------------- run

func Run(args []string) error {
	fs := flag.NewFlagSet("bridgeapi", flag.ContinueOnError)
	in := fs.String("in", "", "cases json")
	out := fs.String("out", "", "trace ndjson")
	if err := fs.Parse(args); err != nil {
		return err
	}
	var cs []Case
	if err := tr.ReadJSON(*in, &cs); err != nil {
		return err
	}
	w, err := tr.NewW(*out)
	if err != nil {
		return err
	}
	defer w.Close()
	dir, err := os.MkdirTemp("", "verif-bridgeapi-")
	if err != nil {
		return err
	}
	defer os.RemoveAll(dir)
	rng := rand.New(rand.NewSource(tr.Seed()))
	for i, c := range cs {
		if err := one(w, dir, rng.Int63(), i+1, c); err != nil {
			return fmt.Errorf("case %d: %w", i+1, err)
		}
	}
	return nil
}

type node struct {
	seed   int64
	ours   uint32
	rng    *rand.Rand
	bL1    *bridgesync.BridgeSync
	bL2    *bridgesync.BridgeSync
	info   *l1infotreesync.L1InfoTreeSync
	gers   *lastgersync.LastGERSync
	h      http.Handler
	dictA  *names.Dict // exit trees (L1 and L2 leaf atoms are disjoint)
	dictU  *names.Dict // rollup exit tree
	refL1  *names.AppendTree
	refL2  *names.AppendTree
	uref   *names.UpdTree
	ucur   map[int]common.Hash // rollup exit tree leaves now
	nL1    int                 // L1 deposits so far
	nL2    int
	infos  []infoRec
	gerBlk uint64
	injBlk map[int]uint64 // info leaf index -> L2 block that recorded its GER as injected
	base   int            // atom offset of the deposits of the current fork
	fed    []fedBlock
}

type fedBlock struct {
	b    Block
	base int
}

type infoRec struct {
	mer, rer common.Hash
}

func one(w *tr.W, root string, seed int64, idx int, c Case) error {
	if c.Ours < 1 {
		return fmt.Errorf("ours must be >= 1")
	}
	dir, err := os.MkdirTemp(root, "case")
	if err != nil {
		return err
	}
	defer os.RemoveAll(dir)
	n := &node{seed: seed, ours: uint32(c.Ours), rng: rand.New(rand.NewSource(seed)), ucur: map[int]common.Hash{}, injBlk: map[int]uint64{}}
	n.dictA, n.dictU = names.NewDict(), names.NewDict()
	n.refL1, n.refL2, n.uref = names.NewAppendTree(n.dictA), names.NewAppendTree(n.dictA), names.NewUpdTree(n.dictU)
	if n.bL1, err = bridgesync.NewVerifBridgeSync(filepath.Join(dir, "bridgel1.sqlite"), "verif_bridge_l1", 0); err != nil {
		return fmt.Errorf("open L1 bridge store: %w", err)
	}
	defer n.bL1.VerifClose()
	if n.bL2, err = bridgesync.NewVerifBridgeSync(filepath.Join(dir, "bridgel2.sqlite"), "verif_bridge_l2", n.ours); err != nil {
		return fmt.Errorf("open L2 bridge store: %w", err)
	}
	defer n.bL2.VerifClose()
	if n.info, err = l1infotreesync.NewVerifL1InfoTreeSync(filepath.Join(dir, "l1info.sqlite")); err != nil {
		return fmt.Errorf("open L1 info store: %w", err)
	}
	defer n.info.VerifClose()
	if n.gers, err = lastgersync.NewVerifLastGERSync(filepath.Join(dir, "lastger.sqlite")); err != nil {
		return fmt.Errorf("open injected GER store: %w", err)
	}
	defer n.gers.VerifClose()
	// the real service, wired as cmd/run.go wires it
	svc := bridgeservice.New(&bridgeservice.Config{
		Logger: log.WithFields("module", "verif-bridgeapi"), Address: "127.0.0.1:0",
		ReadTimeout: time.Minute, WriteTimeout: time.Minute, NetworkID: n.ours,
	}, n.info, n.gers, n.bL1, n.bL2)
	n.h = svc.VerifHandler()

	w.Emit(tr.M{"ev": "reset", "t": idx, "ours": c.Ours})
	if err := n.feedL2(w, c.N2); err != nil {
		return err
	}
	if len(c.Blocks) == 0 {
		w.Emit(tr.M{"ev": "snap", "s": n.snapshot()})
		return nil
	}
	rest := c.Blocks
	if len(c.Old) > 0 {
		if c.Kept < 0 || c.Kept >= len(c.Old) || c.Kept > len(c.Blocks) {
			return fmt.Errorf("reorg case: kept=%d with %d old and %d new blocks", c.Kept, len(c.Old), len(c.Blocks))
		}
		for _, b := range c.Old {
			if err := n.feedL1(w, b, false); err != nil {
				return err
			}
			w.Emit(tr.M{"ev": "snap", "s": n.snapshot()})
		}
		if err := n.reorgL1(w, c.Old[c.Kept].Num, c.Kept); err != nil {
			return err
		}
		w.Emit(tr.M{"ev": "snap", "s": n.snapshot()})
		rest = c.Blocks[c.Kept:]
	}
	for bi, b := range rest {
		if err := n.feedL1(w, b, false); err != nil {
			return err
		}
		if c.Every || len(c.Old) > 0 || bi == len(rest)-1 {
			w.Emit(tr.M{"ev": "snap", "s": n.snapshot()})
		}
	}
	return nil
}

// reorgL1: the L1 blocks >= from are gone. Both L1 stores are told so (the driver's handleReorg calls Reorg on each
// processor); the GERs of the leaves that no longer exist are no longer injected on the L2 (that store is reorged from the
// block that recorded the first of them). The reference is rebuilt from the surviving blocks.
func (n *node) reorgL1(w *tr.W, from uint64, kept int) error {
	ctx := context.Background()
	if err := n.bL1.VerifReorg(ctx, from); err != nil {
		return fmt.Errorf("L1 bridge store Reorg(%d): %w", from, err)
	}
	if err := n.info.VerifReorg(ctx, from); err != nil {
		return fmt.Errorf("L1 info store Reorg(%d): %w", from, err)
	}
	survivors := n.fed[:kept]
	n.refL1, n.uref = names.NewAppendTree(n.dictA), names.NewUpdTree(n.dictU)
	n.ucur, n.nL1, n.infos, n.fed = map[int]common.Hash{}, 0, nil, nil
	for _, f := range survivors {
		n.base = f.base
		if err := n.feedL1(nil, f.b, true); err != nil {
			return err
		}
	}
	var first uint64
	for i, blk := range n.injBlk {
		if i >= len(n.infos) {
			if first == 0 || blk < first {
				first = blk
			}
			delete(n.injBlk, i)
		}
	}
	if first > 0 {
		if err := n.gers.VerifReorg(ctx, first); err != nil {
			return fmt.Errorf("injected GER store Reorg(%d): %w", first, err)
		}
		for i, blk := range n.injBlk { // later L2 blocks went with it: the GERs they recorded (of surviving leaves) are not injected any more
			if blk >= first {
				delete(n.injBlk, i)
			}
		}
	}
	still := []int{}
	for i := range n.injBlk {
		still = append(still, i)
	}
	sort.Ints(still)
	n.base += 100
	w.Emit(tr.M{"ev": "reorg", "from": from, "inj": still})
	return nil
}

// ---------------------------------------------------------------------------------------------- history -> events

const l2AtomBase = 1000

// deposit returns the (deterministic) deposit for a leaf atom, all field classes (as the store driver does for C01).
func (n *node) deposit(x int) *bridgesync.Bridge {
	r := rand.New(rand.NewSource(n.seed ^ int64(x)*7919))
	var amount *big.Int
	switch r.Intn(5) {
	case 0:
		amount = big.NewInt(0)
	case 1:
		amount = big.NewInt(1)
	case 2:
		amount = new(big.Int).Sub(new(big.Int).Lsh(big.NewInt(1), 256), big.NewInt(1))
	default:
		amount = new(big.Int).Rand(r, new(big.Int).Lsh(big.NewInt(1), uint(8+r.Intn(248))))
	}
	meta := make([]byte, []int{0, 1, 32, 33, 100}[r.Intn(5)])
	r.Read(meta)
	addr := func() common.Address {
		var a common.Address
		if r.Intn(6) > 0 {
			r.Read(a[:])
		}
		return a
	}
	net := func() uint32 { return []uint32{0, 1, 2, 0xffffffff, r.Uint32()}[r.Intn(5)] }
	var txh common.Hash
	r.Read(txh[:])
	// the atom number goes into the calldata-independent fields too, so that contents are pairwise distinct
	return &bridgesync.Bridge{
		FromAddress: addr(), TxHash: txh, BlockTimestamp: uint64(1700000000 + x), LeafType: uint8(r.Intn(2)),
		OriginNetwork: net(), OriginAddress: addr(), DestinationNetwork: net(), DestinationAddress: common.BigToAddress(big.NewInt(int64(x) + 1)),
		Amount: amount, Metadata: meta, IsNativeToken: r.Intn(2) == 0,
	}
}

func leafHash(b *bridgesync.Bridge) common.Hash {
	return names.BridgeLeaf(b.LeafType, b.OriginNetwork, b.OriginAddress, b.DestinationNetwork, b.DestinationAddress, b.Amount, b.Metadata)
}

func (n *node) blockHash(tag string, num uint64) common.Hash {
	return names.Keccak([]byte(fmt.Sprintf("%s-%d-%d", tag, num, n.seed)))
}

// feedL2: the L2 bridge store records n2 deposits, one or two per L2 block.
func (n *node) feedL2(w *tr.W, n2 int) error {
	atoms := []int{}
	num := uint64(0)
	for n.nL2 < n2 {
		num += uint64(1 + n.rng.Intn(3))
		blk := aggsync.Block{Num: num, Hash: n.blockHash("l2", num)}
		for p := 0; p < 1+n.rng.Intn(2) && n.nL2 < n2; p++ {
			x := l2AtomBase + n.nL2 + 1
			d := *n.deposit(x)
			d.BlockNum, d.BlockPos, d.DepositCount = num, uint64(p), uint32(n.nL2)
			blk.Events = append(blk.Events, bridgesync.Event{Bridge: &d})
			n.refL2.Append(x, leafHash(&d))
			atoms = append(atoms, x)
			n.nL2++
		}
		if err := n.bL2.VerifProcessBlock(context.Background(), blk); err != nil {
			return fmt.Errorf("L2 bridge store ProcessBlock(%d): %w", num, err)
		}
	}
	w.Emit(tr.M{"ev": "l2", "atoms": atoms})
	return nil
}

func (n *node) mer() common.Hash {
	if n.nL1 == 0 {
		return common.Hash{} // the contract's lastMainnetExitRoot before the first deposit
	}
	return n.refL1.RootOf(n.nL1)
}

func (n *node) rer() common.Hash {
	if len(n.ucur) == 0 {
		return names.Zero[names.Height] // the rollup manager's root over rollups without an exit root
	}
	return n.uref.Root()
}

// exitRoot of a verify event: for our rollup the L2 exit root over the first k leaves (k = 0: the zero hash).
func (n *node) exitRoot(r, k int) (common.Hash, error) {
	if uint32(r) == n.ours {
		if k == 0 {
			return common.Hash{}, nil
		}
		if k > n.refL2.Len() {
			return common.Hash{}, fmt.Errorf("verify of %d L2 leaves but the L2 store has %d", k, n.refL2.Len())
		}
		return n.refL2.RootOf(k), nil
	}
	return names.Keccak([]byte(fmt.Sprintf("exitroot-%d-%d-%d", n.seed, r, k))), nil
}

// feedL1 builds the L1 block for both L1 stores from the joint history and processes it with the real ProcessBlock.
func (n *node) feedL1(w *tr.W, b Block, dry bool) error {
	ctx := context.Background()
	n.fed = append(n.fed, fedBlock{b, n.base})
	hash := n.blockHash("l1", b.Num)
	bb := aggsync.Block{Num: b.Num, Hash: hash}
	ib := aggsync.Block{Num: b.Num, Hash: hash}
	desc := []tr.M{}
	firstNew := len(n.infos)
	for p, e := range b.Evs {
		switch e.T {
		case "dep":
			x := n.base + n.nL1 + 1
			d := *n.deposit(x)
			d.BlockNum, d.BlockPos, d.DepositCount = b.Num, uint64(p), uint32(n.nL1)
			bb.Events = append(bb.Events, bridgesync.Event{Bridge: &d})
			n.refL1.Append(x, leafHash(&d))
			n.nL1++
			desc = append(desc, tr.M{"t": "dep", "x": x})
		case "info":
			mer, rer := n.mer(), n.rer()
			ib.Events = append(ib.Events, l1infotreesync.Event{UpdateL1InfoTree: &l1infotreesync.UpdateL1InfoTree{
				BlockPosition: uint64(p), MainnetExitRoot: mer, RollupExitRoot: rer,
				ParentHash: n.blockHash("parent", b.Num), Timestamp: 1700000000 + b.Num*12 + uint64(p)}})
			n.infos = append(n.infos, infoRec{mer: mer, rer: rer})
			desc = append(desc, tr.M{"t": "info"})
		case "ver":
			er, err := n.exitRoot(e.R, e.K)
			if err != nil {
				return err
			}
			vb := &l1infotreesync.VerifyBatches{BlockPosition: uint64(p), RollupID: uint32(e.R), NumBatch: b.Num*100 + uint64(p), ExitRoot: er,
				StateRoot: names.Keccak([]byte(fmt.Sprintf("sr-%d-%d", b.Num, p))), Aggregator: common.BytesToAddress([]byte{byte(e.R), byte(p)})}
			ib.Events = append(ib.Events, l1infotreesync.Event{VerifyBatches: vb})
			if er != (common.Hash{}) && n.ucur[e.R-1] != er {
				n.ucur[e.R-1] = er
				n.uref.Set(e.R-1, 100*e.R+e.K, er)
			}
			desc = append(desc, tr.M{"t": "ver", "r": e.R, "k": e.K})
		default:
			return fmt.Errorf("unknown event %q", e.T)
		}
	}
	if dry { // the reference only: the stores already hold this block
		return nil
	}
	if err := n.bL1.VerifProcessBlock(ctx, bb); err != nil {
		return fmt.Errorf("L1 bridge store ProcessBlock(%d): %w", b.Num, err)
	}
	if err := n.info.VerifProcessBlock(ctx, ib); err != nil {
		return fmt.Errorf("L1 info store ProcessBlock(%d): %w", b.Num, err)
	}
	w.Emit(tr.M{"ev": "block", "num": b.Num, "evs": desc})
	// a seeded subset of the new leaves gets its GER injected on the L2 (one GER per L2 block)
	inj := []int{}
	for i := firstNew; i < len(n.infos); i++ {
		if n.rng.Intn(10) < 7 {
			n.gerBlk += uint64(1 + n.rng.Intn(2))
			ev := &lastgersync.Event{GERInfo: &lastgersync.GlobalExitRootInfo{
				GlobalExitRoot: names.GER(n.infos[i].mer, n.infos[i].rer), L1InfoTreeIndex: uint32(i)}}
			blk := aggsync.Block{Num: n.gerBlk, Hash: n.blockHash("ger", n.gerBlk), Events: []any{ev}}
			if err := n.gers.VerifProcessBlock(ctx, blk); err != nil {
				return fmt.Errorf("injected GER store ProcessBlock(%d): %w", n.gerBlk, err)
			}
			inj = append(inj, i)
			n.injBlk[i] = n.gerBlk
		}
	}
	if len(inj) > 0 {
		w.Emit(tr.M{"ev": "inject", "idx": inj})
	}
	return nil
}

// ---------------------------------------------------------------------------------------------- requests

func (n *node) get(path string, q map[string]any) (int, []byte) {
	parts := []string{}
	for k, v := range q {
		parts = append(parts, fmt.Sprintf("%s=%v", k, v))
	}
	req := httptest.NewRequest(http.MethodGet, bridgeservice.BridgeV1Prefix+path+"?"+strings.Join(parts, "&"), nil)
	rec := httptest.NewRecorder()
	n.h.ServeHTTP(rec, req)
	return rec.Code, rec.Body.Bytes()
}

func errClass(body []byte) (string, string) {
	var e bstypes.ErrorResponse
	_ = json.Unmarshal(body, &e)
	txt := e.Error
	if txt == "" {
		txt = string(body)
	}
	switch {
	case strings.Contains(txt, bridgeservice.ErrNotOnL1Info.Error()):
		return "notyet", txt
	case strings.Contains(txt, "not found"):
		return "notfound", txt
	}
	return "other", txt
}

func elide(d *names.Dict, pr bstypes.Proof) [][]any {
	sib := [][]any{}
	for h, hx := range pr {
		nm := d.Of(common.HexToHash(string(hx)))
		if nm.T == "z" && nm.H == h {
			continue
		}
		sib = append(sib, []any{h, nm})
	}
	return sib
}

func (n *node) leafOf(l bstypes.L1InfoTreeLeafResponse) tr.M {
	return tr.M{"idx": l.L1InfoTreeIndex, "b": l.BlockNumber, "p": l.BlockPosition,
		"mer": n.dictA.Of(common.HexToHash(string(l.MainnetExitRoot))), "rer": n.dictU.Of(common.HexToHash(string(l.RollupExitRoot)))}
}

func (n *node) snapshot() tr.M {
	nets := []uint32{0, n.ours}
	recorded := map[uint32]int{0: n.nL1, n.ours: n.nL2}
	index, proofs, injected := []tr.M{}, []tr.M{}, []tr.M{}
	for _, net := range nets {
		for dc := 0; dc < recorded[net]; dc++ {
			st, body := n.get("/l1-info-tree-index", map[string]any{"network_id": net, "deposit_count": dc})
			m := tr.M{"net": net, "dc": dc, "st": st}
			if st == http.StatusOK {
				var idx uint32
				if err := json.Unmarshal(body, &idx); err != nil {
					m["st"], m["ec"], m["err"] = -1, "other", fmt.Sprintf("unparsable body %.80s", body)
				} else {
					m["idx"] = idx
				}
			} else {
				ec, txt := errClass(body)
				m["ec"], m["err"] = ec, fmt.Sprintf("%.200s", txt)
			}
			index = append(index, m)
			for i := 0; i < len(n.infos); i++ {
				st, body := n.get("/claim-proof", map[string]any{"network_id": net, "leaf_index": i, "deposit_count": dc})
				pm := tr.M{"net": net, "dc": dc, "i": i, "st": st}
				if st == http.StatusOK {
					var cp bstypes.ClaimProof
					if err := json.Unmarshal(body, &cp); err != nil {
						pm["st"], pm["err"] = -1, fmt.Sprintf("unparsable body %.80s", body)
					} else {
						pm["pl"] = elide(n.dictA, cp.ProofLocalExitRoot)
						if net != 0 {
							pm["pr"] = elide(n.dictU, cp.ProofRollupExitRoot)
						}
						pm["leaf"] = n.leafOf(cp.L1InfoTreeLeaf)
					}
				} else {
					_, txt := errClass(body)
					pm["err"] = fmt.Sprintf("%.200s", txt)
				}
				proofs = append(proofs, pm)
			}
		}
		for i := 0; i <= len(n.infos); i++ {
			st, body := n.get("/injected-l1-info-leaf", map[string]any{"network_id": net, "leaf_index": i})
			m := tr.M{"net": net, "i": i, "st": st}
			if st == http.StatusOK {
				var lf bstypes.L1InfoTreeLeafResponse
				if err := json.Unmarshal(body, &lf); err != nil {
					m["st"], m["err"] = -1, fmt.Sprintf("unparsable body %.80s", body)
				} else {
					m["leaf"] = n.leafOf(lf)
				}
			} else {
				_, txt := errClass(body)
				m["err"] = fmt.Sprintf("%.200s", txt)
			}
			injected = append(injected, m)
		}
	}
	s := tr.M{"index": index, "proofs": proofs, "injected": injected}
	if amb := append(append([]string{}, n.dictA.Ambiguous...), n.dictU.Ambiguous...); len(amb) > 0 {
		s["ambiguous"] = amb
	}
	return s
}
