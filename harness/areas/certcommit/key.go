package certcommit

import (
	"crypto/ecdsa"
	"fmt"
	"math/rand"

	"github.com/ethereum/go-ethereum/common"
	"github.com/ethereum/go-ethereum/crypto"
)

// ecdsaKey is the configured signer's key (secp256k1), derived from the run's seed.
type ecdsaKey struct {
	priv *ecdsa.PrivateKey
	addr common.Address
}

func newKey(rng *rand.Rand) (*ecdsaKey, error) {
	for i := 0; i < 100; i++ {
		b := make([]byte, 32)
		rng.Read(b)
		k, err := crypto.ToECDSA(b)
		if err == nil {
			return &ecdsaKey{priv: k, addr: crypto.PubkeyToAddress(k.PublicKey)}, nil
		}
	}
	return nil, fmt.Errorf("no valid key from seed")
}
