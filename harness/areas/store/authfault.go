package store

import (
	"database/sql"
	"fmt"
	"strings"
	"sync"

	sqlite3 "github.com/mattn/go-sqlite3"
)

// Read faults. SQL triggers cannot make a SELECT fail, SQLite's authorizer can: it is consulted while a statement is
// compiled (database/sql compiles every statement right before it runs it) and a denial makes exactly that statement fail
// with SQLITE_AUTH - an ordinary storage error for the code under test. The hook is installed on the process-wide
// "sqlite3" driver object (sql.DB.Driver() hands it out), so the stores open their files exactly as in production.
//
// A fault position is "the r-th read of the operation" (w = 0) or, relative to the writes of the operation, "the r-th read
// after write w-1" - reads are the column reads, UPDATEs and BEGIN of the store's own tables; in the second form, if fewer
// than r reads precede write w (INSERT/DELETE number w), write w itself is denied. Tables of the trigger injector (verif_*)
// are not counted. With a position beyond the last read the COMMIT of the operation fails instead.
const (
	sqliteOK     = 0
	sqliteDeny   = 1
	opDelete     = 9
	opInsert     = 18
	opRead       = 20
	opTransation = 22
	opUpdate     = 23
)

type authState struct {
	mu       sync.Mutex
	path     string // armed for connections to this file ("" = off)
	w, r     int
	seenW    int
	seenR    int
	fired    bool
	what     string
	count    bool // only count the reads (probe run on the twin)
	tables   []string // when set: reads are counted only on these tables (the node table of an append-only tree: read only by initCache)
}

var auth authState

func init() {
	db, err := sql.Open("sqlite3", ":memory:")
	if err != nil {
		panic(err)
	}
	drv, ok := db.Driver().(*sqlite3.SQLiteDriver)
	db.Close()
	if !ok {
		panic("sqlite3 driver object is not *sqlite3.SQLiteDriver")
	}
	prev := drv.ConnectHook
	drv.ConnectHook = func(c *sqlite3.SQLiteConn) error {
		if prev != nil {
			if err := prev(c); err != nil {
				return err
			}
		}
		file := c.GetFilename("main")
		c.RegisterAuthorizer(func(op int, a1, a2, _ string) int { return auth.decide(file, op, a1, a2) })
		return nil
	}
}

func (a *authState) decide(file string, op int, a1, a2 string) int {
	a.mu.Lock()
	defer a.mu.Unlock()
	if a.path == "" || a.fired || !strings.HasSuffix(file, a.path) {
		return sqliteOK
	}
	switch op {
	case opInsert, opDelete:
		if a.count {
			return sqliteOK
		}
		if strings.HasPrefix(a1, "verif_") || strings.HasPrefix(a1, "sqlite_") {
			return sqliteOK
		}
		a.seenW++
		if a.seenW == a.w {
			a.fired, a.what = true, fmt.Sprintf("write %d (%s)", a.seenW, a1)
			return sqliteDeny
		}
	case opRead, opUpdate, opTransation:
		if a.count {
			if !(strings.HasPrefix(a1, "verif_") || strings.HasPrefix(a1, "sqlite_") || a1 == "c" || (op == opTransation && a1 != "BEGIN")) {
				a.seenR++
			}
			return sqliteOK
		}
		if op == opTransation && a1 == "COMMIT" && a.w >= 0 {
			// nothing was injected so far (the position lies beyond the last read / write of this operation): the COMMIT
			// fails instead, so that an operation with an armed fault never succeeds (the behaviours continue as after a failure)
			a.fired, a.what = true, "commit"
			return sqliteDeny
		}
		if strings.HasPrefix(a1, "verif_") || strings.HasPrefix(a1, "sqlite_") || a1 == "c" || (op == opTransation && a1 != "BEGIN") {
			return sqliteOK // ("c" is the CTE inside the trigger injector's slow statement)
		}
		if a.tables != nil {
			hit := false
			for _, t := range a.tables {
				hit = hit || (op == opRead && a1 == t)
			}
			if !hit {
				return sqliteOK
			}
		}
		if a.w <= 0 || a.seenW == a.w-1 { // w = 0: reads are counted over the whole operation
			a.seenR++
			if a.seenR == a.r {
				a.fired, a.what = true, fmt.Sprintf("read %d after write %d (%s.%s)", a.seenR, a.seenW, a1, a2)
				return sqliteDeny
			}
		}
	}
	return sqliteOK
}

// armAuth: deny the r-th read after write w-1 of the store file at path (or write w itself).
func armAuth(path string, w, r int) {
	auth.mu.Lock()
	defer auth.mu.Unlock()
	auth.path, auth.w, auth.r, auth.seenW, auth.seenR, auth.fired, auth.what, auth.count, auth.tables = path, w, r, 0, 0, false, "", false, nil
}

// armAuthTables: deny the r-th column read of the given tables (whole operation).
func armAuthTables(path string, tables []string, r int) {
	armAuth(path, 0, r)
	auth.mu.Lock()
	auth.tables = tables
	auth.mu.Unlock()
}

// probeReads counts the reads of the operation by running it on the twin (rebuilt from the surviving history before and after).
func probeReads(kd kindDriver, op Op) (int, error) {
	if err := kd.rebuildTwin(); err != nil {
		return 0, err
	}
	auth.mu.Lock()
	auth.path, auth.w, auth.r, auth.seenW, auth.seenR, auth.fired, auth.what, auth.count, auth.tables = kd.twinPath(), 0, 0, 0, 0, false, "", true, nil
	auth.mu.Unlock()
	_ = kd.twinProcess(op)
	auth.mu.Lock()
	n := auth.seenR
	auth.path, auth.count = "", false
	auth.mu.Unlock()
	return n, kd.rebuildTwin()
}

// disarmAuth reports whether (and where) the fault was injected.
func disarmAuth() (bool, string) {
	auth.mu.Lock()
	defer auth.mu.Unlock()
	auth.path = ""
	return auth.fired, auth.what
}
