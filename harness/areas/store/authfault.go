package store

import (
	"verifharness/iofault"
	"verifharness/sqlfault"
)

// Read faults of the store family: thin wrappers around harness/sqlfault (SQLite authorizer), one operation at a time.
var authPath string

// armAuth: deny the r-th read after write w-1 of the store file at path (or write w itself); w = 0: the r-th read of the
// whole operation (a position beyond the last read fails the COMMIT); w = -1: the same without the COMMIT fallback.
func armAuth(path string, w, r int) {
	authPath = path
	sqlfault.Arm(path, sqlfault.Spec{W: w, R: r})
}

// armAuthTables: deny the r-th column read of the given tables (whole operation).
func armAuthTables(path string, tables []string, r int) {
	authPath = path
	sqlfault.Arm(path, sqlfault.Spec{W: 0, R: r, Tables: tables})
}

// disarmAuth reports whether (and where) the fault was injected.
func disarmAuth() (bool, string) {
	if authPath == "" {
		return false, ""
	}
	fired, what, _ := sqlfault.Disarm(authPath)
	authPath = ""
	return fired, what
}

// probeReads counts the reads of the operation by running it on the twin (rebuilt from the surviving history before and after).
func probeReads(kd kindDriver, op Op) (int, error) {
	if err := kd.rebuildTwin(); err != nil {
		return 0, err
	}
	sqlfault.Arm(kd.twinPath(), sqlfault.Spec{Count: true})
	_ = kd.twinProcess(op)
	_, _, n := sqlfault.Disarm(kd.twinPath())
	return n, kd.rebuildTwin()
}

// probeIO counts the page reads (writes) of the operation by running it on the twin.
func probeIO(kd kindDriver, op Op, kind int) (int, error) {
	if err := kd.rebuildTwin(); err != nil {
		return 0, err
	}
	if err := iofault.Arm(kd.twinPath(), kind, 0); err != nil {
		return 0, err
	}
	_ = kd.twinProcess(op)
	_, n := iofault.Disarm()
	return n, kd.rebuildTwin()
}
