package store

import (
	"context"
	"fmt"
	"math/big"
	"path/filepath"
	gosync "sync"

	"github.com/agglayer/aggkit/bridgesync"
	aggsync "github.com/agglayer/aggkit/sync"
	"github.com/ethereum/go-ethereum/common"
)

// startNoise runs n independent bridge stores (own files) that append deposits to their exit trees until stop is called.
func startNoise(dir string, n int) (stop func()) {
	ctx, cancel := context.WithCancel(context.Background())
	var wg gosync.WaitGroup
	for i := 0; i < n; i++ {
		st, err := bridgesync.NewVerifBridgeSync(filepath.Join(dir, fmt.Sprintf("noise%d.sqlite", i)), "verif_noise", 1)
		if err != nil {
			continue
		}
		wg.Add(1)
		go func(i int, st *bridgesync.BridgeSync) {
			defer wg.Done()
			defer st.VerifClose()
			dc := uint32(0)
			for blk := uint64(1); ctx.Err() == nil; blk++ {
				b := aggsync.Block{Num: blk, Hash: common.BigToHash(big.NewInt(int64(blk)))}
				for p := 0; p < 6; p++ {
					b.Events = append(b.Events, bridgesync.Event{Bridge: &bridgesync.Bridge{BlockNum: blk, BlockPos: uint64(p),
						DepositCount: dc, Amount: big.NewInt(int64(i*1000000) + int64(dc)), Metadata: []byte{}, DestinationNetwork: 3}})
					dc++
				}
				if st.VerifProcessBlock(ctx, b) != nil {
					return
				}
			}
		}(i, st)
	}
	return func() { cancel(); wg.Wait() }
}
