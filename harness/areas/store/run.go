package store

import (
	"flag"
	"fmt"
	"math/rand"
	"os"

	"verifharness/sqlfault"
	"verifharness/tr"
)

// Run: drv_store -in behaviours.json -out trace.ndjson [-twin] [-permethod N]
func Run(args []string) error {
	if len(args) == 2 && args[0] == "-child" {
		return RunChild(args[1])
	}
	fs := flag.NewFlagSet("store", flag.ContinueOnError)
	in := fs.String("in", "", "behaviours json")
	out := fs.String("out", "", "trace ndjson")
	twin := fs.Bool("twin", true, "query a twin store fed only the surviving history in lock step")
	per := fs.Int("permethod", 8, "argument tuples per exported method in the generic battery")
	rfq := fs.Int("readfaultqueries", 0, "proof queries with one failing read each, after every operation")
	if err := fs.Parse(args); err != nil {
		return err
	}
	var bs []Behaviour
	if err := tr.ReadJSON(*in, &bs); err != nil {
		return err
	}
	w, err := tr.NewW(*out)
	if err != nil {
		return err
	}
	defer w.Close()
	dir, err := os.MkdirTemp("", "verif-store-")
	if err != nil {
		return err
	}
	defer os.RemoveAll(dir)
	sqlfault.BusyTimeout(50)
	sqlfault.CacheSize(8) // a host short of memory: statements read their pages from the file (harness/iofault can strike) // a look-up that needs the store's lock while a transaction is open waits 50 ms, not 5 s
	r := &runner{w: w, rng: rand.New(rand.NewSource(tr.Seed())), dir: dir, opts: Options{Twin: *twin, PerMethod: *per, ReadFaultQueries: *rfq}}
	for i, b := range bs {
		var mk func(dir string, rng *rand.Rand) (kindDriver, error)
		switch b.Kind {
		case "bridge":
			mk = func(dir string, rng *rand.Rand) (kindDriver, error) { return newBridgeKind(dir, rng, r.opts), nil }
		case "ger":
			mk = func(dir string, rng *rand.Rand) (kindDriver, error) { return newGerKind(dir, rng, r.opts), nil }
		case "l1info":
			mk = func(dir string, rng *rand.Rand) (kindDriver, error) { return newL1Kind(dir, rng, r.opts), nil }
		default:
			return fmt.Errorf("behaviour %d: unknown kind %q", i, b.Kind)
		}
		if err := r.runOne(i+1, b, mk); err != nil {
			return fmt.Errorf("behaviour %d: %w", i+1, err)
		}
	}
	return nil
}
