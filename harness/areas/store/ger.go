package store

import (
	"context"
	"database/sql"
	"fmt"
	"math/rand"

	"github.com/agglayer/aggkit/lastgersync"
	aggsync "github.com/agglayer/aggkit/sync"
	"github.com/ethereum/go-ethereum/common"

	"verifharness/names"
	"verifharness/tr"
)

// gerKind drives lastgersync's processor through the verif facade (hook: lastgersync/export_verif.go).
// Events: at most one per block (the table's primary key is the block number): inject GER atom x / remove GER atom x.
type gerKind struct {
	dir   string
	seed  int64
	node  *lastgersync.LastGERSync
	twin  *lastgersync.LastGERSync
	twinN int
	opts  Options
	hist  []gblock
	maxX  int
}

type gblock struct {
	num  uint64
	hash common.Hash
	evs  []Ev
}

func newGerKind(dir string, rng *rand.Rand, opts Options) *gerKind {
	return &gerKind{dir: dir, seed: rng.Int63(), opts: opts}
}

func (k *gerKind) dbPath() string { return tmpDB(k.dir, "lastger.sqlite") }

func (k *gerKind) open() error {
	n, err := lastgersync.NewVerifLastGERSync(k.dbPath())
	if err != nil {
		return err
	}
	k.node = n
	if k.opts.Twin && k.twin == nil {
		return k.rebuildTwin()
	}
	return nil
}

func (k *gerKind) close() {
	if k.node != nil {
		k.node.VerifClose()
		k.node = nil
	}
}

func (k *gerKind) gerHash(x int) common.Hash {
	return names.Keccak([]byte(fmt.Sprintf("ger-%d-%d", k.seed, x)))
}
func gerIndex(x int) uint32 { return uint32(10*x + 3) }

func (k *gerKind) build(num uint64, evs []Ev) aggsync.Block {
	blk := aggsync.Block{Num: num, Hash: blockHash(num, k.seed)}
	for _, e := range evs {
		switch e.T {
		case "ger":
			blk.Events = append(blk.Events, &lastgersync.Event{GEREvent: &lastgersync.GEREvent{BlockNum: num,
				GlobalExitRoot: k.gerHash(e.X), L1InfoTreeIndex: gerIndex(e.X)}})
		case "gerrm":
			blk.Events = append(blk.Events, &lastgersync.Event{GEREvent: &lastgersync.GEREvent{BlockNum: num,
				GlobalExitRoot: k.gerHash(e.X), IsRemove: true}})
		}
	}
	return blk
}

func (k *gerKind) rebuildTwin() error {
	if k.twin != nil {
		k.twin.VerifClose()
	}
	k.twinN++
	t, err := lastgersync.NewVerifLastGERSync(tmpDB(k.dir, fmt.Sprintf("twin%d.sqlite", k.twinN)))
	if err != nil {
		return err
	}
	k.twin = t
	for _, b := range k.hist {
		if err := t.VerifProcessBlock(context.Background(), k.build(b.num, b.evs)); err != nil {
			return fmt.Errorf("twin replay of block %d: %w", b.num, err)
		}
	}
	return nil
}

func (k *gerKind) process(ctx context.Context, op Op) error {
	return k.node.VerifProcessBlock(ctx, k.build(op.Num, op.Evs))
}

func (k *gerKind) applied(op Op) {
	k.hist = append(k.hist, gblock{num: op.Num, hash: blockHash(op.Num, k.seed), evs: op.Evs})
	for _, e := range op.Evs {
		if e.X > k.maxX {
			k.maxX = e.X
		}
	}
	if k.twin != nil {
		if err := k.twin.VerifProcessBlock(context.Background(), k.build(op.Num, op.Evs)); err != nil {
			panic(fmt.Sprintf("twin refused block %d that the node accepted: %v", op.Num, err))
		}
	}
}

func (k *gerKind) reorg(ctx context.Context, from uint64) error { return k.node.VerifReorg(ctx, from) }

func (k *gerKind) reorged(from uint64) int {
	keep := 0
	for _, b := range k.hist {
		if b.num < from {
			keep++
		}
	}
	rows := len(k.hist) - keep
	k.hist = k.hist[:keep]
	if k.twin != nil && rows > 0 {
		if err := k.rebuildTwin(); err != nil {
			panic(err)
		}
	}
	return rows
}

func (k *gerKind) describe(op Op) []tr.M {
	out := []tr.M{}
	for _, e := range op.Evs {
		out = append(out, tr.M{"t": e.T, "x": e.X})
	}
	return out
}

// realStmt: INSERT block; one INSERT or DELETE per event.
func (k *gerKind) realStmt(op Op, at int, _ *rand.Rand) int { return at }

func (k *gerKind) atomOf(h common.Hash) int {
	for x := 1; x <= k.maxX+1; x++ {
		if k.gerHash(x) == h {
			return x
		}
	}
	return -1
}

func (k *gerKind) snapshot() tr.M {
	ctx := context.Background()
	s := tr.M{}
	last, err := k.node.GetLastProcessedBlock(ctx)
	s["last"] = tr.M{"c": classify(err), "v": last}
	firsts := []tr.M{}
	for q := 0; q <= 10*(k.maxX+1)+4; q++ {
		g, err := k.node.GetFirstGERAfterL1InfoTreeIndex(ctx, uint32(q))
		m := tr.M{"q": q, "c": classify(err)}
		if err == nil {
			m["x"], m["idx"] = k.atomOf(g.GlobalExitRoot), g.L1InfoTreeIndex
		}
		if k.twin != nil {
			tg, terr := k.twin.GetFirstGERAfterL1InfoTreeIndex(ctx, uint32(q))
			m["same"] = classify(err) == classify(terr) && (err != nil || (g.GlobalExitRoot == tg.GlobalExitRoot && g.L1InfoTreeIndex == tg.L1InfoTreeIndex))
		}
		firsts = append(firsts, m)
	}
	s["firsts"] = firsts
	bt := &battery{deny: gerDeny, maxN: last + 1}
	a := bt.run(k.node, k.opts.PerMethod)
	s["classes"] = classesByMethod(a)
	if k.twin != nil {
		tl, terr := k.twin.GetLastProcessedBlock(ctx)
		d := []string{}
		if tl != last || classify(terr) != classify(err) {
			d = append(d, fmt.Sprintf("GetLastProcessedBlock node=%d twin=%d", last, tl))
		}
		s["twin"] = tr.M{"calls": 1, "diff": d}
	}
	return s
}

var gerDeny = map[string]bool{"Start": true}

func (k *gerKind) kindSeed() int64 { return k.seed }
func (k *gerKind) setSeed(s int64) { k.seed = s }
func (k *gerKind) workDir() string { return k.dir }

// prepare records what process would have recorded about the block, without processing it (the block is processed by a child process).
func (k *gerKind) prepare(op Op) {}

func (k *gerKind) pool() *sql.DB { return k.node.VerifDB() }

func (k *gerKind) twinPath() string { return tmpDB(k.dir, fmt.Sprintf("twin%d.sqlite", k.twinN)) }
func (k *gerKind) twinProcess(op Op) error {
	return k.twin.VerifProcessBlock(context.Background(), k.build(op.Num, op.Evs))
}
