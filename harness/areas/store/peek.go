package store

import (
	"context"

	"verifharness/tr"
)

func (k *bridgeKind) peek() tr.M {
	ctx := context.Background()
	s := tr.M{}
	last, err := k.node.GetLastProcessedBlock(ctx)
	s["last"] = tr.M{"c": classify(err), "v": last}
	roots := []tr.M{}
	for i := 0; i <= k.maxLeaves; i++ {
		r, err := k.node.GetExitRootByIndex(ctx, uint32(i))
		m := tr.M{"i": i, "c": classify(err)}
		if err == nil {
			m["n"], m["b"], m["p"], m["ri"] = k.dict.Of(r.Hash), r.BlockNum, r.BlockPosition, r.Index
		}
		roots = append(roots, m)
	}
	s["roots"] = roots
	return s
}

func (k *l1Kind) peek() tr.M {
	ctx := context.Background()
	s := tr.M{}
	last, err := k.node.GetLastProcessedBlock(ctx)
	s["last"] = tr.M{"c": classify(err), "v": last}
	roots := []tr.M{}
	for i := 0; i <= k.maxLeaves; i++ {
		r, err := k.node.GetL1InfoTreeRootByIndex(ctx, uint32(i))
		m := tr.M{"i": i, "c": classify(err)}
		if err == nil {
			m["n"], m["b"], m["p"], m["ri"] = k.dict.Of(r.Hash), r.BlockNum, r.BlockPosition, r.Index
		}
		roots = append(roots, m)
	}
	s["roots"] = roots
	return s
}

func (k *gerKind) peek() tr.M { return nil }
