// Package store drives the real SQLite stores ("processors") of aggkit - bridgesync, l1infotreesync, lastgersync -
// through their verif-tag facades, replaying behaviours exported by TLC from specs/Store.tla (C01 C04 C07 C08 C11 C14).
//
// The driver applies each operation (ProcessBlock with an optional injected storage fault, Reorg, restart) to the real
// store, then records a snapshot of what the store answers, every hash translated to a structural name (package names).
// A twin store that only ever sees the surviving history is queried in lock step with the generic, reflection-driven
// battery of all exported query methods; the twin is a cross-check, the oracle is TLC on the named answers.
package store

import (
	"bufio"
	"context"
	"database/sql"
	"encoding/json"
	"errors"
	"fmt"
	"math/rand"
	"os"
	"os/exec"
	"path/filepath"
	"reflect"
	"sort"
	"strings"
	"time"

	"github.com/agglayer/aggkit/db"
	aggsync "github.com/agglayer/aggkit/sync"
	"github.com/ethereum/go-ethereum/common"

	"verifharness/iofault"
	"verifharness/sqlfault"
	"verifharness/tr"
)

// ---------------------------------------------------------------------------------------------- behaviours

type Fault struct {
	Kind string `json:"kind"` // none | stmt | ctx | commit | read | real (absolute statement index, thorough sweeps)
	At   int    `json:"at"`
	R    int    `json:"r"`    // read: the R-th read after write At-1 fails (see authfault.go)
	Frac int    `json:"frac"` // read: > 0: the read at Frac/1000 of all reads of the operation fails (counted on the twin first)
}

type Ev struct {
	T    string `json:"t"` // leaf | other | v2 | verify | ger | gerrm
	X    int    `json:"x"`
	Dc   int    `json:"dc"`
	Good bool   `json:"good"`
	R    int    `json:"r"`
}

type Op struct {
	Busy bool `json:"busy"` // a read cursor is held open on the store's connection pool while the operation runs
	// Peek: a reader looks at the store in the middle of the operation (all observations, from the goroutine that runs the
	// operation, on other connections): k > 0 when the k-th write is compiled, k < 0 when the COMMIT is compiled. What it
	// sees must be the state before the operation.
	Peek  int    `json:"peek"`
	Op    string `json:"op"` // process | reorg | restart
	Num   uint64 `json:"num"`
	Evs   []Ev   `json:"evs"`
	Fault Fault  `json:"fault"`
	From  uint64 `json:"from"`
}

type Behaviour struct {
	Kind string `json:"kind"`
	Ops  []Op   `json:"ops"`
	// Noise: this many other syncers of the same process (bridge stores of their own, on their own files) keep appending
	// deposits to their exit trees while the behaviour runs - whatever the trees of one process share is under contention
	Noise int `json:"noise"`
	// A store file written by an earlier run of the code (an upgrade): the node starts on a copy of Fixture, which already
	// holds the first Preload operations (generated with Seed); Save: after the behaviour, keep the node's file there.
	Fixture string `json:"fixture"`
	Preload int    `json:"preload"`
	Seed    int64  `json:"seed"`
	Save    string `json:"save"`
}

// ---------------------------------------------------------------------------------------------- result classes

func classify(err error) string {
	switch {
	case err == nil:
		return "ok"
	case errors.Is(err, aggsync.ErrInconsistentState):
		return "incons"
	case errors.Is(err, db.ErrNotFound), errors.Is(err, sql.ErrNoRows), strings.Contains(err.Error(), "not found"):
		return "notfound"
	default:
		return "err"
	}
}

// ---------------------------------------------------------------------------------------------- fault injection

// injector creates SQL triggers on the store's own DB file through a second connection: every INSERT/DELETE of a
// transaction increments a counter; the statement whose number equals the armed target is aborted (kind stmt) or made
// very slow so that the driver can cancel the context while it runs (kind ctx).
type injector struct {
	c *sql.DB
}

const slowSQL = `WITH RECURSIVE c(x) AS (SELECT 1 UNION ALL SELECT x+1 FROM c WHERE x < 3000000) SELECT count(*) FROM c`

func newInjector(path string) (*injector, error) {
	c, err := sql.Open("sqlite3", fmt.Sprintf("file:%s?_foreign_keys=on&_busy_timeout=5000", path))
	if err != nil {
		return nil, err
	}
	c.SetMaxOpenConns(1)
	if _, err := c.Exec(`CREATE TABLE IF NOT EXISTS verif_ctl (id INTEGER PRIMARY KEY CHECK (id = 1), target INTEGER NOT NULL,
		cnt INTEGER NOT NULL, slow INTEGER NOT NULL, commitfail INTEGER NOT NULL DEFAULT 0); INSERT OR IGNORE INTO verif_ctl VALUES (1, 0, 0, 0, 0);
		CREATE TABLE IF NOT EXISTS verif_parent (id INTEGER PRIMARY KEY);
		CREATE TABLE IF NOT EXISTS verif_child (x INTEGER REFERENCES verif_parent(id) DEFERRABLE INITIALLY DEFERRED);
		CREATE TRIGGER IF NOT EXISTS verif_commitfail_ins AFTER INSERT ON block WHEN (SELECT commitfail FROM verif_ctl) = 1
			BEGIN INSERT INTO verif_child VALUES (999); END;
		CREATE TRIGGER IF NOT EXISTS verif_commitfail_del AFTER DELETE ON block WHEN (SELECT commitfail FROM verif_ctl) = 1
			BEGIN INSERT INTO verif_child VALUES (999); END;`); err != nil {
		return nil, fmt.Errorf("ctl table: %w", err)
	}
	rows, err := c.Query(`SELECT name FROM sqlite_master WHERE type = 'table' AND name NOT LIKE 'verif_%'
		AND name NOT LIKE 'sqlite_%' AND name <> 'gorp_migrations'`)
	if err != nil {
		return nil, err
	}
	var tables []string
	for rows.Next() {
		var n string
		if err := rows.Scan(&n); err != nil {
			return nil, err
		}
		tables = append(tables, n)
	}
	rows.Close()
	for _, t := range tables {
		for _, opn := range []string{"INSERT", "DELETE"} {
			q := fmt.Sprintf(`CREATE TRIGGER IF NOT EXISTS verif_%s_%s BEFORE %s ON %s BEGIN
				UPDATE verif_ctl SET cnt = cnt + 1;
				SELECT RAISE(ABORT, 'verif injected fault') WHERE (SELECT cnt = target AND slow = 0 FROM verif_ctl);
				SELECT (%s) WHERE (SELECT cnt = target AND slow = 1 FROM verif_ctl);
			END;`, strings.ToLower(opn), t, opn, t, slowSQL)
			if _, err := c.Exec(q); err != nil {
				return nil, fmt.Errorf("trigger on %s: %w", t, err)
			}
		}
	}
	return &injector{c: c}, nil
}

// exec runs a statement of the control connection; the store's lock may still be held for a moment by the operation that
// was just interrupted (every connection of this process waits only 50 ms for a lock, see run.go): retried for 10 s
func (i *injector) exec(q string, args ...any) error {
	var err error
	for deadline := time.Now().Add(10 * time.Second); ; {
		if _, err = i.c.Exec(q, args...); err == nil || !strings.Contains(err.Error(), "locked") || time.Now().After(deadline) {
			return err
		}
		time.Sleep(5 * time.Millisecond)
	}
}

func (i *injector) arm(target int, slow bool) error {
	s := 0
	if slow {
		s = 1
	}
	return i.exec(`UPDATE verif_ctl SET target = ?, cnt = 0, slow = ?`, target, s)
}

// armCommit makes the COMMIT of the next transaction that inserts/deletes a block row fail (a deferred foreign key is
// violated by a trigger; the violation is only detected at commit time).
func (i *injector) armCommit() error {
	return i.exec(`UPDATE verif_ctl SET commitfail = 1, target = 0, cnt = 0`)
}

func (i *injector) disarm() error {
	if err := i.exec(`UPDATE verif_ctl SET commitfail = 0`); err != nil {
		return err
	}
	return i.arm(0, false)
}

func (i *injector) close() { i.c.Close() }

// countStatements runs fn with the counter armed beyond reach and returns how many counted statements committed.
func (i *injector) count() (int, error) {
	var n int
	err := i.c.QueryRow(`SELECT cnt FROM verif_ctl`).Scan(&n)
	return n, err
}

// ---------------------------------------------------------------------------------------------- generic battery

// battery calls every exported method of a facade (by reflection; argument values generated by type from small pools)
// and returns a canonical JSON string per call. Methods on the deny list are not queries.
type battery struct {
	deny   map[string]bool
	hashes []common.Hash // pool for common.Hash arguments (known roots/leaves/GERs)
	maxN   uint64        // pool bound for integers
	// onlyHashArgs: only methods that take a common.Hash, and never the zero hash (dead-root pass)
	onlyHashArgs bool
}

func (b *battery) argPool(t reflect.Type) []reflect.Value {
	ctxT := reflect.TypeOf((*context.Context)(nil)).Elem()
	switch {
	case t.Implements(ctxT) || t == ctxT:
		return []reflect.Value{reflect.ValueOf(context.Background())}
	case t == reflect.TypeOf(common.Hash{}):
		out := []reflect.Value{}
		if !b.onlyHashArgs {
			out = append(out, reflect.ValueOf(common.Hash{}))
		}
		for _, h := range b.hashes {
			out = append(out, reflect.ValueOf(h))
		}
		return out
	case t.Kind() == reflect.Uint32 || t.Kind() == reflect.Uint64 || t.Kind() == reflect.Uint || t.Kind() == reflect.Int:
		var out []reflect.Value
		for i := uint64(0); i <= b.maxN; i++ {
			out = append(out, reflect.ValueOf(i).Convert(t))
		}
		return out
	case t.Kind() == reflect.String:
		return []reflect.Value{reflect.ValueOf(""), reflect.ValueOf("0x00000000000000000000000000000000000000a1")}
	case t.Kind() == reflect.Ptr && t.Elem().Kind() == reflect.Uint64:
		one := uint64(1)
		return []reflect.Value{reflect.Zero(t), reflect.ValueOf(&one)}
	case t.Kind() == reflect.Slice && t.Elem().Kind() == reflect.Uint32:
		return []reflect.Value{reflect.Zero(t), reflect.ValueOf([]uint32{0}), reflect.ValueOf([]uint32{1, 2})}
	case t.Kind() == reflect.Bool:
		return []reflect.Value{reflect.ValueOf(false), reflect.ValueOf(true)}
	default:
		return []reflect.Value{reflect.Zero(t)}
	}
}

type call struct {
	Method string `json:"m"`
	Args   string `json:"a"`
	Class  string `json:"c"`
	Res    string `json:"r"`
}

// run enumerates calls; at most perMethod argument tuples per method, chosen deterministically (first, then strided).
func (b *battery) run(obj any, perMethod int) []call {
	v := reflect.ValueOf(obj)
	t := v.Type()
	var out []call
	for i := 0; i < t.NumMethod(); i++ {
		m := t.Method(i)
		if b.deny[m.Name] || strings.HasPrefix(m.Name, "Verif") {
			continue
		}
		mt := m.Type
		if b.onlyHashArgs {
			has := false
			for a := 1; a < mt.NumIn(); a++ {
				has = has || mt.In(a) == reflect.TypeOf(common.Hash{})
			}
			if !has {
				continue
			}
		}
		pools := make([][]reflect.Value, 0, mt.NumIn()-1)
		total := 1
		for a := 1; a < mt.NumIn(); a++ {
			p := b.argPool(mt.In(a))
			pools = append(pools, p)
			total *= len(p)
		}
		stride := 1
		if total > perMethod {
			stride = total/perMethod + 1
		}
		for n := 0; n < total; n += stride {
			args := make([]reflect.Value, len(pools))
			k := n
			var as []string
			for a := range pools {
				args[a] = pools[a][k%len(pools[a])]
				k /= len(pools[a])
				if _, isCtx := args[a].Interface().(context.Context); !isCtx {
					as = append(as, fmt.Sprintf("%v", jsonOf(args[a].Interface())))
				}
			}
			out = append(out, b.invoke(v.Method(i), m.Name, strings.Join(as, ","), args))
		}
	}
	return out
}

func jsonOf(x any) string {
	bs, err := json.Marshal(x)
	if err != nil {
		return fmt.Sprintf("%#v", x)
	}
	return string(bs)
}

func (b *battery) invoke(f reflect.Value, name, as string, args []reflect.Value) (c call) {
	c = call{Method: name, Args: as}
	defer func() {
		if r := recover(); r != nil {
			c.Class, c.Res = "panic", fmt.Sprint(r)
		}
	}()
	res := f.Call(args)
	var vals []string
	var err error
	for _, r := range res {
		if r.Type().Implements(reflect.TypeOf((*error)(nil)).Elem()) {
			if !r.IsNil() {
				err = r.Interface().(error)
			}
			continue
		}
		vals = append(vals, jsonOf(r.Interface()))
	}
	c.Class = classify(err)
	if err == nil {
		c.Res = strings.Join(vals, "|")
	}
	return c
}

// diffCalls compares two battery runs; returns the descriptions of the calls that differ.
func diffCalls(a, b []call) []string {
	var out []string
	if len(a) != len(b) {
		return []string{fmt.Sprintf("different number of calls %d vs %d", len(a), len(b))}
	}
	for i := range a {
		if a[i] != b[i] {
			out = append(out, fmt.Sprintf("%s(%s): node=%s %.200s twin=%s %.200s", a[i].Method, a[i].Args, a[i].Class, a[i].Res, b[i].Class, b[i].Res))
		}
	}
	return out
}

func twinDiff(a, b []call) tr.M {
	d := diffCalls(a, b)
	if len(d) > 3 {
		d = d[:3]
	}
	if d == nil {
		d = []string{}
	}
	return tr.M{"calls": len(a), "diff": d}
}

// deadDiff lists the methods whose answers for hashes of reorged-out roots differ between node and twin.
func deadDiff(a, b []call) tr.M {
	ms := map[string]bool{}
	ex := ""
	if len(a) == len(b) {
		for i := range a {
			if a[i] != b[i] {
				ms[a[i].Method] = true
				if ex == "" {
					ex = fmt.Sprintf("%s(%s): node=%s twin=%s", a[i].Method, a[i].Args, a[i].Class, b[i].Class)
				}
			}
		}
	} else {
		ms["<different call lists>"] = true
	}
	out := []string{}
	for m := range ms {
		out = append(out, m)
	}
	sort.Strings(out)
	return tr.M{"calls": len(a), "methods": out, "example": ex}
}

// classesByMethod summarises a battery run: method -> sorted set of result classes.
func classesByMethod(cs []call) map[string][]string {
	m := map[string]map[string]bool{}
	for _, c := range cs {
		if m[c.Method] == nil {
			m[c.Method] = map[string]bool{}
		}
		m[c.Method][c.Class] = true
	}
	out := map[string][]string{}
	for k, v := range m {
		for c := range v {
			out[k] = append(out[k], c)
		}
		sort.Strings(out[k])
	}
	return out
}

// ---------------------------------------------------------------------------------------------- run loop

// kindDriver is what each store kind provides.
type kindDriver interface {
	// open (re)opens the real store on its DB file (node start); twin=true opens the twin on a fresh file.
	open() error
	close()
	// process runs the real ProcessBlock for the block built from the behaviour's events; returns error of the call.
	process(ctx context.Context, op Op) error
	reorg(ctx context.Context, from uint64) error
	// applied is called when an operation is known to have taken effect, to advance the reference history.
	applied(op Op)
	reorged(from uint64) (rowsDeleted int)
	// snapshot returns the named observations after an operation.
	snapshot() tr.M
	// peek returns what a concurrent reader gets from the look-ups that open no transaction of their own (nil: none)
	peek() tr.M
	// describe returns the trace form of a process op (events with the atoms the monitor needs).
	describe(op Op) []tr.M
	// realStmt maps a model statement number of this block to a real statement index.
	realStmt(op Op, at int, rng *rand.Rand) int
	dbPath() string
	// the twin: a second real store fed with exactly the surviving history
	rebuildTwin() error
	twinPath() string
	twinProcess(op Op) error
	pool() *sql.DB
	prepare(op Op)
	kindSeed() int64
	setSeed(int64)
	workDir() string
}

type runner struct {
	w    *tr.W
	rng  *rand.Rand
	dir  string
	opts Options
}

type Options struct {
	Twin       bool
	PerMethod  int
	SweepStmts bool // thorough: ignore the model's fault class and sweep every real statement index (one behaviour each)
	// ReadFaultQueries: after every operation, this many proof queries are made with one failing read each
	ReadFaultQueries int
}

func (r *runner) runOne(idx int, b Behaviour, mk func(dir string, rng *rand.Rand) (kindDriver, error)) error {
	dir, err := os.MkdirTemp(r.dir, "beh")
	if err != nil {
		return err
	}
	defer os.RemoveAll(dir)
	kd, err := mk(dir, r.rng)
	if err != nil {
		return err
	}
	if b.Seed != 0 {
		kd.setSeed(b.Seed)
	}
	if b.Fixture != "" {
		if err := copyFile(b.Fixture, kd.dbPath()); err != nil {
			return fmt.Errorf("fixture: %w", err)
		}
	}
	if err := kd.open(); err != nil {
		return fmt.Errorf("open: %w", err)
	}
	defer kd.close()
	if b.Save != "" {
		defer func() {
			kd.close()
			// (the migration runner of the repository keeps a handle of its own open, so closing the store does not fold the
			// write-ahead log into the file)
			if c, err := sql.Open("sqlite3", "file:"+kd.dbPath()); err == nil {
				if _, err := c.Exec(`PRAGMA wal_checkpoint(TRUNCATE)`); err != nil {
					panic(fmt.Sprintf("checkpoint: %v", err))
				}
				c.Close()
			}
			if err := copyFile(kd.dbPath(), b.Save); err != nil {
				panic(fmt.Sprintf("save fixture: %v", err))
			}
		}()
	}
	inj, err := newInjector(kd.dbPath())
	if err != nil {
		return fmt.Errorf("injector: %w", err)
	}
	defer inj.close()
	if b.Noise > 0 {
		stop := startNoise(dir, b.Noise)
		defer stop()
	}
	r.w.Emit(tr.M{"ev": "reset", "kind": b.Kind, "t": idx})
	if b.Fixture != "" && b.Preload > 0 {
		// the file already holds these operations: only the reference (and the twin, written by the current code) follow
		for _, op := range b.Ops[:b.Preload] {
			if op.Op != "process" {
				return fmt.Errorf("fixture behaviours preload process operations only")
			}
			kd.prepare(op)
			kd.applied(op)
			r.w.Emit(tr.M{"ev": "process", "num": op.Num, "evs": kd.describe(op), "fault": "none", "at": 0, "res": "ok", "ms": 0, "preloaded": true})
		}
		b.Ops = b.Ops[b.Preload:]
	}
	r.w.Emit(tr.M{"ev": "snap", "s": kd.snapshot()})
	cut := false // the behaviour ends here: an operation meant to fail went through (the disk fault was never reached)
	for _, op := range b.Ops {
		if cut {
			break
		}
		// a query in flight in another goroutine: the operation cannot reuse the pool's first connection
		var held *sql.Rows
		if op.Busy && (op.Op == "process" || op.Op == "reorg") && op.Fault.Kind != "kill" {
			if rows, err := kd.pool().Query(`SELECT 1 UNION ALL SELECT 2`); err == nil {
				rows.Next()
				held = rows
			}
		}
		release := func() {
			if held != nil {
				held.Close()
				held = nil
			}
		}
		switch op.Op {
		case "process":
			ctx, cancel := context.WithCancel(context.Background())
			real, ioAt := 0, 0
			switch op.Fault.Kind {
			case "stmt":
				real = kd.realStmt(op, op.Fault.At, r.rng)
				if err := inj.arm(real, false); err != nil {
					cancel()
					return err
				}
			case "real":
				real = op.Fault.At
				if err := inj.arm(real, false); err != nil {
					cancel()
					return err
				}
			case "kill":
				// the process dies while statement k of the block's transaction is executing: the block is processed by a child
				// process of this driver (same store file, same deterministic block) that is SIGKILLed inside that statement
				cancel()
				real = kd.realStmt(op, op.Fault.At, r.rng)
				kd.close()
				res, err := runChild(b.Kind, kd, op, real)
				if err != nil {
					return err
				}
				if err := inj.disarm(); err != nil { // the killed child could not disarm the trigger it armed
					return fmt.Errorf("disarm: %w", err)
				}
				if err := kd.open(); err != nil {
					return fmt.Errorf("reopen after kill: %w", err)
				}
				if res == "ok" {
					kd.prepare(op)
					kd.applied(op)
				}
				// the block was handled by a new process (nothing of the old one's memory, e.g. its halted flag, survives) that died
				r.w.Emit(tr.M{"ev": "restart"})
				r.w.Emit(tr.M{"ev": "process", "num": op.Num, "evs": kd.describe(op), "fault": "kill", "at": real, "res": res, "ms": 0})
				r.w.Emit(tr.M{"ev": "restart"})
				r.w.Emit(tr.M{"ev": "snap", "s": kd.snapshot()})
				continue
			case "commit":
				if err := inj.armCommit(); err != nil {
					cancel()
					return err
				}
			case "readinit":
				// a read of the frontier rebuild (AppendOnlyTree.initCache walks the node table of the append-only tree; nothing
				// else in ProcessBlock reads that table)
				k := op.Fault.R
				if k <= 0 {
					k = 1
				}
				armAuthTables(kd.dbPath(), []string{"rht", "l1_info_rht"}, k)
			case "read":
				if op.Fault.Frac > 0 {
					n, err := probeReads(kd, op)
					if err != nil {
						cancel()
						return fmt.Errorf("probe: %w", err)
					}
					armAuth(kd.dbPath(), 0, 1+op.Fault.Frac*n/1000)
				} else if op.Fault.R < 0 { // -R-th read of the whole operation
					armAuth(kd.dbPath(), 0, -op.Fault.R)
				} else {
					real = kd.realStmt(op, op.Fault.At, r.rng)
					armAuth(kd.dbPath(), real, op.Fault.R)
				}
			case "ioread", "iowrite":
				// the disk fails under a running statement (SQLITE_IOERR out of a row fetch, an INSERT or the COMMIT): the R-th
				// page read / write on the store file since the operation began
				kind := iofault.Read
				if op.Fault.Kind == "iowrite" {
					kind = iofault.Write
				}
				at := max(op.Fault.R, 1)
				if op.Fault.Frac > 0 { // the call at Frac/1000 of all calls of the operation (counted on the twin first)
					n, err := probeIO(kd, op, kind)
					if err != nil {
						cancel()
						return fmt.Errorf("probe: %w", err)
					}
					at = 1 + op.Fault.Frac*n/1000
				}
				ioAt = at
				if err := iofault.Arm(kd.dbPath(), kind, at); err != nil {
					cancel()
					return err
				}
			case "ctx":
				real = kd.realStmt(op, op.Fault.At, r.rng)
				if err := inj.arm(real, true); err != nil {
					cancel()
					return err
				}
				go func() { time.Sleep(60 * time.Millisecond); cancel() }()
			}
			if op.Peek != 0 && (op.Fault.Kind == "" || op.Fault.Kind == "none") {
				authPath = kd.dbPath()
				sqlfault.Arm(authPath, sqlfault.Spec{W: max(op.Peek, 0), AtCommit: op.Peek < 0, Call: func() {
					if s := kd.peek(); s != nil {
						r.w.Emit(tr.M{"ev": "peek", "s": s})
					}
				}})
			}
			t0 := time.Now()
			perr := kd.process(ctx, op)
			ioFired, ioSeen := false, 0
			if op.Fault.Kind == "ioread" || op.Fault.Kind == "iowrite" {
				ioFired, ioSeen = iofault.Disarm()
			}
			cancel()
			release()
			if err := inj.disarm(); err != nil {
				return fmt.Errorf("disarm: %w", err)
			}
			res := classify(perr)
			if res == "notfound" {
				res = "err"
			}
			if res == "ok" {
				kd.applied(op)
			}
			ev := tr.M{"ev": "process", "num": op.Num, "evs": kd.describe(op), "fault": op.Fault.Kind, "at": real, "res": res,
				"ms": time.Since(t0).Milliseconds(), "busy": op.Busy}
			if fired, what := disarmAuth(); op.Fault.Kind == "read" || op.Fault.Kind == "readinit" {
				ev["fired"], ev["what"] = fired, what
			}
			if op.Fault.Kind == "ioread" || op.Fault.Kind == "iowrite" {
				ev["fired"], ev["what"] = ioFired, fmt.Sprintf("%s call %d of %d", op.Fault.Kind, ioAt, ioSeen)
				// whether the fault was never reached or struck where SQLite itself absorbs it (a checkpoint after the commit): an
				// operation that went through is not what the behaviour continues from (the next snapshot still judges the state)
				cut = res == "ok"
			}
			if perr != nil {
				ev["err"] = fmt.Sprintf("%.160s", perr.Error())
			}
			r.w.Emit(ev)
		case "reorg":
			real := 0
			if op.Fault.Kind == "commit" {
				if err := inj.armCommit(); err != nil {
					return err
				}
			}
			if op.Fault.Kind == "stmt" || op.Fault.Kind == "real" {
				real = op.Fault.At // Reorg's statements are its DELETEs, in order: block rows, then the root table(s)
				if err := inj.arm(real, false); err != nil {
					return err
				}
			}
			if op.Peek != 0 && (op.Fault.Kind == "" || op.Fault.Kind == "none") {
				authPath = kd.dbPath()
				sqlfault.Arm(authPath, sqlfault.Spec{W: max(op.Peek, 0), AtCommit: op.Peek < 0, Call: func() {
					if s := kd.peek(); s != nil {
						r.w.Emit(tr.M{"ev": "peek", "s": s})
					}
				}})
			}
			if op.Fault.Kind == "iowrite" || op.Fault.Kind == "ioread" {
				kind := iofault.Read
				if op.Fault.Kind == "iowrite" {
					kind = iofault.Write
				}
				if err := iofault.Arm(kd.dbPath(), kind, max(op.Fault.R, 1)); err != nil {
					return err
				}
			}
			perr := kd.reorg(context.Background(), op.From)
			if op.Fault.Kind == "iowrite" || op.Fault.Kind == "ioread" {
				iofault.Disarm()
				cut = perr == nil
			}
			disarmAuth()
			release()
			if err := inj.disarm(); err != nil {
				return fmt.Errorf("disarm: %w", err)
			}
			rows := 0
			if perr == nil {
				rows = kd.reorged(op.From)
			}
			fk := op.Fault.Kind
			if fk == "" {
				fk = "none"
			}
			ev := tr.M{"ev": "reorg", "from": op.From, "res": classify(perr), "rows": rows, "fault": fk, "at": real}
			if perr != nil {
				ev["err"] = fmt.Sprintf("%.160s", perr.Error())
			}
			r.w.Emit(ev)
		case "restart":
			kd.close()
			if err := kd.open(); err != nil {
				return fmt.Errorf("reopen: %w", err)
			}
			r.w.Emit(tr.M{"ev": "restart"})
		default:
			return fmt.Errorf("unknown op %q", op.Op)
		}
		r.w.Emit(tr.M{"ev": "snap", "s": kd.snapshot()})
	}
	return nil
}

func tmpDB(dir, name string) string { return filepath.Join(dir, name) }

func asInt(v any) int {
	switch x := v.(type) {
	case int:
		return x
	case uint32:
		return int(x)
	case uint64:
		return int(x)
	}
	return 0
}

func sortByInt(ms []tr.M, key string) {
	sort.SliceStable(ms, func(i, j int) bool { return asInt(ms[i][key]) < asInt(ms[j][key]) })
}

func sortBy2(ms []tr.M, k1, k2 string) {
	sort.SliceStable(ms, func(i, j int) bool {
		if asInt(ms[i][k1]) != asInt(ms[j][k1]) {
			return asInt(ms[i][k1]) < asInt(ms[j][k1])
		}
		return asInt(ms[i][k2]) < asInt(ms[j][k2])
	})
}

// ---------------------------------------------------------------------------------------------- process death

type childJob struct {
	Kind string `json:"kind"`
	Seed int64  `json:"seed"`
	Dir  string `json:"dir"`
	Op   Op     `json:"op"`
	At   int    `json:"at"`
}

// runChild re-executes this binary as a child that processes one block on the store's DB file with a slow trigger armed
// at statement `at`, and kills it (SIGKILL) while that statement runs. Returns "err" if the child was killed (or failed),
// "ok" if it managed to finish the block before the kill.
func runChild(kind string, kd kindDriver, op Op, at int) (string, error) {
	job, _ := json.Marshal(childJob{Kind: kind, Seed: kd.kindSeed(), Dir: kd.workDir(), Op: op, At: at})
	cmd := exec.Command(os.Args[0], "-child", string(job))
	out, err := cmd.StdoutPipe()
	if err != nil {
		return "", err
	}
	cmd.Stderr = os.Stderr
	if err := cmd.Start(); err != nil {
		return "", err
	}
	rd := bufio.NewReader(out)
	line, _ := rd.ReadString('\n') // "GO": the child is about to call ProcessBlock
	if !strings.HasPrefix(line, "GO") {
		cmd.Process.Kill()
		cmd.Wait()
		return "", fmt.Errorf("child did not start: %q", line)
	}
	done := make(chan string, 1)
	go func() { l, _ := rd.ReadString('\n'); done <- l }()
	res := "err"
	select {
	case l := <-done: // finished before the kill (the armed statement does not exist in this block)
		if strings.HasPrefix(l, "DONE ok") {
			res = "ok"
		}
	case <-time.After(120 * time.Millisecond):
		cmd.Process.Kill()
	}
	cmd.Wait()
	return res, nil
}

// RunChild is the child side of runChild.
func RunChild(jobJSON string) error {
	var j childJob
	if err := json.Unmarshal([]byte(jobJSON), &j); err != nil {
		return err
	}
	rng := rand.New(rand.NewSource(1))
	var kd kindDriver
	switch j.Kind {
	case "bridge":
		kd = newBridgeKind(j.Dir, rng, Options{})
	case "l1info":
		kd = newL1Kind(j.Dir, rng, Options{})
	case "ger":
		kd = newGerKind(j.Dir, rng, Options{})
	default:
		return fmt.Errorf("kind %q", j.Kind)
	}
	kd.setSeed(j.Seed)
	if err := kd.open(); err != nil {
		return err
	}
	inj, err := newInjector(kd.dbPath())
	if err != nil {
		return err
	}
	if err := inj.arm(j.At, true); err != nil {
		return err
	}
	fmt.Println("GO")
	perr := kd.process(context.Background(), j.Op)
	inj.disarm()
	if perr == nil {
		fmt.Println("DONE ok")
	} else {
		fmt.Println("DONE err")
	}
	return nil
}

func copyFile(from, to string) error {
	b, err := os.ReadFile(from)
	if err != nil {
		return err
	}
	return os.WriteFile(to, b, 0o600)
}
