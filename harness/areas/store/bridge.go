package store

import (
	"context"
	"database/sql"
	"fmt"
	"math/big"
	"math/rand"
	"reflect"

	"github.com/agglayer/aggkit/bridgesync"
	aggsync "github.com/agglayer/aggkit/sync"
	treetypes "github.com/agglayer/aggkit/tree/types"
	"github.com/ethereum/go-ethereum/common"

	"verifharness/iofault"
	"verifharness/names"
	"verifharness/tr"
)

// bridgeKind drives bridgesync's processor through the verif facade (hook: bridgesync/export_verif.go).
type bridgeKind struct {
	dir   string
	seed  int64
	node  *bridgesync.BridgeSync
	twin  *bridgesync.BridgeSync
	twinN int
	opts  Options

	dict      *names.Dict
	ref       *names.AppendTree          // reference exit tree of the surviving history
	hist      []bblock                   // surviving history (what a node that never saw the dropped blocks has)
	atoms     map[int]*bridgesync.Bridge // leaf atom -> the deposit as generated
	other     map[string]int             // key(block,pos) of generated non-tree events -> id
	seenRoots []common.Hash              // every root the reference ever had (incl. dead forks), for by-hash queries
	maxLeaves int
	nOther    int
}

type bblock struct {
	num    uint64
	hash   common.Hash
	events []any
	leaves []int // atoms
	nOther int
}

func newBridgeKind(dir string, rng *rand.Rand, opts Options) *bridgeKind {
	d := names.NewDict()
	return &bridgeKind{dir: dir, seed: rng.Int63(), dict: d, ref: names.NewAppendTree(d), atoms: map[int]*bridgesync.Bridge{},
		other: map[string]int{}, opts: opts}
}

func (k *bridgeKind) dbPath() string { return tmpDB(k.dir, "bridge.sqlite") }

func (k *bridgeKind) open() error {
	n, err := bridgesync.NewVerifBridgeSync(k.dbPath(), "verif_bridge", 1)
	if err != nil {
		return err
	}
	k.node = n
	if k.opts.Twin && k.twin == nil {
		return k.rebuildTwin()
	}
	return nil
}

func (k *bridgeKind) close() {
	if k.node != nil {
		k.node.VerifClose()
		k.node = nil
	}
}

// rebuildTwin creates a fresh store and feeds it exactly the surviving history.
func (k *bridgeKind) rebuildTwin() error {
	if k.twin != nil {
		k.twin.VerifClose()
	}
	k.twinN++
	t, err := bridgesync.NewVerifBridgeSync(tmpDB(k.dir, fmt.Sprintf("twin%d.sqlite", k.twinN)), "verif_bridge", 1)
	if err != nil {
		return err
	}
	k.twin = t
	for _, b := range k.hist {
		if err := t.VerifProcessBlock(context.Background(), aggsync.Block{Num: b.num, Hash: b.hash, Events: b.events}); err != nil {
			return fmt.Errorf("twin replay of block %d: %w", b.num, err)
		}
	}
	return nil
}

// deposit returns the (deterministic) deposit for a leaf atom: all field classes of C01's quantifier.
func (k *bridgeKind) deposit(x int) *bridgesync.Bridge {
	if b, ok := k.atoms[x]; ok {
		return b
	}
	r := rand.New(rand.NewSource(k.seed ^ int64(x)*7919))
	var amount *big.Int
	switch r.Intn(5) {
	case 0:
		amount = big.NewInt(0)
	case 1:
		amount = big.NewInt(1)
	case 2:
		amount = new(big.Int).Sub(new(big.Int).Lsh(big.NewInt(1), 256), big.NewInt(1))
	default:
		amount = new(big.Int).Rand(r, new(big.Int).Lsh(big.NewInt(1), uint(8+r.Intn(248))))
	}
	mlen := []int{0, 1, 32, 33, 100, 4096}[r.Intn(6)]
	meta := make([]byte, mlen)
	r.Read(meta)
	if mlen == 0 && r.Intn(2) == 0 {
		meta = nil
	}
	addr := func() common.Address {
		switch r.Intn(6) {
		case 0:
			return common.Address{}
		case 1:
			var a common.Address
			for i := range a {
				a[i] = 0xff
			}
			return a
		}
		var a common.Address
		r.Read(a[:])
		return a
	}
	net := func() uint32 { return []uint32{0, 1, 2, 0xffffffff, r.Uint32()}[r.Intn(5)] }
	var txh common.Hash
	r.Read(txh[:])
	cd := make([]byte, r.Intn(40))
	r.Read(cd)
	b := &bridgesync.Bridge{
		FromAddress: addr(), TxHash: txh, Calldata: cd, BlockTimestamp: uint64(1700000000 + x),
		LeafType: uint8(r.Intn(2)), OriginNetwork: net(), OriginAddress: addr(), DestinationNetwork: net(),
		DestinationAddress: addr(), Amount: amount, Metadata: meta, IsNativeToken: r.Intn(2) == 0,
	}
	// make the content unique per atom even when all classes collide: the amount of the rare all-default case
	k.atoms[x] = b
	return b
}

func (k *bridgeKind) leafHash(b *bridgesync.Bridge) common.Hash {
	return names.BridgeLeaf(b.LeafType, b.OriginNetwork, b.OriginAddress, b.DestinationNetwork, b.DestinationAddress, b.Amount, b.Metadata)
}

func blockHash(num uint64, salt int64) common.Hash {
	return names.Keccak([]byte(fmt.Sprintf("blk-%d-%d", num, salt)))
}

// build makes the sync.Block for a process op. Event contents are a function of (atom, block, position).
func (k *bridgeKind) build(op Op) (aggsync.Block, bblock) {
	blk := aggsync.Block{Num: op.Num, Hash: blockHash(op.Num, k.seed)}
	rec := bblock{num: op.Num, hash: blk.Hash}
	for p, e := range op.Evs {
		switch e.T {
		case "leaf":
			d := *k.deposit(e.X) // copy: the processor mutates Amount when nil
			d.BlockNum, d.BlockPos, d.DepositCount = op.Num, uint64(p), uint32(e.Dc)
			blk.Events = append(blk.Events, bridgesync.Event{Bridge: &d})
			rec.leaves = append(rec.leaves, e.X)
		case "other":
			r := rand.New(rand.NewSource(k.seed ^ int64(op.Num)*131 ^ int64(p)*17))
			switch p % 3 {
			case 0:
				c := &bridgesync.Claim{BlockNum: op.Num, BlockPos: uint64(p), GlobalIndex: big.NewInt(int64(r.Intn(1 << 30))),
					Amount: big.NewInt(int64(r.Intn(1000))), Metadata: []byte{byte(p)}, BlockTimestamp: uint64(op.Num)}
				r.Read(c.OriginAddress[:])
				r.Read(c.TxHash[:])
				blk.Events = append(blk.Events, bridgesync.Event{Claim: c})
			case 1:
				t := &bridgesync.TokenMapping{BlockNum: op.Num, BlockPos: uint64(p), BlockTimestamp: uint64(op.Num), OriginNetwork: uint32(p)}
				r.Read(t.TxHash[:])
				r.Read(t.OriginTokenAddress[:])
				blk.Events = append(blk.Events, bridgesync.Event{TokenMapping: t})
			default:
				m := &bridgesync.LegacyTokenMigration{BlockNum: op.Num, BlockPos: uint64(p), BlockTimestamp: uint64(op.Num), Amount: big.NewInt(int64(p))}
				r.Read(m.TxHash[:])
				r.Read(m.LegacyTokenAddress[:])
				blk.Events = append(blk.Events, bridgesync.Event{LegacyTokenMigration: m})
			}
			rec.nOther++
		}
	}
	rec.events = blk.Events
	return blk, rec
}

func (k *bridgeKind) process(ctx context.Context, op Op) error {
	blk, _ := k.build(op)
	return k.node.VerifProcessBlock(ctx, blk)
}

func (k *bridgeKind) applied(op Op) {
	_, rec := k.build(op)
	k.hist = append(k.hist, rec)
	for _, x := range rec.leaves {
		root := k.ref.Append(x, k.leafHash(k.deposit(x)))
		k.seenRoots = append(k.seenRoots, root)
	}
	if k.ref.Len() > k.maxLeaves {
		k.maxLeaves = k.ref.Len()
	}
	if k.twin != nil {
		blk, _ := k.build(op)
		if err := k.twin.VerifProcessBlock(context.Background(), blk); err != nil {
			panic(fmt.Sprintf("twin refused block %d that the node accepted: %v", op.Num, err))
		}
	}
}

func (k *bridgeKind) reorg(ctx context.Context, from uint64) error {
	return k.node.VerifReorg(ctx, from)
}

func (k *bridgeKind) reorged(from uint64) int {
	keep, leaves := 0, 0
	for _, b := range k.hist {
		if b.num < from {
			keep++
			leaves += len(b.leaves)
		}
	}
	rows := len(k.hist) - keep
	k.hist = k.hist[:keep]
	k.ref.Truncate(leaves)
	if k.twin != nil && rows > 0 {
		if err := k.rebuildTwin(); err != nil {
			panic(err)
		}
	}
	return rows
}

func (k *bridgeKind) describe(op Op) []tr.M {
	var out []tr.M
	for _, e := range op.Evs {
		switch e.T {
		case "leaf":
			out = append(out, tr.M{"t": "leaf", "x": e.X, "dc": e.Dc})
		default:
			out = append(out, tr.M{"t": "other"})
		}
	}
	if out == nil {
		out = []tr.M{}
	}
	return out
}

// realStmt: statement layout of bridgesync.ProcessBlock: INSERT block; per deposit: root, 32 nodes, bridge row; per other: 1.
func (k *bridgeKind) realStmt(op Op, at int, rng *rand.Rand) int {
	model, real := 1, 1
	if at <= 1 {
		return 1
	}
	for _, e := range op.Evs {
		if e.T == "leaf" {
			model++
			if model == at {
				return real + 1 + []int{0, 1, 1 + rng.Intn(32), 32}[rng.Intn(4)]
			}
			real += 33
			model++
			real++
			if model == at {
				return real
			}
		} else {
			model++
			real++
			if model == at {
				return real
			}
		}
	}
	return real + 1 // beyond the last statement: never fires
}

// atomOf finds the generated deposit that equals the returned row in every field (identity translation).
func (k *bridgeKind) atomOf(got bridgesync.Bridge) int {
	for x, want := range k.atoms {
		w := *want
		w.BlockNum, w.BlockPos, w.DepositCount = got.BlockNum, got.BlockPos, got.DepositCount
		if w.Amount == nil {
			w.Amount = big.NewInt(0)
		}
		g := got
		if len(g.Metadata) == 0 && len(w.Metadata) == 0 {
			g.Metadata, w.Metadata = nil, nil
		}
		if len(g.Calldata) == 0 && len(w.Calldata) == 0 {
			g.Calldata, w.Calldata = nil, nil
		}
		if g.Amount != nil && w.Amount.Cmp(g.Amount) == 0 {
			g.Amount = w.Amount
		}
		if reflect.DeepEqual(g, w) {
			return x
		}
	}
	return -1
}

func (k *bridgeKind) snapshot() tr.M {
	ctx := context.Background()
	s := tr.M{}
	last, err := k.node.GetLastProcessedBlock(ctx)
	s["last"] = tr.M{"c": classify(err), "v": last}
	// roots by index: one more than ever existed
	var roots []tr.M
	for i := 0; i <= k.maxLeaves; i++ {
		r, err := k.node.GetExitRootByIndex(ctx, uint32(i))
		m := tr.M{"i": i, "c": classify(err)}
		if err == nil {
			m["n"], m["b"], m["p"], m["ri"] = k.dict.Of(r.Hash), r.BlockNum, r.BlockPosition, r.Index
		}
		roots = append(roots, m)
	}
	s["roots"] = roots
	// roots by hash, for every root any fork ever had
	var by []tr.M
	seen := map[common.Hash]bool{}
	for _, h := range k.seenRoots {
		if seen[h] {
			continue
		}
		seen[h] = true
		r, err := k.node.GetRootByLER(ctx, h)
		m := tr.M{"q": k.dict.Of(h), "c": classify(err)}
		if err == nil && r != nil {
			m["i"], m["b"], m["n"] = r.Index, r.BlockNum, k.dict.Of(r.Hash)
		}
		by = append(by, m)
	}
	if by == nil {
		by = []tr.M{}
	}
	s["byler"] = by
	// bridges of all processed blocks
	bs, err := k.node.GetBridges(ctx, 0, last)
	bm := tr.M{"c": classify(err)}
	rows := []tr.M{}
	for _, b := range bs {
		rows = append(rows, tr.M{"x": k.atomOf(b), "dc": b.DepositCount, "b": b.BlockNum, "p": b.BlockPos, "leaf": k.dict.Of(k.leafHash(&b))})
	}
	bm["rows"] = rows
	s["bridges"] = bm
	// proofs: every (recorded root, covered position); zero siblings at their own height are elided
	var proofs []tr.M
	for i := 0; i < k.ref.Len() || i < len(roots)-1; i++ {
		r, err := k.node.GetExitRootByIndex(ctx, uint32(i))
		if err != nil {
			continue
		}
		for p := 0; p <= i; p++ {
			pr, err := k.node.GetProof(ctx, uint32(p), r.Hash)
			m := tr.M{"r": i, "p": p, "c": classify(err)}
			if err == nil {
				var sib [][]any
				for h, hsh := range pr {
					n := k.dict.Of(hsh)
					if n.T == "z" && n.H == h {
						continue
					}
					sib = append(sib, []any{h, n})
				}
				if sib == nil {
					sib = [][]any{}
				}
				m["sib"] = sib
			}
			proofs = append(proofs, m)
		}
	}
	if proofs == nil {
		proofs = []tr.M{}
	}
	s["proofs"] = proofs
	// proof queries during which one read fails (SQLite authorizer): an error or the right proof, never another proof
	fproofs := []tr.M{}
	if n := k.ref.Len(); n > 0 && k.opts.ReadFaultQueries > 0 {
		rng := rand.New(rand.NewSource(k.seed ^ int64(n)*977 ^ int64(len(k.hist))*31))
		for q := 0; q < k.opts.ReadFaultQueries; q++ {
			i := rng.Intn(n)
			p := rng.Intn(i + 1)
			r, err := k.node.GetExitRootByIndex(ctx, uint32(i))
			if err != nil {
				continue
			}
			at := 1 + rng.Intn(140)
			var pr treetypes.Proof
			var fired bool
			how := "auth"
			if q%2 == 1 {
				// the disk fails while the statement runs (rows.Next / Scan), not while it is compiled
				// (counted first on the same query)
				if err := iofault.Arm(k.dbPath(), iofault.Read, 0); err != nil {
					panic(err)
				}
				_, _ = k.node.GetProof(ctx, uint32(p), r.Hash)
				_, n := iofault.Disarm()
				how, at = "io", 1+rng.Intn(max(n, 1))
				if err := iofault.Arm(k.dbPath(), iofault.Read, at); err != nil {
					panic(err)
				}
				pr, err = k.node.GetProof(ctx, uint32(p), r.Hash)
				fired, _ = iofault.Disarm()
			} else {
				armAuth(k.dbPath(), -1, at)
				pr, err = k.node.GetProof(ctx, uint32(p), r.Hash)
				fired, _ = disarmAuth()
			}
			m := tr.M{"r": i, "p": p, "c": classify(err), "fired": fired, "at": at, "how": how}
			if err == nil {
				sib := [][]any{}
				for h, hsh := range pr {
					nm := k.dict.Of(hsh)
					if nm.T == "z" && nm.H == h {
						continue
					}
					sib = append(sib, []any{h, nm})
				}
				m["sib"] = sib
			}
			fproofs = append(fproofs, m)
		}
	}
	s["fproofs"] = fproofs
	// generic battery against the twin (everything else the facade serves: claims, paged listings, token mappings, ...)
	live, dead := k.hashPools()
	bt := &battery{deny: bridgeDeny, hashes: live, maxN: last + 1}
	a := bt.run(k.node, k.opts.PerMethod)
	s["classes"] = classesByMethod(a)
	if k.twin != nil {
		s["twin"] = twinDiff(a, bt.run(k.twin, k.opts.PerMethod))
		// hashes of roots that existed only on reorged-out forks are asked separately (see DESIGN: finding F10)
		if len(dead) > 0 {
			bd := &battery{deny: bridgeDeny, hashes: dead, maxN: last + 1, onlyHashArgs: true}
			s["deadroot"] = deadDiff(bd.run(k.node, k.opts.PerMethod), bd.run(k.twin, k.opts.PerMethod))
		}
	}
	if len(k.dict.Ambiguous) > 0 {
		s["ambiguous"] = k.dict.Ambiguous
	}
	return s
}

// hashPools: hashes of currently recorded roots (plus the zero hash added by the battery) / of roots that only dead forks had.
func (k *bridgeKind) hashPools() (live, dead []common.Hash) {
	cur := map[common.Hash]bool{}
	for i := 1; i <= k.ref.Len(); i++ {
		cur[k.ref.RootOf(i)] = true
	}
	seen := map[common.Hash]bool{}
	for i := len(k.seenRoots) - 1; i >= 0; i-- {
		h := k.seenRoots[i]
		if seen[h] {
			continue
		}
		seen[h] = true
		if cur[h] && len(live) < 3 {
			live = append(live, h)
		} else if !cur[h] && len(dead) < 3 {
			dead = append(dead, h)
		}
	}
	return live, dead
}

// methods of *BridgeSync that are not data queries (C14 allow list): they need the downloader/driver/eth client.
var bridgeDeny = map[string]bool{
	"Start": true, "OriginNetwork": true, "BlockFinality": true, "GetLastReorgEvent": true,
}

func (k *bridgeKind) kindSeed() int64 { return k.seed }
func (k *bridgeKind) setSeed(s int64) { k.seed = s }
func (k *bridgeKind) workDir() string { return k.dir }

// prepare records what process would have recorded about the block, without processing it (the block is processed by a child process).
func (k *bridgeKind) prepare(op Op) {}

func (k *bridgeKind) pool() *sql.DB { return k.node.VerifDB() }

func (k *bridgeKind) twinPath() string { return tmpDB(k.dir, fmt.Sprintf("twin%d.sqlite", k.twinN)) }
func (k *bridgeKind) twinProcess(op Op) error {
	blk, _ := k.build(op)
	return k.twin.VerifProcessBlock(context.Background(), blk)
}
