package store

import (
	"context"
	"database/sql"
	"fmt"
	"math/rand"

	"github.com/agglayer/aggkit/l1infotreesync"
	aggsync "github.com/agglayer/aggkit/sync"
	treetypes "github.com/agglayer/aggkit/tree/types"
	"github.com/ethereum/go-ethereum/common"

	"verifharness/iofault"
	"verifharness/names"
	"verifharness/tr"
)

// l1Kind drives l1infotreesync's processor through the verif facade (hook: l1infotreesync/export_verif.go).
type l1Kind struct {
	dir   string
	seed  int64
	node  *l1infotreesync.L1InfoTreeSync
	twin  *l1infotreesync.L1InfoTreeSync
	twinN int
	opts  Options

	dict *names.Dict
	ref  *names.AppendTree // reference L1 info tree of the surviving history
	hist []l1block
	// rollup exit tree: reference state after each surviving effective update
	uref       *names.UpdTree
	ustates    []ustate // effective updates of the surviving history, in order
	atoms      map[int]*l1leaf
	exitRoots  map[int]common.Hash // exit-root atom -> hash (atom 0 = zero hash)
	seenRoots  []common.Hash
	seenURoots []common.Hash
	maxLeaves  int
	lastRec    l1block
}

type l1leaf struct {
	mer, rer, parent common.Hash
	ts               uint64
}

type ustate struct {
	blk   uint64
	r, x  int
	root  common.Hash
	leafs map[int]int // position -> atom, as of this root
}

type l1block struct {
	num    uint64
	hash   common.Hash
	events []any
	leaves []int
	nU     int // effective rollup-tree updates in this block
}

func newL1Kind(dir string, rng *rand.Rand, opts Options) *l1Kind {
	d := names.NewDict()
	k := &l1Kind{dir: dir, seed: rng.Int63(), dict: d, ref: names.NewAppendTree(d), uref: names.NewUpdTree(d),
		atoms: map[int]*l1leaf{}, exitRoots: map[int]common.Hash{0: {}}, opts: opts}
	return k
}

func (k *l1Kind) dbPath() string { return tmpDB(k.dir, "l1info.sqlite") }

func (k *l1Kind) open() error {
	n, err := l1infotreesync.NewVerifL1InfoTreeSync(k.dbPath())
	if err != nil {
		return err
	}
	k.node = n
	if k.opts.Twin && k.twin == nil {
		return k.rebuildTwin()
	}
	return nil
}

func (k *l1Kind) close() {
	if k.node != nil {
		k.node.VerifClose()
		k.node = nil
	}
}

func (k *l1Kind) rebuildTwin() error {
	if k.twin != nil {
		k.twin.VerifClose()
	}
	k.twinN++
	t, err := l1infotreesync.NewVerifL1InfoTreeSync(tmpDB(k.dir, fmt.Sprintf("twin%d.sqlite", k.twinN)))
	if err != nil {
		return err
	}
	k.twin = t
	for _, b := range k.hist {
		if err := t.VerifProcessBlock(context.Background(), aggsync.Block{Num: b.num, Hash: b.hash, Events: cloneL1Events(b.events)}); err != nil {
			return fmt.Errorf("twin replay of block %d: %w", b.num, err)
		}
	}
	return nil
}

// the processor writes into VerifyBatches events (BlockNumber, RollupExitRoot): give every consumer its own copy
func cloneL1Events(evs []any) []any {
	out := make([]any, len(evs))
	for i, e := range evs {
		ev := e.(l1infotreesync.Event)
		if ev.VerifyBatches != nil {
			c := *ev.VerifyBatches
			ev.VerifyBatches = &c
		}
		out[i] = ev
	}
	return out
}

func (k *l1Kind) leaf(x int) *l1leaf {
	if l, ok := k.atoms[x]; ok {
		return l
	}
	r := rand.New(rand.NewSource(k.seed ^ int64(x)*104729))
	l := &l1leaf{ts: []uint64{0, 1, uint64(r.Int63()), ^uint64(0)}[r.Intn(4)] + uint64(x)}
	r.Read(l.mer[:])
	r.Read(l.rer[:])
	r.Read(l.parent[:])
	k.atoms[x] = l
	ger := names.GER(l.mer, l.rer)
	k.dict.Put(ger, names.Name{T: "ger", H: 0, Ls: []any{x}})
	return l
}

func (k *l1Kind) leafHash(x int) common.Hash {
	l := k.leaf(x)
	return names.L1InfoLeaf(names.GER(l.mer, l.rer), l.parent, l.ts)
}

func (k *l1Kind) exitRoot(x int) common.Hash {
	if h, ok := k.exitRoots[x]; ok {
		return h
	}
	h := names.Keccak([]byte(fmt.Sprintf("exitroot-%d-%d", k.seed, x)))
	k.exitRoots[x] = h
	return h
}

func (k *l1Kind) build(op Op) (aggsync.Block, l1block) {
	blk := aggsync.Block{Num: op.Num, Hash: blockHash(op.Num, k.seed)}
	rec := l1block{num: op.Num, hash: blk.Hash}
	// hypothetical leaves of this block, for the V2 announcements
	pending := []common.Hash{}
	for p, e := range op.Evs {
		switch e.T {
		case "leaf":
			l := k.leaf(e.X)
			blk.Events = append(blk.Events, l1infotreesync.Event{UpdateL1InfoTree: &l1infotreesync.UpdateL1InfoTree{
				BlockPosition: uint64(p), MainnetExitRoot: l.mer, RollupExitRoot: l.rer, ParentHash: l.parent, Timestamp: l.ts}})
			rec.leaves = append(rec.leaves, e.X)
			pending = append(pending, k.leafHash(e.X))
		case "v2":
			root := k.ref.RootWith(pending)
			cnt := uint32(k.ref.Len() + len(pending))
			if !e.Good {
				root = names.Keccak([]byte("not the root"), root[:])
			}
			blk.Events = append(blk.Events, l1infotreesync.Event{UpdateL1InfoTreeV2: &l1infotreesync.UpdateL1InfoTreeV2{
				CurrentL1InfoRoot: root, LeafCount: cnt, Blockhash: blk.Hash, MinTimestamp: 1}})
		case "verify":
			vb := &l1infotreesync.VerifyBatches{BlockPosition: uint64(p), RollupID: uint32(e.R), NumBatch: op.Num*10 + uint64(p),
				ExitRoot: k.exitRoot(e.X)}
			vb.StateRoot = names.Keccak([]byte(fmt.Sprintf("sr-%d-%d", op.Num, p)))
			vb.Aggregator = common.BytesToAddress([]byte{byte(e.R), byte(p)})
			blk.Events = append(blk.Events, l1infotreesync.Event{VerifyBatches: vb})
		}
	}
	rec.events = blk.Events
	return blk, rec
}

func (k *l1Kind) process(ctx context.Context, op Op) error {
	blk, rec := k.build(op)
	k.lastRec = rec
	k.lastRec.events = cloneL1Events(blk.Events) // pristine copy for the twin / history (the processor writes into events)
	return k.node.VerifProcessBlock(ctx, blk)
}

func (k *l1Kind) curU() map[int]int {
	if len(k.ustates) == 0 {
		return map[int]int{}
	}
	return k.ustates[len(k.ustates)-1].leafs
}

func (k *l1Kind) applied(op Op) {
	rec := k.lastRec
	for _, x := range rec.leaves {
		root := k.ref.Append(x, k.leafHash(x))
		k.seenRoots = append(k.seenRoots, root)
	}
	if k.ref.Len() > k.maxLeaves {
		k.maxLeaves = k.ref.Len()
	}
	for _, e := range op.Evs {
		if e.T != "verify" || e.X == 0 {
			continue
		}
		cur := k.curU()
		if cur[e.R-1] == e.X {
			continue // unchanged: no update
		}
		next := map[int]int{}
		for p, a := range cur {
			next[p] = a
		}
		next[e.R-1] = e.X
		root := k.uref.Set(e.R-1, e.X, k.exitRoot(e.X))
		k.ustates = append(k.ustates, ustate{blk: op.Num, r: e.R, x: e.X, root: root, leafs: next})
		k.seenURoots = append(k.seenURoots, root)
		rec.nU++
	}
	k.hist = append(k.hist, rec)
	if k.twin != nil {
		blk := aggsync.Block{Num: rec.num, Hash: rec.hash, Events: cloneL1Events(rec.events)}
		if err := k.twin.VerifProcessBlock(context.Background(), blk); err != nil {
			panic(fmt.Sprintf("twin refused block %d that the node accepted: %v", op.Num, err))
		}
	}
}

func (k *l1Kind) reorg(ctx context.Context, from uint64) error { return k.node.VerifReorg(ctx, from) }

func (k *l1Kind) reorged(from uint64) int {
	keep, leaves, nu := 0, 0, 0
	for _, b := range k.hist {
		if b.num < from {
			keep++
			leaves += len(b.leaves)
			nu += b.nU
		}
	}
	rows := len(k.hist) - keep
	k.hist = k.hist[:keep]
	k.ref.Truncate(leaves)
	k.ustates = k.ustates[:nu]
	// rebuild the reference updatable tree at the surviving state
	k.uref = names.NewUpdTree(k.dict)
	for p, a := range k.curU() {
		k.uref.Set(p, a, k.exitRoot(a))
	}
	if k.twin != nil && rows > 0 {
		if err := k.rebuildTwin(); err != nil {
			panic(err)
		}
	}
	return rows
}

func (k *l1Kind) describe(op Op) []tr.M {
	out := []tr.M{}
	for _, e := range op.Evs {
		switch e.T {
		case "leaf":
			out = append(out, tr.M{"t": "leaf", "x": e.X})
		case "v2":
			out = append(out, tr.M{"t": "v2", "good": e.Good})
		case "verify":
			out = append(out, tr.M{"t": "verify", "r": e.R, "x": e.X})
		}
	}
	return out
}

// realStmt: INSERT block; per info leaf: leaf row, root, 32 nodes; per effective verify: root, 32 nodes, row; v2: none.
// (skipped verify events have no statement: the mapping follows the model's statement numbering, which has the same skips)
func (k *l1Kind) realStmt(op Op, at int, rng *rand.Rand) int {
	model, real := 1, 1
	if at <= 1 {
		return 1
	}
	cur := map[int]int{}
	for p, a := range k.curU() {
		cur[p] = a
	}
	for _, e := range op.Evs {
		switch e.T {
		case "leaf":
			model++
			real++
			if model == at {
				return real
			}
			model++
			if model == at {
				return real + 1 + []int{0, 1, 1 + rng.Intn(32), 32}[rng.Intn(4)]
			}
			real += 33
		case "verify":
			if e.X == 0 || cur[e.R-1] == e.X {
				continue
			}
			cur[e.R-1] = e.X
			model++
			if model == at {
				return real + 1 + []int{0, 1, 1 + rng.Intn(32), 32}[rng.Intn(4)]
			}
			real += 33
			model++
			real++
			if model == at {
				return real
			}
		}
	}
	return real + 1
}

func (k *l1Kind) atomOfInfo(l *l1infotreesync.L1InfoTreeLeaf) int {
	for x, w := range k.atoms {
		if l.MainnetExitRoot == w.mer && l.RollupExitRoot == w.rer && l.PreviousBlockHash == w.parent && l.Timestamp == w.ts {
			return x
		}
	}
	return -1
}

func (k *l1Kind) exitAtom(h common.Hash) int {
	for x, w := range k.exitRoots {
		if w == h {
			return x
		}
	}
	return -1
}

func elide(d *names.Dict, pr [names.Height]common.Hash) [][]any {
	sib := [][]any{}
	for h, hsh := range pr {
		n := d.Of(hsh)
		if n.T == "z" && n.H == h {
			continue
		}
		sib = append(sib, []any{h, n})
	}
	return sib
}

func (k *l1Kind) snapshot() tr.M {
	ctx := context.Background()
	s := tr.M{}
	last, err := k.node.GetLastProcessedBlock(ctx)
	s["last"] = tr.M{"c": classify(err), "v": last}
	// leaves by index and roots by index
	infos, roots := []tr.M{}, []tr.M{}
	for i := 0; i <= k.maxLeaves; i++ {
		l, err := k.node.GetInfoByIndex(ctx, uint32(i))
		m := tr.M{"i": i, "c": classify(err)}
		if err == nil {
			m["x"], m["b"], m["p"], m["li"] = k.atomOfInfo(l), l.BlockNumber, l.BlockPosition, l.L1InfoTreeIndex
			m["ger"], m["hash"] = k.dict.Of(l.GlobalExitRoot), k.dict.Of(l.Hash)
		}
		infos = append(infos, m)
		r, err := k.node.GetL1InfoTreeRootByIndex(ctx, uint32(i))
		rm := tr.M{"i": i, "c": classify(err)}
		if err == nil {
			rm["n"], rm["b"], rm["p"], rm["ri"] = k.dict.Of(r.Hash), r.BlockNum, r.BlockPosition, r.Index
		}
		roots = append(roots, rm)
	}
	s["infos"], s["roots"] = infos, roots
	// leaves by GER, for every leaf atom ever generated
	byger := []tr.M{}
	for x := range k.atoms {
		l := k.atoms[x]
		got, err := k.node.GetInfoByGlobalExitRoot(names.GER(l.mer, l.rer))
		m := tr.M{"x": x, "c": classify(err)}
		if err == nil {
			m["i"], m["gx"] = got.L1InfoTreeIndex, k.atomOfInfo(got)
		}
		byger = append(byger, m)
	}
	sortByInt(byger, "x")
	s["byger"] = byger
	// leaves by block: the latest one up to a block, the first one from a block on, the first and the last of all
	nums := map[uint64]bool{1: true}
	for _, b := range k.hist {
		nums[b.num], nums[b.num+1] = true, true
		if b.num > 1 {
			nums[b.num-1] = true
		}
	}
	byblock := []tr.M{}
	for b := range nums {
		m := tr.M{"b": b}
		l, err := k.node.GetLatestInfoUntilBlock(ctx, b)
		m["uc"] = classify(err)
		if err == nil {
			m["ui"] = l.L1InfoTreeIndex
		}
		l, err = k.node.GetFirstInfoAfterBlock(b)
		m["ac"] = classify(err)
		if err == nil {
			m["ai"] = l.L1InfoTreeIndex
		}
		byblock = append(byblock, m)
	}
	sortByInt(byblock, "b")
	s["byblock"] = byblock
	ends := tr.M{}
	fl, err := k.node.GetFirstInfo()
	ends["fc"] = classify(err)
	if err == nil {
		ends["fi"] = fl.L1InfoTreeIndex
	}
	ll, err := k.node.GetLastInfo()
	ends["lc"] = classify(err)
	if err == nil {
		ends["li"] = ll.L1InfoTreeIndex
	}
	s["ends"] = ends
	lr, err := k.node.GetLastL1InfoTreeRoot(ctx)
	lm := tr.M{"c": classify(err)}
	if err == nil {
		lm["n"], lm["ri"] = k.dict.Of(lr.Hash), lr.Index
	}
	s["lastroot"] = lm
	// proofs of the L1 info tree: every (recorded root, covered position) + the index->own root form
	proofs := []tr.M{}
	for i := 0; i <= k.maxLeaves; i++ {
		r, err := k.node.GetL1InfoTreeRootByIndex(ctx, uint32(i))
		if err != nil {
			continue
		}
		for p := 0; p <= i; p++ {
			pr, err := k.node.GetL1InfoTreeMerkleProofFromIndexToRoot(ctx, uint32(p), r.Hash)
			m := tr.M{"r": i, "p": p, "c": classify(err)}
			if err == nil {
				m["sib"] = elide(k.dict, pr)
			}
			proofs = append(proofs, m)
		}
		pr, rr, err := k.node.GetL1InfoTreeMerkleProof(ctx, uint32(i))
		m := tr.M{"r": i, "p": i, "own": true, "c": classify(err)}
		if err == nil {
			m["sib"], m["n"] = elide(k.dict, pr), k.dict.Of(rr.Hash)
		}
		proofs = append(proofs, m)
	}
	s["proofs"] = proofs
	fproofs := []tr.M{}
	if n := k.ref.Len(); n > 0 && k.opts.ReadFaultQueries > 0 {
		rng := rand.New(rand.NewSource(k.seed ^ int64(n)*977 ^ int64(len(k.hist))*31))
		for q := 0; q < k.opts.ReadFaultQueries; q++ {
			i := rng.Intn(n)
			p := rng.Intn(i + 1)
			r, err := k.node.GetL1InfoTreeRootByIndex(ctx, uint32(i))
			if err != nil {
				continue
			}
			at := 1 + rng.Intn(140)
			var pr treetypes.Proof
			var fired bool
			how := "auth"
			if q%2 == 1 {
				// (counted first on the same query)
				if err := iofault.Arm(k.dbPath(), iofault.Read, 0); err != nil {
					panic(err)
				}
				_, _ = k.node.GetL1InfoTreeMerkleProofFromIndexToRoot(ctx, uint32(p), r.Hash)
				_, n := iofault.Disarm()
				how, at = "io", 1+rng.Intn(max(n, 1))
				if err := iofault.Arm(k.dbPath(), iofault.Read, at); err != nil {
					panic(err)
				}
				pr, err = k.node.GetL1InfoTreeMerkleProofFromIndexToRoot(ctx, uint32(p), r.Hash)
				fired, _ = iofault.Disarm()
			} else {
				armAuth(k.dbPath(), -1, at)
				pr, err = k.node.GetL1InfoTreeMerkleProofFromIndexToRoot(ctx, uint32(p), r.Hash)
				fired, _ = disarmAuth()
			}
			m := tr.M{"r": i, "p": p, "c": classify(err), "fired": fired, "at": at, "how": how}
			if err == nil {
				m["sib"] = elide(k.dict, pr)
			}
			fproofs = append(fproofs, m)
		}
	}
	s["fproofs"] = fproofs
	// rollup exit tree
	ur, err := k.node.GetLastRollupExitRoot(ctx)
	um := tr.M{"c": classify(err)}
	if err == nil {
		um["n"], um["pos"], um["b"] = k.dict.Of(ur.Hash), ur.Index, ur.BlockNum
	}
	s["ulast"] = um
	vbs := []tr.M{}
	for r := 1; r <= 3; r++ {
		v, err := k.node.GetLastVerifiedBatches(uint32(r))
		m := tr.M{"r": r, "c": classify(err)}
		if err == nil {
			m["x"], m["rer"], m["b"] = k.exitAtom(v.ExitRoot), k.dict.Of(v.RollupExitRoot), v.BlockNumber
		}
		vbs = append(vbs, m)
	}
	s["verified"] = vbs
	// proofs / leaves of the rollup exit tree: for every surviving recorded root and every position present under it
	uproofs := []tr.M{}
	for n, st := range k.ustates {
		for pos := range st.leafs {
			pr, err := k.node.GetRollupExitTreeMerkleProof(ctx, uint32(pos+1), st.root)
			m := tr.M{"u": n + 1, "pos": pos, "c": classify(err)}
			if err == nil {
				m["sib"] = elide(k.dict, pr)
			}
			lf, err := k.node.GetLocalExitRoot(ctx, uint32(pos+1), st.root)
			m["lc"] = classify(err)
			if err == nil {
				m["lx"] = k.exitAtom(lf)
			}
			uproofs = append(uproofs, m)
		}
	}
	sortBy2(uproofs, "u", "pos")
	s["uproofs"] = uproofs
	// generic battery against the twin
	live, dead := k.hashPools()
	bt := &battery{deny: l1Deny, hashes: live, maxN: last + 1}
	a := bt.run(k.node, k.opts.PerMethod)
	s["classes"] = classesByMethod(a)
	if k.twin != nil {
		s["twin"] = twinDiff(a, bt.run(k.twin, k.opts.PerMethod))
		if len(dead) > 0 {
			bd := &battery{deny: l1Deny, hashes: dead, maxN: last + 1, onlyHashArgs: true}
			s["deadroot"] = deadDiff(bd.run(k.node, k.opts.PerMethod), bd.run(k.twin, k.opts.PerMethod))
		}
	}
	if len(k.dict.Ambiguous) > 0 {
		s["ambiguous"] = k.dict.Ambiguous
	}
	return s
}

func (k *l1Kind) hashPools() (live, dead []common.Hash) {
	cur := map[common.Hash]bool{}
	for i := 1; i <= k.ref.Len(); i++ {
		cur[k.ref.RootOf(i)] = true
	}
	for _, st := range k.ustates {
		cur[st.root] = true
	}
	pick := func(list []common.Hash) {
		seen := map[common.Hash]bool{}
		nl, nd := 0, 0
		for i := len(list) - 1; i >= 0; i-- {
			h := list[i]
			if seen[h] {
				continue
			}
			seen[h] = true
			if cur[h] && nl < 2 {
				live = append(live, h)
				nl++
			} else if !cur[h] && nd < 2 {
				dead = append(dead, h)
				nd++
			}
		}
	}
	pick(k.seenRoots)
	pick(k.seenURoots)
	// GERs and rollup exit roots of live leaves, for the by-GER / by-rollup-exit-root lookups
	for _, b := range k.hist {
		for _, x := range b.leaves {
			if len(live) < 6 {
				l := k.atoms[x]
				live = append(live, names.GER(l.mer, l.rer), l.rer)
			}
		}
	}
	return live, dead
}

var l1Deny = map[string]bool{"Start": true}

func (k *l1Kind) kindSeed() int64 { return k.seed }
func (k *l1Kind) setSeed(s int64) { k.seed = s }
func (k *l1Kind) workDir() string { return k.dir }

// prepare records what process would have recorded about the block, without processing it (the block is processed by a child process).
func (k *l1Kind) prepare(op Op) {
	blk, rec := k.build(op)
	k.lastRec = rec
	k.lastRec.events = cloneL1Events(blk.Events)
}

func (k *l1Kind) pool() *sql.DB { return k.node.VerifDB() }

func (k *l1Kind) twinPath() string { return tmpDB(k.dir, fmt.Sprintf("twin%d.sqlite", k.twinN)) }
func (k *l1Kind) twinProcess(op Op) error {
	blk, _ := k.build(op)
	blk.Events = cloneL1Events(blk.Events)
	return k.twin.VerifProcessBlock(context.Background(), blk)
}
