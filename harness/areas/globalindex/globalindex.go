// Package globalindex drives the real global-index codec and every real consumer of a claim's global index (C19).
//
// Input : JSON list of behaviours {flow:"pp"|"fep", claims:[{m,r,l,gi,src}]}. (m,r,l) is the triple, gi the canonical
//
//	on-chain value of that triple as a decimal string (computed by the check, independently of the code).
//
// Output: ndjson trace for specs/GlobalIndexTrace.tla. One behaviour = one certificate:
//
//	cert   {flow,k}                       a certificate with k claims is about to be built (starts a new trace)
//	case   {i,m,r:[hi,lo],l:[hi,lo],gi}   the i-th claim's input
//	enc    {i,v}                          bridgesync.GenerateGlobalIndex(m,r,l)
//	dec    {i,of:"enc"|"gi",t}            bridgesync.DecodeGlobalIndex of the composed value / of the on-chain value
//	reenc  {i,v}                          GenerateGlobalIndex(DecodeGlobalIndex(gi))
//	carry  {i,at,kind:"t"|"v",t|v}        the global index of claim i as carried by consumer `at`
//	end    {}                             the certificate went through all consumers
//
// v = {s: decimal string, w: five 16-bit limbs [>>64, 48..63, 32..47, 16..31, 0..15], n: byte length of the carrier};
// t = {m, r:[hi,lo], l:[hi,lo]}. Hash-valued consumers are named by dictionary lookup (hash -> the values whose
// reference commitment gives that hash); a hash not in the dictionary is "unknown" and equals nothing.
//
// The Go side records; it never judges.
package globalindex

import (
	"bytes"
	"context"
	"encoding/json"
	"flag"
	"fmt"
	"math/big"
	"math/rand"
	"net"
	"sync"
	"time"

	node "buf.build/gen/go/agglayer/agglayer/grpc/go/agglayer/node/v1/nodev1grpc"
	v1nodetypes "buf.build/gen/go/agglayer/agglayer/protocolbuffers/go/agglayer/node/types/v1"
	v1 "buf.build/gen/go/agglayer/agglayer/protocolbuffers/go/agglayer/node/v1"
	v1types "buf.build/gen/go/agglayer/interop/protocolbuffers/go/agglayer/interop/types/v1"
	proverv1grpc "buf.build/gen/go/agglayer/provers/grpc/go/aggkit/prover/v1/proverv1grpc"
	proverv1 "buf.build/gen/go/agglayer/provers/protocolbuffers/go/aggkit/prover/v1"
	agglayergrpc "github.com/agglayer/aggkit/agglayer/grpc"
	agglayertypes "github.com/agglayer/aggkit/agglayer/types"
	"github.com/agglayer/aggkit/aggsender/aggchainproofclient"
	"github.com/agglayer/aggkit/aggsender/flows"
	"github.com/agglayer/aggkit/aggsender/optimistic/optimistichash"
	"github.com/agglayer/aggkit/aggsender/types"
	"github.com/agglayer/aggkit/bridgesync"
	aggkitgrpc "github.com/agglayer/aggkit/grpc"
	"github.com/agglayer/aggkit/l1infotreesync"
	"github.com/agglayer/aggkit/log"
	treetypes "github.com/agglayer/aggkit/tree/types"
	"github.com/ethereum/go-ethereum/common"
	ethtypes "github.com/ethereum/go-ethereum/core/types"
	"github.com/ethereum/go-ethereum/crypto"
	"google.golang.org/grpc"

	"verifharness/tr"
)

type caseIn struct {
	M   bool   `json:"m"`
	R   uint32 `json:"r"`
	L   uint32 `json:"l"`
	GI  string `json:"gi"`
	Src string `json:"src"`
	// Raw: the value the claim event carries when it is not the canonical one (a mainnet claim made with junk in bits 32..63,
	// which the bridge contract ignores): the claim is handed to the aggsender with this value, GI stays the value composed
	// from the triple - what every consumer fed from the certificate has to carry
	Raw string `json:"raw"`
}

type behaviour struct {
	Flow   string   `json:"flow"`
	Claims []caseIn `json:"claims"`
}

// ------------------------------------------------------------------------------------------------ projection

const satur = 1 << 30

func split32(x uint64) []int64 {
	hi := x >> 16
	if hi > satur {
		hi = satur
	}
	return []int64{int64(hi), int64(x & 0xffff)}
}

func triple(m bool, r, l uint64) tr.M {
	return tr.M{"m": m, "r": split32(r), "l": split32(l)}
}

// value describes a non-negative integer: decimal string, 16-bit limbs (the top limb holds everything from bit 64 up,
// saturated), and the byte length of the field that carried it.
func value(v *big.Int, n int) tr.M {
	top := new(big.Int).Rsh(v, 64)
	t := int64(satur)
	if top.IsInt64() && top.Int64() < satur {
		t = top.Int64()
	}
	low := new(big.Int).And(v, new(big.Int).SetUint64(^uint64(0))).Uint64()
	return tr.M{"s": v.String(), "n": n,
		"w": []int64{t, int64(low >> 48 & 0xffff), int64(low >> 32 & 0xffff), int64(low >> 16 & 0xffff), int64(low & 0xffff)}}
}

func unknown(h []byte) tr.M {
	return tr.M{"s": "unknown:" + common.Bytes2Hex(h), "n": -1, "w": []int64{-1, -1, -1, -1, -1}}
}

func beValue(b []byte) tr.M { return value(new(big.Int).SetBytes(b), len(b)) }

func leValue(b []byte) tr.M {
	rev := make([]byte, len(b))
	for i := range b {
		rev[len(b)-1-i] = b[i]
	}
	return value(new(big.Int).SetBytes(rev), len(b))
}

// ------------------------------------------------------------------------------------------------ reference (naming)

// refLayout is the bridge contract's layout, written with shifts (independent of GenerateGlobalIndex).
func refLayout(m bool, r, l uint32) *big.Int {
	v := new(big.Int)
	if m {
		v.SetBit(v, 64, 1)
	}
	v.Or(v, new(big.Int).Lsh(new(big.Int).SetUint64(uint64(r)), 32))
	return v.Or(v, new(big.Int).SetUint64(uint64(l)))
}

// refLE32 is the commitment form of a global index: 32 bytes, little endian. nil if it does not fit.
func refLE32(v *big.Int) []byte {
	if v.Sign() < 0 || v.BitLen() > 256 {
		return nil
	}
	be := v.FillBytes(make([]byte, 32))
	le := make([]byte, 32)
	for i := range be {
		le[31-i] = be[i]
	}
	return le
}

func refLE64(x uint64) []byte {
	b := make([]byte, 8)
	for i := 0; i < 8; i++ {
		b[i] = byte(x >> (8 * i))
	}
	return b
}

func allFit(vs []*big.Int) bool {
	for _, v := range vs {
		if refLE32(v) == nil {
			return false
		}
	}
	return true
}

func refGIHash(v *big.Int) common.Hash { return crypto.Keccak256Hash(refLE32(v)) }

func refPP(cert *agglayertypes.Certificate, vs []*big.Int) common.Hash {
	hs := make([][]byte, len(vs))
	for i, v := range vs {
		hs[i] = refGIHash(v).Bytes()
	}
	return crypto.Keccak256Hash(cert.NewLocalExitRoot.Bytes(), crypto.Keccak256(hs...))
}

func refFEP(cert *agglayertypes.Certificate, vs []*big.Int) common.Hash {
	chunks := make([][]byte, len(vs))
	for i, v := range vs {
		chunks[i] = append(append([]byte{}, refLE32(v)...), cert.ImportedBridgeExits[i].BridgeExit.Hash().Bytes()...)
	}
	params := crypto.Keccak256(nil)
	if p, ok := cert.AggchainData.(*agglayertypes.AggchainDataProof); ok {
		params = p.AggchainParams.Bytes()
	}
	return crypto.Keccak256Hash(cert.NewLocalExitRoot.Bytes(), crypto.Keccak256(chunks...), refLE64(cert.Height), params)
}

func refOpt(claims []bridgesync.Claim, vs []*big.Int) common.Hash {
	var all []byte
	for i, v := range vs {
		c := claims[i]
		lt := agglayertypes.LeafTypeAsset
		if c.IsMessage {
			lt = agglayertypes.LeafTypeMessage
		}
		be := agglayertypes.BridgeExit{LeafType: lt,
			TokenInfo:          &agglayertypes.TokenInfo{OriginNetwork: c.OriginNetwork, OriginTokenAddress: c.OriginAddress},
			DestinationNetwork: c.DestinationNetwork, DestinationAddress: c.DestinationAddress,
			Amount: c.Amount, Metadata: c.Metadata}
		all = append(all, refLE32(v)...)
		all = append(all, be.Hash().Bytes()...)
	}
	return crypto.Keccak256Hash(all)
}

// ------------------------------------------------------------------------------------------------ environment

type fakeL2 struct{ types.BridgeQuerier }

func (fakeL2) OriginNetwork() uint32 { return 7 }

type fakeLER struct{ ler common.Hash }

func (f fakeLER) GetLastLocalExitRoot() (common.Hash, error) { return f.ler, nil }

type fakeL1 struct {
	root  treetypes.Root
	leaf  l1infotreesync.L1InfoTreeLeaf
	proof treetypes.Proof
}

func (f *fakeL1) GetLatestFinalizedL1InfoRoot(context.Context) (*treetypes.Root, *l1infotreesync.L1InfoTreeLeaf, error) {
	r, l := f.root, f.leaf
	return &r, &l, nil
}
func (f *fakeL1) GetFinalizedL1InfoTreeData(context.Context) (treetypes.Proof, *l1infotreesync.L1InfoTreeLeaf, *treetypes.Root, error) {
	r, l := f.root, f.leaf
	return f.proof, &l, &r, nil
}
func (f *fakeL1) GetProofForGER(_ context.Context, ger, _ common.Hash) (*l1infotreesync.L1InfoTreeLeaf, treetypes.Proof, error) {
	l := f.leaf
	l.GlobalExitRoot = ger
	return &l, f.proof, nil
}
func (f *fakeL1) CheckIfClaimsArePartOfFinalizedL1InfoTree(*treetypes.Root, []bridgesync.Claim) error {
	return nil
}

type fakeGER struct{}

func (fakeGER) GetInjectedGERsProofs(context.Context, *treetypes.Root, uint64, uint64) (
	map[common.Hash]*agglayertypes.ProvenInsertedGERWithBlockNumber, error) {
	return map[common.Hash]*agglayertypes.ProvenInsertedGERWithBlockNumber{}, nil
}

// recSigner records the hash it is asked to sign: the signed commitment.
type recSigner struct {
	mu  sync.Mutex
	got []common.Hash
}

func (s *recSigner) Initialize(context.Context) error { return nil }
func (s *recSigner) PublicAddress() common.Address    { return common.HexToAddress("0x5155") }
func (s *recSigner) String() string                   { return "recSigner" }
func (s *recSigner) SignTx(_ context.Context, tx *ethtypes.Transaction) (*ethtypes.Transaction, error) {
	return tx, nil
}
func (s *recSigner) SignHash(_ context.Context, h common.Hash) ([]byte, error) {
	s.mu.Lock()
	s.got = append(s.got, h)
	s.mu.Unlock()
	sig := make([]byte, 65)
	copy(sig, h.Bytes())
	return sig, nil
}
func (s *recSigner) take() []common.Hash {
	s.mu.Lock()
	defer s.mu.Unlock()
	g := s.got
	s.got = nil
	return g
}

// servers: the receiving ends of the two real gRPC clients (loopback); they store what arrives, enforce nothing.
type agglayerSrv struct {
	node.UnimplementedCertificateSubmissionServiceServer
	mu   sync.Mutex
	reqs []*v1.SubmitCertificateRequest
}

func (s *agglayerSrv) SubmitCertificate(_ context.Context, r *v1.SubmitCertificateRequest) (*v1.SubmitCertificateResponse, error) {
	s.mu.Lock()
	s.reqs = append(s.reqs, r)
	s.mu.Unlock()
	return &v1.SubmitCertificateResponse{CertificateId: &v1nodetypes.CertificateId{
		Value: &v1types.FixedBytes32{Value: crypto.Keccak256([]byte("cert"))}}}, nil
}
func (s *agglayerSrv) take() []*v1.SubmitCertificateRequest {
	s.mu.Lock()
	defer s.mu.Unlock()
	g := s.reqs
	s.reqs = nil
	return g
}

type proverSrv struct {
	proverv1grpc.UnimplementedAggchainProofServiceServer
	mu   sync.Mutex
	reqs []*proverv1.GenerateAggchainProofRequest
}

func (s *proverSrv) GenerateAggchainProof(_ context.Context, r *proverv1.GenerateAggchainProofRequest) (
	*proverv1.GenerateAggchainProofResponse, error) {
	s.mu.Lock()
	s.reqs = append(s.reqs, r)
	s.mu.Unlock()
	return &proverv1.GenerateAggchainProofResponse{
		AggchainProof: &v1types.AggchainProof{
			AggchainParams: &v1types.FixedBytes32{Value: crypto.Keccak256([]byte("params"))},
			Context:        map[string][]byte{},
			Proof: &v1types.AggchainProof_Sp1Stark{Sp1Stark: &v1types.SP1StarkProof{
				Version: "v", Proof: []byte{1, 2, 3}, Vkey: []byte{4, 5}}},
		},
		LastProvenBlock:   r.LastProvenBlock,
		EndBlock:          r.RequestedEndBlock,
		LocalExitRootHash: &v1types.FixedBytes32{Value: crypto.Keccak256([]byte("ler"))},
		CustomChainData:   []byte{9},
	}, nil
}
func (s *proverSrv) take() []*proverv1.GenerateAggchainProofRequest {
	s.mu.Lock()
	defer s.mu.Unlock()
	g := s.reqs
	s.reqs = nil
	return g
}

type env struct {
	w        *tr.W
	logger   *log.Logger
	rng      *rand.Rand
	asrv     *agglayerSrv
	psrv     *proverSrv
	aclient  *agglayergrpc.AgglayerGRPCClient
	pclient  *aggchainproofclient.AggchainProofClient
	shutdown func()
}

func newEnv(w *tr.W) (*env, error) {
	lis, err := net.Listen("tcp", "127.0.0.1:0")
	if err != nil {
		return nil, fmt.Errorf("listen: %w", err)
	}
	e := &env{w: w, logger: log.WithFields("verif", "globalindex"), rng: rand.New(rand.NewSource(tr.Seed())),
		asrv: &agglayerSrv{}, psrv: &proverSrv{}}
	srv := grpc.NewServer(grpc.MaxRecvMsgSize(1 << 30))
	node.RegisterCertificateSubmissionServiceServer(srv, e.asrv)
	proverv1grpc.RegisterAggchainProofServiceServer(srv, e.psrv)
	go func() { _ = srv.Serve(lis) }()
	e.shutdown = srv.Stop
	cfg := aggkitgrpc.DefaultConfig()
	cfg.URL = lis.Addr().String()
	cfg.Retry = nil
	cfg.RequestTimeout.Duration = 30 * time.Second
	if e.aclient, err = agglayergrpc.NewAgglayerGRPCClient(cfg); err != nil {
		return nil, fmt.Errorf("agglayer client: %w", err)
	}
	if e.pclient, err = aggchainproofclient.NewAggchainProofClient(cfg); err != nil {
		return nil, fmt.Errorf("prover client: %w", err)
	}
	return e, nil
}

func (e *env) hash() (h common.Hash) { e.rng.Read(h[:]); return }
func (e *env) addr() (a common.Address) { e.rng.Read(a[:]); return }
func (e *env) proof() (p treetypes.Proof) {
	for i := range p {
		p[i] = e.hash()
	}
	return
}

// ------------------------------------------------------------------------------------------------ run

func Run(args []string) error {
	fs := flag.NewFlagSet("globalindex", flag.ContinueOnError)
	in := fs.String("in", "", "behaviours json")
	out := fs.String("out", "", "trace ndjson")
	if err := fs.Parse(args); err != nil {
		return err
	}
	var bs []behaviour
	if err := tr.ReadJSON(*in, &bs); err != nil {
		return err
	}
	w, err := tr.NewW(*out)
	if err != nil {
		return err
	}
	defer w.Close()
	e, err := newEnv(w)
	if err != nil {
		return err
	}
	defer e.shutdown()
	for bi, b := range bs {
		if err := e.one(b); err != nil {
			return fmt.Errorf("behaviour %d: %w", bi, err)
		}
	}
	return nil
}

func (e *env) one(b behaviour) (err error) {
	// BytesToUint32 panics on over-long slices: a panic of the code under test is recorded, not a driver crash
	defer func() {
		if p := recover(); p != nil {
			e.w.Emit(tr.M{"ev": "panic", "what": fmt.Sprint(p)})
			e.w.Emit(tr.M{"ev": "end"})
			err = nil
		}
	}()
	w := e.w
	k := len(b.Claims)
	if k == 0 {
		return fmt.Errorf("behaviour without claims")
	}
	w.Emit(tr.M{"ev": "cert", "flow": b.Flow, "k": k})

	// ---- the codec itself, per claim
	gis := make([]*big.Int, k)  // candidate list A: the on-chain values
	encs := make([]*big.Int, k) // candidate list B: what GenerateGlobalIndex composes for the input triple
	for i, c := range b.Claims {
		g, ok := new(big.Int).SetString(c.GI, 10)
		if !ok || g.Sign() < 0 {
			return fmt.Errorf("bad gi %q", c.GI)
		}
		gis[i] = g
		w.Emit(tr.M{"ev": "case", "i": i + 1, "m": c.M, "r": split32(uint64(c.R)), "l": split32(uint64(c.L)), "gi": c.GI, "nc": c.Raw != ""})
		enc := bridgesync.GenerateGlobalIndex(c.M, c.R, c.L)
		encs[i] = new(big.Int).Set(enc)
		w.Emit(tr.M{"ev": "enc", "i": i + 1, "v": value(enc, len(enc.Bytes()))})
		dm, dr, dl, derr := bridgesync.DecodeGlobalIndex(enc)
		w.Emit(tr.M{"ev": "dec", "i": i + 1, "of": "enc", "t": triple(dm, uint64(dr), uint64(dl)), "err": derr != nil})
		cm, cr, cl, cerr := bridgesync.DecodeGlobalIndex(new(big.Int).Set(g))
		w.Emit(tr.M{"ev": "dec", "i": i + 1, "of": "gi", "t": triple(cm, uint64(cr), uint64(cl)), "err": cerr != nil})
		re := bridgesync.GenerateGlobalIndex(cm, cr, cl)
		w.Emit(tr.M{"ev": "reenc", "i": i + 1, "v": value(re, len(re.Bytes()))})
	}

	// ---- the claims as the bridge syncer would hand them to the aggsender
	claims := make([]bridgesync.Claim, k)
	for i := range claims {
		if raw := b.Claims[i].Raw; raw != "" {
			g, ok := new(big.Int).SetString(raw, 10)
			if !ok || g.Sign() < 0 {
				return fmt.Errorf("bad raw global index %q", raw)
			}
			gis[i] = g
		}
		var meta []byte
		if e.rng.Intn(2) == 0 {
			meta = make([]byte, 1+e.rng.Intn(40))
			e.rng.Read(meta)
		}
		claims[i] = bridgesync.Claim{
			BlockNum: 10 + uint64(i/3), BlockPos: uint64(i), FromAddress: e.addr(), TxHash: e.hash(),
			GlobalIndex: new(big.Int).Set(gis[i]), OriginNetwork: uint32(e.rng.Intn(5)), OriginAddress: e.addr(),
			DestinationAddress: e.addr(), Amount: new(big.Int).SetUint64(e.rng.Uint64()),
			ProofLocalExitRoot: e.proof(), ProofRollupExitRoot: e.proof(), MainnetExitRoot: e.hash(),
			RollupExitRoot: e.hash(), GlobalExitRoot: e.hash(), DestinationNetwork: 7, Metadata: meta,
			IsMessage: e.rng.Intn(2) == 0, BlockTimestamp: 1700000000,
		}
	}
	toBlock := claims[k-1].BlockNum
	l1 := &fakeL1{root: treetypes.Root{Hash: e.hash(), Index: 41, BlockNum: 5},
		leaf: l1infotreesync.L1InfoTreeLeaf{BlockNumber: 5, L1InfoTreeIndex: 41, PreviousBlockHash: e.hash(),
			Timestamp: 1700000001, MainnetExitRoot: e.hash(), RollupExitRoot: e.hash(), GlobalExitRoot: e.hash(), Hash: e.hash()},
		proof: e.proof()}
	l2 := fakeL2{}
	signer := &recSigner{}
	base := flows.NewBaseFlow(e.logger, l2, nil, l1, fakeLER{e.hash()}, flows.NewBaseFlowConfigDefault())
	ctx := context.Background()
	params := &types.CertificateBuildParams{FromBlock: 10, ToBlock: toBlock, Claims: claims, CreatedAt: 1700000002,
		L1InfoTreeRootFromWhichToProve: l1.root.Hash, L1InfoTreeLeafCount: l1.root.Index + 1}

	var cert *agglayertypes.Certificate
	var preq *proverv1.GenerateAggchainProofRequest
	switch b.Flow {
	case "pp":
		params.CertificateType = types.CertificateTypePP
		pp := flows.NewPPFlow(e.logger, base, nil, l1, l2, signer, false, 0)
		if cert, err = pp.BuildCertificate(ctx, params); err != nil {
			return fmt.Errorf("pp BuildCertificate: %w", err)
		}
	case "fep":
		params.CertificateType = types.CertificateTypeFEP
		fep := flows.NewAggchainProverFlow(e.logger, flows.NewAggchainProverFlowConfigDefault(), base, e.pclient, nil,
			l1, l2, fakeGER{}, nil, signer, nil, nil)
		proof, root, gerr := fep.GenerateAggchainProof(ctx, 9, toBlock, params)
		if gerr != nil {
			return fmt.Errorf("fep GenerateAggchainProof: %w", gerr)
		}
		reqs := e.psrv.take()
		if len(reqs) != 1 {
			return fmt.Errorf("prover server saw %d requests", len(reqs))
		}
		preq = reqs[0]
		params.AggchainProof = proof
		params.L1InfoTreeRootFromWhichToProve = root.Hash
		params.L1InfoTreeLeafCount = root.Index + 1
		if cert, err = fep.BuildCertificate(ctx, params); err != nil {
			return fmt.Errorf("fep BuildCertificate: %w", err)
		}
	default:
		return fmt.Errorf("unknown flow %q", b.Flow)
	}
	signed := signer.take()
	if len(signed) != 1 {
		return fmt.Errorf("signer saw %d hashes", len(signed))
	}

	// ---- consumer: the certificate (struct), per position
	nibe := len(cert.ImportedBridgeExits)
	tris := make([]*big.Int, nibe) // candidate list C: the layout of the triple the certificate carries
	for i, ibe := range cert.ImportedBridgeExits {
		gi := ibe.GlobalIndex
		tris[i] = refLayout(gi.MainnetFlag, gi.RollupIndex, gi.LeafIndex)
		w.Emit(tr.M{"ev": "carry", "i": i + 1, "at": "cert_struct", "kind": "t",
			"t": triple(gi.MainnetFlag, uint64(gi.RollupIndex), uint64(gi.LeafIndex))})
	}
	cands := [][]*big.Int{}
	for _, c := range [][]*big.Int{gis, encs, tris} {
		if len(c) == nibe && allFit(c) {
			cands = append(cands, c)
		}
	}
	lookup := func(h common.Hash, ref func(vs []*big.Int) common.Hash) []*big.Int {
		for _, c := range cands {
			if ref(c) == h {
				return c
			}
		}
		return nil
	}
	carryHash := func(at string, h common.Hash, ref func(vs []*big.Int) common.Hash) {
		vs := lookup(h, ref)
		for i := 0; i < nibe; i++ {
			if vs == nil {
				w.Emit(tr.M{"ev": "carry", "i": i + 1, "at": at, "kind": "v", "v": unknown(h.Bytes())})
			} else {
				w.Emit(tr.M{"ev": "carry", "i": i + 1, "at": at, "kind": "v", "v": value(vs[i], 32)})
			}
		}
	}

	// ---- consumer: certificate JSON (as stored / sent over JSON-RPC): generic parse, typed round trip, map codec
	raw, err := json.Marshal(cert)
	if err != nil {
		return fmt.Errorf("marshal certificate: %w", err)
	}
	var gen struct {
		IBE []struct {
			GI struct {
				M *bool        `json:"mainnet_flag"`
				R *json.Number `json:"rollup_index"`
				L *json.Number `json:"leaf_index"`
			} `json:"global_index"`
		} `json:"imported_bridge_exits"`
	}
	d := json.NewDecoder(bytes.NewReader(raw))
	d.UseNumber()
	if err := d.Decode(&gen); err != nil {
		return fmt.Errorf("parse certificate json: %w", err)
	}
	for i, x := range gen.IBE {
		if x.GI.M == nil || x.GI.R == nil || x.GI.L == nil {
			w.Emit(tr.M{"ev": "carry", "i": i + 1, "at": "cert_json", "kind": "t", "t": triple(false, satur<<16, satur<<16)})
			continue
		}
		r, er := new(big.Int).SetString(x.GI.R.String(), 10)
		l, el := new(big.Int).SetString(x.GI.L.String(), 10)
		if !er || !el || !r.IsUint64() || !l.IsUint64() {
			w.Emit(tr.M{"ev": "carry", "i": i + 1, "at": "cert_json", "kind": "t", "t": triple(*x.GI.M, satur<<16, satur<<16)})
			continue
		}
		w.Emit(tr.M{"ev": "carry", "i": i + 1, "at": "cert_json", "kind": "t", "t": triple(*x.GI.M, r.Uint64(), l.Uint64())})
	}
	var back agglayertypes.Certificate
	if err := json.Unmarshal(raw, &back); err != nil {
		return fmt.Errorf("unmarshal certificate: %w", err)
	}
	for i, ibe := range back.ImportedBridgeExits {
		gi := ibe.GlobalIndex
		if gi == nil {
			gi = &agglayertypes.GlobalIndex{RollupIndex: ^uint32(0), LeafIndex: ^uint32(0)}
		}
		w.Emit(tr.M{"ev": "carry", "i": i + 1, "at": "cert_json_rt", "kind": "t",
			"t": triple(gi.MainnetFlag, uint64(gi.RollupIndex), uint64(gi.LeafIndex))})
	}
	var asMap struct {
		IBE []struct {
			GI map[string]interface{} `json:"global_index"`
		} `json:"imported_bridge_exits"`
	}
	if err := json.Unmarshal(raw, &asMap); err != nil {
		return fmt.Errorf("parse certificate json as map: %w", err)
	}
	for i, x := range asMap.IBE {
		var gi agglayertypes.GlobalIndex
		if err := gi.UnmarshalFromMap(x.GI); err != nil {
			gi = agglayertypes.GlobalIndex{RollupIndex: ^uint32(0), LeafIndex: ^uint32(0)}
		}
		w.Emit(tr.M{"ev": "carry", "i": i + 1, "at": "cert_json_map", "kind": "t",
			"t": triple(gi.MainnetFlag, uint64(gi.RollupIndex), uint64(gi.LeafIndex))})
	}

	// ---- consumer: the commitments
	for i, ibe := range cert.ImportedBridgeExits {
		h := ibe.GlobalIndex.Hash()
		var hit *big.Int
		for _, c := range cands {
			if refGIHash(c[i]) == h {
				hit = c[i]
				break
			}
		}
		if hit == nil {
			w.Emit(tr.M{"ev": "carry", "i": i + 1, "at": "gi_hash", "kind": "v", "v": unknown(h.Bytes())})
		} else {
			w.Emit(tr.M{"ev": "carry", "i": i + 1, "at": "gi_hash", "kind": "v", "v": value(hit, 32)})
		}
		w.Emit(tr.M{"ev": "carry", "i": i + 1, "at": "le_bytes", "kind": "v", "v": leValue(ibe.GlobalIndexToLittleEndianBytes())})
	}
	refpp := func(vs []*big.Int) common.Hash { return refPP(cert, vs) }
	reffep := func(vs []*big.Int) common.Hash { return refFEP(cert, vs) }
	carryHash("pp_hash", cert.PPHashToSign(), refpp)
	carryHash("fep_hash", cert.FEPHashToSign(), reffep)
	if b.Flow == "pp" {
		carryHash("signed", signed[0], refpp)
	} else {
		carryHash("signed", signed[0], reffep)
	}
	// the optimistic-mode commitment is computed from the claims, not from the certificate
	opt := optimistichash.CalculateCommitImportedBrdigeExitsHashFromClaims(claims)
	{
		var vs []*big.Int
		for _, c := range cands {
			if len(c) == k && refOpt(claims, c) == opt {
				vs = c
				break
			}
		}
		for i := 0; i < k; i++ {
			if vs == nil {
				w.Emit(tr.M{"ev": "carry", "i": i + 1, "at": "opt_commit", "kind": "v", "v": unknown(opt.Bytes())})
			} else {
				w.Emit(tr.M{"ev": "carry", "i": i + 1, "at": "opt_commit", "kind": "v", "v": value(vs[i], 32)})
			}
		}
	}

	// ---- consumer: the wire message (real client -> loopback server)
	if _, err := e.aclient.SendCertificate(ctx, cert); err != nil {
		return fmt.Errorf("SendCertificate: %w", err)
	}
	areqs := e.asrv.take()
	if len(areqs) != 1 {
		return fmt.Errorf("agglayer server saw %d requests", len(areqs))
	}
	for i, ibe := range areqs[0].GetCertificate().GetImportedBridgeExits() {
		w.Emit(tr.M{"ev": "carry", "i": i + 1, "at": "wire", "kind": "v", "v": beValue(ibe.GetGlobalIndex().GetValue())})
	}

	// ---- consumer: the prover request (FEP flow only)
	if preq != nil {
		for i, ibe := range preq.GetImportedBridgeExits() {
			w.Emit(tr.M{"ev": "carry", "i": i + 1, "at": "prover", "kind": "v", "v": beValue(ibe.GetGlobalIndex().GetValue())})
		}
	}
	w.Emit(tr.M{"ev": "end"})
	return nil
}
