// Package pollepoch drives the epoch clock of the aggsender as cmd/run.go wires it: the real BlockNotifierPolling (its
// Start loop, polling a scripted RPC), a fan-out to the real EpochNotifierPerBlock, and a recording subscriber.
//
// Input: JSON list of behaviours {n,s,p,real,steps:[{a:"poll",r}|{a:"deliver",i}]} exported by TLC from
// specs/PollEpoch.tla (or generated at random by the check). Output: ndjson trace for specs/PollEpochTrace.tla.
//
// Two fan-outs:
//   scripted (real=false)  Publish parks the event; a "deliver" step hands the i-th parked event to the epoch notifier
//                          (any order the model allows), followed by a barrier delivery of the same block number.
//   real     (real=true)   the repository's GenericSubscriberImpl (one goroutine per event); a relay between its channel
//                          and the epoch notifier records the order in which the sends really complete. "deliver" steps
//                          are ignored; polls are issued back to back, so several sends can be pending at once.
//
// A poll is complete when the poller asks the RPC again: step, setGlobalStatus and Publish all precede the timer reset.
package pollepoch

import (
	"context"
	"errors"
	"flag"
	"fmt"
	"math/big"
	"sync"
	"time"

	"github.com/agglayer/aggkit/aggsender"
	"github.com/agglayer/aggkit/aggsender/types"
	"github.com/agglayer/aggkit/log"
	aggkittypes "github.com/agglayer/aggkit/types"
	ethtypes "github.com/ethereum/go-ethereum/core/types"

	"verifharness/tr"
)

type step struct {
	A string `json:"a"`
	R int64  `json:"r"`
	I int    `json:"i"`
}

type behaviour struct {
	N     uint   `json:"n"`
	S     uint64 `json:"s"`
	P     uint   `json:"p"`
	Real  bool   `json:"real"`
	Slow  bool   `json:"slowsub"` // the epoch events go through the repository's fan-out to a subscriber that takes them at "consume" steps
	Steps []step `json:"steps"`
}

// rpc is the scripted L1 client: every HeaderByNumber call announces itself and then waits for its scripted answer.
type rpc struct {
	aggkittypes.BaseEthereumClienter
	arrived chan struct{}
	answer  chan int64
}

func (c *rpc) HeaderByNumber(ctx context.Context, _ *big.Int) (*ethtypes.Header, error) {
	select {
	case c.arrived <- struct{}{}:
	case <-ctx.Done():
		return nil, ctx.Err()
	}
	select {
	case r := <-c.answer:
		if r < 0 {
			return nil, errors.New("scripted RPC error")
		}
		return &ethtypes.Header{Number: big.NewInt(r)}, nil
	case <-ctx.Done():
		return nil, ctx.Err()
	}
}

// fanout is the GenericSubscriber handed to the poller.
type fanout struct {
	mu        sync.Mutex
	inner     *aggsender.GenericSubscriberImpl[types.EventNewBlock] // real mode
	toEpoch   chan types.EventNewBlock
	parked    []types.EventNewBlock // scripted mode
	emitted   []uint64              // published since the last take
	published int
	relayed   int
	onRelay   func(types.EventNewBlock)
	w         *tr.W
	subOnce   sync.Once
	subbed    chan struct{}
}

func (f *fanout) Subscribe(name string) <-chan types.EventNewBlock {
	defer f.subOnce.Do(func() { close(f.subbed) })
	if f.inner != nil {
		src := f.inner.Subscribe(name)
		go func() {
			for ev := range src {
				f.onRelay(ev)
				f.mu.Lock()
				f.relayed++
				f.mu.Unlock()
			}
		}()
	}
	return f.toEpoch
}

func (f *fanout) Publish(ev types.EventNewBlock) {
	f.w.Emit(tr.M{"ev": "pubblock", "b": ev.BlockNumber}) // before any send of it can complete
	f.mu.Lock()
	f.emitted = append(f.emitted, ev.BlockNumber)
	f.published++
	if f.inner == nil {
		f.parked = append(f.parked, ev)
	}
	f.mu.Unlock()
	if f.inner != nil {
		f.inner.Publish(ev)
	}
}

func (f *fanout) takeEmitted() []uint64 {
	f.mu.Lock()
	defer f.mu.Unlock()
	g := f.emitted
	f.emitted = nil
	if g == nil {
		g = []uint64{}
	}
	return g
}

// recSub records epoch publications synchronously.
type recSub struct {
	mu  sync.Mutex
	got []uint64
}

func (r *recSub) Subscribe(string) <-chan types.EpochEvent { return make(chan types.EpochEvent) }
func (r *recSub) Publish(e types.EpochEvent) {
	r.mu.Lock()
	r.got = append(r.got, e.Epoch)
	r.mu.Unlock()
}
func (r *recSub) take() []uint64 {
	r.mu.Lock()
	defer r.mu.Unlock()
	g := r.got
	r.got = nil
	if g == nil {
		g = []uint64{}
	}
	return g
}

// teeSub records epoch publications synchronously (like recSub) and passes them on to the repository's fan-out.
type teeSub struct {
	recSub
	real *aggsender.GenericSubscriberImpl[types.EpochEvent]
	w    *tr.W
	n    int
}

func (t *teeSub) Subscribe(name string) <-chan types.EpochEvent { return t.real.Subscribe(name) }
func (t *teeSub) Publish(e types.EpochEvent) {
	t.w.Emit(tr.M{"ev": "epochpub", "e": e.Epoch}) // before any send of it can complete
	t.recSub.Publish(e)
	t.mu.Lock()
	t.n++
	t.mu.Unlock()
	t.real.Publish(e)
}

func Run(args []string) error {
	fs := flag.NewFlagSet("pollepoch", flag.ContinueOnError)
	in := fs.String("in", "", "behaviours json")
	out := fs.String("out", "", "trace ndjson")
	if err := fs.Parse(args); err != nil {
		return err
	}
	var bs []behaviour
	if err := tr.ReadJSON(*in, &bs); err != nil {
		return err
	}
	w, err := tr.NewW(*out)
	if err != nil {
		return err
	}
	defer w.Close()
	logger := log.WithFields("verif", "pollepoch")
	for i, b := range bs {
		if err := one(w, logger, b); err != nil {
			return fmt.Errorf("behaviour %d: %w", i, err)
		}
	}
	return nil
}

const patience = 20 * time.Second

func one(w *tr.W, logger *log.Logger, b behaviour) error {
	ctx, cancel := context.WithCancel(context.Background())
	defer cancel()
	client := &rpc{arrived: make(chan struct{}), answer: make(chan int64)}
	fo := &fanout{toEpoch: make(chan types.EventNewBlock), subbed: make(chan struct{}), w: w}
	var sub interface {
		types.GenericSubscriber[types.EpochEvent]
		take() []uint64
	} = &recSub{}
	var tee *teeSub
	var consumer <-chan types.EpochEvent
	consumed := 0
	if b.Slow {
		tee = &teeSub{real: aggsender.NewGenericSubscriberImpl[types.EpochEvent](), w: w}
		sub = tee
		consumer = tee.Subscribe("verif-consumer")
	}
	// consume takes one epoch event from the subscriber's channel (-1: none came)
	consume := func(wait time.Duration) bool {
		select {
		case e := <-consumer:
			consumed++
			w.Emit(tr.M{"ev": "consume", "e": e.Epoch})
			return true
		case <-time.After(wait):
			return false
		}
	}
	// deliver hands one block event to the epoch notifier and waits until it has been handled (barrier: the loop is
	// sequential and the channel unbuffered, so the second send completes after step + Publish of the first returned;
	// the notifier ignores the repetition as "no new block").
	var dmu sync.Mutex
	deliver := func(ev types.EventNewBlock) {
		dmu.Lock()
		defer dmu.Unlock()
		fo.toEpoch <- ev
		fo.toEpoch <- ev
		w.Emit(tr.M{"ev": "block", "b": ev.BlockNumber, "pub": sub.take()})
	}
	if b.Real {
		fo.inner = aggsender.NewGenericSubscriberImpl[types.EventNewBlock]()
		fo.onRelay = deliver
	}
	bn, err := aggsender.NewBlockNotifierPolling(client, aggsender.ConfigBlockNotifierPolling{
		BlockFinalityType: aggkittypes.LatestBlock, CheckNewBlockInterval: time.Millisecond}, logger, fo)
	if err != nil {
		return fmt.Errorf("poller constructor: %w", err)
	}
	en, err := aggsender.NewEpochNotifierPerBlock(bn, logger, aggsender.ConfigEpochNotifierPerBlock{
		StartingEpochBlock: b.S, NumBlockPerEpoch: b.N, EpochNotificationPercentage: b.P}, sub)
	if err != nil {
		return fmt.Errorf("notifier constructor: %w", err)
	}
	w.Emit(tr.M{"ev": "cfg", "n": b.N, "s": b.S, "p": b.P, "real": b.Real})
	enDone, bnDone := make(chan struct{}), make(chan struct{})
	go func() { en.Start(ctx); close(enDone) }() // subscribes to the poller's fan-out, then loops
	select {
	case <-fo.subbed: // (an event published before the subscription would be lost, in the node as here)
	case <-time.After(patience):
		return errors.New("the epoch notifier did not subscribe")
	}
	go func() { bn.Start(ctx); close(bnDone) }()
	waitArrival := func() error {
		select {
		case <-client.arrived:
			return nil
		case <-time.After(patience):
			return errors.New("the poller did not ask the RPC again")
		}
	}
	if err := waitArrival(); err != nil {
		return err
	}
	for _, s := range b.Steps {
		switch s.A {
		case "poll":
			client.answer <- s.R
			if err := waitArrival(); err != nil { // the next call: this poll is complete
				return err
			}
			w.Emit(tr.M{"ev": "poll", "r": s.R, "emitted": fo.takeEmitted(), "cur": bn.GetCurrentBlockNumber()})
		case "deliver":
			if b.Real {
				continue
			}
			fo.mu.Lock()
			if s.I < 1 || s.I > len(fo.parked) {
				fo.mu.Unlock()
				return fmt.Errorf("deliver %d with %d parked events (model and code disagree on what was published)", s.I, len(fo.parked))
			}
			ev := fo.parked[s.I-1]
			fo.parked = append(fo.parked[:s.I-1:s.I-1], fo.parked[s.I:]...)
			fo.mu.Unlock()
			deliver(ev)
		case "consume":
			if b.Slow && !consume(2*time.Second) {
				w.Emit(tr.M{"ev": "consume", "e": -1}) // the model parked an event here; the subscriber got none
			}
		}
	}
	if b.Real { // wait until every pending send of the real fan-out has completed
		deadline := time.Now().Add(patience)
		for {
			fo.mu.Lock()
			ok := fo.relayed == fo.published
			fo.mu.Unlock()
			if ok {
				break
			}
			if time.Now().After(deadline) {
				return errors.New("published block events were never delivered")
			}
			time.Sleep(200 * time.Microsecond)
		}
	}
	if b.Slow { // the subscriber finally takes everything that was published to it
		for {
			tee.mu.Lock()
			n := tee.n
			tee.mu.Unlock()
			if consumed >= n || !consume(2*time.Second) {
				break
			}
		}
		consume(5 * time.Millisecond) // anything beyond what was published?
		w.Emit(tr.M{"ev": "subend", "consumed": consumed})
	}
	cancel()
	<-bnDone
	<-enDone
	return nil
}
