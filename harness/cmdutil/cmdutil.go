// Package cmdutil holds what every driver command shares: quiet logging and the exit protocol
// (exit 3 = driver problem, which the checks report as infrastructure, never as a violation).
package cmdutil

import (
	"fmt"
	"os"
	"syscall"

	"github.com/agglayer/aggkit/log"
)

// Main runs one area driver: drv_<area> -in <behaviours.json> -out <trace.ndjson> [flags]
func Main(name string, fn func(args []string) error) {
	// every store the drivers open leaks one handle inside the repository's migration runner: lift the soft limit
	var rl syscall.Rlimit
	if syscall.Getrlimit(syscall.RLIMIT_NOFILE, &rl) == nil && rl.Cur < rl.Max {
		rl.Cur = rl.Max
		_ = syscall.Setrlimit(syscall.RLIMIT_NOFILE, &rl)
	}
	// the node's own logging is noise here; VERIF_LOG=debug turns it on (stderr)
	lvl := os.Getenv("VERIF_LOG")
	outs := []string{"stderr"}
	if lvl == "" {
		lvl, outs = "fatal", []string{"/dev/null"}
	}
	log.Init(log.Config{Environment: log.EnvironmentDevelopment, Level: lvl, Outputs: outs})
	if err := fn(os.Args[1:]); err != nil {
		fmt.Fprintf(os.Stderr, "drv %s: %v\n", name, err)
		os.Exit(3)
	}
}
