package iofault

import (
	"database/sql"
	"path/filepath"
	"testing"
)

func TestReadFaultAtStepTime(t *testing.T) {
	p := filepath.Join(t.TempDir(), "x.sqlite")
	db, err := sql.Open("sqlite3", "file:"+p+"?_journal_mode=WAL")
	if err != nil {
		t.Fatal(err)
	}
	defer db.Close()
	if _, err := db.Exec(`CREATE TABLE t(a INTEGER PRIMARY KEY, b TEXT)`); err != nil {
		t.Fatal(err)
	}
	tx, _ := db.Begin()
	for i := 0; i < 5000; i++ {
		if _, err := tx.Exec(`INSERT INTO t VALUES(?, ?)`, i, "0123456789012345678901234567890123456789012345678901234567890123456789"); err != nil {
			t.Fatal(err)
		}
	}
	if err := tx.Commit(); err != nil {
		t.Fatal(err)
	}
	db.Close()
	db, _ = sql.Open("sqlite3", "file:"+p+"?_journal_mode=WAL")
	// count
	if err := Arm(p, Read, 0); err != nil {
		t.Fatal(err)
	}
	rows, err := db.Query(`SELECT a, b FROM t`)
	if err != nil {
		t.Fatal(err)
	}
	n := 0
	for rows.Next() {
		n++
	}
	if rows.Err() != nil {
		t.Fatal(rows.Err())
	}
	rows.Close()
	_, seen := Disarm()
	t.Logf("rows=%d reads=%d", n, seen)
	if seen < 3 {
		t.Fatalf("too few reads seen: %d", seen)
	}
	db.Close()
	db, _ = sql.Open("sqlite3", "file:"+p+"?_journal_mode=WAL")
	defer db.Close()
	Arm(p, Read, seen-2)
	rows, err = db.Query(`SELECT a, b FROM t`)
	if err != nil {
		t.Fatalf("the fault was meant to strike after the statement had started: %v", err)
	}
	m := 0
	for rows.Next() {
		m++
	}
	fired, s2 := Disarm()
	t.Logf("rows before the fault=%d fired=%v seen=%d err=%v", m, fired, s2, rows.Err())
	if !fired || rows.Err() == nil || m == 0 || m >= n {
		t.Fatalf("expected a step-time error after some rows")
	}
	rows.Close()
	// the connection works again
	var c int
	if err := db.QueryRow(`SELECT COUNT(*) FROM t`).Scan(&c); err != nil || c != 5000 {
		t.Fatalf("after the fault: %v %d", err, c)
	}
	// write fault at commit
	Arm(p, Write, 1)
	tx, _ = db.Begin()
	_, e1 := tx.Exec(`INSERT INTO t VALUES(100000, 'x')`)
	e2 := tx.Commit()
	fired, s3 := Disarm()
	t.Logf("write fault: exec=%v commit=%v fired=%v seen=%d", e1, e2, fired, s3)
	if !fired || (e1 == nil && e2 == nil) {
		t.Fatalf("expected a failing write")
	}
	tx.Rollback()
	if err := db.QueryRow(`SELECT COUNT(*) FROM t`).Scan(&c); err != nil || c != 5000 {
		t.Fatalf("after the write fault: %v %d", err, c)
	}
}
