// Package iofault makes the operating system fail one read or write of a database file while a statement of the code under
// test is *running* - SQLITE_IOERR out of sqlite3_step, i.e. out of rows.Next(), a QueryRow().Scan() or a COMMIT.
//
// harness/sqlfault (the authorizer) fails a statement while it is compiled: the caller sees the error from Query/Exec.
// This package covers the other half: the statement starts, some rows may already have been handed out, and then the
// disk fails. The mechanism is SQLite's own test hook: the unix VFS calls pread(2)/pwrite(2) through a table of function
// pointers that sqlite3_vfs.xSetSystemCall replaces. Nothing of the code under test or of the driver is changed; the
// stores open their files exactly as in production.
//
// A fault position is "the n-th read (write) system call on the file <path> or its -wal file since Arm". Pages that the
// connection still holds in its cache are not read again, so an operation may make fewer calls than the position asks for;
// Disarm reports whether the fault fired and how many calls were seen (Count-only arms measure an operation first).
package iofault

/*
#cgo LDFLAGS: -Wl,--unresolved-symbols=ignore-in-object-files
#include <stddef.h>
#include <stdlib.h>
#include <string.h>
#include <unistd.h>
#include <errno.h>
#include <stdio.h>
#include <sys/types.h>

typedef struct sqlite3_vfs sqlite3_vfs;
typedef struct sqlite3_file sqlite3_file;
typedef long long sqlite3_int64;
typedef void (*sqlite3_syscall_ptr)(void);
struct sqlite3_vfs {
  int iVersion;
  int szOsFile;
  int mxPathname;
  sqlite3_vfs *pNext;
  const char *zName;
  void *pAppData;
  int (*xOpen)(sqlite3_vfs*, const char *zName, sqlite3_file*, int flags, int *pOutFlags);
  int (*xDelete)(sqlite3_vfs*, const char *zName, int syncDir);
  int (*xAccess)(sqlite3_vfs*, const char *zName, int flags, int *pResOut);
  int (*xFullPathname)(sqlite3_vfs*, const char *zName, int nOut, char *zOut);
  void *(*xDlOpen)(sqlite3_vfs*, const char *zFilename);
  void (*xDlError)(sqlite3_vfs*, int nByte, char *zErrMsg);
  void (*(*xDlSym)(sqlite3_vfs*,void*, const char *zSymbol))(void);
  void (*xDlClose)(sqlite3_vfs*, void*);
  int (*xRandomness)(sqlite3_vfs*, int nByte, char *zOut);
  int (*xSleep)(sqlite3_vfs*, int microseconds);
  int (*xCurrentTime)(sqlite3_vfs*, double*);
  int (*xGetLastError)(sqlite3_vfs*, int, char *);
  int (*xCurrentTimeInt64)(sqlite3_vfs*, sqlite3_int64*);
  int (*xSetSystemCall)(sqlite3_vfs*, const char *zName, sqlite3_syscall_ptr);
  sqlite3_syscall_ptr (*xGetSystemCall)(sqlite3_vfs*, const char *zName);
  const char *(*xNextSystemCall)(sqlite3_vfs*, const char *zName);
};
extern sqlite3_vfs *sqlite3_vfs_find(const char *zVfsName);

static volatile int  io_kind;      // 0 = off, 1 = reads, 2 = writes
static volatile long io_at;        // fail the io_at-th matching call (0 = only count)
static volatile long io_seen;
static volatile int  io_fired;
static char io_target[1024];

static int io_match(int fd) {
  char p[64], buf[1100];
  snprintf(p, sizeof p, "/proc/self/fd/%d", fd);
  ssize_t n = readlink(p, buf, sizeof buf - 1);
  if (n <= 0) return 0;
  buf[n] = 0;
  return strncmp(buf, io_target, strlen(io_target)) == 0;
}

static int io_strike(int kind, int fd) {
  if (io_kind == kind && io_match(fd)) {
    long k = __sync_add_and_fetch(&io_seen, 1);
    if (io_at > 0 && k == io_at) { io_fired = 1; errno = EIO; return 1; }
  }
  return 0;
}

// this build of SQLite reads and writes with pread/pwrite (linux); the plain calls are replaced as well
static ssize_t io_read(int fd, void *b, size_t n) { return io_strike(1, fd) ? -1 : read(fd, b, n); }
static ssize_t io_write(int fd, const void *b, size_t n) { return io_strike(2, fd) ? -1 : write(fd, b, n); }
static ssize_t io_pread(int fd, void *b, size_t n, off_t o) { return io_strike(1, fd) ? -1 : pread(fd, b, n, o); }
static ssize_t io_pwrite(int fd, const void *b, size_t n, off_t o) { return io_strike(2, fd) ? -1 : pwrite(fd, b, n, o); }

static int io_install(void) {
  sqlite3_vfs *v = sqlite3_vfs_find(0);
  if (v == 0 || v->iVersion < 3 || v->xSetSystemCall == 0) return 1;
  if (v->xSetSystemCall(v, "read", (sqlite3_syscall_ptr)io_read) != 0) return 2;
  if (v->xSetSystemCall(v, "write", (sqlite3_syscall_ptr)io_write) != 0) return 3;
  if (v->xSetSystemCall(v, "pread", (sqlite3_syscall_ptr)io_pread) != 0) return 4;
  if (v->xSetSystemCall(v, "pwrite", (sqlite3_syscall_ptr)io_pwrite) != 0) return 5;
  return 0;
}

static void io_arm(int kind, long at, const char *path) {
  io_kind = 0;
  __sync_synchronize();
  strncpy(io_target, path, sizeof io_target - 1);
  io_target[sizeof io_target - 1] = 0;
  io_seen = 0; io_fired = 0; io_at = at;
  __sync_synchronize();
  io_kind = kind;
}

static void io_disarm(void) { io_kind = 0; __sync_synchronize(); }
static long io_get_seen(void) { return io_seen; }
static int  io_get_fired(void) { return io_fired; }
*/
import "C"

import (
	"fmt"
	"path/filepath"
	"sync"
	"unsafe"

	_ "github.com/mattn/go-sqlite3"
)

var (
	once    sync.Once
	instErr error
	mu      sync.Mutex
)

func install() error {
	once.Do(func() {
		if rc := C.io_install(); rc != 0 {
			instErr = fmt.Errorf("iofault: cannot replace SQLite's system calls (rc=%d)", int(rc))
		}
	})
	return instErr
}

// Kind of system call that fails.
const (
	Read  = 1
	Write = 2
)

// Arm makes the at-th read (write) system call on the database file path (or its -wal file) fail with EIO; at = 0 only
// counts. One arm at a time per process (the drivers run their behaviours one after the other).
func Arm(path string, kind int, at int) error {
	if err := install(); err != nil {
		return err
	}
	p, err := filepath.EvalSymlinks(path)
	if err != nil {
		p = path
	}
	mu.Lock()
	defer mu.Unlock()
	cs := C.CString(p)
	defer C.free(unsafe.Pointer(cs))
	C.io_arm(C.int(kind), C.long(at), cs)
	return nil
}

// Disarm switches the fault off; it reports whether it fired and how many matching calls were seen since Arm.
func Disarm() (fired bool, seen int) {
	mu.Lock()
	defer mu.Unlock()
	C.io_disarm()
	return C.io_get_fired() != 0, int(C.io_get_seen())
}
