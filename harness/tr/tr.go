// Package tr writes ndjson traces (one event per linearization point) and reads behaviour files.
package tr

import (
	"bufio"
	"encoding/json"
	"fmt"
	"os"
	"strconv"
	"sync"
)

// W is an ndjson writer; Emit is safe for concurrent use and stamps a global sequence number when asked.
type W struct {
	mu  sync.Mutex
	f   *os.File
	bw  *bufio.Writer
	seq int
	N   int
}

func NewW(path string) (*W, error) {
	f, err := os.Create(path)
	if err != nil {
		return nil, err
	}
	return &W{f: f, bw: bufio.NewWriterSize(f, 1<<20)}, nil
}

// Emit writes one event (a map or struct) as one line.
func (w *W) Emit(ev any) {
	b, err := json.Marshal(ev)
	if err != nil {
		panic(fmt.Sprintf("trace marshal: %v", err))
	}
	w.mu.Lock()
	defer w.mu.Unlock()
	w.bw.Write(b)
	w.bw.WriteByte('\n')
	w.N++
}

func (w *W) Close() error {
	w.mu.Lock()
	defer w.mu.Unlock()
	if err := w.bw.Flush(); err != nil {
		return err
	}
	return w.f.Close()
}

// ReadJSON reads a whole JSON file into v.
func ReadJSON(path string, v any) error {
	b, err := os.ReadFile(path)
	if err != nil {
		return err
	}
	return json.Unmarshal(b, v)
}

// Seed returns VERIF_SEED (default 1).
func Seed() int64 {
	s, err := strconv.ParseInt(os.Getenv("VERIF_SEED"), 10, 64)
	if err != nil {
		return 1
	}
	return s
}

// M is shorthand for an event.
type M = map[string]any
