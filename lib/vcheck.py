"""Common machinery for the /verif checks (see DESIGN.md section 3).

A check script (checks/Cxx.py) does, in this order:
  1. model-check the implementation-shaped TLA+ spec with TLC (exhaustive, small constants)   -> states/transitions
  2. export behaviours from TLC (edge-cover dump / -simulate) or enumerate cases from the spec
  3. build the Go driver from /repo's *current working tree* with -tags verif and replay the behaviours into the
     real code, recording one ndjson event per linearization point
  4. let TLC validate the recorded traces against the property-level monitor spec
  5. write /verif/evidence/<id>.json and exit 0 / 1 (VIOLATION line) / 2 (infrastructure)

Verdicts (exit 1) come only from step 4, i.e. from real-code traces judged by TLC.
"""
import json, os, re, shutil, subprocess, sys, tempfile, time, hashlib

VERIF = os.path.dirname(os.path.dirname(os.path.abspath(__file__)))
REPO = os.environ.get("VERIF_REPO", "/repo")
SPECS = os.path.join(VERIF, "specs")
HARNESS = os.path.join(VERIF, "harness")
BUILD = os.path.join(VERIF, ".build")
EVID = os.path.join(VERIF, "evidence")
REPLAYS = os.path.join(VERIF, ".replays")
KNOWN = os.path.join(VERIF, "known_findings.json")

GOENV = dict(os.environ, GOFLAGS="-mod=mod", GOPROXY="off")
for k in ("GOTOOLCHAIN", "GOSUMDB"):
    GOENV.pop(k, None)


class Infra(Exception):
    """infrastructure problem: exit 2, never a violation"""


class NodePanic(Exception):
    """the driver process died of a Go panic raised inside the code under test (first frame below the panic lies in the
    repository, not in the harness): the node would have crashed. Checks that judge a node that gives up may turn this into
    a violation; everybody else lets it become an Infra."""
    def __init__(self, msg, where):
        Exception.__init__(self, msg)
        self.where = where


def _panic_origin(stderr):
    """(message, first source frame) of a Go panic trace, or None"""
    m = re.search(r"^panic: (.*)$", stderr, re.M)
    if not m:
        return None
    tail = stderr[m.end():]
    g = re.search(r"^goroutine \d+ \[running\]:\n(.*?)(?:\n\n|\Z)", tail, re.M | re.S)
    if not g:
        return None
    frames = re.findall(r"^\t(/\S+\.go):(\d+)", g.group(1), re.M)
    for path, line in frames:
        # the standard library and third-party modules are not where a panic comes from: the first frame of the repository
        # under test or of the harness decides
        if "/src/runtime/" in path or "/go/pkg/mod/" in path or "/usr/local/go/" in path or "/opt/veriftools/go" in path:
            continue
        return m.group(1).strip(), "%s:%s" % (path, line)
    return None


def seed():
    try:
        return int(os.environ.get("VERIF_SEED", "1"))
    except ValueError:
        return 1


def tier(argv=None):
    argv = sys.argv if argv is None else argv
    t = os.environ.get("VERIF_TIER", "quick")
    for i, a in enumerate(argv):
        if a == "--tier" and i + 1 < len(argv):
            t = argv[i + 1]
        if a.startswith("--tier="):
            t = a.split("=", 1)[1]
    return "thorough" if t == "thorough" else "quick"


def arg(name, default=None):
    for i, a in enumerate(sys.argv):
        if a == name and i + 1 < len(sys.argv):
            return sys.argv[i + 1]
        if a.startswith(name + "="):
            return a.split("=", 1)[1]
    return default


def log(*a):
    print(*a, flush=True)


# ------------------------------------------------------------------------------------------------ scratch

class Scratch:
    """per-run scratch dir outside /repo and /verif; removed on exit"""

    def __init__(self, tag):
        self.dir = tempfile.mkdtemp(prefix="verif-%s-" % tag)

    def path(self, *p):
        return os.path.join(self.dir, *p)

    def close(self):
        if os.environ.get("VERIF_KEEP_SCRATCH"):      # debugging only
            log("[scratch] kept: %s" % self.dir)
            return
        shutil.rmtree(self.dir, ignore_errors=True)


# ------------------------------------------------------------------------------------------------ go driver

def build_driver(area):
    """(re)build the Go driver of one area (harness/cmd/<area>) against the repository's current working tree
    (/repo, or $VERIF_REPO for mutant testing in a scratch copy), hooks enabled (-tags verif). Returns the binary path.
    With VERIF_REPO set, the harness is built in a private copy so that concurrent runs against different trees
    do not disturb each other."""
    pkg, out = "./cmd/" + area, "drv_" + area
    hdir, bdir = HARNESS, BUILD
    if os.path.realpath(REPO) != "/repo":
        # one private copy per check process (several checks may run against the same scratch tree at once)
        tag = hashlib.sha1(os.path.realpath(REPO).encode()).hexdigest()[:8]
        hdir = os.path.join(tempfile.gettempdir(), "verif-harness-%s-%d" % (tag, os.getpid()))
        bdir = os.path.join(hdir, ".build")
        if not os.path.isdir(hdir):
            shutil.copytree(HARNESS, hdir, ignore=shutil.ignore_patterns("go.mod", "go.sum"))
            import atexit
            atexit.register(shutil.rmtree, hdir, True)
    os.makedirs(bdir, exist_ok=True)
    gosum = os.path.join(hdir, "go.sum")
    try:
        shutil.copyfile(os.path.join(REPO, "go.sum"), gosum)
    except OSError as e:
        raise Infra("cannot copy go.sum: %s" % e)
    gomod = os.path.join(hdir, "go.mod")
    txt = open(os.path.join(hdir, "go.mod.in")).read().replace("@REPO@", REPO)
    if not os.path.exists(gomod) or open(gomod).read().split("// ---")[0] != txt.split("// ---")[0]:
        open(gomod, "w").write(txt)
    outp = os.path.join(bdir, out)
    t0 = time.time()
    r = subprocess.run(["go", "build", "-tags", "verif", "-o", outp, pkg], cwd=hdir, env=GOENV,
                       stdout=subprocess.PIPE, stderr=subprocess.STDOUT, text=True)
    if r.returncode != 0:
        raise Infra("driver build failed:\n" + r.stdout[-4000:])
    log("[build] driver %s built from %s in %.1fs" % (pkg, REPO, time.time() - t0))
    return outp


def run_driver(binp, args, timeout=1800, env=None, stdin=None):
    e = dict(GOENV)
    e["VERIF_SEED"] = str(seed())
    if env:
        e.update(env)
    try:
        r = subprocess.run([binp] + list(args), env=e, stdout=subprocess.PIPE, stderr=subprocess.PIPE, text=True,
                           timeout=timeout, input=stdin)
    except subprocess.TimeoutExpired:
        raise Infra("driver timeout: %s" % " ".join(args))
    if r.returncode != 0:
        po = _panic_origin(r.stderr) if r.returncode == 2 else None
        if po and os.path.realpath(po[1].rsplit(":", 1)[0]).startswith(os.path.realpath(REPO) + os.sep):
            raise NodePanic("the code under test panicked: %s at %s" % po, po[1])
        raise Infra("driver failed (rc=%d): %s\n%s\n%s" % (r.returncode, " ".join(args), r.stdout[-3000:], r.stderr[-3000:]))
    return r.stdout


# ------------------------------------------------------------------------------------------------ TLC

TLC_JAR = "/opt/veriftools/tla/tla2tools.jar:/opt/veriftools/tla/CommunityModules-deps.jar"


def _tlc_cmd(spec, cfg, extra, workers, heap=None, deque=False):
    java = ["java", "-XX:+UseParallelGC"]
    # an explicit ceiling: the JVM default is a quarter of the machine per process, and several TLC runs side by side
    # (inside one check, or several checks at once) were killed by the kernel for it (rc=-9)
    java.append("-Xmx" + (heap or os.environ.get("VERIF_TLC_HEAP", "6g")))
    java.append("-Xss64m")
    if deque:
        java.append("-Dtlc2.tool.queue.IStateQueue=StateDeque")
    return java + ["-cp", TLC_JAR, "tlc2.TLC", "-noGenerateSpecTE", "-workers", str(workers), "-config", cfg] + extra + [spec]


def run_tlc(spec, cfg, scratch, workers="auto", extra=(), env=None, timeout=1200, heap=None, cwd=None, deque=False):
    """run TLC in `cwd` (default SPECS) with metadir in scratch; returns (rc, output)"""
    meta = tempfile.mkdtemp(prefix="meta-", dir=scratch.dir)
    cmd = _tlc_cmd(spec, cfg, ["-metadir", meta] + list(extra), workers, heap, deque)
    e = dict(os.environ)
    if env:
        e.update(env)
    t0 = time.time()
    try:
        r = subprocess.run(cmd, cwd=cwd or SPECS, env=e, stdout=subprocess.PIPE, stderr=subprocess.STDOUT, text=True,
                           timeout=timeout)
    except subprocess.TimeoutExpired:
        raise Infra("TLC timeout (%ds) on %s/%s" % (timeout, spec, cfg))
    finally:
        shutil.rmtree(meta, ignore_errors=True)
    return r.returncode, r.stdout, time.time() - t0


def parse_tlc_stats(out):
    m = re.search(r"(\d+) states generated, (\d+) distinct states found", out)
    gen, dist = (int(m.group(1)), int(m.group(2))) if m else (0, 0)
    # with several "states generated" lines take the last one
    for m in re.finditer(r"(\d+) states generated, (\d+) distinct states found", out):
        gen, dist = int(m.group(1)), int(m.group(2))
    d = re.search(r"The depth of the complete state graph search is (\d+)", out)
    return dict(generated=gen, distinct=dist, depth=int(d.group(1)) if d else 0)


def model_check(spec, cfg, scratch, workers="auto", timeout=1200, extra=(), env=None, heap=None):
    """exhaustive TLC run of an implementation-shaped spec. Returns stats dict; raises Infra if TLC reports anything
    but success (the spec does not change with the code under test, so a failure here is a machinery problem)."""
    rc, out, wall = run_tlc(spec, cfg, scratch, workers=workers, extra=extra, timeout=timeout, env=env, heap=heap)
    st = parse_tlc_stats(out)
    st["wall_s"] = round(wall, 1)
    st["spec"], st["cfg"] = spec, cfg
    if rc != 0 or "Model checking completed. No error has been found." not in out:
        raise Infra("model checking of %s/%s did not succeed (rc=%d):\n%s" % (spec, cfg, rc, out[-6000:]))
    log("[tlc] %s/%s: %d distinct states, %d generated, depth %d, %.1fs" % (spec, cfg, st["distinct"], st["generated"], st["depth"], wall))
    st["out"] = out
    return st


def apalache_inductive(spec, scratch, init="Init", indinit="IndInit", inv="IndInv", cinit="ConstInit", timeout=900):
    """discharge an inductive invariant with Apalache: Init => inv (length 0) and indinit /\\ Next => inv' (length 1).
    Runs on a private copy of the spec (Apalache writes next to it). Raises Infra unless both obligations are proved."""
    d = tempfile.mkdtemp(prefix="apalache-", dir=scratch.dir)
    shutil.copy(os.path.join(SPECS, spec), d)
    out = {}
    try:
        for name, i, n in (("base", init, 0), ("step", indinit, 1)):
            cmd = ["apalache-mc", "check", "--out-dir=" + os.path.join(d, "out"), "--init=" + i, "--inv=" + inv, "--length=%d" % n]
            if cinit:
                cmd.append("--cinit=" + cinit)
            cmd.append(spec)
            t0 = time.time()
            try:
                r = subprocess.run(cmd, cwd=d, stdout=subprocess.PIPE, stderr=subprocess.STDOUT, text=True, timeout=timeout)
            except subprocess.TimeoutExpired:
                raise Infra("apalache timeout (%ds) on %s (%s)" % (timeout, spec, name))
            wall = time.time() - t0
            if r.returncode != 0 or "EXITCODE: OK" not in r.stdout or "The outcome is: NoError" not in r.stdout:
                raise Infra("apalache did not prove the %s obligation of %s in %s (rc=%d):\n%s" % (name, inv, spec, r.returncode, r.stdout[-3000:]))
            log("[apalache] %s: %s obligation of %s proved in %.1fs" % (spec, name, inv, wall))
            out[name] = dict(init=i, length=n, wall_s=round(wall, 1))
    finally:
        shutil.rmtree(d, ignore_errors=True)
    return dict(spec=spec, invariant=inv, tool="apalache-mc", obligations=out)


def apalache_state(spec, scratch, inv, expect_holds=True, init="Init", cinit="ConstInit", length=0, extra_files=(), timeout=600):
    """one Apalache obligation over a symbolic initial state: `inv` holds in every state satisfying `init` (length 0), or - with
    expect_holds=False - Apalache must produce a counterexample (a refuted variant kept for non-vacuity)."""
    d = tempfile.mkdtemp(prefix="apalache-", dir=scratch.dir)
    try:
        for f in (spec,) + tuple(extra_files):
            shutil.copy(os.path.join(SPECS, f), d)
        cmd = ["apalache-mc", "check", "--out-dir=" + os.path.join(d, "out"), "--init=" + init, "--inv=" + inv, "--length=%d" % length]
        if cinit:
            cmd.append("--cinit=" + cinit)
        cmd.append(spec)
        t0 = time.time()
        try:
            r = subprocess.run(cmd, cwd=d, stdout=subprocess.PIPE, stderr=subprocess.STDOUT, text=True, timeout=timeout)
        except subprocess.TimeoutExpired:
            raise Infra("apalache timeout (%ds) on %s (%s)" % (timeout, spec, inv))
        wall = time.time() - t0
        held = r.returncode == 0 and "EXITCODE: OK" in r.stdout and "The outcome is: NoError" in r.stdout
        refuted = "state invariant 0 violated" in r.stdout and "The outcome is: Error" in r.stdout
        if expect_holds and not held:
            raise Infra("apalache did not prove %s of %s (rc=%d):\n%s" % (inv, spec, r.returncode, r.stdout[-3000:]))
        if not expect_holds and not refuted:
            raise Infra("apalache was expected to refute %s of %s, it did not (rc=%d):\n%s" % (inv, spec, r.returncode, r.stdout[-3000:]))
        log("[apalache] %s: %s %s in %.1fs" % (spec, inv, "proved" if expect_holds else "refuted as expected", wall))
        return dict(spec=spec, invariant=inv, tool="apalache-mc", outcome="proved" if expect_holds else "refuted (expected)", wall_s=round(wall, 1))
    finally:
        shutil.rmtree(d, ignore_errors=True)


def model_counterexample(spec, cfg, inv, scratch, workers="auto", timeout=1200, heap=None):
    """run a configuration that models a (repaired or recorded) defect faithfully and REQUIRE that TLC finds the
    violation of `inv` - evidence that the specification is sharp enough to exhibit the defect."""
    rc, out, wall = run_tlc(spec, cfg, scratch, workers=workers, timeout=timeout, heap=heap)
    if ("Invariant %s is violated" % inv) not in out:
        raise Infra("expected TLC to find a violation of %s in %s/%s, it did not:\n%s" % (inv, spec, cfg, out[-3000:]))
    st = parse_tlc_stats(out)
    log("[tlc] %s/%s: counterexample to %s found as expected (%d states generated, %.1fs)" % (spec, cfg, inv, st["generated"], wall))
    return dict(spec=spec, cfg=cfg, invariant=inv, states_generated=st["generated"], wall_s=round(wall, 1))


def tlc_print_lines(out, tag):
    """extract values printed by PrintT(<<"TAG", ToJson(x)>>) -> list of python objects"""
    res = []
    pat = re.compile(r'^<<"' + re.escape(tag) + r'", "(.*)">>$')
    for line in out.splitlines():
        m = pat.match(line.strip())
        if m:
            s = m.group(1).replace('\\"', '"').replace("\\\\", "\\")
            try:
                res.append(json.loads(s))
            except json.JSONDecodeError as e:
                raise Infra("cannot parse TLC print line: %s (%s)" % (line[:300], e))
    return res


def export_cases(spec, cfg, scratch, tag="CASE", workers="auto", timeout=1200, extra=(), env=None, heap=None):
    """run TLC on a generator config that prints cases/behaviours with PrintT(<<tag, ToJson(..)>>)."""
    rc, out, wall = run_tlc(spec, cfg, scratch, workers=workers, extra=extra, timeout=timeout, env=env, heap=heap)
    if rc != 0 and "Model checking completed. No error has been found." not in out and "Finished computing initial states" not in out:
        raise Infra("case export %s/%s failed (rc=%d):\n%s" % (spec, cfg, rc, out[-4000:]))
    if rc != 0:
        raise Infra("case export %s/%s failed (rc=%d):\n%s" % (spec, cfg, rc, out[-4000:]))
    cases = tlc_print_lines(out, tag)
    st = parse_tlc_stats(out)
    st["wall_s"] = round(wall, 1)
    log("[tlc] %s/%s exported %d %s lines (%d distinct states) in %.1fs" % (spec, cfg, len(cases), tag, st["distinct"], wall))
    return cases, st


def drop_prefixes(paths):
    """drop behaviours that are proper prefixes of another behaviour (replay checks after every step anyway)"""
    keyed = sorted(set(json.dumps(p, sort_keys=True) for p in paths))
    ps = [json.loads(k) for k in keyed]
    ps.sort(key=lambda p: json.dumps(p, sort_keys=True))
    out = []
    strs = [json.dumps(p, sort_keys=True)[:-1] for p in ps]  # drop closing bracket -> prefix test on text
    sset = sorted(strs)
    import bisect
    for p, s in zip(ps, strs):
        i = bisect.bisect_right(sset, s)
        if i < len(sset) and sset[i].startswith(s + ","):
            continue
        out.append(p)
    return out


def validate_traces(monitor, cfg, trace_file, scratch, timeout=1800, env=None, heap="8g"):
    """TLC trace validation. The monitor consumes every line of trace_file; property predicates that fail are
    accumulated by the monitor and printed as <<"VIOL", json>>; full consumption is the POSTCONDITION.
    Returns dict(consumed_ok, violations=[...], out)."""
    e = {"TRACE_FILE": trace_file}
    if env:
        e.update(env)
    rc, out, wall = run_tlc(monitor, cfg, scratch, workers=1, timeout=timeout, env=e, heap=heap)
    viol = []
    for v in tlc_print_lines(out, "VIOL"):
        viol.extend(v if isinstance(v, list) else [v])
    done = tlc_print_lines(out, "DONE")
    ok = rc == 0 and "No error has been found" in out
    info = dict(consumed_ok=ok, violations=viol, wall_s=round(wall, 1), done=done, rc=rc)
    if not ok:
        info["tail"] = out[-5000:]
    info["stats"] = parse_tlc_stats(out)
    log("[tlc] validated %s against %s/%s: ok=%s violations=%d %.1fs" % (os.path.basename(trace_file), monitor, cfg, ok, len(viol), wall))
    return info


def validate_traces_chunked(monitor, cfg, trace_file, scratch, is_start, per_chunk=1500, parallel=4, timeout=1800, heap="6g", line_key="l"):
    """validate_traces on a long concatenation of traces, in pieces of per_chunk traces (is_start(line) says where a trace
    begins) - TLC holds the whole file in memory. Violations are merged (their line numbers made absolute)."""
    import concurrent.futures as cf
    pieces, cur, ntr, first_line, lineno = [], None, 0, 1, 0
    with open(trace_file) as f:
        for line in f:
            lineno += 1
            if is_start(line):
                if cur is None or ntr >= per_chunk:
                    if cur is not None:
                        cur.close()
                    path = scratch.path("%s.part%d" % (os.path.basename(trace_file), len(pieces)))
                    cur, ntr = open(path, "w"), 0
                    pieces.append((path, lineno - 1))
                ntr += 1
            if cur is None:
                path = scratch.path("%s.part0" % os.path.basename(trace_file))
                cur = open(path, "w")
                pieces.append((path, 0))
            cur.write(line)
    if cur is not None:
        cur.close()
    if len(pieces) <= 1:
        return validate_traces(monitor, cfg, trace_file, scratch, timeout=timeout, heap=heap)
    with cf.ThreadPoolExecutor(max_workers=parallel) as ex:
        infos = list(ex.map(lambda p: validate_traces(monitor, cfg, p[0], scratch, timeout=timeout, heap=heap), pieces))
    out = dict(consumed_ok=all(i["consumed_ok"] for i in infos), violations=[], wall_s=round(sum(i["wall_s"] for i in infos), 1),
               done=[d for i in infos for d in i["done"]], rc=max(i["rc"] for i in infos), pieces=len(pieces),
               stats=dict(generated=sum(i["stats"]["generated"] for i in infos), distinct=sum(i["stats"]["distinct"] for i in infos),
                          depth=max(i["stats"]["depth"] for i in infos)))
    for (path, off), i in zip(pieces, infos):
        if not i["consumed_ok"] and "tail" not in out:
            out["tail"] = i.get("tail", "")
        for v in i["violations"]:
            if isinstance(v, dict) and isinstance(v.get(line_key), int):
                v = dict(v)
                v[line_key] += off
            out["violations"].append(v)
        try:
            os.remove(path)
        except OSError:
            pass
    return out


# ------------------------------------------------------------------------------------------------ findings

def replay_behaviours():
    """--replay <path>: the behaviour(s) stored in a replay file written by add_violation, else None"""
    p = arg("--replay")
    if not p:
        return None
    try:
        r = json.load(open(p))["replay"]
    except Exception as e:
        raise Infra("cannot read replay file %s: %s" % (p, e))
    if isinstance(r, dict) and "behaviour" in r:
        return [r["behaviour"]]
    if isinstance(r, dict) and "behaviours" in r:
        return r["behaviours"]
    raise Infra("replay file %s has no behaviour" % p)


def load_known(prop):
    if not os.path.exists(KNOWN):
        return []
    try:
        k = json.load(open(KNOWN))
    except Exception as e:
        raise Infra("known_findings.json unreadable: %s" % e)
    return [f for f in k.get("findings", []) if f.get("property") == prop and f.get("status") == "known"]


# ------------------------------------------------------------------------------------------------ evidence / result

class Result:
    def __init__(self, prop, level="model_checking"):
        self.prop = prop
        self.level = level
        self.tier = tier()
        self.seed = seed()
        self.t0 = time.time()
        self.coverage = {}
        self.assumptions = []
        self.violations = []   # list of dict(what, replay)
        self.known_hits = []   # list of (finding id, what)
        self.notes = []

    def add_violation(self, what, replay_obj):
        if len(self.violations) >= 25:   # enough to act on; the count is still reported
            self.violations.append(dict(what=what, replay=self.violations[0]["replay"], extra=True))
            return
        os.makedirs(REPLAYS, exist_ok=True)
        h = hashlib.sha1(json.dumps(replay_obj, sort_keys=True, default=str).encode()).hexdigest()[:10]
        path = os.path.join(REPLAYS, "%s-%s.json" % (self.prop, h))
        with open(path, "w") as f:
            json.dump(dict(property=self.prop, what=what, seed=self.seed, tier=self.tier, replay=replay_obj), f, indent=1, default=str)
        self.violations.append(dict(what=what, replay=path))

    def add_known(self, fid, what):
        if fid not in [k[0] for k in self.known_hits]:
            self.known_hits.append((fid, what))

    def write_evidence(self):
        os.makedirs(EVID, exist_ok=True)
        ev = dict(property_id=self.prop, tier=self.tier, seed=self.seed, level=self.level, coverage=self.coverage,
                  assumptions=self.assumptions, wall_s=round(time.time() - self.t0, 1), violations=len(self.violations))
        if self.known_hits:
            ev["coverage"]["known_findings_hit"] = [dict(id=i, what=w) for i, w in self.known_hits]
        if self.notes:
            ev["coverage"]["notes"] = self.notes
        tmp = os.path.join(EVID, ".%s.json.tmp" % self.prop)
        with open(tmp, "w") as f:
            json.dump(ev, f, indent=1, default=str)
        os.replace(tmp, os.path.join(EVID, "%s.json" % self.prop))

    def finish(self):
        self.write_evidence()
        for fid, what in self.known_hits:
            log("KNOWN-FINDING: property=%s %s" % (self.prop, what))
        if self.violations:
            for v in self.violations:
                if v.get("extra"):
                    continue
                log("VIOLATION property=%s replay=%s" % (self.prop, v["replay"]))
                log("  " + v["what"][:600])
            sys.exit(1)
        log("OK property=%s tier=%s seed=%d wall=%.1fs" % (self.prop, self.tier, self.seed, time.time() - self.t0))
        sys.exit(0)


def main(fn, prop):
    """run a check body with the exit protocol"""
    try:
        fn()
    except Infra as e:
        log("INFRA property=%s: %s" % (prop, e))
        sys.exit(2)
    except NodePanic as e:     # not turned into a verdict by this check
        log("INFRA property=%s: %s" % (prop, e))
        sys.exit(2)
    except subprocess.TimeoutExpired as e:
        log("INFRA property=%s: timeout %s" % (prop, e))
        sys.exit(2)


def write_ndjson(path, events):
    with open(path, "w") as f:
        for e in events:
            f.write(json.dumps(e, sort_keys=True) + "\n")


def read_ndjson(path):
    return [json.loads(l) for l in open(path) if l.strip()]
