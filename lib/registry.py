"""Single source for MANIFEST.json (bin/mkmanifest writes it)."""
BASE_OFF = "cd /repo && GOFLAGS=-mod=mod GOPROXY=off go test -mod=mod -json -vet=off -count=1 -timeout 25m ./..."

ENGINES = [
    dict(name="epoch", path="specs/Epoch.tla specs/EpochTrace.tla harness/areas/epoch checks/C18.py", serves_properties=["C18"],
         kind_free_text="TLC exhaustive on the step-function spec; edge-cover behaviours replayed into the real notifier; TLC trace validation"),
]

CHECKS = {
    "C18": dict(
        engine="epoch", category="model_checking", design_ref="DESIGN.md section 5 C18",
        text="TLC checks the step function as coded (Epoch.tla) against exactly-once-at-first-past-block for every configuration "
             "N<=5, start in {0,1,7}, P in 0..99 and every increasing block sequence within 3 epochs; TLC's edge cover plus seeded long "
             "random sequences are replayed into the real EpochNotifierPerBlock and every recorded trace is judged by TLC against the "
             "property monitor EpochTrace.tla.",
        note="trusted: TLC; integer form of the float threshold test; block == StartingEpochBlock neither required nor forbidden",
        technique="TLA+ model checking (TLC) + behaviour replay into real code + TLC trace validation"),
}

NOT_YET = "check not built yet in this round (planned with the TLA+ machinery, see DESIGN.md section 5)"
ALL = ["C%02d" % i for i in range(1, 21)]
NOT_APPLICABLE = {}
