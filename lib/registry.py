"""Single source for MANIFEST.json (bin/mkmanifest writes it)."""
BASE_OFF = "cd /repo && GOFLAGS=-mod=mod GOPROXY=off go test -mod=mod -json -vet=off -count=1 -timeout 25m ./..."

ENGINES = [
    dict(name="certcommit", path="specs/CertCommit.tla specs/CertCommitMatrix.tla specs/CertCommitTrace.tla harness/areas/certcommit checks/C10.py", serves_properties=["C10"],
         kind_free_text="TLC holds the certificate coverage matrix (field x {PPHashToSign, FEPHashToSign, Certificate.Hash, wire, stored JSON}) and the Build->Sign->Send->Store "
                        "pipeline with the codecs as coded; exhaustive over certificate shapes and exporter of shapes x single-field perturbations; every shape driven through the "
                        "real flows, real AggSender.sendCertificate, real gRPC client (loopback) and real SQLite storage; TLC trace validation of commitment/identity/field "
                        "equalities, signer recovery and perturbation effects"),
    dict(name="bridgeapi", path="specs/BridgeAPI.tla specs/BridgeAPIReorg.tla specs/BridgeAPITrace.tla specs/Merkle.tla harness/areas/bridgeapi harness/names checks/C12.py",
         serves_properties=["C12"],
         kind_free_text="joint L1/L2 history spec with both binary searches and the proof assembly as coded; TLC exhaustive (joint + per-lookup focus configs); "
                        "every TLC state is a history replayed into the real bridgeservice.New over real bridge/L1-info/injected-GER stores, requests through the "
                        "real gin routes; named answers judged by TLC; BridgeAPIReorg.tla: the stores are reorged while the service runs (a service that remembers "
                        "answers across the reorg is the refuted variant), replayed through the real Reorg of the three stores"),
    dict(name="lastger", path="specs/LastGER.tla specs/LastGERTrace.tla harness/areas/lastger fixtures/lastger_v1.sqlite checks/C16.py", serves_properties=["C16"],
         kind_free_text="TLC exhaustive on the PP downloader/driver/processor/reorg-detector spec (repaired rule passes; rule as coded and first repair "
                        "candidate kept as counterexample regressions); sampled edge cover + seeded random + regression schedules replayed into the real "
                        "lastgersync(PP) stack behind a gated fake L2 client; TLC trace validation"),
    dict(name="aggsender", path="specs/AggSender.tla specs/AggSenderTrace.tla harness/areas/aggsender checks/aggsender_common.py", serves_properties=["C02", "C03", "C09", "C13"],
         kind_free_text="implementation-shaped spec of the certificate send path (ticks, status checker, PP flow range/height/LER rules, SQL storage by "
                        "height, start-up reconciliation, crashes, DB loss) against a scripted Agglayer; TLC exhaustive; edge-cover behaviours replayed into "
                        "the real AggSender loop + PP flow + storage + real L2 bridge and L1 info stores; certificates received are named and judged by TLC"),
    dict(name="oracle", path="specs/Oracle.tla specs/OracleTrace.tla harness/areas/oracle checks/C15.py", serves_properties=["C15"],
         kind_free_text="TLC exhaustive safety + TLC liveness (weak fairness, treadmill quotient of an unbounded L1) on the processLatestGER spec; edge-cover, "
                        "treadmill and random schedules replayed into the real AggOracle on the real L1-info store; TLC trace validation (safety per received "
                        "call, bounded response per run of ticks)"),
    dict(name="certcut", path="specs/CertCut.tla specs/GapOps.tla specs/GapInd.tla specs/CertCutTrace.tla harness/areas/certcut checks/C17.py", serves_properties=["C17"],
         kind_free_text="TLC exhaustive on the code-shaped limitCertSize/Range/AdaptCertificate/Gap operators with W-bit wrap-around; every enumerated case "
                        "replayed into the real functions at both ends of uint64; TLC trace validation; BlockRange.Gap for all 64-bit ranges by Apalache (GapInd.tla "
                        "over the operator module GapOps.tla that CertCut.tla instantiates)"),
    dict(name="globalindex", path="specs/GlobalIndex.tla specs/GlobalIndexTrace.tla harness/areas/globalindex checks/C19.py", serves_properties=["C19"],
         kind_free_text="TLC exhaustive on the byte-string codec spec and exporter of all zero/non-zero byte patterns; patterns x byte values, boundary, "
                        "random and canonical values run through the real codec, real PP/FEP flows and real gRPC clients; TLC trace validation of round "
                        "trip, bit layout and agreement of all consumers"),
    dict(name="claimcall", path="specs/ClaimCall.tla specs/ClaimCallTrace.tla harness/areas/claimcall checks/C20.py", serves_properties=["C20"],
         kind_free_text="TLC exhaustive on the findCall/setClaimCalldata stack machine over all call trees; every tree replayed as a "
                        "debug_traceTransaction answer into the real claim handlers -> ProcessBlock -> GetClaims; TLC trace validation"),
    dict(name="store", path="specs/Store.tla specs/Merkle.tla specs/StoreTrace.tla specs/ContractTrace.tla harness/areas/store harness/areas/contracts harness/sqlfault harness/iofault harness/names fixtures checks/store_common.py checks/contracts_oracle.py",
         serves_properties=["C01", "C04", "C07", "C08", "C11", "C14"],
         kind_free_text="implementation-shaped spec of the SQLite processors and trees (frontier cache, rollback callbacks, never-cleaned node table); "
                        "TLC exhaustive; edge-cover behaviours replayed into the real processors with fault injection at statement level (SQL triggers), at "
                        "statement compilation (SQLite authorizer, also for another actor in the middle of an operation) and under running statements (EIO "
                        "from pread/pwrite through SQLite's system-call table), on fresh files and on files written earlier by the repository's code; named "
                        "snapshots judged by TLC; C01/C11: the real contracts in an in-process EVM as ground truth, second nodes through the real constructors"),
    dict(name="evmsync", path="specs/EVMSync.tla specs/EVMSyncTrace.tla harness/areas/evmsync checks/evmsync_common.py checks/C05.py checks/C06.py checks/regress/C06_F6.json",
         serves_properties=["C05", "C06"],
         kind_free_text="implementation-shaped spec of the downloader's cursor/zone arithmetic, downloadedCh, driver, tracked lists (memory + SQLite) and the "
                        "detector loop (tick / compare / notify / ack / remove as separate steps) over a chain with forks, finality, restarts and RPC failures; "
                        "TLC exhaustive; edge-cover sample + seeded tlc -simulate walks replayed into the REAL EVMDownloader + EVMDriver + ReorgDetector behind "
                        "gated fake-chain clients (every RPC, driver call and channel hand-over is a scheduler-released gate), recording store and real L1 info "
                        "store; TLC trace validation"),
    dict(name="epoch", path="specs/Epoch.tla specs/EpochTrace.tla specs/PollEpoch.tla specs/PollEpochTrace.tla harness/areas/epoch harness/areas/pollepoch checks/C18.py", serves_properties=["C18"],
         kind_free_text="TLC exhaustive on the step-function spec; edge-cover behaviours replayed into the real notifier; TLC trace validation"),
]

_STORE_TECH = "TLA+ model checking (TLC) of Store.tla + edge-cover behaviours replayed into the real SQLite store + TLC trace validation (StoreTrace.tla)"
_STORE_NOTE = ("trusted: TLC; reference keccak Merkle tree / Solidity leaf packing in harness/names (names identify hashes); SQL-trigger fault "
               "injector; bounds: H=3 and <= 7 leaves in the exhaustive model, real height 32 in replay")

_AG_TECH = "TLA+ model checking (TLC) of AggSender.tla + edge-cover behaviours replayed into the real send path + TLC trace validation (AggSenderTrace.tla)"
_AG_NOTE = ("trusted: TLC; scripted Agglayer (E1: a failing call has no effect; E2: latest settled/pending headers as the service computes them; certificate id commits to the metadata); reference trees/packings in harness/names; PP flow only; bounds: <= 4 L2 blocks and <= 4 certificates in the exhaustive model")

CHECKS = {
    "C02": dict(engine="aggsender", category="model_checking", design_ref="DESIGN.md section 5 C02", technique=_AG_TECH, note=_AG_NOTE,
        text="TLC explores every interleaving of new L2 blocks, epoch ticks, status ticks, Agglayer verdicts and failing Agglayer calls (both retry "
             "settings) on the spec of the send path as coded and checks height/previous-root/first-block/retry/no-overlap/settled-chain invariants on "
             "the ledger of what the Agglayer received; the edge cover is replayed into the real AggSender loop iterations, PP flow, SQL storage and "
             "status checker over real bridge and L1 info stores, and every certificate the scripted Agglayer receives is judged by TLC against the "
             "same predicates, evaluated with the statuses at the moment of submission."),
    "C03": dict(engine="aggsender", category="model_checking", design_ref="DESIGN.md section 5 C03", technique=_AG_TECH, note=_AG_NOTE,
        text="For every certificate received in the replayed behaviours (L2 histories with bridges, claims, empty blocks; previous certificate none / "
             "settled / in error) TLC checks on names: appending its exits to the tree of its previous root gives its new root, its exits are exactly "
             "the deposits of its block range in order (leaf values recomputed with the reference packing from what was sent), its imported exits are "
             "exactly the claims of the range with leaf, origin and global index preserved, and the metadata decodes to that range."),
    "C09": dict(engine="aggsender", category="model_checking", design_ref="DESIGN.md section 5 C09", technique=_AG_TECH, note=_AG_NOTE,
        text="The driver builds a joint L1/L2 history with genuine proofs (mainnet deposits, another rollup's deposits and verified batches, five L1 "
             "info leaves, claims made against covering, finalized leaves; the finalized pointer moves by seed); for every imported bridge exit of "
             "every received certificate TLC checks that all claim proofs name one L1 info root with the stated leaf count, that the L1 leaf, its GER, "
             "and each sibling of the GER->root, leaf->MER / leaf->LER and LER->RER legs carry the names of the reference subtrees (hence fold to the "
             "roots), and that the GER is the one the claim was made against."),
    "C12": dict(engine="bridgeapi", category="model_checking", design_ref="DESIGN.md section 5 C12",
        text="TLC checks getFirstL1InfoTreeIndexForL1Bridge / ...ForL2Bridge as coded (block-granular midpoint, first row of the first block >= target, initial "
             "not-yet-covered test, bestResult updates, equality break, GetRootByLER failing on the zero MER, verify rows only for effective updates, "
             "GetFirstL1InfoWithRollupExitRoot by equality) and the ClaimProof assembly (top-down walks over content-addressed node tables) over all joint "
             "histories within the bounds (deposits on both networks, several info leaves per block, block gaps, verified batches of two rollups incl. skipped "
             "ones) against: a returned index covers the bridge and so does every later leaf; the claim proof for every covering leaf folds leaf->MER resp. "
             "leaf->LER->RER. Every reachable history (seeded sample in quick) plus seeded random larger histories (gaps up to 10^4 blocks, 3 rollups) is fed "
             "through the real ProcessBlock of two bridge stores, the L1 info store and the injected-GER store; /l1-info-tree-index, /claim-proof and "
             "/injected-l1-info-leaf are requested through the real gin engine of bridgeservice.New after every L1 block, every hash is named by the reference "
             "implementation, and TLC judges: index covers or error; claim proofs of all covering (bridge, leaf) pairs are the reference sibling lists for both "
             "legs with the leaf's MER/RER; injected leaf is a later injected leaf of the history. The model's predicted lookup answers are compared with the real "
             "ones (drift = note). Wrong spec variants must violate the invariants (sensitivity) and corrupted traces must be rejected (binding self-test).",
        note="trusted: TLC; reference keccak Merkle trees / leaf packing in harness/names; stores fully synced when queried; a lookup error while a covering "
             "leaf exists is accepted by the statement and only counted (zero-MER leaf / RER without leaf); a /claim-proof error for a covering pair is a "
             "violation; bounds: exhaustive <= 3 bridges per network, <= 6 leaves, <= 5 blocks, <= 3 verified batches, H=2..3 in the model, height 32 in replay",
        technique="TLA+ model checking (TLC) + history replay into the real service over real stores + TLC trace validation"),
    "C13": dict(engine="aggsender", category="model_checking", design_ref="DESIGN.md section 5 C13", technique=_AG_TECH, note=_AG_NOTE,
        text="TLC explores a crash at every visible step of the send path (before submit, after submit, after store), loss of the certificate DB while "
             "down and restarts, with and without prev-LER in Agglayer headers, and checks the ledger invariants plus 'a fault-free restart never "
             "refuses' (the code before the F4 repair is kept as a model variant in which TLC must find the permanent refusal); behaviours are replayed "
             "into the real node (panic inside SendCertificate as the crash, fresh DB file as the loss, whole-save failures and statement-level "
             "persistent faults in the save transaction) and TLC judges: restart reconciles, reconciled record = Agglayer's latest, one row per "
             "height, rows match what was submitted, a save that failed for good leaves the previous record intact, and the next certificates obey "
             "the C02 predicates."),
    "C15": dict(
      engine="oracle", category="model_checking", design_ref="DESIGN.md section 5 C15, Appendix A.4, section 6 F3",
      text="TLC checks processLatestGER as coded and as repaired (Oracle.tla, Rule=code/fixed) exhaustively for a bounded L1 (<=6 blocks, <=3 leaves, "
           "syncer behind/at/ahead, one failure per run, reorg, foreign injection) against 'inject only the latest root at/below a block that was final "
           "when sampled and not on L2', and checks liveness 'a pending finalized root leads to an injection' with TLC's liveness checker under weak "
           "fairness on a sliding-window quotient of an unbounded L1 for four rules (code: starvation lasso F3; naive and first repair candidate: "
           "deadlock on a kept block without roots; fixed: holds). TLC's edge cover, treadmill schedules and seeded random long schedules are replayed "
           "tick by tick into the real AggOracle over the real L1-info store, a scripted L1 client and a recording chain sender; TLC judges every "
           "recorded trace against OracleTrace.tla (safety per received call; an injection within 2*lag+2 failure-free ticks while a finalized root "
           "is pending and the store advances).",
      note="trusted: TLC; GER names recomputed by the driver; finality = FinalizedBlock, reorgs only above it; a scripted failing call has no effect; "
           "treadmill window 4/5 blocks (larger lags only by replay)",
      technique="TLA+ model checking incl. liveness (TLC) + behaviour replay into real code + TLC trace validation"),
    "C16": dict(
        engine="lastger", category="model_checking", design_ref="DESIGN.md section 5 C16",
        text="TLC checks LastGER.tla (L2 chain <=5 blocks with <=1 GER insert/removal per block, downloaderPP cursor arithmetic, driver, processor tables, "
             "reorg-detector contract, restarts, reorgs) against 'table = fold of the canonical events up to the last processed block, and up to the tip once "
             "the node has polled it and is at rest'; the rule as coded (F2) and the repair without tip block must yield counterexamples. A seeded sample of "
             "TLC's edge cover, seeded random schedules (<=12 blocks, <=5 GERs) and the F2/F2b regression schedules are replayed into the real "
             "lastgersync.New(PP) (real downloader, EVMDriver, processor, L1-info store; gated fake L2 client with real headers/logs, reorg detector following "
             "detectReorgInTrackedList); after every step every index X is queried and TLC judges each answer against the monitor LastGERTrace.tla.",
        note="trusted: TLC; fake L2 client and reorg-detector contract; forks win only when longer; no RPC faults; 'first' = least index is noted, not demanded; "
             "F2b (removal undone by a reorg is not restored) is a known finding with signature kf=F2b; FEP mode not covered",
        technique="TLA+ model checking (TLC) + behaviour replay into real code + TLC trace validation"),
    "C17": dict(
        engine="certcut", category="model_checking", design_ref="DESIGN.md section 5 C17",
        text="TLC checks limitCertSize's loop, CertificateBuildParams.Range, MaxL2BlockNumberLimiter.AdaptCertificate and BlockRange.Gap as coded "
             "(CertCut.tla, uint64 modelled as 3/4-bit words with wrap-around) against the declarative cut (same first block, greatest permitted last "
             "block, exactly the events of the kept blocks in order, over the size limit only as a single block; Gap empty iff ranges touch or overlap, "
             "else exactly the blocks strictly between) for every certificate layout, size threshold, last-block limit, retry/resize/require-bridge "
             "flag, Range request and pair of ranges; every enumerated case is run through the real functions (size cut via "
             "GetCertificateBuildParamsInternal on a real base flow) as is, shifted so the model's maximum is 2^64-1, and split across both ends, plus "
             "seeded random certificates up to 120 blocks/40 events; TLC judges every recorded outcome against the monitor CertCutTrace.tla.",
        note="trusted: TLC; symbolic [zone,offset] embedding of uint64 into TLC integers; size model constants read from the code, float sum "
             "accepted either way on whole-byte sizes; refusals of the limiter/Range are not judged; certificates span < 2^63 blocks; "
             "size cut starts at block >= 1",
        technique="TLA+ model checking (TLC) + case replay into real code + TLC trace validation"),
    "C19": dict(
        engine="globalindex", category="other", design_ref="DESIGN.md section 5 C19",
        text="TLC checks GenerateGlobalIndex/DecodeGlobalIndex and the 32-byte little/big-endian forms as coded (GlobalIndex.tla, integers as byte strings) "
             "against round trip, contract layout and agreement of all consumers for every byte string over bases 2..3 (thorough 2..5) and part sizes 1..4, and exports "
             "all 512 zero/non-zero patterns of flag||rollup(4)||leaf(4); each pattern x {0x01,0x80,0xff,random}, all boundary triples, seeded random triples and "
             "random canonical 65-bit on-chain values are run through the real codec, the real PP and FEP flows (claim -> imported bridge exit -> certificate, "
             "recording signer), certificate JSON, GlobalIndex.Hash / PPHashToSign / FEPHashToSign / optimistic commitment and the real agglayer and aggchain-prover "
             "gRPC clients (loopback servers); TLC judges every recorded line with GlobalIndexTrace.tla (16-bit limbs for the bit layout, decimal strings for equality).",
        note="level other: TLC is enumerator and equality judge, nothing temporal; trusted: TLC, reference keccak/LE32 naming of hash-valued consumers, math/big shifts for the limb projection; "
             "canonical on-chain values only; optimistic signer observed at CalculateCommitImportedBrdigeExitsHashFromClaims",
        technique="TLA+ model checking (TLC) as enumerator + replay into real code + TLC trace validation"),
    "C20": dict(
        engine="claimcall", category="model_checking", design_ref="DESIGN.md section 5 C20",
        text="TLC checks the stack-based DFS of findCall/setClaimCalldata/tryDecodeClaimCalldata as coded (ClaimCall.tla) against "
             "Eligible(tree, gi) for every ordered call tree with <= 4 (quick) / <= 5 (thorough) frames, every reverted set, six frame kinds "
             "and two global indexes; every enumerated tree plus seeded random trees up to 12 frames is ABI-encoded with the real bridge "
             "ABIs, served as the debug_traceTransaction answer to the real Etrog and pre-Etrog claim event handlers, stored by the real "
             "ProcessBlock and read back with GetClaims; TLC judges each recorded outcome against the monitor ClaimCallTrace.tla (all "
             "call-derived fields from one eligible call; error iff no eligible call, and then no row).",
        note="trusted: TLC; geth callTracer JSON shape; field provenance by per-frame unique values; precondition: every call to the bridge "
             "is a claim call (other lines counted, not judged)",
        technique="TLA+ model checking (TLC) + case replay into real code + TLC trace validation"),
    "C01": dict(engine="store", category="model_checking", design_ref="DESIGN.md section 5 C01", technique=_STORE_TECH, note=_STORE_NOTE,
        text="TLC checks the append path exactly as coded (in-place frontier, initCache on index mismatch, restart) against 'root at deposit i = "
             "reference root of the first i+1 leaves' for every partition of the deposits into blocks and every restart point; the edge cover is "
             "replayed into the real bridge processor (deposits with all field classes) and every answer of GetExitRootByIndex / GetRootByLER / "
             "GetBridges is named by an independent reference implementation and judged by TLC."),
    "C04": dict(engine="store", category="model_checking", design_ref="DESIGN.md section 5 C04", technique=_STORE_TECH, note=_STORE_NOTE,
        text="TLC explores histories x reorg points (incl. above the tip and at the first block) x nested reorgs x continuations on the spec whose "
             "frontier and never-cleaned node table are part of the state; each behaviour is replayed into the real store and after every step "
             "all named answers must be a function of the surviving history only, plus lock-step agreement of every exported query method with a "
             "twin store that never saw the dropped blocks."),
    "C07": dict(engine="store", category="model_checking", design_ref="DESIGN.md section 5 C07", technique=_STORE_TECH, note=_STORE_NOTE,
        text="TLC explores a fault at each statement of the block transaction (statement abort, context cancellation, commit failure), restarts and "
             "retries on the spec that models rollback callbacks as coded (it exhibits finding F1 with Fixed=FALSE); behaviours are replayed "
             "into the real store with SQL-trigger fault injection and after the failed attempt and after the retry every named answer must equal "
             "what the fault-free history implies."),
    "C08": dict(engine="store", category="model_checking", design_ref="DESIGN.md section 5 C08", technique=_STORE_TECH, note=_STORE_NOTE,
        text="For every state reached in the reorg and fault explorations TLC checks that the top-down walk over the node table yields, for every "
             "recorded root and covered position, the reference siblings and leaf; on the real store GetProof is called for every (recorded root, "
             "position) after every step and each sibling must carry the name of the reference sibling subtree."),
    "C10": dict(
        engine="certcommit", category="other", design_ref="DESIGN.md section 5 C10",
        text="CertCommitMatrix.tla states for each of the 54 certificate fields where it travels (protobuf, stored JSON) and whether it enters PPHashToSign / FEPHashToSign / "
             "Certificate.Hash; CertCommit.tla runs Build -> Sign(h) -> Send(w) -> Store(s) with the codecs as coded (in-place Hash() nil-amount side effects, absent amount/metadata, "
             "shifted leaf-type enum, one-field global index, '<nil>' / omitempty JSON) and TLC checks for every certificate shape (exits 0..2, imported exits 0..2, both claim kinds, "
             "amounts nil/0/1/2^256-1, empty/non-empty metadata, both leaf types, leading-zero classes of the global index, heights, aggchain params, PP and FEP; 37k states quick, "
             "572k thorough) h = Commit(w) = Commit(s), Id(w) = Id(s) = Id(built), covered fields arrive, every covered single-field perturbation changes the commitment/identity and "
             "no uncovered one does, matrix consistent. TLC exports 861 (thorough 5023) shapes with 43k single-field perturbation cases; each shape plus seeded random certificates (up "
             "to 6 exits / imported exits, random amounts, metadata of 1/33/100+ bytes) is driven through the real PP / FEP BuildCertificate with a recording ECDSA signer, the real "
             "AggSender.sendCertificate, the real AgglayerGRPCClient (loopback server records the protobuf) and the real AggSenderSQLStorage; the driver re-assembles the certificate from "
             "the captured protobuf and from the JSON read back, applies the code's own commitment functions and an independent reference, recovers the signer, perturbs every field; "
             "TLC judges every certificate with CertCommitTrace.tla.",
        note="level other: TLC holds the matrix, enumerates and judges equalities, nothing temporal; the commitment layouts (reference in the driver) are part of the specification; "
             "nil amount = amount 0; canonical global indexes, leaf types asset/message; uncovered fields (certificate metadata, custom_chain_data, l1_info_tree_leaf_count, proof data, "
             "l1_leaf index/rer/mer) recorded, not judged; hook aggsender/certcommit_verif.go (constructor + sendCertificate pass-through); trusted: TLC, keccak/secp256k1, grpc loopback, "
             "SQLite, the driver's inverse wire conversion",
        technique="TLA+ model checking (TLC) as enumerator + replay into real code + TLC trace validation"),
    "C11": dict(engine="store", category="model_checking", design_ref="DESIGN.md section 5 C11", technique=_STORE_TECH, note=_STORE_NOTE,
        text="TLC checks the L1 info processor as coded (index read inside the tx, leaf row before AddLeaf, V2 announcement check, VerifyBatches "
             "with zero/unchanged skip, UpsertLeaf walking the last root, root hash as primary key) against: consecutive indices, each root = "
             "reference root, rollup exit tree = last non-zero exit root per rollup, for all interleavings within the bounds; behaviours are "
             "replayed into the real processor and GetInfoByIndex / GetInfoByGlobalExitRoot / roots / rollup tree roots, leaves and proofs are named "
             "by the reference implementation and judged by TLC. Finding F5 (recurring rollup-exit-tree root) is a listed known finding."),
    "C14": dict(engine="store", category="model_checking", design_ref="DESIGN.md section 5 C14", technique=_STORE_TECH, note=_STORE_NOTE,
        text="TLC explores all ways to halt within the bounds, all reorg points and continuations; on the real store every exported method of the "
             "facade (enumerated by reflection, small allow list of non-data methods) is called after every step: while the node has reported an "
             "inconsistency every data method must answer the inconsistency error, no block may commit, and only a reorg that removes processed "
             "blocks clears the condition."),
    "C05": dict(engine="evmsync", category="model_checking", design_ref="DESIGN.md section 5 C05",
        text="TLC checks the Download loop as coded (from/to/lastBlock, safe vs unsafe zone, range extension, empty-block marker, hash cross-check, "
             "bounded channel) with driver and store against Ordered / Faithful / NoSkip / Converged for every placement of watched logs on <= 6 (quick) "
             "/ 7 (thorough) blocks, chunk 1..3, both finality modes, every tip/finalized schedule and any number of failing RPCs / ProcessBlock calls; a "
             "seeded sample of the edge cover plus seeded random walks (<= 16 blocks, chunk <= 10, restarts) is replayed gate by gate into the real "
             "downloader + driver + reorg detector (blocks decorated with several logs, unwatched topics, other addresses, removed logs), with a recording "
             "store and a second pass with the real L1 info store; TLC judges every trace with EVMSyncTrace.tla.",
        note="trusted: TLC; fake chain answers eth_getLogs atomically; environment moves placed right before their observer (hand-made POR); the driver's "
             "select is scheduled by relays at the Downloader/ReorgDetector interfaces; marker liveness (empty-block marker advancing) is not demanded by the statement",
        technique="TLA+ model checking (TLC) + behaviour replay into real goroutines through gates + TLC trace validation"),
    "C06": dict(engine="evmsync", category="model_checking", design_ref="DESIGN.md section 5 C06",
        text="TLC checks the same spec with forks (any fork point above the finalized block, any content, <= 2 successive), the detector loop in five steps, "
             "tracked lists in memory and SQLite, and restart at any step against the same predicates plus RewindLow (at rest no replaced block is stored); the "
             "faithful model (range removal as its own step) violates RewindLow (finding F6) and a scaled retry limit violates Faithful (finding F7) - both "
             "counterexamples are replayed on the real code in every run. Edge cover + seeded walks (<= 12 blocks, <= 5 forks of processed blocks, restarts, RPC "
             "failures) are replayed into the real downloader + driver + ReorgDetector (own SQLite file), recording store and real L1 info store; TLC judges "
             "Ordered, Faithful, NoSkip, NoSpurious, RewindLow, Converged and the findings' signatures.",
        note="trusted: TLC; a fork wins only when longer; explored schedules remove the tracked range right after the ack (AtomicRemove) and have < 6 forks per "
             "range query; Start-then-Subscribe order fixed; RewindLow judged at rest; DRIFT possible under extreme machine load (gate wait 2 s), reported, never a verdict",
        technique="TLA+ model checking (TLC) + behaviour replay into real goroutines through gates + TLC trace validation"),
    "C18": dict(
        engine="epoch", category="model_checking", design_ref="DESIGN.md section 5 C18",
        text="TLC checks the step function as coded (Epoch.tla) against exactly-once-at-first-past-block for every configuration "
             "N<=5, start in {0,1,7}, P in 0..99 and every increasing block sequence within 3 epochs; TLC's edge cover plus seeded long "
             "random sequences are replayed into the real EpochNotifierPerBlock and every recorded trace is judged by TLC against the "
             "property monitor EpochTrace.tla. The same is done for the epoch clock as the node wires it (PollEpoch.tla: "
             "BlockNotifierPolling + fan-out + notifier; heads moving up, down or not at all, RPC errors, sends completing in and out of order): "
             "the real poller's Start loop runs on a scripted RPC with the scripted and the repository's own fan-out, judged by PollEpochTrace.tla.",
        note="trusted: TLC; integer form of the float threshold test; block == StartingEpochBlock neither required nor forbidden",
        technique="TLA+ model checking (TLC) + behaviour replay into real code + TLC trace validation"),
}

NOT_YET = "check not built yet in this round (planned with the TLA+ machinery, see DESIGN.md section 5)"
ALL = ["C%02d" % i for i in range(1, 21)]
NOT_APPLICABLE = {}
