"""Single source for MANIFEST.json (bin/mkmanifest writes it)."""
BASE_OFF = "cd /repo && GOFLAGS=-mod=mod GOPROXY=off go test -mod=mod -json -vet=off -count=1 -timeout 25m ./..."

ENGINES = [
    dict(name="globalindex", path="specs/GlobalIndex.tla specs/GlobalIndexTrace.tla harness/areas/globalindex checks/C19.py", serves_properties=["C19"],
         kind_free_text="TLC exhaustive on the byte-string codec spec and exporter of all zero/non-zero byte patterns; patterns x byte values, boundary, "
                        "random and canonical values run through the real codec, real PP/FEP flows and real gRPC clients; TLC trace validation of round "
                        "trip, bit layout and agreement of all consumers"),
    dict(name="claimcall", path="specs/ClaimCall.tla specs/ClaimCallTrace.tla harness/areas/claimcall checks/C20.py", serves_properties=["C20"],
         kind_free_text="TLC exhaustive on the findCall/setClaimCalldata stack machine over all call trees; every tree replayed as a "
                        "debug_traceTransaction answer into the real claim handlers -> ProcessBlock -> GetClaims; TLC trace validation"),
    dict(name="store", path="specs/Store.tla specs/Merkle.tla specs/StoreTrace.tla harness/areas/store harness/names checks/store_common.py",
         serves_properties=["C01", "C04", "C07", "C08", "C11", "C14"],
         kind_free_text="implementation-shaped spec of the SQLite processors and trees (frontier cache, rollback callbacks, never-cleaned node table); "
                        "TLC exhaustive; edge-cover behaviours replayed into the real processors with SQL-trigger fault injection; named snapshots judged by TLC"),
    dict(name="epoch", path="specs/Epoch.tla specs/EpochTrace.tla harness/areas/epoch checks/C18.py", serves_properties=["C18"],
         kind_free_text="TLC exhaustive on the step-function spec; edge-cover behaviours replayed into the real notifier; TLC trace validation"),
]

_STORE_TECH = "TLA+ model checking (TLC) of Store.tla + edge-cover behaviours replayed into the real SQLite store + TLC trace validation (StoreTrace.tla)"
_STORE_NOTE = ("trusted: TLC; reference keccak Merkle tree / Solidity leaf packing in harness/names (names identify hashes); SQL-trigger fault "
               "injector; bounds: H=3 and <= 7 leaves in the exhaustive model, real height 32 in replay")

CHECKS = {
    "C19": dict(
        engine="globalindex", category="other", design_ref="DESIGN.md section 5 C19",
        text="TLC checks GenerateGlobalIndex/DecodeGlobalIndex and the 32-byte little/big-endian forms as coded (GlobalIndex.tla, integers as byte strings) "
             "against round trip, contract layout and agreement of all consumers for every byte string over bases 2..3 (thorough 2..5) and part sizes 1..4, and exports "
             "all 512 zero/non-zero patterns of flag||rollup(4)||leaf(4); each pattern x {0x01,0x80,0xff,random}, all boundary triples, seeded random triples and "
             "random canonical 65-bit on-chain values are run through the real codec, the real PP and FEP flows (claim -> imported bridge exit -> certificate, "
             "recording signer), certificate JSON, GlobalIndex.Hash / PPHashToSign / FEPHashToSign / optimistic commitment and the real agglayer and aggchain-prover "
             "gRPC clients (loopback servers); TLC judges every recorded line with GlobalIndexTrace.tla (16-bit limbs for the bit layout, decimal strings for equality).",
        note="level other: TLC is enumerator and equality judge, nothing temporal; trusted: TLC, reference keccak/LE32 naming of hash-valued consumers, math/big shifts for the limb projection; "
             "canonical on-chain values only; optimistic signer observed at CalculateCommitImportedBrdigeExitsHashFromClaims",
        technique="TLA+ model checking (TLC) as enumerator + replay into real code + TLC trace validation"),
    "C20": dict(
        engine="claimcall", category="model_checking", design_ref="DESIGN.md section 5 C20",
        text="TLC checks the stack-based DFS of findCall/setClaimCalldata/tryDecodeClaimCalldata as coded (ClaimCall.tla) against "
             "Eligible(tree, gi) for every ordered call tree with <= 4 (quick) / <= 5 (thorough) frames, every reverted set, six frame kinds "
             "and two global indexes; every enumerated tree plus seeded random trees up to 12 frames is ABI-encoded with the real bridge "
             "ABIs, served as the debug_traceTransaction answer to the real Etrog and pre-Etrog claim event handlers, stored by the real "
             "ProcessBlock and read back with GetClaims; TLC judges each recorded outcome against the monitor ClaimCallTrace.tla (all "
             "call-derived fields from one eligible call; error iff no eligible call, and then no row).",
        note="trusted: TLC; geth callTracer JSON shape; field provenance by per-frame unique values; precondition: every call to the bridge "
             "is a claim call (other lines counted, not judged)",
        technique="TLA+ model checking (TLC) + case replay into real code + TLC trace validation"),
    "C01": dict(engine="store", category="model_checking", design_ref="DESIGN.md section 5 C01", technique=_STORE_TECH, note=_STORE_NOTE,
        text="TLC checks the append path exactly as coded (in-place frontier, initCache on index mismatch, restart) against 'root at deposit i = "
             "reference root of the first i+1 leaves' for every partition of the deposits into blocks and every restart point; the edge cover is "
             "replayed into the real bridge processor (deposits with all field classes) and every answer of GetExitRootByIndex / GetRootByLER / "
             "GetBridges is named by an independent reference implementation and judged by TLC."),
    "C04": dict(engine="store", category="model_checking", design_ref="DESIGN.md section 5 C04", technique=_STORE_TECH, note=_STORE_NOTE,
        text="TLC explores histories x reorg points (incl. above the tip and at the first block) x nested reorgs x continuations on the spec whose "
             "frontier and never-cleaned node table are part of the state; each behaviour is replayed into the real store and after every step "
             "all named answers must be a function of the surviving history only, plus lock-step agreement of every exported query method with a "
             "twin store that never saw the dropped blocks."),
    "C07": dict(engine="store", category="model_checking", design_ref="DESIGN.md section 5 C07", technique=_STORE_TECH, note=_STORE_NOTE,
        text="TLC explores a fault at each statement of the block transaction (statement abort, context cancellation, commit failure), restarts and "
             "retries on the spec that models rollback callbacks as coded (it exhibits finding F1 with Fixed=FALSE); behaviours are replayed "
             "into the real store with SQL-trigger fault injection and after the failed attempt and after the retry every named answer must equal "
             "what the fault-free history implies."),
    "C08": dict(engine="store", category="model_checking", design_ref="DESIGN.md section 5 C08", technique=_STORE_TECH, note=_STORE_NOTE,
        text="For every state reached in the reorg and fault explorations TLC checks that the top-down walk over the node table yields, for every "
             "recorded root and covered position, the reference siblings and leaf; on the real store GetProof is called for every (recorded root, "
             "position) after every step and each sibling must carry the name of the reference sibling subtree."),
    "C11": dict(engine="store", category="model_checking", design_ref="DESIGN.md section 5 C11", technique=_STORE_TECH, note=_STORE_NOTE,
        text="TLC checks the L1 info processor as coded (index read inside the tx, leaf row before AddLeaf, V2 announcement check, VerifyBatches "
             "with zero/unchanged skip, UpsertLeaf walking the last root, root hash as primary key) against: consecutive indices, each root = "
             "reference root, rollup exit tree = last non-zero exit root per rollup, for all interleavings within the bounds; behaviours are "
             "replayed into the real processor and GetInfoByIndex / GetInfoByGlobalExitRoot / roots / rollup tree roots, leaves and proofs are named "
             "by the reference implementation and judged by TLC. Finding F5 (recurring rollup-exit-tree root) is a listed known finding."),
    "C14": dict(engine="store", category="model_checking", design_ref="DESIGN.md section 5 C14", technique=_STORE_TECH, note=_STORE_NOTE,
        text="TLC explores all ways to halt within the bounds, all reorg points and continuations; on the real store every exported method of the "
             "facade (enumerated by reflection, small allow list of non-data methods) is called after every step: while the node has reported an "
             "inconsistency every data method must answer the inconsistency error, no block may commit, and only a reorg that removes processed "
             "blocks clears the condition."),
    "C18": dict(
        engine="epoch", category="model_checking", design_ref="DESIGN.md section 5 C18",
        text="TLC checks the step function as coded (Epoch.tla) against exactly-once-at-first-past-block for every configuration "
             "N<=5, start in {0,1,7}, P in 0..99 and every increasing block sequence within 3 epochs; TLC's edge cover plus seeded long "
             "random sequences are replayed into the real EpochNotifierPerBlock and every recorded trace is judged by TLC against the "
             "property monitor EpochTrace.tla.",
        note="trusted: TLC; integer form of the float threshold test; block == StartingEpochBlock neither required nor forbidden",
        technique="TLA+ model checking (TLC) + behaviour replay into real code + TLC trace validation"),
}

NOT_YET = "check not built yet in this round (planned with the TLA+ machinery, see DESIGN.md section 5)"
ALL = ["C%02d" % i for i in range(1, 21)]
NOT_APPLICABLE = {}
