\* liveness run (TLC liveness checker, weak fairness of Tick and Sync, no state constraint, no VIEW); see Oracle.tla
\* bounded L1
CONSTANTS
  Rule = "fixed"
  StoreRead = "snapshot"
  Treadmill = FALSE
  Record = FALSE
  MaxBlock = 4
  MaxLeaves = 2
  Gers = {1, 2, 3}
  MaxFail = 1
  MaxReorg = 1
  MaxExt = 1
SPECIFICATION LiveSpec
PROPERTY Live
CHECK_DEADLOCK FALSE
