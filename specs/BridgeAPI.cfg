\* generated by mkbridgeapicfg.sh - C12 exhaustive, joint L1/L2 histories (quick): 2 bridges per network, 3 leaves, 4 blocks, 2 verified batches of 2 rollups (skipped ones included)
CONSTANTS
  H = 2
  MaxDeps = 2
  MaxL2 = 2
  MaxInfos = 3
  MaxBlocks = 4
  MaxVer = 2
  Ours = 2
  Others = {1}
  AllowSkipped = TRUE
  Variant = "code"
INIT Init
NEXT Next
INVARIANT Inv
CHECK_DEADLOCK FALSE
