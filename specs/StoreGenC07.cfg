\* generated by mkstorecfg.py - edge cover for C07
CONSTANTS
  Kind = "bridge"
  Fixed = TRUE
  FixedF11 = TRUE
  H = 3
  MaxBlocks = 3
  MaxEvents = 2
  MaxLeaves = 4
  MaxOps = 4
  Faults = {"stmt", "ctx", "commit"}
  AllowGap = FALSE
  Dups = FALSE
  AllowRestart = TRUE
  AllowReorg = FALSE
  Rollups = {}
  ExitRoots = {}
INIT Init
NEXT Next
VIEW view
ACTION_CONSTRAINT Dump
CHECK_DEADLOCK FALSE
