\* faithful model of finding F6 (AtomicRemove = FALSE: the range removal is a step of its own after the acknowledgement)
CONSTANTS
  N = 3
  Chunks = {2}
  TipTags = {"latest"}
  BufCap = 1
  MaxForks = 2
  MaxFails = 0
  MaxPFails = 0
  MaxRestarts = 0
  Detector = TRUE
  RetryLimit = 5
  AtomicRemove = FALSE
  RemoveByHash = FALSE
  LockedRemove = FALSE
  InconsOnFault = FALSE
  Contents = {0,1}
  FinLag = 0
  NoIdle = FALSE
  SimDepth = 0
INIT Init
NEXT Next
VIEW view
INVARIANTS RewindLow
CHECK_DEADLOCK FALSE
