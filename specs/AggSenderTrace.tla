----------------------------- MODULE AggSenderTrace -----------------------------
(* Property-level monitor for C02, C03, C09 and C13, evaluated by TLC on traces recorded from the real certificate send
   path (real AggSender loop iterations, PP flow, SQL storage, status checker, start-up reconciliation, real L2 bridge
   store and L1 info tree store) against a scripted Agglayer that enforces nothing.

   The monitor keeps only what the properties talk about: the L2 history, the ledger of what the Agglayer RECEIVED and
   how it moved those certificates, and the scripted L1 history.  It knows nothing about ticks' internals, retries,
   the certificate DB layout or the reconciliation cases.

   Trace lines (harness/areas/aggsender):
     reset{t,cfg,l1:{leaves:[{atom,idx,nmain,nother}],pool:[{id,mainnet,atom,li,info}],...}}
     block{num,leaves:[atoms],claims:[pool ids]}        an L2 block processed by the bridge store
     submit{id,h,prev,new,exits,imported,meta,leafcount}  a certificate received by the Agglayer (names, not hashes)
     tick{kind,o,sent,crashed,storefail}   agmove{id,st}   stop   losedb   restart{ok,checkfail}   db{rows,up,ready}
*)
EXTENDS Integers, Sequences, FiniteSets, TLC, Json, IOUtils

Trace == ndJsonDeserialize(IOEnv.TRACE_FILE)

VARIABLES l, t,
          l1,        \* scripted L1 history (from reset)
          l2,        \* sequence of [num, leaves, claims]
          ledger,    \* sequence (index = Agglayer id) of [h, st, from, to, prev, new, exits, imported]
          rows,      \* last observed certificate_info rows
          rowsBefore,\* rows before the last tick (WriteAtomic)
          lastTick,  \* the last tick event (or a record with ev # "tick")
          viol

vars == <<l, t, l1, l2, ledger, rows, rowsBefore, lastTick, viol>>

TreeH == 32
P2(h) == IF h >= 20 THEN 1048576 ELSE 2 ^ h
Min(a, b) == IF a < b THEN a ELSE b
ZeroName(h) == [t |-> "z", h |-> h, ls |-> <<>>]
SubName(atoms, m, h, k) ==
  LET lo == k * P2(h) IN
  IF (h >= 20 /\ k > 0) \/ lo >= m THEN ZeroName(h)
  ELSE [t |-> "s", h |-> h, ls |-> SubSeq(atoms, lo + 1, Min(m, lo + P2(h)))]
RootName(atoms, m) == SubName(atoms, m, TreeH, 0)          \* root over the first m leaves (m = 0: the empty tree)
LeafName(x) == [t |-> "s", h |-> 0, ls |-> <<x>>]
SibK(p, h) == LET k == p \div P2(h) IN IF h >= 20 THEN 1 ELSE IF k % 2 = 1 THEN k - 1 ELSE k + 1
ExpSibs(atoms, m, p) ==
  LET all == [h \in 0..(TreeH - 1) |-> SubName(atoms, m, h, SibK(p, h))]
  IN SelectSeq([i \in 1..TreeH |-> <<i - 1, all[i - 1]>>], LAMBDA e : e[2].t # "z")

V(pred, info) == [t |-> t, l |-> l, inv |-> pred, info |-> info]

-----------------------------------------------------------------------------
(* L2 history *)
RECURSIVE Leaves(_)
Leaves(bs) == IF bs = <<>> THEN <<>> ELSE Head(bs).leaves \o Leaves(Tail(bs))
RECURSIVE LeavesUpTo(_, _)
LeavesUpTo(bs, b) == IF bs = <<>> \/ Head(bs).num > b THEN <<>> ELSE Head(bs).leaves \o LeavesUpTo(Tail(bs), b)
RECURSIVE ClaimsIn(_, _, _)
ClaimsIn(bs, from, to) == IF bs = <<>> THEN <<>>
                          ELSE (IF Head(bs).num >= from /\ Head(bs).num <= to THEN Head(bs).claims ELSE <<>>) \o ClaimsIn(Tail(bs), from, to)
LastL2 == IF l2 = <<>> THEN 0 ELSE l2[Len(l2)].num

(* L1 history *)
InfoAtoms == [i \in 1..Len(l1.leaves) |-> l1.leaves[i].atom]
MainAtoms(n) == [i \in 1..n |-> l1.mainbase + i]
OtherAtoms(n) == [i \in 1..n |-> l1.otherbase + i]
PoolById(id) == CHOOSE p \in { l1.pool[i] : i \in DOMAIN l1.pool } : p.id = id

-----------------------------------------------------------------------------
(* ledger helpers, evaluated at the moment of a submission *)
Open(st) == st \in {"Pending", "Proven", "Candidate"}
SettledIdx == { i \in DOMAIN ledger : ledger[i].st = "Settled" }
LatestSettled == IF SettledIdx = {} THEN 0
                 ELSE CHOOSE i \in SettledIdx : \A j \in SettledIdx : ledger[j].h < ledger[i].h \/ (ledger[j].h = ledger[i].h /\ j <= i)
InErrorAt(h) == { i \in DOMAIN ledger : ledger[i].h = h /\ ledger[i].st = "InError" }

NameCount(n) == IF n.t = "z" /\ n.h = TreeH THEN 0 ELSE IF n.t = "s" /\ n.h = TreeH THEN Len(n.ls) ELSE -1

SubmitViolations(e) ==
  LET s == LatestSettled
      wantH == IF s = 0 THEN 0 ELSE ledger[s].h + 1
      wantPrev == IF s = 0 THEN ZeroName(TreeH) ELSE ledger[s].new
      R == InErrorAt(e.h)
      r == IF R = {} THEN 0 ELSE CHOOSE i \in R : \A j \in R : j <= i
      from == e.meta.from
      to == e.meta.from + e.meta.off
      wantFrom == IF r # 0 THEN ledger[r].from ELSE (IF s = 0 THEN 0 ELSE ledger[s].to) + 1
      openOnes == { i \in DOMAIN ledger : Open(ledger[i].st) }
      all == Leaves(l2)
      p == NameCount(e.prev)
      k == Len(e.exits)
      before == Len(LeavesUpTo(l2, from - 1))
      upto == Len(LeavesUpTo(l2, to))
      \* ---- C02
      c02 == (IF e.h # wantH THEN <<V("HeightFollowsSettled", [got |-> e.h, want |-> wantH])>> ELSE <<>>)
          \o (IF e.prev # wantPrev THEN <<V("PrevRootFollowsSettled", [got |-> e.prev, want |-> wantPrev])>> ELSE <<>>)
          \o (IF from # wantFrom THEN <<V("FirstBlockFollowsSettledOrRetried", [got |-> from, want |-> wantFrom, retryOf |-> r])>> ELSE <<>>)
          \o (IF openOnes # {} THEN <<V("NoSubmitWhileUndecided", [open |-> openOnes])>> ELSE <<>>)
      \* ---- C03
      c03 == (IF e.meta.v # 2 \/ to > LastL2 \/ from < 1 \/ to < from
              THEN <<V("MetadataEncodesRange", [meta |-> e.meta, lastL2 |-> LastL2])>> ELSE <<>>)
          \o (IF p < 0 THEN <<V("NewRootFollowsFromExits", [prev |-> e.prev])>>
              ELSE IF p + k > Len(all) \/ e.exits # [i \in 1..k |-> LeafName(all[p + i])]
                      \/ e.new # RootName(all, p + k)
              THEN <<V("NewRootFollowsFromExits", [prevCount |-> p, exits |-> e.exits, new |-> e.new, leaves |-> all])>> ELSE <<>>)
          \o (IF p >= 0 /\ to <= LastL2 /\ from >= 1 /\ (p # before \/ p + k # upto)
              THEN <<V("ExitsAreTheEventsOfTheRange", [from |-> from, to |-> to, prevCount |-> p, n |-> k, before |-> before, upto |-> upto])>> ELSE <<>>)
          \o (IF to <= LastL2 /\ from >= 1 /\ from <= to
              THEN LET want == ClaimsIn(l2, from, to) IN
                   IF Len(e.imported) # Len(want)
                      \/ \E i \in DOMAIN want : LET c == PoolById(want[i]) m == e.imported[i] IN
                            ~(m.leaf = LeafName(c.atom) /\ m.mainnet = c.mainnet /\ m.li = c.li /\ m.ri = (IF c.mainnet THEN 0 ELSE 1))
                   THEN <<V("ImportedExitsAreTheClaimsOfTheRange", [want |-> want, got |-> [i \in DOMAIN e.imported |-> e.imported[i].leaf]])>> ELSE <<>>
              ELSE <<>>)
  IN c02 \o c03

(* C09: every imported bridge exit carries proofs that verify against the L1 info root the certificate names *)
ClaimViolations(e) ==
  LET n == e.leafcount
      R == RootName(InfoAtoms, n)
      bad == { i \in DOMAIN e.imported :
                 LET m == e.imported[i]
                     c == IF i <= Len(ClaimsIn(l2, e.meta.from, e.meta.from + e.meta.off))
                          THEN PoolById(ClaimsIn(l2, e.meta.from, e.meta.from + e.meta.off)[i]) ELSE [info |-> -1]
                     lf == IF m.l1idx + 1 \in DOMAIN l1.leaves THEN l1.leaves[m.l1idx + 1] ELSE [atom |-> -1, nmain |-> 0, nother |-> 0]
                 IN ~( /\ n >= 1 /\ n <= Len(InfoAtoms) /\ m.l1idx < n
                       /\ m.pger.root = R
                       /\ m.pger.sib = ExpSibs(InfoAtoms, n, m.l1idx)
                       /\ m.l1leaf = LeafName(lf.atom)
                       /\ m.ger = [t |-> "ger", h |-> 0, ls |-> <<lf.atom>>] /\ m.gerok
                       /\ m.l1idx = c.info                                       \* the GER the claim was made against
                       /\ m.mer = RootName(MainAtoms(lf.nmain), lf.nmain)
                       /\ IF m.kind = "mainnet"
                          THEN /\ m.pleaf.root = m.mer
                               /\ m.pleaf.sib = ExpSibs(MainAtoms(lf.nmain), lf.nmain, m.li)
                          ELSE /\ m.kind = "rollup"
                               /\ m.pleaf.root = RootName(OtherAtoms(lf.nother), lf.nother)
                               /\ m.lerfold = m.pleaf.root
                               /\ m.pleaf.sib = ExpSibs(OtherAtoms(lf.nother), lf.nother, m.li)
                               /\ m.pler.root = m.rer
                               /\ m.rer = [t |-> "u", h |-> TreeH, ls |-> << <<1, l1.lerbase + lf.nother>> >>]
                               /\ m.pler.sib = <<>> ) }
  IN IF bad = {} THEN <<>>
     ELSE LET i == CHOOSE j \in bad : \A k \in bad : j <= k IN
          <<V("ClaimProofsVerifyAgainstNamedRoot", [index |-> i, leafcount |-> n, got |-> e.imported[i]])>>

(* C02, last sentence: the settled certificates in height order cover blocks 1..lastSettledTo exactly once, in order *)
SettledChainViolations(lg) ==
  LET S == { i \in DOMAIN lg : lg[i].st = "Settled" }
      hs == { lg[i].h : i \in S }
      byH(h) == CHOOSE i \in S : lg[i].h = h
      all == Leaves(l2)
  IN IF S = {} THEN <<>>
     ELSE IF Cardinality(hs) # Cardinality(S) \/ hs # 0..(Cardinality(S) - 1)
     THEN <<V("SettledExactlyOnceInOrder", [heights |-> [i \in S |-> lg[i].h]])>>
     ELSE LET chain == [h \in 0..(Cardinality(S) - 1) |-> lg[byH(h)]]
              bad == { h \in DOMAIN chain :
                         \/ chain[h].to > LastL2 \/ chain[h].from < 1
                         \/ Len(LeavesUpTo(l2, chain[h].from - 1)) + Len(chain[h].exits) > Len(all)
                         \/ chain[h].from # (IF h = 0 THEN 1 ELSE chain[h - 1].to + 1)
                         \/ chain[h].exits # [i \in 1..Len(chain[h].exits) |->
                               LeafName(all[Len(LeavesUpTo(l2, chain[h].from - 1)) + i])]
                         \/ Len(chain[h].exits) # Len(LeavesUpTo(l2, chain[h].to)) - Len(LeavesUpTo(l2, chain[h].from - 1))
                         \/ chain[h].claims # [i \in DOMAIN ClaimsIn(l2, chain[h].from, chain[h].to) |->
                                                    LeafName(PoolById(ClaimsIn(l2, chain[h].from, chain[h].to)[i]).atom)] }
          IN IF bad = {} THEN <<>> ELSE <<V("SettledExactlyOnceInOrder", [badHeights |-> bad])>>

-----------------------------------------------------------------------------
Init ==
  /\ TLCSet(1, 0)
  /\ l = 1 /\ t = 0 /\ l1 = [leaves |-> <<>>] /\ l2 = <<>> /\ ledger = <<>> /\ rows = <<>> /\ rowsBefore = <<>>
  /\ lastTick = [ev |-> "none"] /\ viol = <<>>

Ev(e) == l <= Len(Trace) /\ Trace[l].ev = e
Keep(vs) == UNCHANGED vs

EvReset ==
  /\ Ev("reset")
  /\ t' = Trace[l].t /\ l1' = Trace[l].l1 /\ l2' = <<>> /\ ledger' = <<>> /\ rows' = <<>> /\ rowsBefore' = <<>>
  /\ lastTick' = [ev |-> "none"]
  /\ l' = l + 1 /\ UNCHANGED viol

EvBlock ==
  /\ Ev("block")
  /\ l2' = Append(l2, [num |-> Trace[l].num, leaves |-> Trace[l].leaves, claims |-> Trace[l].claims])
  /\ l' = l + 1 /\ UNCHANGED <<t, l1, ledger, rows, rowsBefore, lastTick, viol>>

(* an L2 reorg of blocks that no settled or undecided certificate covers (environment) *)
EvL2Reorg ==
  /\ Ev("l2reorg")
  /\ l2' = SelectSeq(l2, LAMBDA b : b.num < Trace[l].from)
  /\ l' = l + 1 /\ UNCHANGED <<t, l1, ledger, rows, rowsBefore, lastTick, viol>>

EvSubmit ==
  /\ Ev("submit")
  /\ LET e == Trace[l] IN
     /\ viol' = viol \o (IF e.id # Len(ledger) + 1 THEN <<V("INFRA-LedgerOrder", e.id)>> ELSE <<>>)
                     \o SubmitViolations(e) \o ClaimViolations(e)
     /\ ledger' = Append(ledger, [h |-> e.h, st |-> "Pending", from |-> e.meta.from, to |-> e.meta.from + e.meta.off,
                                  prev |-> e.prev, new |-> e.new, exits |-> e.exits,
                                  claims |-> [i \in DOMAIN e.imported |-> e.imported[i].leaf]])   \* what was really sent
  /\ l' = l + 1 /\ UNCHANGED <<t, l1, l2, rows, rowsBefore, lastTick>>

EvAgMove ==
  /\ Ev("agmove")
  /\ LET e == Trace[l]
         lg == [ledger EXCEPT ![e.id].st = e.st] IN
     /\ ledger' = lg
     /\ viol' = viol \o (IF e.st = "Settled" THEN SettledChainViolations(lg) ELSE <<>>)
  /\ l' = l + 1 /\ UNCHANGED <<t, l1, l2, rows, rowsBefore, lastTick>>

EvTick ==
  /\ Ev("tick")
  /\ lastTick' = Trace[l] /\ rowsBefore' = rows
  /\ l' = l + 1 /\ UNCHANGED <<t, l1, l2, ledger, rows, viol>>

(* C13: a fault-free start-up reconciliation succeeds (the only divergences this environment creates are the node's own
   crashes and the loss of its own DB), and then the node's record of its latest certificate is the Agglayer's *)
EvRestart ==
  /\ Ev("restart")
  /\ lastTick' = Trace[l]
  /\ viol' = viol \o (IF ~Trace[l].ok /\ ~Trace[l].checkfail
                      THEN <<V("RestartReconciles", [err |-> Trace[l].err,
                                 kf |-> IF /\ rows # <<>> /\ ledger # <<>>
                                           /\ (rows[Len(rows)].st = "InError" \/ (rows[Len(rows)].id \in DOMAIN ledger /\ ledger[rows[Len(rows)].id].st = "InError"))
                                           /\ rows[Len(rows)].h = ledger[Len(ledger)].h /\ rows[Len(rows)].id # Len(ledger)
                                        THEN "F4" ELSE "none"])>>
                      ELSE <<>>)
  /\ l' = l + 1 /\ UNCHANGED <<t, l1, l2, ledger, rows, rowsBefore>>

SameButStatus(a, b) == a.h = b.h /\ a.cid = b.cid /\ a.retry = b.retry /\ a.from = b.from /\ a.to = b.to /\ a.prev = b.prev /\ a.new = b.new

EvDb ==
  /\ Ev("db")
  /\ LET e == Trace[l]
         hs == { e.rows[i].h : i \in DOMAIN e.rows }
         v1 == IF Cardinality(hs) # Len(e.rows) THEN <<V("OneCertificatePerHeight", e.rows)>> ELSE <<>>
         \* a certificate row that names a ledger entry agrees with it
         badRows == { i \in DOMAIN e.rows : LET r == e.rows[i] IN
                        r.id \in DOMAIN ledger /\ ~(r.h = ledger[r.id].h /\ r.from = ledger[r.id].from /\ r.to = ledger[r.id].to
                                                    /\ r.new = ledger[r.id].new /\ (r.prev.t = "null" \/ r.prev = ledger[r.id].prev)) }
         v2 == IF badRows # {} THEN <<V("RecordMatchesSubmitted", [rows |-> e.rows, bad |-> badRows])>> ELSE <<>>
         \* a tick whose save failed for good (every attempt returned an error) leaves the previous record intact
         v3 == IF lastTick.ev = "tick" /\ lastTick.saves > 0 /\ lastTick.savefails = lastTick.saves
                  /\ ~(Len(e.rows) = Len(rowsBefore) /\ \A i \in DOMAIN e.rows : SameButStatus(e.rows[i], rowsBefore[i]))
               THEN <<V("FailedWriteLeavesRecordIntact", [before |-> rowsBefore, after |-> e.rows])>> ELSE <<>>
         \* after a successful reconciliation the node's latest record is the Agglayer's latest certificate
         v4 == IF lastTick.ev = "restart" /\ lastTick.ok /\ ledger # <<>>
                  /\ ~(e.rows # <<>> /\ e.rows[Len(e.rows)].id = Len(ledger) /\ e.rows[Len(e.rows)].st = ledger[Len(ledger)].st)
               THEN <<V("ReconciledWithAgglayer", [rows |-> e.rows, latest |-> Len(ledger), status |-> ledger[Len(ledger)].st])>> ELSE <<>>
     IN /\ viol' = viol \o v1 \o v2 \o v3 \o v4
        /\ rows' = e.rows
  /\ lastTick' = [ev |-> "none"]
  /\ l' = l + 1 /\ UNCHANGED <<t, l1, l2, ledger, rowsBefore>>

EvOther ==
  /\ l <= Len(Trace) /\ Trace[l].ev \in {"stop", "losedb", "skip", "finalize"}
  /\ l' = l + 1 /\ UNCHANGED <<t, l1, l2, ledger, rows, rowsBefore, lastTick, viol>>

Finish ==
  /\ l = Len(Trace) + 1
  /\ PrintT(<<"VIOL", ToJson(viol)>>)
  /\ PrintT(<<"DONE", ToJson([lines |-> Len(Trace), traces |-> t])>>)
  /\ l' = l + 1 /\ UNCHANGED <<t, l1, l2, ledger, rows, rowsBefore, lastTick, viol>>

(* an upgraded node: the aggsender database written by an earlier run of the repository's code, opened by the code under test
   (harness/areas/aggsender/persist.go): every getter answers what it answered when the file was written *)
EvPersist ==
  /\ Ev("persist")
  /\ viol' = viol \o (IF Trace[l].want = Trace[l].got THEN <<>>
                      ELSE <<V("StoredCertificatesSurviveUpgrade", [q |-> Trace[l].q, round |-> Trace[l].round,
                                                                     want |-> Trace[l].want, got |-> Trace[l].got])>>)
  /\ l' = l + 1 /\ UNCHANGED <<t, l1, l2, ledger, rows, rowsBefore, lastTick>>

Next == EvPersist \/ EvReset \/ EvBlock \/ EvL2Reorg \/ EvSubmit \/ EvAgMove \/ EvTick \/ EvRestart \/ EvDb \/ EvOther \/ Finish
Spec == Init /\ [][Next]_vars

HW == TLCSet(1, IF l > TLCGet(1) THEN l ELSE TLCGet(1))
Accepted == TLCGet(1) = Len(Trace) + 2
=============================================================================
