\* exhaustive design check (C19), thorough: every byte string over bases 2..5, part sizes 1..4
CONSTANTS
  Bs = {2,3,4,5}
  Ps = {1,2,3,4}
  Slack = 2
INIT Init
NEXT Next
INVARIANTS RoundTrip LayoutOK CanonRoundTrip Agreement TypeOK
CHECK_DEADLOCK FALSE
