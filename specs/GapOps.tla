------------------------------- MODULE GapOps -------------------------------
(* aggsender/types/block_range.go: BlockRange.Gap / CountBlocks / getBlockMinusOne, over machine words of Mod values
   (Mod = 2^64 in the code).  Pure operators, shared by CertCut.tla (TLC, small word widths: every wrap-around is
   enumerated) and GapInd.tla (Apalache, Mod = 2^64: all well-formed ranges at once). *)
EXTENDS Integers

CONSTANT
  \* @type: Int;
  Mod

U(x) == x % Mod                                           \* uint wrap-around
BlockMinusOne(x) == IF x > 0 THEN x - 1 ELSE 0

\* @type: ({from: Int, to: Int}) => Int;
CountBlocks(r) == IF r.from = 0 /\ r.to = 0 THEN 0 ELSE IF r.from > r.to THEN 0 ELSE U(r.to - r.from + 1)

\* @type: ({from: Int, to: Int}, {from: Int, to: Int}) => {from: Int, to: Int};
Gap(a, b) ==
  IF a.to >= BlockMinusOne(b.from) /\ b.to >= BlockMinusOne(a.from) THEN [from |-> 0, to |-> 0]
  ELSE IF a.to < b.from THEN [from |-> U(a.to + 1), to |-> U(b.from - 1)]
  ELSE [from |-> U(b.to + 1), to |-> BlockMinusOne(a.from)]

(* a rewriting that looks equivalent ("lower.to + 1 >= upper.from") but wraps at the top of the word: kept as a refuted
   variant (GapInd.tla!GapWrapCorrect must fail; it is what an independent seeded change of C17 did) *)
\* @type: ({from: Int, to: Int}, {from: Int, to: Int}) => {from: Int, to: Int};
GapWrap(a, b) ==
  IF U(a.to + 1) >= b.from /\ U(b.to + 1) >= a.from THEN [from |-> 0, to |-> 0]
  ELSE IF a.to < b.from THEN [from |-> U(a.to + 1), to |-> U(b.from - 1)]
  ELSE [from |-> U(b.to + 1), to |-> BlockMinusOne(a.from)]
=============================================================================
