\* generated by mkaggcfg.py - aggchain-prover flow: same-range retries, prover-capped ranges, empty certificates
CONSTANTS
  MaxBlocks = 3
  MaxBridges = 1
  MaxCerts = 3
  MaxSteps = 40
  RetryImm = TRUE
  MaxCertBlocks = 0
  CallFailures = TRUE
  Crashes = {}
  StoreFaults = FALSE
  LoseDB = FALSE
  HeaderHasPrev = TRUE
  FixedF4 = "v2"
  Mode = "fep"
INIT Init
NEXT Next
VIEW view
INVARIANT C02
CHECK_DEADLOCK FALSE
