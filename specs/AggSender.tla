-------------------------------- MODULE AggSender --------------------------------
(* Implementation-shaped specification of the certificate send path of aggkit (PP flow):
     aggsender/aggsender.go           sendCertificates (epoch tick / status tick), sendCertificate, saveCertificateToStorage
     aggsender/flows/flow_base.go     GetCertificateBuildParamsInternal, getLastSentBlockAndRetryCount,
                                      getNextHeightAndPreviousLER, getNewLocalExitRoot
     aggsender/flows/flow_pp.go       GetCertificateBuildParams (empty range => nothing to send)
     aggsender/statuschecker/*.go     CheckPendingCertificatesStatus, CheckInitialStatus, initialStatus.process
     aggsender/db                     certificate_info keyed by height (SaveLastSentCertificate replaces the row of that height)
   against a scripted Agglayer that enforces NOTHING (it records what it receives and moves certificates when told).

   Abstraction of data: the L2 history is a sequence of blocks, block b carrying nb[b] bridge exits (claims are handled
   the same way by the code and are left to the replayed traces).  A local exit root is represented by the number of
   leaves of the exit tree it is the root of (the start LER is 0), so "PrevOK" is arithmetic.

   Environment assumptions (DESIGN.md 3.4): E1 an Agglayer call that returns an error had no effect;
   E2 latest settled = the settled certificate with the greatest height; latest pending = the most recently received
   certificate if it is not settled, else none; a header carries prev_local_exit_root iff HeaderHasPrev.
*)
EXTENDS Integers, Sequences, FiniteSets, TLC, Json

CONSTANTS MaxBlocks,        \* L2 blocks 1..MaxBlocks
          MaxBridges,       \* bridge exits per block 0..MaxBridges
          MaxCerts,         \* bound on certificates received by the Agglayer
          MaxSteps,         \* bound on the length of a behaviour
          RetryImm,         \* cfg.RetryCertAfterInError
          MaxCertBlocks,    \* size limit expressed in blocks (0 = unlimited); exact size arithmetic is CertCut.tla's business
          CallFailures,     \* may Agglayer calls fail?
          Crashes,          \* crash points explored: subset of {"before_submit", "after_submit", "after_store"}
          StoreFaults,      \* may a SaveLastSentCertificate attempt fail (it is retried)?
          LoseDB,           \* may the certificate DB be lost while the node is down?
          HeaderHasPrev,    \* Agglayer headers carry prev_local_exit_root
          Mode,             \* "pp": PPFlow (retry covers [from, synced], empty ranges are not certified)
                            \* "fep": AggchainProverFlow (retry resends exactly the InError range; a new range ends where the prover's
                            \*        proof ends; empty certificates are sent)
          FixedF4           \* start-up reconciliation: "no" = as found (finding F4), "v1" = first repair attempt (adopts the
                            \* Agglayer's replacement with retry count 0: later save collides in the history table), "v2" = the repair

VARIABLES l2,      \* sequence of blocks: l2[b] = number of bridge exits in block b
          synced,  \* last L2 block processed by the bridge syncer
          ag,      \* Agglayer ledger, in order of reception: [h, st, from, to, prev, new]
          db,      \* certificate_info: function height -> [id, st, from, to, prev, new, retry]; id indexes ag, prev = -1 is NULL
          histT,   \* certificate_info_history: set of <<height, retry>> (its primary key); rows are moved there when replaced
          up,      \* node process is running
          ready,   \* CheckInitialStatus has succeeded since the last start
          steps,
          hist

vars == <<l2, synced, ag, db, histT, up, ready, steps, hist>>
view == <<l2, synced, ag, db, histT, up, ready>>

Open(st)   == st \in {"Pending", "Proven", "Candidate"}
Closed(st) == ~Open(st)

Init ==
  /\ l2 = <<>> /\ synced = 0 /\ ag = <<>> /\ db = <<>> /\ histT = {} /\ up = TRUE /\ ready = TRUE /\ steps = 0 /\ hist = <<>>

Step(e) == /\ steps < MaxSteps /\ steps' = steps + 1 /\ hist' = Append(hist, e)

-----------------------------------------------------------------------------
(* L2 side *)
RECURSIVE SumTo(_, _)
SumTo(s, n) == IF n = 0 THEN 0 ELSE s[n] + SumTo(s, n - 1)
Leaves(b) == SumTo(l2, b)                      \* exit-tree leaves up to and including block b
Exits(from, to) == Leaves(to) - Leaves(from - 1)

NewBlock(nb) ==
  /\ Len(l2) < MaxBlocks
  /\ l2' = Append(l2, nb) /\ synced' = Len(l2) + 1
  /\ Step([a |-> "block", nb |-> nb])
  /\ UNCHANGED <<ag, db, histT, up, ready>>

-----------------------------------------------------------------------------
(* Agglayer side *)
SettledIdx == { i \in DOMAIN ag : ag[i].st = "Settled" }
LatestSettled == IF SettledIdx = {} THEN 0
                 ELSE CHOOSE i \in SettledIdx : \A j \in SettledIdx : ag[j].h < ag[i].h \/ (ag[j].h = ag[i].h /\ j <= i)
LatestPending == IF ag # <<>> /\ ag[Len(ag)].st # "Settled" THEN Len(ag) ELSE 0

AgMove(i, st) ==
  /\ i \in DOMAIN ag
  /\ \/ ag[i].st = "Pending" /\ st \in {"Proven", "InError"}
     \/ ag[i].st = "Proven" /\ st \in {"Candidate", "InError"}
     \/ ag[i].st = "Candidate" /\ st \in {"Settled", "InError"}
  /\ ag' = [ag EXCEPT ![i].st = st]
  /\ Step([a |-> "agmove", id |-> i, st |-> st])
  /\ UNCHANGED <<l2, synced, db, histT, up, ready>>

-----------------------------------------------------------------------------
(* local DB *)
Heights == DOMAIN db
LastH == IF db = <<>> THEN -1 ELSE CHOOSE h \in Heights : \A k \in Heights : k <= h
Last == db[LastH]
(* SaveLastSentCertificate: the row of that height (if any) is first moved to the history table, whose primary key is
   (height, retry_count): the move - and with it the whole save - fails if that key is already there *)
SaveOK(d, ht, h) == ~(h \in DOMAIN d /\ <<h, d[h].retry>> \in ht)
DbPut(d, h, row) == (h :> row) @@ d
HistPut(d, ht, h) == IF h \in DOMAIN d THEN ht \cup {<<h, d[h].retry>>} ELSE ht

(* CheckPendingCertificatesStatus: walks the local non-closed certificates in height order; `fail` = the first Agglayer
   call fails.  Returns [db, pending, newInError]. *)
RECURSIVE CheckFrom(_, _, _)
CheckFrom(d, hs, acc) ==
  IF hs = {} THEN [db |-> d, pending |-> acc.pending, newInError |-> acc.newInError]
  ELSE LET h == CHOOSE x \in hs : \A y \in hs : x <= y
           row == d[h]
           st == IF row.id \in DOMAIN ag THEN ag[row.id].st ELSE row.st
           d2 == [d EXCEPT ![h].st = st]
       IN CheckFrom(d2, hs \ {h}, [pending |-> acc.pending \/ Open(st), newInError |-> acc.newInError \/ st = "InError"])
CheckPending(fail) ==
  LET open == { h \in Heights : Open(db[h].st) } IN
  IF fail /\ open # {} THEN [db |-> db, pending |-> TRUE, newInError |-> FALSE]
  ELSE CheckFrom(db, open, [pending |-> FALSE, newInError |-> FALSE])

-----------------------------------------------------------------------------
(* building the next certificate from the local view d (flow_base.go) *)
NoCert == [none |-> TRUE]
NextCert(d, pe) ==     \* pe: the block at which the prover's proof ends (fep; 0 = as requested)
  LET has  == d # <<>>
      lh   == IF has THEN CHOOSE h \in DOMAIN d : \A k \in DOMAIN d : k <= h ELSE -1
      last == d[lh]
      inErr == has /\ last.st = "InError"
      sameRange == Mode = "fep" /\ inErr                                 \* fep: "resending the same InError certificate"
      prevTo == IF ~has THEN 0 ELSE IF inErr /\ last.from > 0 THEN last.from - 1 ELSE last.to
      retry  == IF inErr THEN last.retry + 1 ELSE 0
      from == prevTo + 1
      to0 == IF sameRange THEN last.to ELSE synced
      to1 == IF MaxCertBlocks > 0 /\ to0 - from + 1 > MaxCertBlocks THEN from + MaxCertBlocks - 1 ELSE to0
      to  == IF Mode = "fep" /\ ~sameRange /\ pe >= from /\ pe < to1 THEN pe ELSE to1      \* adjustBlockRange
  IN IF ~sameRange /\ prevTo >= synced THEN NoCert                    \* errNoNewBlocks
     ELSE IF Mode = "pp" /\ Exits(from, to) = 0 THEN NoCert            \* PPFlow: nothing to certify in the range
     ELSE IF has /\ Open(last.st) THEN [err |-> "last certificate not closed"]
     ELSE LET height == IF ~has THEN 0 ELSE IF inErr THEN last.h ELSE last.h + 1
              prev == IF ~has THEN 0
                      ELSE IF ~inErr THEN last.new
                      ELSE IF last.prev >= 0 THEN last.prev
                      ELSE IF last.h = 0 THEN 0
                      ELSE IF (last.h - 1) \in DOMAIN d /\ d[last.h - 1].st = "Settled" THEN d[last.h - 1].new ELSE -2
          IN IF prev = -2 THEN [err |-> "no settled predecessor"]
             ELSE [h |-> height, from |-> from, to |-> to, prev |-> prev, new |-> Leaves(to), retry |-> retry]

IsCert(c) == "h" \in DOMAIN c

(* sendCertificate with outcome o *)
SendCert(d, o, pe) ==
  LET c == NextCert(d, pe) IN
  IF ~IsCert(c) \/ o = "sendfail" \/ o = "crash_before_submit"
  THEN [ag |-> ag, db |-> d, ht |-> histT, crashed |-> IsCert(c) /\ o = "crash_before_submit", sent |-> FALSE]
  ELSE LET ag2 == Append(ag, [h |-> c.h, st |-> "Pending", from |-> c.from, to |-> c.to, prev |-> c.prev, new |-> c.new])
           row == [id |-> Len(ag2), h |-> c.h, st |-> "Pending", from |-> c.from, to |-> c.to, prev |-> c.prev, new |-> c.new,
                   retry |-> c.retry]
       IN IF o = "crash_after_submit" THEN [ag |-> ag2, db |-> d, ht |-> histT, crashed |-> TRUE, sent |-> TRUE]
          ELSE IF ~SaveOK(d, histT, c.h) THEN [ag |-> ag2, db |-> d, ht |-> histT, crashed |-> FALSE, sent |-> TRUE]  \* every retry of the save fails
          ELSE [ag |-> ag2, db |-> DbPut(d, c.h, row), ht |-> HistPut(d, histT, c.h), crashed |-> o = "crash_after_store", sent |-> TRUE]

Outcomes == {"ok"} \cup (IF CallFailures THEN {"sendfail"} ELSE {})
                   \cup { "crash_" \o c : c \in Crashes }

Tick(kind, checkFails, o, pe) ==
  /\ up /\ ready
  /\ Len(ag) < MaxCerts \/ o = "ok"
  /\ LET r == CheckPending(checkFails)
         doSend == IF kind = "epoch" THEN ~r.pending ELSE (~r.pending /\ r.newInError /\ RetryImm)
         s == IF doSend THEN SendCert(r.db, o, pe) ELSE [ag |-> ag, db |-> r.db, ht |-> histT, crashed |-> FALSE, sent |-> FALSE]
     IN /\ Len(s.ag) <= MaxCerts
        /\ (o # "ok" => doSend /\ IsCert(NextCert(r.db, pe)))   \* a fault is only explored where it can strike
        /\ (pe # 0 => doSend /\ IsCert(NextCert(r.db, pe)) /\ NextCert(r.db, pe).to = pe)   \* a prover cap only where it bites
        /\ ag' = s.ag /\ db' = s.db /\ histT' = s.ht
        /\ up' = ~s.crashed /\ ready' = (ready /\ ~s.crashed)
        \* the model's own prediction travels with the exported behaviour (conformance of this specification with the code is
        \* measured on it: checks/aggsender_common.py, evidence field model_conformance)
        /\ Step([a |-> "tick", kind |-> kind, checkfail |-> checkFails, o |-> o, pe |-> pe,
                 exp |-> [sent |-> s.sent, h |-> IF s.sent THEN s.ag[Len(s.ag)].h ELSE -1]])
  /\ UNCHANGED <<l2, synced>>

-----------------------------------------------------------------------------
(* start-up reconciliation: CheckInitialStatus = CheckPending + initialStatus.process + action (one attempt) *)
HeaderOf(i) == ag[i]
Recovered(i, retry) ==   \* newCertificateInfoFromAgglayerCertHeader: from/to from the metadata, prev from the header (may be NULL)
  [id |-> i, h |-> ag[i].h, st |-> ag[i].st, from |-> ag[i].from, to |-> ag[i].to,
   prev |-> IF HeaderHasPrev THEN ag[i].prev ELSE -1, new |-> ag[i].new, retry |-> retry]

Reconcile(d) ==   \* returns [ok, db]
  LET s == LatestSettled  p == LatestPending
      local == d # <<>>
      lh == IF local THEN CHOOSE h \in DOMAIN d : \A k \in DOMAIN d : k <= h ELSE -1
      refuse == [ok |-> FALSE, db |-> d, ht |-> histT]
      \* the recovered certificate is stored with retry count 0, or (repair v2) as a retry of the local one it replaces
      insertR(i, retry) == IF SaveOK(d, histT, ag[i].h)
                           THEN [ok |-> TRUE, db |-> DbPut(d, ag[i].h, Recovered(i, retry)), ht |-> HistPut(d, histT, ag[i].h)]
                           ELSE refuse
      insert(i) == insertR(i, 0)
  IN
  \* checkAgglayerConsistenceCerts
  IF p # 0 /\ s = 0 /\ ag[p].st # "InError" /\ ag[p].h # 0 THEN refuse
  ELSE IF p # 0 /\ s # 0 /\ ag[p].h = ag[s].h THEN refuse
  ELSE IF p # 0 /\ s # 0 /\ ag[s].h > ag[p].h THEN refuse
  ELSE IF ~local /\ s = 0 /\ p # 0 /\ ag[p].h = 0 THEN insert(p)
  ELSE IF ~local /\ s = 0 /\ p # 0 /\ ag[p].st = "InError" /\ ag[p].h > 0 THEN [ok |-> TRUE, db |-> d, ht |-> histT]
  ELSE LET a == IF p # 0 THEN p ELSE s IN
       IF ~local /\ a = 0 THEN [ok |-> TRUE, db |-> d, ht |-> histT]
       ELSE IF ~local THEN insert(a)
       ELSE IF a = 0 THEN refuse
       ELSE IF ag[a].h < lh THEN refuse
       ELSE IF ag[a].h = lh + 1 THEN insert(a)
       ELSE IF ag[a].h > lh + 1 THEN refuse                         \* falls into CASE 4 (ids differ)
       ELSE IF d[lh].id = a THEN [ok |-> TRUE, db |-> [d EXCEPT ![lh].st = ag[a].st], ht |-> histT]
       ELSE IF FixedF4 = "v1" /\ d[lh].st = "InError" THEN insert(a)   \* first repair: adopt the replacement the Agglayer holds
       ELSE IF FixedF4 = "v2" /\ d[lh].st = "InError" THEN insertR(a, d[lh].retry + 1)   \* ... as a retry of the local one
       ELSE refuse                                                  \* CASE 4 "Local certificate is different ..."

Crash ==    \* the process can also simply stop between iterations
  /\ up /\ "after_store" \in Crashes
  /\ up' = FALSE /\ ready' = FALSE
  /\ Step([a |-> "stop"])
  /\ UNCHANGED <<l2, synced, ag, db, histT>>

DbLoss ==
  /\ ~up /\ LoseDB /\ db # <<>>
  /\ db' = <<>> /\ histT' = {}
  /\ Step([a |-> "losedb"])
  /\ UNCHANGED <<l2, synced, ag, up, ready>>

Restart(checkFails) ==
  /\ \/ ~up
     \/ (up /\ ~ready)                       \* CheckInitialStatus retries
  /\ LET r == CheckPending(checkFails)
         rec == IF checkFails THEN [ok |-> FALSE, db |-> r.db, ht |-> histT] ELSE Reconcile(r.db)
     IN /\ db' = rec.db /\ histT' = rec.ht /\ ready' = rec.ok
  /\ up' = TRUE
  /\ Step([a |-> "restart", checkfail |-> checkFails])
  /\ UNCHANGED <<l2, synced, ag>>

Next ==
  \/ \E nb \in 0..MaxBridges : NewBlock(nb)
  \/ \E i \in DOMAIN ag, st \in {"Proven", "Candidate", "Settled", "InError"} : AgMove(i, st)
  \/ \E k \in {"epoch", "status"}, f \in (IF CallFailures THEN BOOLEAN ELSE {FALSE}), o \in Outcomes,
        pe \in (IF Mode = "fep" THEN 0..MaxBlocks ELSE {0}) : Tick(k, f, o, pe)
  \/ Crash \/ DbLoss
  \/ \E f \in (IF CallFailures THEN BOOLEAN ELSE {FALSE}) : Restart(f)

Spec == Init /\ [][Next]_vars

-----------------------------------------------------------------------------
(* C02 / C13 as invariants over the ledger of what the Agglayer RECEIVED *)
SettledBefore(i) ==      \* latest settled certificate among those received before i (as of now: statuses only move forward)
  LET S == { j \in 1..(i - 1) : ag[j].st = "Settled" } IN
  IF S = {} THEN 0 ELSE CHOOSE j \in S : \A k \in S : ag[k].h <= ag[j].h

(* the certificate that i replaces: the latest earlier certificate of the same height that ended InError *)
Replaced(i) ==
  LET R == { j \in 1..(i - 1) : ag[j].h = ag[i].h /\ ag[j].st = "InError" } IN
  IF R = {} THEN 0 ELSE CHOOSE j \in R : \A k \in R : k <= j

HeightOK == \A i \in DOMAIN ag : LET s == SettledBefore(i) IN ag[i].h = IF s = 0 THEN 0 ELSE ag[s].h + 1
PrevOK   == \A i \in DOMAIN ag : LET s == SettledBefore(i) IN ag[i].prev = IF s = 0 THEN 0 ELSE ag[s].new
FromOK   == \A i \in DOMAIN ag : LET s == SettledBefore(i) r == Replaced(i) IN
              IF r # 0 THEN ag[i].from = ag[r].from
              ELSE ag[i].from = (IF s = 0 THEN 0 ELSE ag[s].to) + 1
NewOK    == \A i \in DOMAIN ag : ag[i].new = Leaves(ag[i].to) /\ ag[i].to >= ag[i].from
(* never submitted while an earlier one is undecided: when i was received every earlier one was closed.  Statuses only
   move forward, so "j is open now" implies "j was open when i > j arrived" *)
NoOverlap == \A i \in DOMAIN ag : \A j \in 1..(i - 1) : Closed(ag[j].st)
(* settled certificates, in height order, cover the blocks 1..lastSettledTo exactly once *)
SettledChain ==
  LET S == SettledIdx IN
  /\ \A i, j \in S : i # j => ag[i].h # ag[j].h
  /\ \A i \in S : IF ag[i].h = 0 THEN ag[i].from = 1 /\ ag[i].prev = 0
                  ELSE \E j \in S : ag[j].h = ag[i].h - 1 /\ ag[i].from = ag[j].to + 1 /\ ag[i].prev = ag[j].new
OnePerHeight == TRUE   \* db is a function of height by construction (PRIMARY KEY (height))

(* SettledBefore/Replaced are evaluated on the CURRENT statuses; a certificate submitted while its predecessor was still
   open is caught by NoOverlap, so under NoOverlap the current statuses of earlier certificates are their final ones *)
C02 == HeightOK /\ PrevOK /\ FromOK /\ NewOK /\ NoOverlap /\ SettledChain

(* C13: after a restart completed (ready), the local view leads to a correct next certificate or the node refuses *)
(* finding F4: the node is down/refusing for ever although the divergence is explained by one crash of this node *)
StuckAfterOwnCrash ==
  /\ up /\ ~ready
  /\ db # <<>> /\ LatestPending # 0
  /\ Last.st = "InError" /\ ag[LatestPending].h = LastH /\ Last.id # LatestPending
F4Free == ~StuckAfterOwnCrash \/ ~ENABLED Restart(FALSE) \/ Reconcile(CheckPending(FALSE).db).ok

(* every divergence the environment can produce here (own crashes, own DB loss) is reconcilable: a fault-free restart
   attempt never refuses.  (With FixedF4 = FALSE this fails exactly in the F4 situation.) *)
NeverRefuses == (~up \/ ~ready) => Reconcile(CheckPending(FALSE).db).ok

-----------------------------------------------------------------------------
Dump == PrintT(<<"CASE", ToJson([cfg |-> [retryimm |-> RetryImm, maxblocks |-> MaxCertBlocks, hasprev |-> HeaderHasPrev, mode |-> Mode], steps |-> hist'])>>)
=============================================================================
