\* C12 across reorgs of the stores: remembered lookups, emptied on reorg
CONSTANTS
  H = 2
  MaxDeps = 3
  MaxL2 = 1
  MaxInfos = 3
  MaxBlocks = 3
  MaxVer = 0
  Ours = 1
  Others = {}
  AllowSkipped = FALSE
  Variant = "code"
  Memo = "drop"
INIT InitRe
NEXT NextRe
INVARIANT InvR
CHECK_DEADLOCK FALSE
