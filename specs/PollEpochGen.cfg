\* behaviour export (edge cover), reordering allowed so that the real notifier is also fed non-monotone deliveries
CONSTANTS
  Ns = {1,2,3}
  Starts = {0,1}
  Ps = {0,50,99}
  Epochs = 2
  MaxPolls = 4
  MaxErrs = 1
  MaxInflight = 2
  Reorder = TRUE
  SlowSub = FALSE
INIT Init
NEXT Next
VIEW view
ACTION_CONSTRAINT Dump
CHECK_DEADLOCK FALSE
