------------------------------- MODULE GlobalIndex -------------------------------
(* Implementation-shaped specification of the global-index codec of aggkit and of the path a claim's global index
   takes through the aggsender (C19).

   Integers are modelled the way the code handles them: as big-endian byte strings.  A "byte" is a digit of a small
   base B (so that TLC can enumerate every zero / non-zero byte pattern), a part (rollup index, leaf index) has P bytes
   (4 in the code), the commitment / wire width is W bytes (32 in the code).

     bridgesync/processor.go   GenerateGlobalIndex   -> Encode   (flag byte || rollup(P) || leaf(P); big.Int.SetBytes +
                                                                  big.Int.Bytes() strip the leading zero bytes)
     bridgesync/processor.go   DecodeGlobalIndex     -> Decode   (purely length-based: l = MaxSize <=> mainnet)
     common/common.go          BytesToUint32         -> BytesToUint (left-pads short slices)
     common/common.go          BigIntToLittleEndianBytes -> LE   (reverse, zero-padded to W, longer input cut)
     go-ethereum common.BigToHash                    -> BE       (left-padded to W, longer input cut from the left)

   The bridge contract's layout is written arithmetically (Layout); it is the only place where numbers are numbers.

   One behaviour = one claim:
     Claim     the chain emits the canonical global index of (m, r, l): gi = minimal big-endian bytes of Layout
     Convert   flow_base.ConvertClaimToImportedBridgeExit: ibe = Decode(gi)
     Consume   the certificate is built and handed on: certificate JSON (the triple), the signed commitment
               (GlobalIndex.Hash / FEPHashToSign input = LE(Encode(ibe))), the wire message and the prover request
               (BE(Encode(ibe))), the optimistic commitment (LE(gi), straight from the claim)
*)
EXTENDS Integers, Sequences, FiniteSets, TLC, Json

CONSTANTS Bs,        \* bases ("byte" = digit 0..B-1)
          Ps,        \* part sizes in bytes
          Slack      \* W = MaxSize + Slack  (commitment / wire width)

VARIABLES B, P,                 \* configuration (constant along a behaviour)
          m, r, l,              \* the triple: flag, rollup bytes, leaf bytes (sequences of P digits)
          stage,                \* "input" -> "claim" -> "ibe" -> "done"
          gi,                   \* claim.GlobalIndex as big.Int bytes
          ibe,                  \* <<mainnetFlag, rollupIndex, leafIndex>> of the imported bridge exit
          json, commit, wire, prover, opt    \* what each consumer carries

vars == <<B, P, m, r, l, stage, gi, ibe, json, commit, wire, prover, opt>>

MaxSize == 2 * P + 1           \* globalIndexMaxSize = 9
W       == MaxSize + Slack     \* common.HashLength = 32

-----------------------------------------------------------------------------
(* byte-string helpers *)
Max(a, b) == IF a > b THEN a ELSE b
Min(a, b) == IF a < b THEN a ELSE b
RECURSIVE Pow(_, _)
Pow(b, e) == IF e = 0 THEN 1 ELSE b * Pow(b, e - 1)
Zeros(n)  == [i \in 1..n |-> 0]

(* big.Int.SetBytes(s).Bytes(): the minimal big-endian representation *)
Strip(s) == LET nz == {i \in 1..Len(s) : s[i] # 0}
            IN IF nz = {} THEN <<>> ELSE SubSeq(s, CHOOSE i \in nz : \A j \in nz : i <= j, Len(s))

RECURSIVE Val(_)               \* value of a big-endian byte string
Val(s) == IF s = <<>> THEN 0 ELSE Val(SubSeq(s, 1, Len(s) - 1)) * B + s[Len(s)]
LEVal(s) == Val([i \in 1..Len(s) |-> s[Len(s) + 1 - i]])

(* new(big.Int).SetUint64(v).FillBytes(buf[:n]) *)
FillBytes(v, n) == [i \in 1..n |-> (v \div Pow(B, n - i)) % B]

-----------------------------------------------------------------------------
(* the code *)

(* GenerateGlobalIndex(mainnetFlag, rollupIndex, localExitRootIndex) on byte strings *)
EncodeB(mf, rb, lb) == Strip(IF mf THEN <<1>> \o Zeros(P) \o lb ELSE rb \o lb)
(* ... and on the uint32 values of an agglayertypes.GlobalIndex *)
EncodeT(t) == EncodeB(t[1], FillBytes(t[2], P), FillBytes(t[3], P))

(* BytesToUint32: panics above P bytes, left-pads below *)
BytesToUint(s) == IF Len(s) > P THEN -1 ELSE Val(s)

(* DecodeGlobalIndex *)
Decode(b) ==
  LET n == Len(b) IN
  IF n = 0 THEN <<FALSE, 0, 0>>
  ELSE LET mf == (n = MaxSize)
           lf == Max(n - P, 0)
           rf == Max(lf - P, 0)
       IN <<mf, BytesToUint(SubSeq(b, rf + 1, lf)), BytesToUint(SubSeq(b, lf + 1, n))>>

(* BigIntToLittleEndianBytes: for i < len(be) && i < W: le[i] = be[len-1-i] *)
LE(b) == [i \in 1..W |-> IF i <= Len(b) THEN b[Len(b) + 1 - i] ELSE 0]
(* common.BigToHash(x).Bytes() *)
BE(b) == IF Len(b) >= W THEN SubSeq(b, Len(b) - W + 1, Len(b)) ELSE Zeros(W - Len(b)) \o b

-----------------------------------------------------------------------------
(* the bridge contract: globalIndex = (mainnet ? 2^64 : 0) | rollupIndex << 32 | leafIndex, rollup bits zero on mainnet *)
Layout(mf, rv, lv) == (IF mf THEN Pow(B, 2 * P) ELSE 0) + (IF mf THEN 0 ELSE rv) * Pow(B, P) + lv
Canon(mf, rv, lv)  == <<mf, IF mf THEN 0 ELSE rv, lv>>

-----------------------------------------------------------------------------
None == <<>>

Init ==
  /\ B \in Bs /\ P \in Ps
  /\ m \in BOOLEAN /\ r \in [1..P -> 0..(B - 1)] /\ l \in [1..P -> 0..(B - 1)]
  /\ stage = "input"
  /\ gi = None /\ ibe = None /\ json = None /\ commit = None /\ wire = None /\ prover = None /\ opt = None

Claim ==
  /\ stage = "input" /\ stage' = "claim"
  /\ gi' = Strip(FillBytes(Layout(m, Val(r), Val(l)), MaxSize))
  /\ UNCHANGED <<B, P, m, r, l, ibe, json, commit, wire, prover, opt>>

Convert ==
  /\ stage = "claim" /\ stage' = "ibe"
  /\ ibe' = Decode(gi)
  /\ UNCHANGED <<B, P, m, r, l, gi, json, commit, wire, prover, opt>>

Consume ==
  /\ stage = "ibe" /\ stage' = "done"
  /\ json' = ibe
  /\ commit' = LE(EncodeT(ibe))
  /\ wire' = BE(EncodeT(ibe))
  /\ prover' = BE(EncodeT(ibe))
  /\ opt' = LE(gi)
  /\ UNCHANGED <<B, P, m, r, l, gi, ibe>>

Next == Claim \/ Convert \/ Consume
Spec == Init /\ [][Next]_vars

-----------------------------------------------------------------------------
(* C19 as invariants of the design *)

(* composing and decomposing returns the triple (rollup index 0 for mainnet) *)
RoundTrip == Decode(EncodeB(m, r, l)) = Canon(m, Val(r), Val(l))

(* the composed value has the contract's layout and never exceeds MaxSize bytes *)
LayoutOK == /\ Val(EncodeB(m, r, l)) = Layout(m, Val(r), Val(l))
            /\ Len(EncodeB(m, r, l)) <= MaxSize

(* canonical on-chain values survive decode -> encode *)
CanonRoundTrip == stage \in {"ibe", "done"} => /\ ibe = Canon(m, Val(r), Val(l))
                                               /\ EncodeT(ibe) = gi

(* every consumer carries the claim's value *)
Agreement == stage = "done" =>
  LET g == Layout(m, Val(r), Val(l)) IN
  /\ json = Canon(m, Val(r), Val(l))
  /\ Len(commit) = W /\ LEVal(commit) = g
  /\ Len(wire) = W /\ Val(wire) = g
  /\ Len(prover) = W /\ Val(prover) = g
  /\ Len(opt) = W /\ LEVal(opt) = g

TypeOK == /\ stage \in {"input", "claim", "ibe", "done"}
          /\ stage # "input" => Val(gi) = Layout(m, Val(r), Val(l))

-----------------------------------------------------------------------------
(* case export: one line per zero / non-zero byte pattern (printed on the Claim transition) *)
Dump == stage = "input" => PrintT(<<"CASE", ToJson([m |-> m, r |-> r, l |-> l, n |-> Len(EncodeB(m, r, l))])>>)
=============================================================================
