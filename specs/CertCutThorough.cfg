\* exhaustive design check (C17), thorough tier: 4-bit block numbers (0..15 with wrap-around), every certificate of 1..4
\* blocks anywhere, 6 block-content classes, every size threshold, every last-block limit, retry / resize /
\* require-one-bridge flags, every Range request, every pair of ranges for Gap
CONSTANTS
  W = 4
  Froms = {0,1,2,3,4,5,6,7,8,9,10,11,12,13,14,15}
  MaxLen = 4
  NContent = 6
  Kinds = {"size","limit","range","gap"}
INIT Init
NEXT Next
INVARIANTS SizeCutCorrect SizeCutTotal LimitCutCorrect LimitRefusals RangeCorrect GapCorrect
CHECK_DEADLOCK FALSE
