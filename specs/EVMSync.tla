--------------------------------- MODULE EVMSync ---------------------------------
(* Implementation-shaped specification of the EVM syncer stack of agglayer/aggkit (C05, C06):

     sync/evmdownloader.go   EVMDownloader.Download + EVMDownloaderImplementation (cursor arithmetic as coded)
     sync/evmdriver.go       EVMDriver.Sync / handleNewBlock / handleReorg
     reorgdetector/*.go      AddBlockToTrack, detectReorgInTrackedList (tick, compare each, notify, wait ack, remove range),
                             tracked lists in memory and in SQLite, loadTrackedHeaders on start

   One action = one gated step of the real code (harness/areas/evmsync): an RPC of the downloader or of the detector,
   a call of the driver into the detector / the processor, a hand-over on one of the three channels
   (downloadedCh, ReorgedBlock, ReorgProcessed), or a move of the environment (Mine, Finalize, Fork, Restart).

   Chain.  Blocks 1..tip; a fork replaces a suffix b..tip and adds one block, forks are numbered 1..MaxForks and fp[k] is
   the fork point of fork k (fp[0] = 1).  The version of a block = the number of the last fork that replaced it (or that
   was current when it was mined), so <<n, version>> identifies a block hash, and the version of an ancestor b of a
   block with version v is max{ j <= v : fp[j] <= b }.  H[v][n] \in {0,1}: block n in version v carries watched logs
   (the replay decorates: several logs, unwatched topics, other addresses, removed logs).

   Switches around finding F6 (repaired in /repo by "fix: reorgdetector keeps a subscriber's tracked blocks locked ..."):
   the code as repaired is AtomicRemove = FALSE /\ LockedRemove = TRUE (the removal is a step of its own after the ack, the
   tracked list is locked from the accepted notification until it is done); the code before the repair is LockedRemove =
   FALSE (EVMSyncF6probe.cfg: RewindLow fails); RemoveByHash is a repair that TLC refutes (EVMSyncF6byhash.cfg).
   Historical note - AtomicRemove = FALSE was the code as written (F6: the range removal runs after the
   driver was released; EVMSyncF6probe.cfg, RewindLow violated); RetryLimit is MaxRetryCountBlockHashMismatch (5 in the
   code; F7 needs RetryLimit+1 forks inside one range query; EVMSyncF7probe.cfg with RetryLimit = 0, Faithful violated).
   The explored configurations model the repaired code and fewer than RetryLimit+1 forks; the F6 schedule (now a
   regression behaviour: its "track before the removal" step must be refused by the lock) and the F7 counterexample are
   replayed on the real code by checks/C06.py.

   Configurations: EVMSyncC05*.cfg / EVMSyncC06*.cfg exhaustive; EVMSyncGen*.cfg edge-cover export (ACTION_CONSTRAINT Dump);
   EVMSyncSim*.cfg random walks (tlc -simulate, biased by NoIdle / FinLag / four fork-content patterns).
*)
EXTENDS Integers, Sequences, FiniteSets, TLC, Json

CONSTANTS N,            \* chain height bound
          Chunks,       \* syncBlockChunkSize values (chosen in Init)
          TipTags,      \* subset of {"latest","finalized"}: the finality the downloader syncs up to (chosen in Init)
          BufCap,       \* capacity of downloadedCh
          MaxForks, MaxFails, MaxPFails, MaxRestarts,
          Detector,     \* TRUE: the detector's ticks are scheduled
          RetryLimit,   \* MaxRetryCountBlockHashMismatch
          AtomicRemove, \* TRUE: nothing is scheduled between the ack and the detector's range removal
          RemoveByHash, \* TRUE (a repair of F6 that TLC refutes, EVMSyncF6byhash.cfg): after the ack the detector removes exactly
                        \* the entries it compared (number and hash of its snapshot) - a block re-tracked with the same hash is lost
          InconsOnFault,\* TRUE (the bridge processor before the repair of F13): a failing ProcessBlock answers "inconsistent state"
                        \* without having halted; the driver then cancels the downloader and drops the block, but still takes
                        \* what is buffered in its channel (EVMSyncF13probe.cfg: NoSkip fails)
          LockedRemove, \* TRUE (the repair of F6): the subscriber's tracked list stays locked from the moment the subscriber took the
                        \* notification until the range is removed, so AddBlockToTrack waits for the removal
          Contents,     \* subset of {0,1}: possible contents of a new block
          FinLag,       \* finalization keeps at least this many blocks unfinalized (0 in exhaustive runs; biases random walks)
          NoIdle,       \* TRUE (random walks): polls without news and ticks without tracked blocks are not scheduled
          SimDepth      \* 0: dump one full path per transition (edge cover); > 0 (-simulate, one worker): dump step by step

VARIABLES chunk, tag,                  \* configuration
          tip, fin, nforks, fp, H,     \* chain
          dl, ch, drv, store,          \* downloader, downloadedCh, driver, processor rows
          mem, db, rd,                 \* detector: tracked list in memory / in SQLite, loop state
          fails, pfails, restarts,     \* budgets
          lastReorg,                   \* ghost: what the last Reorg call did
          hist                         \* behaviour history for export (hidden by VIEW)

vars == <<chunk, tag, tip, fin, nforks, fp, H, dl, ch, drv, store, mem, db, rd, fails, pfails, restarts, lastReorg, hist>>
view == <<chunk, tag, tip, fin, nforks, fp, H, dl, ch, drv, store, mem, db, rd, fails, pfails, restarts, lastReorg>>

Min(a, b) == IF a < b THEN a ELSE b
MaxOf(S)  == CHOOSE x \in S : \A y \in S : y <= x

-----------------------------------------------------------------------------
(* chain *)
Ver(n)        == MaxOf({j \in 0..MaxForks : fp[j] <= n})          \* canonical version of block n (n <= tip)
PrefVer(v, b) == MaxOf({j \in 0..v : fp[j] <= b})                 \* version of ancestor b of a block of version v
Has(n)        == H[Ver(n)][n] = 1
TipView       == IF tag = "finalized" THEN fin ELSE tip            \* what HeaderByNumber(<block finality>) shows
Canon(n, v)   == n <= tip /\ v = Ver(n)

-----------------------------------------------------------------------------
(* records *)
NoBlk == [n |-> 0, v |-> 0, e |-> 0, f |-> FALSE]
NewDl(from) == [pc |-> "wait0", from |-> from, to |-> 0, last |-> 0, top |-> FALSE, lfin |-> 0, req |-> 0,
                resp |-> <<>>, idx |-> 0, retry |-> 0, out |-> <<>>, em |-> 0]
OffDl  == [NewDl(0) EXCEPT !.pc = "off"]
IdleDrv == [pc |-> "idle", cur |-> NoBlk, rb |-> 0]
IdleRd  == [pc |-> "tick", rfin |-> 0, snap |-> <<>>, idx |-> 0, from |-> 0, to |-> 0]
LastProcessed(s) == IF s = <<>> THEN 0 ELSE s[Len(s)].n

(* gate keys: where each goroutine waits after a step (the replay scheduler compares them with the real arrivals) *)
DlKey(d) == CASE d.pc \in {"wait0", "wait"} -> "tip"
              [] d.pc = "fin"   -> "fin"
              [] d.pc = "logs"  -> "logs:" \o ToString(d.from) \o ":" \o ToString(d.req)
              [] d.pc = "hdr"   -> "hdr:" \o ToString(d.resp[d.idx][1])
              [] d.pc = "ehdr"  -> "hdr:" \o ToString(d.em)
              [] OTHER          -> d.pc                            \* blocked | off
DrvKey(x) == IF x.pc = "idle" THEN "idle"
             ELSE IF x.pc = "reorg" THEN "reorg:" \o ToString(x.rb) ELSE x.pc \o ":" \o ToString(x.cur.n)
RdKey(r) == CASE r.pc = "tick"   -> "fin"
              [] r.pc = "cmp"    -> "hdr:" \o ToString(r.snap[r.idx][1])
              [] r.pc = "notify" -> "notify:" \o ToString(r.from)
              [] OTHER           -> r.pc                           \* ackwait | acked
Step(a, n, c, fl) == [a |-> a, n |-> n, c |-> c, fail |-> fl, at |-> <<DlKey(dl'), DrvKey(drv'), RdKey(rd')>>]
Log(a, n, c, fl)  == hist' = Append(hist, Step(a, n, c, fl))

(* F6 switch: with AtomicRemove the detector finishes its range removal before anything else runs *)
Free == ~(AtomicRemove /\ rd.pc = "acked")

-----------------------------------------------------------------------------
(* downloader: Download loop *)

(* top of the for loop: wait for new blocks or go on with the next range; reachTop is dead afterwards *)
LoopTop(d) ==
  LET w == d.from > d.last \/ (d.top /\ d.to >= d.last) IN
  [d EXCEPT !.pc = IF w THEN "wait" ELSE "fin", !.top = FALSE, !.lfin = 0, !.req = 0, !.resp = <<>>, !.idx = 0,
            !.retry = 0, !.em = 0]

AfterOut(d) == IF d.out # <<>> THEN [d EXCEPT !.pc = "blocked"]
               ELSE IF d.em > 0 THEN [d EXCEPT !.pc = "ehdr", !.resp = <<>>, !.idx = 0, !.retry = 0]
               ELSE LoopTop(d)

(* push as many blocks as downloadedCh has room for; the rest blocks the goroutine *)
Flush(d, c) ==
  LET k == Min(Len(d.out), BufCap - Len(c)) IN
  [d |-> AfterOut([d EXCEPT !.out = SubSeq(d.out, k + 1, Len(d.out))]), c |-> c \o SubSeq(d.out, 1, k)]

(* the zone rules after GetEventsByBlockRange returned `blocks` (sequence of <<n, v>>) *)
Decide(d, blocks) ==
  LET k    == Len(blocks)
      outs == [i \in 1..k |-> [n |-> blocks[i][1], v |-> blocks[i][2], e |-> 1, f |-> blocks[i][1] <= d.lfin]]
  IN IF d.req <= d.lfin
     THEN [d EXCEPT !.out = outs, !.em = IF k = 0 \/ blocks[k][1] < d.req THEN d.req ELSE 0,
                    !.from = d.req + 1, !.to = d.req + 1 + chunk]
     ELSE IF k = 0
     THEN IF d.lfin >= d.from
          THEN [d EXCEPT !.out = <<>>, !.em = d.lfin, !.from = d.lfin + 1, !.to = d.lfin + 1 + chunk]
          ELSE [d EXCEPT !.out = <<>>, !.em = 0, !.to = d.to + chunk]
     ELSE [d EXCEPT !.out = outs, !.em = 0, !.from = blocks[k][1] + 1, !.to = blocks[k][1] + 1 + chunk]

SetDl(r) == dl' = r.d /\ ch' = r.c

(* transient RPC failures: MaxFails = 99 = any number (they are self-loops of the design, so no budget is needed for
   exhaustive search); otherwise a budget (behaviour export, simulation) *)
CanFail == MaxFails = 99 \/ fails < MaxFails
UseFail(fl) == fails' = IF fl /\ MaxFails # 99 THEN fails + 1 ELSE fails

(* WaitForNewBlocks(ctx, 0) before the loop, and inside the loop *)
DlWait(fl) ==
  /\ Free /\ dl.pc \in {"wait0", "wait"} /\ (fl => CanFail) /\ (NoIdle => (fl \/ TipView > dl.last))
  /\ IF fl \/ TipView <= dl.last
     THEN dl' = dl
     ELSE IF dl.pc = "wait0"
     THEN dl' = LoopTop([dl EXCEPT !.last = TipView, !.to = dl.from + chunk])
     ELSE dl' = [dl EXCEPT !.pc = "fin", !.last = TipView,
                           !.to = IF dl.from >= dl.to /\ dl.from - dl.to < chunk THEN dl.from + chunk ELSE dl.to]
  /\ UseFail(fl)
  /\ UNCHANGED <<chunk, tag, tip, fin, nforks, fp, H, ch, drv, store, mem, db, rd, pfails, restarts, lastReorg>>
  /\ Log("dlwait", 0, <<>>, fl)

(* GetLastFinalizedBlock; an error is `continue` *)
DlFin(fl) ==
  /\ Free /\ dl.pc = "fin" /\ (fl => CanFail)
  /\ IF fl THEN dl' = LoopTop(dl)
     ELSE LET top == dl.to >= dl.last IN
          dl' = [dl EXCEPT !.pc = "logs", !.lfin = Min(dl.last, fin), !.req = IF top THEN dl.last ELSE dl.to, !.top = top]
  /\ UseFail(fl)
  /\ UNCHANGED <<chunk, tag, tip, fin, nforks, fp, H, ch, drv, store, mem, db, rd, pfails, restarts, lastReorg>>
  /\ Log("dlfin", 0, <<>>, fl)

(* FilterLogs(from, req): blocks with watched, non-removed logs, with the hash they have now *)
DlLogs(fl) ==
  /\ Free /\ dl.pc = "logs" /\ (fl => CanFail)
  /\ IF fl THEN dl' = dl /\ ch' = ch
     ELSE LET all  == [i \in 1..(dl.req - dl.from + 1) |-> <<dl.from + i - 1, Ver(dl.from + i - 1)>>]
              resp == SelectSeq(all, LAMBDA p : Has(p[1]))
          IN IF resp = <<>> THEN SetDl(Flush(Decide(dl, <<>>), ch))
             ELSE dl' = [dl EXCEPT !.pc = "hdr", !.resp = resp, !.idx = 1] /\ ch' = ch
  /\ UseFail(fl)
  /\ UNCHANGED <<chunk, tag, tip, fin, nforks, fp, H, drv, store, mem, db, rd, pfails, restarts, lastReorg>>
  /\ Log("dllogs", 0, <<>>, fl)

(* GetBlockHeader(n) for the next block of the response; hash cross-check; RetryLimit retries, then nil *)
DlHdr(fl) ==
  /\ Free /\ dl.pc = "hdr" /\ (fl => CanFail)
  /\ IF fl THEN dl' = dl /\ ch' = ch
     ELSE LET p == dl.resp[dl.idx] IN
          IF p[2] = Ver(p[1])
          THEN IF dl.idx = Len(dl.resp) THEN SetDl(Flush(Decide(dl, dl.resp), ch))
               ELSE dl' = [dl EXCEPT !.idx = dl.idx + 1] /\ ch' = ch
          ELSE IF dl.retry >= RetryLimit THEN SetDl(Flush(Decide(dl, <<>>), ch))
               ELSE dl' = [dl EXCEPT !.pc = "logs", !.resp = <<>>, !.idx = 0, !.retry = dl.retry + 1] /\ ch' = ch
  /\ UseFail(fl)
  /\ UNCHANGED <<chunk, tag, tip, fin, nforks, fp, H, drv, store, mem, db, rd, pfails, restarts, lastReorg>>
  /\ Log("dlhdr", 0, <<>>, fl)

(* reportEmptyBlock: GetBlockHeader(em), then the marker block is sent *)
DlEHdr(fl) ==
  /\ Free /\ dl.pc = "ehdr" /\ (fl => CanFail)
  /\ IF fl THEN dl' = dl /\ ch' = ch
     ELSE SetDl(Flush([dl EXCEPT !.out = <<[n |-> dl.em, v |-> Ver(dl.em), e |-> 0, f |-> dl.em <= dl.lfin]>>, !.em = 0], ch))
  /\ UseFail(fl)
  /\ UNCHANGED <<chunk, tag, tip, fin, nforks, fp, H, drv, store, mem, db, rd, pfails, restarts, lastReorg>>
  /\ Log("dlhdr", 0, <<>>, fl)

-----------------------------------------------------------------------------
(* driver *)

(* the driver's select takes a block from downloadedCh (the send unblocks the downloader) *)
Deliver ==
  /\ Free /\ drv.pc = "idle" /\ ch # <<>>
  /\ drv' = [pc |-> IF Head(ch).f THEN "process" ELSE "track", cur |-> Head(ch), rb |-> 0]
  /\ IF dl.pc = "blocked" THEN SetDl(Flush(dl, Tail(ch))) ELSE dl' = dl /\ ch' = Tail(ch)
  /\ UNCHANGED <<chunk, tag, tip, fin, nforks, fp, H, store, mem, db, rd, fails, pfails, restarts, lastReorg>>
  /\ Log("deliver", 0, <<>>, FALSE)

(* AddBlockToTrack (only for blocks not flagged finalized): memory first, then the DB row *)
DrvTrack ==
  /\ Free /\ drv.pc = "track" /\ ~(LockedRemove /\ rd.pc \in {"ackwait", "acked"})
  /\ LET b == drv.cur IN
     IF mem[b.n] = b.v THEN UNCHANGED <<mem, db>>
     ELSE mem' = [mem EXCEPT ![b.n] = b.v] /\ db' = [db EXCEPT ![b.n] = Append(@, b.v)]
  /\ drv' = [drv EXCEPT !.pc = "process"]
  /\ UNCHANGED <<chunk, tag, tip, fin, nforks, fp, H, dl, ch, store, rd, fails, pfails, restarts, lastReorg>>
  /\ Log("track", 0, <<>>, FALSE)

(* ProcessBlock; an error is retried *)
DrvProcess(fl) ==
  /\ Free /\ drv.pc = "process" /\ (fl => (MaxPFails = 99 \/ pfails < MaxPFails))
  /\ IF fl /\ InconsOnFault
     THEN \* handleNewBlock: ErrInconsistentState -> cancel(), return (the block is gone; the channel keeps what it holds)
          /\ drv' = IdleDrv /\ dl' = OffDl /\ UNCHANGED store
          /\ pfails' = IF MaxPFails # 99 THEN pfails + 1 ELSE pfails
     ELSE IF fl THEN UNCHANGED <<drv, store, dl>> /\ pfails' = IF MaxPFails # 99 THEN pfails + 1 ELSE pfails
     ELSE /\ store' = Append(store, [n |-> drv.cur.n, v |-> drv.cur.v, e |-> drv.cur.e])
          /\ drv' = IdleDrv /\ pfails' = pfails /\ dl' = dl
  /\ UNCHANGED <<chunk, tag, tip, fin, nforks, fp, H, ch, mem, db, rd, fails, restarts, lastReorg>>
  /\ Log("process", 0, <<>>, fl)

(* the driver's select takes the detector's notification: cancel the downloader *)
Notify ==
  /\ Free /\ rd.pc = "notify" /\ drv.pc = "idle"
  /\ drv' = [pc |-> "reorg", cur |-> NoBlk, rb |-> rd.from]
  /\ dl' = OffDl /\ ch' = <<>>
  /\ rd' = [rd EXCEPT !.pc = "ackwait"]
  /\ UNCHANGED <<chunk, tag, tip, fin, nforks, fp, H, store, mem, db, fails, pfails, restarts, lastReorg>>
  /\ Log("notify", 0, <<>>, FALSE)

(* processor.Reorg(rb), ReorgProcessed <- true, goto reset: a new downloader from lastProcessed+1 *)
DrvReorg ==
  /\ Free /\ drv.pc = "reorg"
  /\ LET keep == SelectSeq(store, LAMBDA r : r.n < drv.rb)
         gone == SelectSeq(store, LAMBDA r : r.n >= drv.rb)
     IN /\ store' = keep
        /\ lastReorg' = [b |-> drv.rb, rows |-> Len(gone),
                         strict |-> \E i \in 1..Len(gone) : ~Canon(gone[i].n, gone[i].v)]
        /\ dl' = NewDl(LastProcessed(keep) + 1)
  /\ drv' = IdleDrv
  /\ rd' = [rd EXCEPT !.pc = "acked"]
  /\ UNCHANGED <<chunk, tag, tip, fin, nforks, fp, H, ch, mem, db, fails, pfails, restarts>>
  /\ Log("reorg", 0, <<>>, FALSE)

-----------------------------------------------------------------------------
(* reorg detector: detectReorgInTrackedList *)

Snap(m) == SelectSeq([n \in 1..N |-> <<n, m[n]>>], LAMBDA p : p[2] >= 0)

RECURSIVE RdRun(_, _, _), RdCompare(_, _, _, _)
(* go through the snapshot as far as no RPC is needed (the finalized header is cached) *)
RdRun(r, m, d) ==
  IF r.idx > Len(r.snap) THEN [r |-> IdleRd, m |-> m, d |-> d]
  ELSE IF r.snap[r.idx][1] = r.rfin THEN RdCompare(r, m, d, Ver(r.rfin))
  ELSE [r |-> [r EXCEPT !.pc = "cmp"], m |-> m, d |-> d]
(* tracked hash against the current one: equal and finalized -> forget the block; different -> notify *)
RdCompare(r, m, d, cur) ==
  LET e == r.snap[r.idx] IN
  IF e[2] = cur
  THEN IF e[1] <= r.rfin
       THEN RdRun([r EXCEPT !.idx = r.idx + 1], [m EXCEPT ![e[1]] = -1], [d EXCEPT ![e[1]] = <<>>])
       ELSE RdRun([r EXCEPT !.idx = r.idx + 1], m, d)
  ELSE [r |-> [r EXCEPT !.pc = "notify", !.from = e[1], !.to = r.snap[Len(r.snap)][1]], m |-> m, d |-> d]

SetRd(x) == rd' = x.r /\ mem' = x.m /\ db' = x.d

(* tick: HeaderByNumber(finalized), snapshot of the tracked list *)
RdTick(fl) ==
  /\ Detector /\ Free /\ rd.pc = "tick" /\ (fl => CanFail) /\ (NoIdle => (fl \/ \E n \in 1..N : mem[n] >= 0 /\ (n <= fin \/ mem[n] # Ver(n))))
  /\ IF fl THEN UNCHANGED <<rd, mem, db>>
     ELSE SetRd(RdRun([IdleRd EXCEPT !.rfin = fin, !.snap = Snap(mem), !.idx = 1], mem, db))
  /\ UseFail(fl)
  /\ UNCHANGED <<chunk, tag, tip, fin, nforks, fp, H, dl, ch, drv, store, pfails, restarts, lastReorg>>
  /\ Log("rdtick", 0, <<>>, fl)

(* HeaderByNumber(n) for the next tracked block; an error ends the tick *)
RdCmp(fl) ==
  /\ Free /\ rd.pc = "cmp" /\ (fl => CanFail)
  /\ IF fl THEN rd' = IdleRd /\ UNCHANGED <<mem, db>>
     ELSE SetRd(RdCompare(rd, mem, db, Ver(rd.snap[rd.idx][1])))
  /\ UseFail(fl)
  /\ UNCHANGED <<chunk, tag, tip, fin, nforks, fp, H, dl, ch, drv, store, pfails, restarts, lastReorg>>
  /\ Log("rdcmp", 0, <<>>, fl)

(* after the ack: DELETE the range [from, to] of the snapshot from the DB, then from memory *)
SnapVer(n) == LET S == {i \in DOMAIN rd.snap : rd.snap[i][1] = n} IN IF S = {} THEN -2 ELSE rd.snap[CHOOSE i \in S : TRUE][2]
RdRemove ==
  /\ rd.pc = "acked"
  /\ mem' = [n \in 1..N |-> IF n >= rd.from /\ n <= rd.to /\ (~RemoveByHash \/ mem[n] = SnapVer(n)) THEN -1 ELSE mem[n]]
  /\ db'  = [n \in 1..N |-> IF n >= rd.from /\ n <= rd.to
                            THEN (IF RemoveByHash THEN SelectSeq(db[n], LAMBDA v : v # SnapVer(n)) ELSE <<>>) ELSE db[n]]
  /\ rd' = IdleRd
  /\ UNCHANGED <<chunk, tag, tip, fin, nforks, fp, H, dl, ch, drv, store, fails, pfails, restarts, lastReorg>>
  /\ Log("ack", 0, <<>>, FALSE)

-----------------------------------------------------------------------------
(* environment *)

(* Partial-order reduction by hand: a move of the environment is scheduled only immediately before a step that can
   observe it (any other placement is equivalent to a later one: the moves commute with everything in between).
     tip  is read by the downloader's poll (tag latest), by Finalize and by Fork;
     fin  is read by GetLastFinalizedBlock, by the poll (tag finalized), by the detector's tick and by Fork;
     a fork is read by almost every step (versions by FilterLogs / HeaderByNumber(n), the longer tip by the poll) and must
     precede a Finalize: it is not restricted. *)
MineOK == fin = tip \/ (tag = "latest" /\ dl.pc \in {"wait0", "wait"})
FinOK  == dl.pc = "fin" \/ (tag = "finalized" /\ dl.pc \in {"wait0", "wait"}) \/ (Detector /\ rd.pc = "tick")

Mine(c) ==
  /\ Free /\ tip < N /\ c \in Contents /\ MineOK
  /\ tip' = tip + 1
  /\ H' = [H EXCEPT ![nforks][tip + 1] = c]
  /\ UNCHANGED <<chunk, tag, fin, nforks, fp, dl, ch, drv, store, mem, db, rd, fails, pfails, restarts, lastReorg>>
  /\ Log("mine", tip + 1, <<c>>, FALSE)

Finalize ==
  /\ Free /\ fin < tip /\ FinOK /\ tip - fin > FinLag
  /\ fin' = fin + 1
  /\ UNCHANGED <<chunk, tag, tip, nforks, fp, H, dl, ch, drv, store, mem, db, rd, fails, pfails, restarts, lastReorg>>
  /\ Log("finalize", fin + 1, <<>>, FALSE)

(* blocks b..tip are replaced (b above the finalized block) and the new fork is one block longer (environment
   assumption: a fork wins only when it is longer - the downloader waits for a higher tip, so after a same-length fork
   it would not look again before the next block anyway); the new blocks' contents are free *)
Fork(b, cs) ==
  /\ Free /\ nforks < MaxForks /\ b > fin /\ b <= tip /\ tip < N
  /\ NoIdle => \E i \in 1..Len(store) : store[i].n >= b        \* random walks: only forks that replace a processed block
  /\ nforks' = nforks + 1
  /\ tip' = tip + 1
  /\ fp' = [fp EXCEPT ![nforks + 1] = b]
  /\ H' = [H EXCEPT ![nforks + 1] = [n \in 1..N |-> IF n >= b /\ n <= tip + 1 THEN cs[n - b + 1] ELSE -1]]
  /\ UNCHANGED <<chunk, tag, fin, dl, ch, drv, store, mem, db, rd, fails, pfails, restarts, lastReorg>>
  /\ Log("fork", b, cs, FALSE)

(* the node is stopped (or dies) at any moment and is started again on the same DB files: Start (load) then Subscribe *)
Restart ==
  /\ Free /\ restarts < MaxRestarts /\ tip > 0
  /\ restarts' = restarts + 1
  /\ dl' = NewDl(LastProcessed(store) + 1) /\ ch' = <<>> /\ drv' = IdleDrv
  /\ mem' = [n \in 1..N |-> IF db[n] = <<>> THEN -1 ELSE db[n][Len(db[n])]]
  /\ rd' = IdleRd
  /\ UNCHANGED <<chunk, tag, tip, fin, nforks, fp, H, store, db, fails, pfails, lastReorg>>
  /\ Log("restart", 0, <<>>, FALSE)

Init ==
  /\ chunk \in Chunks /\ tag \in TipTags
  /\ tip = 0 /\ fin = 0 /\ nforks = 0
  /\ fp = [j \in 0..MaxForks |-> IF j = 0 THEN 1 ELSE N + 1]
  /\ H = [j \in 0..MaxForks |-> [n \in 1..N |-> -1]]
  /\ dl = NewDl(1) /\ ch = <<>> /\ drv = IdleDrv /\ store = <<>>
  /\ mem = [n \in 1..N |-> -1] /\ db = [n \in 1..N |-> <<>>] /\ rd = IdleRd
  /\ fails = 0 /\ pfails = 0 /\ restarts = 0
  /\ lastReorg = [b |-> 0, rows |-> 0, strict |-> TRUE]
  /\ hist = <<>>

(* contents of the k blocks of a new fork: every combination (exhaustive runs), four patterns (random walks) *)
ForkContents(k) == IF NoIdle
                   THEN {[i \in 1..k |-> 0], [i \in 1..k |-> 1], [i \in 1..k |-> i % 2], [i \in 1..k |-> (i + 1) % 2]}
                   ELSE [1..k -> Contents]

Next ==
  \/ \E fl \in BOOLEAN : DlWait(fl) \/ DlFin(fl) \/ DlLogs(fl) \/ DlHdr(fl) \/ DlEHdr(fl) \/ DrvProcess(fl)
                         \/ RdTick(fl) \/ RdCmp(fl)
  \/ Deliver \/ DrvTrack \/ Notify \/ DrvReorg \/ RdRemove
  \/ \E c \in Contents : Mine(c)
  \/ Finalize
  \/ nforks < MaxForks /\ tip < N /\ \E b \in (fin + 1)..tip : \E cs \in ForkContents(tip - b + 2) : Fork(b, cs)
  \/ Restart

Spec == Init /\ [][Next]_vars

-----------------------------------------------------------------------------
(* the monitor's predicates (specs/EVMSyncTrace.tla) as invariants of the design *)

(* delivered block numbers strictly increase between rewinds *)
Ordered == \A i \in 1..(Len(store) - 1) : store[i].n < store[i + 1].n

(* a delivered block's events are the watched logs of that block on the fork it was delivered from *)
Faithful == \A i \in 1..Len(store) : store[i].e = H[store[i].v][store[i].n]

(* the last-processed marker never passes a block with watched logs (on the delivered block's own chain) that was not stored *)
NoSkip == \A i \in 1..Len(store) :
            \A b \in ((IF i = 1 THEN 0 ELSE store[i - 1].n) + 1)..(store[i].n - 1) :
              H[PrefVer(store[i].v, b)][b] = 0

(* chain stopped and every goroutine is polling without news *)
Quiesced ==
  /\ dl.pc = "wait" /\ TipView <= dl.last /\ ch = <<>> /\ drv.pc = "idle" /\ rd.pc = "tick"
  /\ Detector => \A n \in 1..N : mem[n] >= 0 => (n <= tip /\ mem[n] = Ver(n))
StoreIsCanon == \A i \in 1..Len(store) : Canon(store[i].n, store[i].v)
AllDelivered == \A n \in 1..TipView : Has(n) => \E i \in 1..Len(store) : store[i].n = n /\ store[i].e = 1
(* RewindLow: at rest no replaced block is left in the store *)
RewindLow == Quiesced => StoreIsCanon
Converged == Quiesced => AllDelivered

(* strict reading (not demanded by the property, see EVMSyncTrace): a Reorg that deletes rows deletes a replaced row *)
NoSpuriousStrict == lastReorg.rows > 0 => lastReorg.strict

TypeOK == Len(ch) <= BufCap /\ fin <= tip /\ (dl.from >= 1 \/ dl.pc = "off")

-----------------------------------------------------------------------------
(* behaviour export: one full path per generated transition (edge cover), or - under `-simulate -workers 1` - the walk
   step by step: TLC evaluates the constraint for every candidate successor, so what is printed is the step that led to
   the current state (w = number of the walk, k = its position), once per candidate; duplicates are dropped by the reader *)
Dump == IF SimDepth = 0
        THEN PrintT(<<"CASE", ToJson([chunk |-> chunk, tag |-> tag, steps |-> hist'])>>)
        ELSE IF hist = <<>> THEN TRUE
        ELSE PrintT(<<"STEP", ToJson([w |-> TLCGet("stats").traces, k |-> Len(hist), chunk |-> chunk, tag |-> tag,
                                      s |-> hist[Len(hist)]])>>)
=============================================================================
