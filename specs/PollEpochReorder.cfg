\* composition, parked sends may complete in any order (what the Go runtime permits): AtFirstPublished is expected to FAIL (information I3)
CONSTANTS
  Ns = {1,2,3}
  Starts = {0,1}
  Ps = {0,50}
  Epochs = 2
  MaxPolls = 5
  MaxErrs = 1
  MaxInflight = 2
  Reorder = TRUE
  SlowSub = FALSE
INIT Init
NEXT Next
VIEW view
INVARIANTS NothingLostOrInvented EveryHeadChangeAnnounced NoSpuriousBlockEvent CurrentBlockIsLastObserved ExactlyOnceAtFirstDelivered StrictlyIncreasing NoDuplicates AtFirstPublished
CHECK_DEADLOCK FALSE
