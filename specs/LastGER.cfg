\* exhaustive design check (C16) of the repaired downloader rule ("tipblock") with the processor as coded.
\* The invariants are the property modulo the named finding F2b, stated exactly: the only rows that may be missing are
\* the ghost `phantom` rows (rows deleted by a removal whose block was reorged out afterwards).
CONSTANTS
  MaxBlock = 5
  NG = 2
  Fixed = TRUE
  Variant = "tipblock"
  RestoreOnReorg = FALSE
  MaxRestarts = 1
  MaxReorgs = 1
  MaxDepth = 2
INIT Init
NEXT Next
VIEW view
INVARIANTS TypeOK RowsAreFoldKF RowsAtRestKF NoFatal
CHECK_DEADLOCK FALSE
