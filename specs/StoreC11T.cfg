\* generated by mkstorecfg.py - C11 thorough
CONSTANTS
  Kind = "l1info"
  Fixed = TRUE
  FixedF11 = TRUE
  H = 2
  MaxBlocks = 4
  MaxEvents = 2
  MaxLeaves = 4
  MaxOps = 5
  Faults = {}
  AllowGap = FALSE
  Dups = FALSE
  AllowRestart = TRUE
  AllowReorg = FALSE
  Rollups = {1, 2}
  ExitRoots = {0, 1, 2}
INIT Init
NEXT Next
VIEW view
INVARIANT InvL1
CHECK_DEADLOCK FALSE
