----------------------------- MODULE ClaimCallTrace -----------------------------
(* Property-level monitor for C20, evaluated by TLC on outcomes recorded from the real claim event handlers of the
   bridge syncer (handler -> Claim.setClaimCalldata -> processor.ProcessBlock -> GetClaims).

   It contains only what the property says.  For a claim event with global index g and the call tree of its
   transaction, a call is ELIGIBLE when it is addressed to the bridge, carries g, and neither it nor an enclosing call
   is reverted.  Then
     - every stored claim row takes ALL its call-derived details (both proofs, the three exit roots, destination
       network, metadata, message flag, sender) from ONE eligible call;
     - when there is no eligible call an error is raised and nothing is recorded; an error is raised only then.
   The statement is made under the precondition that every call addressed to the bridge is a claim call; lines outside
   it are consumed and counted, not judged.  The monitor knows nothing about stacks or visiting order: any eligible
   call is accepted.

   Trace lines (ndjson), one per (case, event generation):
     {"ev":"case","id":K,"evgen":"etrog"|"pre","evgi":G,
      "par":[0,..],"kind":[..],"tb":[bool..],"gi":[..],"rev":[bool..],       the tree, frames 1..n, par[f] < f
      "err":bool,"errmsg":S,"appended":N,
      "rows":[{"gi":G,"tags":{"pler":[f..],"prer":[..],"mer":[..],"rer":[..],"ger":[..],"dnet":[..],"meta":[..],
                               "msg":[..],"from":[..]},..}],                  tags[x] = frames whose call carries the value stored in field x
      "pick":F}                                                               (model's prediction; ignored here)
*)
EXTENDS Integers, Sequences, FiniteSets, TLC, Json, IOUtils

Trace == ndJsonDeserialize(IOEnv.TRACE_FILE)

VARIABLES l,        \* next line
          skipped,  \* lines outside the precondition
          viol      \* accumulated violations

vars == <<l, skipped, viol>>

ClaimKinds == {"asset", "msg", "preAsset", "preMsg"}
Fields     == {"pler", "prer", "mer", "rer", "ger", "dnet", "meta", "msg", "from"}

ToSet(s) == { s[i] : i \in DOMAIN s }

RECURSIVE Clean(_, _)
Clean(e, f) == f = 0 \/ (~e.rev[f] /\ Clean(e, e.par[f]))     \* no reverted call on the path root..f

Eligible(e) == { f \in DOMAIN e.par : e.tb[f] /\ e.gi[f] = e.evgi /\ Clean(e, f) }

Precondition(e) == \A f \in DOMAIN e.par : e.tb[f] => e.kind[f] \in ClaimKinds

(* all call-derived details of a row come from one eligible call *)
FromOneEligible(e, row) == \E f \in Eligible(e) : \A x \in Fields : f \in ToSet(row.tags[x])

Init ==
  /\ TLCSet(1, 0)
  /\ l = 1 /\ skipped = 0 /\ viol = <<>>

V(e, kind, info) == [t |-> e.id, l |-> l, inv |-> kind, info |-> info]

EvCase ==
  /\ l <= Len(Trace) /\ Trace[l].ev = "case"
  /\ LET e  == Trace[l]
         E  == Eligible(e)
         nr == Len(e.rows)
     IN
     IF ~Precondition(e)
     THEN skipped' = skipped + 1 /\ UNCHANGED viol
     ELSE
       LET v1 == IF e.err /\ E # {}
                 THEN <<V(e, "ErrorOnlyWithoutEligibleCall", [eligible |-> E, errmsg |-> e.errmsg])>> ELSE <<>>
           v2 == IF e.err /\ (nr # 0 \/ e.appended # 0)
                 THEN <<V(e, "NothingRecordedOnError", [rows |-> nr, appended |-> e.appended])>> ELSE <<>>
           v3 == IF ~e.err /\ E = {}
                 THEN <<V(e, "ErrorWhenNoEligibleCall", [rows |-> nr])>> ELSE <<>>
           v4 == IF ~e.err /\ E # {} /\ \E i \in 1..nr : ~FromOneEligible(e, e.rows[i])
                 THEN <<V(e, "DetailsFromOneEligibleCall", [eligible |-> E, rows |-> [i \in 1..nr |-> e.rows[i].tags]])>>
                 ELSE <<>>
       IN viol' = viol \o v1 \o v2 \o v3 \o v4 /\ UNCHANGED skipped
  /\ l' = l + 1

Finish ==
  /\ l = Len(Trace) + 1
  /\ PrintT(<<"VIOL", ToJson(viol)>>)
  /\ PrintT(<<"DONE", ToJson([lines |-> Len(Trace), skipped |-> skipped])>>)
  /\ l' = l + 1 /\ UNCHANGED <<skipped, viol>>

Next == EvCase \/ Finish
Spec == Init /\ [][Next]_vars

HW == TLCSet(1, IF l > TLCGet(1) THEN l ELSE TLCGet(1))
Accepted == TLCGet(1) = Len(Trace) + 2
=============================================================================
