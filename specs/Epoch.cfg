\* exhaustive design check (C18): all configurations, all increasing block sequences within 3 epochs
CONSTANTS
  Ns = {1,2,3,4,5}
  Starts = {0,1,7}
  Ps = {0,1,2,3,4,5,6,7,8,9,10,11,12,13,14,15,16,17,18,19,20,21,22,23,24,25,26,27,28,29,30,31,32,33,34,35,36,37,38,39,40,41,42,43,44,45,46,47,48,49,50,51,52,53,54,55,56,57,58,59,60,61,62,63,64,65,66,67,68,69,70,71,72,73,74,75,76,77,78,79,80,81,82,83,84,85,86,87,88,89,90,91,92,93,94,95,96,97,98,99}
  Epochs = 3
  FeedStart = TRUE
INIT Init
NEXT Next
VIEW view
INVARIANTS ExactlyOnceAtFirst StrictlyIncreasing TypeOK IndInvAll
PROPERTY RefinesInd
CHECK_DEADLOCK FALSE
