\* generated by mkstorecfg.py - edge cover, l1info reorgs (also failing reorgs)
CONSTANTS
  Kind = "l1info"
  Fixed = TRUE
  FixedF11 = TRUE
  H = 2
  MaxBlocks = 3
  MaxEvents = 2
  MaxLeaves = 3
  MaxOps = 4
  Faults = {"reorg"}
  AllowGap = FALSE
  Dups = FALSE
  AllowRestart = FALSE
  AllowReorg = TRUE
  Rollups = {1, 2}
  ExitRoots = {0, 1}
INIT Init
NEXT Next
VIEW view
ACTION_CONSTRAINT Dump
CHECK_DEADLOCK FALSE
