\* generated by mkstorecfg.py - C11: L1 histories (info updates, V2 announcements, verify batches incl. zero/unchanged/recurring exit roots)
CONSTANTS
  Kind = "l1info"
  Fixed = TRUE
  FixedF11 = TRUE
  H = 2
  MaxBlocks = 3
  MaxEvents = 2
  MaxLeaves = 3
  MaxOps = 4
  Faults = {}
  AllowGap = FALSE
  Dups = FALSE
  AllowRestart = TRUE
  AllowReorg = FALSE
  Rollups = {1, 2}
  ExitRoots = {0, 1, 2}
INIT Init
NEXT Next
VIEW view
INVARIANT InvL1
CHECK_DEADLOCK FALSE
