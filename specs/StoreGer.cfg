\* generated by mkstorecfg.py - ger store: inserts/removals (<= 1 per block), faults, restart, reorg (C04 C07)
CONSTANTS
  Kind = "ger"
  Fixed = TRUE
  FixedF11 = TRUE
  H = 2
  MaxBlocks = 5
  MaxEvents = 1
  MaxLeaves = 4
  MaxOps = 7
  Faults = {"stmt", "ctx", "commit"}
  AllowGap = FALSE
  Dups = FALSE
  AllowRestart = TRUE
  AllowReorg = TRUE
  Rollups = {}
  ExitRoots = {}
INIT Init
NEXT Next
VIEW view
INVARIANT InvGer
CHECK_DEADLOCK FALSE
