\* C05 random walks (tlc -simulate -depth SimDepth+1): longer chains, larger chunks
CONSTANTS
  N = 12
  Chunks = {1,2,3,4,7}
  TipTags = {"latest","finalized"}
  BufCap = 2
  MaxForks = 0
  MaxFails = 2
  MaxPFails = 1
  MaxRestarts = 1
  Detector = FALSE
  RetryLimit = 5
  AtomicRemove = FALSE
  RemoveByHash = FALSE
  LockedRemove = TRUE
  InconsOnFault = FALSE
  Contents = {0,1}
  FinLag = 0
  NoIdle = TRUE
  SimDepth = 199
INIT Init
NEXT Next
ACTION_CONSTRAINT Dump
CHECK_DEADLOCK FALSE
