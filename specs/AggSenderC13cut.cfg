\* generated by mkaggcfg.py - C13 with the size limit cutting every certificate to one block (re-cut retries, repeated InError at one height)
CONSTANTS
  MaxBlocks = 3
  MaxBridges = 1
  MaxCerts = 4
  MaxSteps = 40
  RetryImm = TRUE
  MaxCertBlocks = 1
  CallFailures = FALSE
  Crashes = {"before_submit", "after_submit", "after_store"}
  StoreFaults = FALSE
  LoseDB = TRUE
  HeaderHasPrev = TRUE
  FixedF4 = "v2"
  Mode = "pp"
INIT Init
NEXT Next
VIEW view
INVARIANT C02
INVARIANT F4Free
INVARIANT NeverRefuses
CHECK_DEADLOCK FALSE
