\* C05, exhaustive: no forks; every placement of watched logs, every tip / finalized schedule, chunk 1..3,
\* both finality modes, one transient RPC failure, one failing ProcessBlock
CONSTANTS
  N = 6
  Chunks = {1,2,3}
  TipTags = {"latest","finalized"}
  BufCap = 2
  MaxForks = 0
  MaxFails = 99
  MaxPFails = 99
  MaxRestarts = 0
  Detector = FALSE
  RetryLimit = 5
  AtomicRemove = FALSE
  RemoveByHash = FALSE
  LockedRemove = TRUE
  InconsOnFault = FALSE
  Contents = {0,1}
  FinLag = 0
  NoIdle = FALSE
  SimDepth = 0
INIT Init
NEXT Next
VIEW view
INVARIANTS Ordered Faithful NoSkip Converged RewindLow TypeOK
CHECK_DEADLOCK FALSE
