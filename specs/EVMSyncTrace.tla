------------------------------ MODULE EVMSyncTrace ------------------------------
(* Property-level monitor for C05 and C06, evaluated by TLC on traces recorded from the real downloader / driver /
   reorg detector (harness/areas/evmsync).  It contains only what the two property statements say; it knows nothing
   about chunks, cursors, zones, tracked lists or the notify/ack handshake.

   Trace lines (ndjson, in the order of the environment's global sequence number):
     cfg     {id, chunk, tag, buf, proc}          a new node on a new chain (starts a new trace); tag = what the syncer's
                                                  "tip" means (latest | finalized)
     chain   {op, tip, fin, blocks:[{n,v,pv,w}]}  the chain moved: mined / replaced blocks with their version v (a name for
                                                  the hash), the version pv of their parent and the ids w of their watched,
                                                  non-removed logs in log order; fin = finalized block
     process {n, v, evs, ok}                      the driver called ProcessBlock (v = -1: a hash no block n ever had)
     track   {n, v, ok}                           the driver called AddBlockToTrack
     reorg   {from, rows, ok}                     the driver called Reorg(from); rows = block rows the store deleted
     ack     {}                                   the driver's acknowledgement of a Reorg reaches the detector (only used for
                                                  the signature of known finding F6)
     restart {}                                   the node was stopped and started again on the same DB files
     end     {quiet, loop, last, store:[...]}     the chain has stopped and the node was run until at rest (quiet), or it was
                                                  seen to be rewound 30 times in that phase (loop);
                                                  store = content of the store read back through its query methods
     rpc, download, deliver, notify, drift, panic   recorded for the reader; not judged

   Predicates (each failure appends a record to `viol`):
     Ordered     delivered block numbers strictly increase between rewinds
     Faithful    a delivered block's events = the watched, non-removed logs of that block on the fork it was delivered
                 from (identified by its hash), in log order
     NoSkip      when block m is delivered, no block between the previous last-processed marker and m has watched logs
                 on m's own chain (the ancestors of the delivered hash)
     NoSpurious  a Reorg that deletes rows happens only if some block >= from that the syncer tracked or processed is
                 not canonical (if nothing it processed was replaced it is never rewound)
     RewindLow   at rest, no replaced block is left in the store (the syncer was rewound to at or before the first
                 replaced block)
     Converged   at rest, the store holds exactly the projection of the final canonical chain: every block <= tip with
                 watched logs is stored with exactly those events, every other stored block is empty
*)
EXTENDS Integers, Sequences, FiniteSets, TLC, Json, IOUtils

Trace == ndJsonDeserialize(IOEnv.TRACE_FILE)

VARIABLES l,        \* next line
          t,        \* index of the current trace (number of cfg lines seen)
          tag,      \* "latest" | "finalized"
          B,        \* <<n, v>> -> [pv, w]  every block that ever existed
          cv,       \* n -> canonical version, n in 1..tip
          tip, fin,
          st,       \* delivered blocks not rewound: sequence of [n, v, evs]
          seen,     \* set of <<n, v>> tracked or processed
          pendAck,  \* known-finding signatures: `from` of a Reorg whose acknowledgement has not reached the detector (-1 none)
          forks,    \*   forks since the last delivery / rewind / restart
          kfb,      \*   set of <<n, "F6"|"F7">>: blocks touched by the schedule of a listed finding
          viol

vars == <<l, t, tag, B, cv, tip, fin, st, seen, pendAck, forks, kfb, viol>>
kf == <<pendAck, forks, kfb>>

Empty == [x \in {} |-> 0]

Init ==
  /\ TLCSet(1, 0)
  /\ l = 1 /\ t = 0 /\ tag = "latest" /\ B = Empty /\ cv = Empty /\ tip = 0 /\ fin = 0 /\ st = <<>> /\ seen = {}
  /\ pendAck = -1 /\ forks = 0 /\ kfb = {} /\ viol = <<>>

V(kind, info) == [t |-> t, l |-> l, inv |-> kind, info |-> info]
Ev == Trace[l].ev
Is(e) == l <= Len(Trace) /\ Ev = e

Known(n, v)  == <<n, v>> \in DOMAIN B
Canon(n, v)  == n \in DOMAIN cv /\ cv[n] = v
TipView      == IF tag = "finalized" THEN fin ELSE tip

(* version of the ancestor b of block <<n, v>> (b <= n); -1 if the chain of parents is not known *)
(* the ancestors <<b, version>> of block <<n, v>> down to block lo (one walk along the parents) *)
RECURSIVE AncSet(_, _, _)
AncSet(n, v, lo) == IF n < lo \/ n < 1 \/ <<n, v>> \notin DOMAIN B THEN {} ELSE {<<n, v>>} \cup AncSet(n - 1, B[<<n, v>>].pv, lo)

RECURSIVE Anc(_, _, _)
Anc(n, v, b) == IF ~Known(n, v) THEN -1 ELSE IF n = b THEN v ELSE Anc(n - 1, B[<<n, v>>].pv, b)

EvCfg ==
  /\ Is("cfg")
  /\ t' = t + 1 /\ tag' = Trace[l].tag
  /\ B' = Empty /\ cv' = Empty /\ tip' = 0 /\ fin' = 0 /\ st' = <<>> /\ seen' = {}
  /\ pendAck' = -1 /\ forks' = 0 /\ kfb' = {}
  /\ l' = l + 1 /\ UNCHANGED viol

EvChain ==
  /\ Is("chain")
  /\ LET bs == Trace[l].blocks
         nb == [p \in {<<bs[i].n, bs[i].v>> : i \in 1..Len(bs)} |->
                  LET i == CHOOSE j \in 1..Len(bs) : <<bs[j].n, bs[j].v>> = p IN [pv |-> bs[i].pv, w |-> bs[i].w]]
         nc == [n \in {bs[i].n : i \in 1..Len(bs)} |-> (CHOOSE j \in 1..Len(bs) : bs[j].n = n) ]
     IN IF Trace[l].op = "prefill"     \* blocks 1..tip, version 0, no watched log (a long quiet stretch below the scripted chain)
        THEN /\ B' = [p \in {<<n, 0>> : n \in 1..Trace[l].tip} |-> [pv |-> 0, w |-> <<>>]] @@ B
             /\ cv' = [n \in 1..Trace[l].tip |-> 0] @@ cv
        ELSE /\ B' = nb @@ B
             /\ cv' = [n \in {bs[i].n : i \in 1..Len(bs)} |-> bs[nc[n]].v] @@ cv
  /\ tip' = Trace[l].tip /\ fin' = Trace[l].fin
  /\ forks' = IF Trace[l].op = "fork" THEN forks + 1 ELSE forks
  /\ l' = l + 1 /\ UNCHANGED <<t, tag, st, seen, pendAck, kfb, viol>>

EvProcess ==
  /\ Is("process")
  /\ LET e == Trace[l]
         prev == IF st = <<>> THEN 0 ELSE st[Len(st)].n
         ordered == e.n > prev
         v1 == IF ~ordered THEN <<V("Ordered", [n |-> e.n, after |-> prev, kf |-> "none"])>> ELSE <<>>
         \* signature of finding F7: a block delivered as empty although it has watched logs, after >= 6 forks in a row
         f7 == Known(e.n, e.v) /\ e.evs = <<>> /\ B[<<e.n, e.v>>].w # <<>> /\ forks >= 6
         v2 == IF ~Known(e.n, e.v) THEN <<V("Faithful", [n |-> e.n, v |-> e.v, why |-> "hash of no block with this number", kf |-> "none"])>>
               ELSE IF e.evs # B[<<e.n, e.v>>].w
               THEN <<V("Faithful", [n |-> e.n, v |-> e.v, got |-> e.evs, chain |-> B[<<e.n, e.v>>].w,
                                     kf |-> IF f7 THEN "F7" ELSE "none"])>> ELSE <<>>
         skipped == IF ordered /\ Known(e.n, e.v)
                    THEN {p[1] : p \in {q \in AncSet(e.n - 1, B[<<e.n, e.v>>].pv, prev + 1) : B[q].w # <<>>}}
                    ELSE {}
         v3 == IF skipped # {} THEN <<V("NoSkip", [n |-> e.n, v |-> e.v, marker |-> prev, skipped |-> skipped, kf |-> "none"])>> ELSE <<>>
     IN IF e.ok
        THEN /\ viol' = viol \o v1 \o v2 \o v3
             /\ st' = Append(st, [n |-> e.n, v |-> e.v, evs |-> e.evs])
             /\ seen' = seen \cup {<<e.n, e.v>>}
             /\ forks' = 0
             /\ kfb' = IF f7 THEN kfb \cup {<<e.n, "F7">>} ELSE kfb
        ELSE UNCHANGED <<viol, st, seen, forks, kfb>>
  /\ l' = l + 1 /\ UNCHANGED <<t, tag, B, cv, tip, fin, pendAck>>

EvTrack ==
  /\ Is("track")
  /\ seen' = seen \cup {<<Trace[l].n, Trace[l].v>>}       \* also when the call reported an error: the list may hold it
  \* signature of finding F6: a block at or above a rewind point is tracked before the detector saw the acknowledgement
  /\ kfb' = IF Trace[l].ok /\ pendAck >= 0 /\ Trace[l].n >= pendAck THEN kfb \cup {<<Trace[l].n, "F6">>} ELSE kfb
  /\ l' = l + 1 /\ UNCHANGED <<t, tag, B, cv, tip, fin, st, pendAck, forks, viol>>

EvReorg ==
  /\ Is("reorg")
  /\ LET e == Trace[l]
         stale == {p \in seen : p[1] >= e.from /\ ~Canon(p[1], p[2])}
         gone == SelectSeq(st, LAMBDA r : r.n >= e.from)
     IN IF e.ok
        THEN /\ viol' = IF (e.rows > 0 \/ gone # <<>>) /\ stale = {}
                        THEN Append(viol, V("NoSpurious", [from |-> e.from, rows |-> e.rows, deleted |-> gone, kf |-> "none"])) ELSE viol
             /\ st' = SelectSeq(st, LAMBDA r : r.n < e.from)
             /\ pendAck' = e.from /\ forks' = 0
        ELSE UNCHANGED <<viol, st, pendAck, forks>>
  /\ l' = l + 1 /\ UNCHANGED <<t, tag, B, cv, tip, fin, seen, kfb>>

(* the acknowledgement reaches the detector *)
EvAck ==
  /\ Is("ack")
  /\ pendAck' = -1
  /\ l' = l + 1 /\ UNCHANGED <<t, tag, B, cv, tip, fin, st, seen, forks, kfb, viol>>

EvRestart ==
  /\ Is("restart")
  /\ pendAck' = -1 /\ forks' = 0
  /\ l' = l + 1 /\ UNCHANGED <<t, tag, B, cv, tip, fin, st, seen, kfb, viol>>

EvEnd ==
  /\ Is("end")
  /\ LET s == Trace[l].store
         idx == 1..Len(s)
         v0 == IF \E i \in idx : i > 1 /\ s[i - 1].n >= s[i].n THEN <<V("Ordered", [store |-> s, kf |-> "none"])>> ELSE <<>>
         stale == {i \in idx : ~Canon(s[i].n, s[i].v)}
         AllKf(I, f) == \A i \in I : <<s[i].n, f>> \in kfb
         v1 == IF stale # {} THEN <<V("RewindLow", [rows |-> {s[i] : i \in stale}, kf |-> IF AllKf(stale, "F6") THEN "F6" ELSE "none"])>>
               ELSE <<>>
         missing == {n \in 1..TipView : B[<<n, cv[n]>>].w # <<>> /\ ~\E i \in idx : s[i].n = n}
         wrong == {i \in idx : Canon(s[i].n, s[i].v) /\ s[i].evs # B[<<s[i].n, s[i].v>>].w}
         v2 == IF missing # {} \/ wrong # {}
               THEN <<V("Converged", [missing |-> missing, wrong |-> {s[i] : i \in wrong}, last |-> Trace[l].last, tip |-> TipView,
                                      kf |-> IF missing = {} /\ AllKf(wrong, "F7") THEN "F7" ELSE "none"])>>
               ELSE <<>>
         \* the chain stopped, yet the syncer is rewound again and again (observed 30 times): it never converges
         v3 == IF Trace[l].loop THEN <<V("Converged", [why |-> "rewound for ever after the chain stopped", store |-> s, kf |-> "none"])>> ELSE <<>>
         \* the store of the syncer could not even be read back consistently (events of blocks it no longer has)
         v4 == IF "storeerr" \in DOMAIN Trace[l] /\ Trace[l].storeerr # ""
               THEN <<V("Converged", [why |-> "the store is inconsistent", err |-> Trace[l].storeerr, kf |-> "none"])>> ELSE <<>>
     IN viol' = IF v4 # <<>> THEN viol \o v4 ELSE IF Trace[l].quiet THEN viol \o v0 \o v1 \o v2 ELSE viol \o v3
  /\ l' = l + 1 /\ UNCHANGED <<t, tag, B, cv, tip, fin, st, seen, pendAck, forks, kfb>>

Judged == {"cfg", "chain", "process", "track", "reorg", "ack", "restart", "end"}
EvOther ==
  /\ l <= Len(Trace) /\ Ev \notin Judged
  /\ l' = l + 1 /\ UNCHANGED <<t, tag, B, cv, tip, fin, st, seen, pendAck, forks, kfb, viol>>

Finish ==
  /\ l = Len(Trace) + 1
  /\ PrintT(<<"VIOL", ToJson(viol)>>)
  /\ PrintT(<<"DONE", ToJson([lines |-> Len(Trace), traces |-> t])>>)
  /\ l' = l + 1 /\ UNCHANGED <<t, tag, B, cv, tip, fin, st, seen, pendAck, forks, kfb, viol>>

Next == EvCfg \/ EvChain \/ EvProcess \/ EvTrack \/ EvReorg \/ EvAck \/ EvRestart \/ EvEnd \/ EvOther \/ Finish
Spec == Init /\ [][Next]_vars

HW == TLCSet(1, IF l > TLCGet(1) THEN l ELSE TLCGet(1))
Accepted == TLCGet(1) = Len(Trace) + 2
=============================================================================
