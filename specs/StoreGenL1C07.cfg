\* generated by mkstorecfg.py - edge cover, l1info faults
CONSTANTS
  Kind = "l1info"
  Fixed = TRUE
  FixedF11 = TRUE
  H = 2
  MaxBlocks = 2
  MaxEvents = 2
  MaxLeaves = 3
  MaxOps = 3
  Faults = {"stmt", "ctx", "commit"}
  AllowGap = FALSE
  Dups = FALSE
  AllowRestart = TRUE
  AllowReorg = FALSE
  Rollups = {1, 2}
  ExitRoots = {0, 1}
INIT Init
NEXT Next
VIEW view
ACTION_CONSTRAINT Dump
CHECK_DEADLOCK FALSE
