\* generated by mkbridgeapicfg.sh - C12 exhaustive, L1 lookup focus: 5 L1 bridges, 5 leaves over 5 blocks (several per block, gaps)
CONSTANTS
  H = 3
  MaxDeps = 5
  MaxL2 = 1
  MaxInfos = 5
  MaxBlocks = 5
  MaxVer = 0
  Ours = 1
  Others = {}
  AllowSkipped = FALSE
  Variant = "code"
INIT Init
NEXT Next
INVARIANT Inv
CHECK_DEADLOCK FALSE
