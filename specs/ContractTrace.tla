------------------------------- MODULE ContractTrace -------------------------------
(* Monitor of the contract oracle (C01, C11): closes "reference implementation = the real Solidity contracts = node".

   The trace is recorded by harness/areas/contracts from the REAL PolygonZkEVMBridgeV2 (behind its proxy),
   PolygonZkEVMGlobalExitRootV2 and VerifyBatchesMock contracts running in go-ethereum's simulated backend, and from the
   REAL bridgesync / l1infotreesync processors fed with the contracts' logs through the REAL downloader and appenders.
   Every 32-byte value arrives as a *name* (harness/names): the dictionary is filled only by the reference implementation
   from the inputs the driver generated, so a contract value that carries the structural name demanded here proves
   "contract = reference", and a node value carrying it proves "node = contract".  "unk" equals nothing.

   What the properties say, and nothing else:
     C01  after the deposit with count i the contract's root is the root over leaves 1..i+1, the leaf is the contract's
          getLeafValue of the deposit's fields, and the node's root by index / leaf value are the same values.
     C11  the i-th L1 info leaf, its global exit root and the root after it are what the GER contract computes
          (events, l1InfoRootMap, getRoot, getLeafValue, getLastGlobalExitRoot, globalExitRootMap), and the node has the
          same; the rollup exit root is what the rollup manager computes over "per rollup the last non-zero exit root".

   Trace lines (ndjson; `*_c = "skip"`: the contract's state between two transactions of one block cannot be read, the
   value is only demanded where the contract itself exposed it - event, per-count storage, or state of the sealed block):
     {"ev":"cfg","t":T,"kind":"bridge"|"l1",..}                                       starts a new trace
     {"ev":"process","tree":..,"blk":B,"res":"ok"|..}                                 the node processed the block's events
     {"ev":"bridge","i":I,"contract_root_c":..,"contract_root":N,"contract_count":C|-1,"contract_leaf":N,
        "node_root_c":..,"node_root":N,"node_leaf_c":..,"node_leaf":N}
     {"ev":"leafvalue","case":K,"atom":A,"contract":N,"node":N}                       pure getLeafValue / Bridge.Hash
     {"ev":"l1info","i":I,"contract_root":N,"contract_rootmap":N,"contract_leafcount":C,"contract_getroot_c":..,
        "contract_getroot":N,"contract_leaf_c":..,"contract_leaf":N,"ger_c":..,"ger":N,"known":BOOL,
        "node_c":..,"node_leaf":N,"node_ger":N,"node_root_c":..,"node_root":N}
     {"ev":"rollup","step":K,"rid":R,"x":X,"contract_c":..,"contract_rer":N,"node_c":..,"node_rer":N}
     {"ev":"sync","bridge_contract":C|-1,"bridge_node":C,"l1_contract":C,"l1_node":C} leaf counts after a block
     {"ev":"ambiguous","what":..}                                                     one hash got two names (driver problem)

   Predicates (accumulated in `viol`; every line is consumed):
     ReferenceIsContract   a contract answer does not carry the expected structural name: the reference implementation
                           (hence every name in C01/C11) is not grounded - reported as infrastructure by the check
     NodeMirrorsContract   a node answer does not carry the expected structural name (= differs from the contract)
     NodeProcessesEvents   the node refused a block of genuine contract events
     INFRA-*               the driver broke its own rules
*)
EXTENDS Integers, Sequences, FiniteSets, TLC, Json, IOUtils

Trace == ndJsonDeserialize(IOEnv.TRACE_FILE)

VARIABLES l,      \* next line
          t,      \* index of the current trace
          nB,     \* deposits seen in this trace
          nI,     \* L1 info leaves seen in this trace
          ust,    \* rollup exit tree as the property states it: rollup id -> atom of its last non-zero exit root (0 = none)
          cnt,    \* what was checked: [bridge, roots, leafvalue, l1info, rollup]
          viol

vars == <<l, t, nB, nI, ust, cnt, viol>>

Rids == <<1, 2, 3, 4, 5, 6, 7, 8>>
NoRollups == [r \in 1..8 |-> 0]
NoCnt == [bridge |-> 0, contract_roots |-> 0, leafvalue |-> 0, l1info |-> 0, rollup |-> 0, contract_rers |-> 0]

Prefix(n)   == [k \in 1..n |-> k]
RootName(n) == [t |-> "s", h |-> 32, ls |-> Prefix(n)]        \* root of the append-only tree over leaf atoms 1..n
LeafName(a) == [t |-> "s", h |-> 0, ls |-> <<a>>]
GerName(a)  == [t |-> "ger", h |-> 0, ls |-> <<a>>]
ZeroName(h) == [t |-> "z", h |-> h, ls |-> <<>>]
UName(u)    == LET pos == SelectSeq(Rids, LAMBDA r : u[r] # 0)
               IN [t |-> "u", h |-> 32, ls |-> [k \in 1..Len(pos) |-> <<pos[k] - 1, u[pos[k]]>>]]
(* compare tags first: TLC refuses to compare an integer with a tuple *)
Same(a, b) == a.t = b.t /\ a.h = b.h /\ Len(a.ls) = Len(b.ls) /\ a.ls = b.ls

V(pred, info) == [t |-> t, l |-> l, inv |-> pred, info |-> info]
Chk(ok, pred, what, got, want) == IF ok THEN <<>> ELSE <<V(pred, [what |-> what, got |-> got, want |-> want])>>
Ref(what, got, want)  == Chk(Same(got, want), "ReferenceIsContract", what, got, want)
Node(what, got, want) == Chk(Same(got, want), "NodeMirrorsContract", what, got, want)

Init ==
  /\ TLCSet(1, 0)
  /\ l = 1 /\ t = 0 /\ nB = 0 /\ nI = 0 /\ ust = NoRollups /\ cnt = NoCnt /\ viol = <<>>

Is(ev) == l <= Len(Trace) /\ Trace[l].ev = ev

EvCfg ==
  /\ Is("cfg")
  /\ t' = t + 1 /\ nB' = 0 /\ nI' = 0 /\ ust' = NoRollups
  /\ l' = l + 1 /\ UNCHANGED <<cnt, viol>>

EvProcess ==
  /\ Is("process")
  /\ viol' = viol \o Chk(Trace[l].res = "ok", "NodeProcessesEvents", Trace[l].tree, Trace[l], "ok")
  /\ l' = l + 1 /\ UNCHANGED <<t, nB, nI, ust, cnt>>

EvBridge ==
  /\ Is("bridge")
  /\ LET e == Trace[l]
         n == nB + 1
     IN /\ viol' = viol
             \o Chk(e.i = nB, "ReferenceIsContract", "depositCount of the event", e.i, nB)
             \o Ref("getLeafValue", e.contract_leaf, LeafName(n))
             \o (IF e.contract_root_c = "skip" THEN <<>> ELSE Ref("root (" \o e.contract_root_c \o ")", e.contract_root, RootName(n)))
             \o Chk(e.contract_count = -1 \/ e.contract_count = n, "ReferenceIsContract", "depositCount", e.contract_count, n)
             \o Chk(e.node_root_c = "ok", "NodeMirrorsContract", "GetExitRootByIndex", e.node_root_c, "ok")
             \o Node("exit root by index", e.node_root, RootName(n))
             \o Node("leaf value (Bridge.Hash of the stored deposit)", e.node_leaf, LeafName(n))
        /\ cnt' = [cnt EXCEPT !.bridge = @ + 1, !.contract_roots = @ + (IF e.contract_root_c = "skip" THEN 0 ELSE 1)]
  /\ nB' = nB + 1
  /\ l' = l + 1 /\ UNCHANGED <<t, nI, ust>>

EvLeafValue ==
  /\ Is("leafvalue")
  /\ LET e == Trace[l]
     IN viol' = viol \o Ref("getLeafValue (pure call)", e.contract, LeafName(e.atom))
                     \o Node("Bridge.Hash (pure call)", e.node, LeafName(e.atom))
  /\ cnt' = [cnt EXCEPT !.leafvalue = @ + 1]
  /\ l' = l + 1 /\ UNCHANGED <<t, nB, nI, ust>>

EvL1Info ==
  /\ Is("l1info")
  /\ LET e == Trace[l]
         n == nI + 1
     IN viol' = viol
          \o Chk(e.i = nI /\ e.contract_leafcount = n, "ReferenceIsContract", "leaf count of UpdateL1InfoTreeV2", e.contract_leafcount, n)
          \o Ref("L1 info root of UpdateL1InfoTreeV2", e.contract_root, RootName(n))
          \o Ref("l1InfoRootMap[leafCount]", e.contract_rootmap, RootName(n))
          \o (IF e.contract_getroot_c = "skip" THEN <<>> ELSE Ref("getRoot", e.contract_getroot, RootName(n)))
          \o (IF e.contract_leaf_c = "skip" THEN <<>> ELSE Ref("getLeafValue", e.contract_leaf, LeafName(n)))
          \o (IF e.ger_c = "skip" THEN <<>> ELSE Ref("getLastGlobalExitRoot", e.ger, GerName(n)))
          \o Chk(e.node_c = "ok" /\ e.node_root_c = "ok", "NodeMirrorsContract", "GetInfoByIndex / GetL1InfoTreeRootByIndex",
                 <<e.node_c, e.node_root_c>>, "ok")
          \o Node("L1 info root by index", e.node_root, RootName(n))
          \o Node("L1 info leaf hash", e.node_leaf, LeafName(n))
          \o Node("global exit root of the leaf", e.node_ger, GerName(n))
          \o Chk(e.node_c # "ok" \/ e.known, "NodeMirrorsContract", "globalExitRootMap[node's global exit root] is set", e.known, TRUE)
  /\ nI' = nI + 1
  /\ cnt' = [cnt EXCEPT !.l1info = @ + 1]
  /\ l' = l + 1 /\ UNCHANGED <<t, nB, ust>>

EvRollup ==
  /\ Is("rollup")
  /\ LET e  == Trace[l]
         u2 == IF e.x # 0 THEN [ust EXCEPT ![e.rid] = e.x] ELSE ust     \* zero and unchanged exit roots change nothing
         empty == \A r \in 1..8 : u2[r] = 0
         want == UName(u2)
     IN /\ ust' = u2
        /\ viol' = viol
             \o Chk(e.x # 0 \/ ust[e.rid] = 0, "INFRA-ZeroAfterNonZero", "the mock empties the leaf, the property keeps it", e.rid, 0)
             \o (IF e.contract_c = "skip" THEN <<>>
                 ELSE IF empty THEN Chk(Same(e.contract_rer, ZeroName(32)) \/ Same(e.contract_rer, ZeroName(0)), "ReferenceIsContract",
                                        "rollup exit root of the empty tree", e.contract_rer, ZeroName(32))
                 ELSE Ref("rollup exit root (" \o e.contract_c \o ")", e.contract_rer, want))
             \o (IF e.node_c = "skip" \/ empty THEN <<>>       \* nothing is stated about a tree without any exit root
                 ELSE Chk(e.node_c = "ok", "NodeMirrorsContract", "GetLastRollupExitRoot", e.node_c, "ok")
                      \o Node("last rollup exit root", e.node_rer, want))
        /\ cnt' = [cnt EXCEPT !.rollup = @ + 1, !.contract_rers = @ + (IF e.contract_c = "skip" THEN 0 ELSE 1)]
  /\ l' = l + 1 /\ UNCHANGED <<t, nB, nI>>

EvSync ==
  /\ Is("sync")
  /\ LET e == Trace[l]
     IN viol' = viol
          \o (IF e.bridge_contract = -1 THEN <<>>
              ELSE Chk(e.bridge_contract = nB, "ReferenceIsContract", "bridge depositCount after the block", e.bridge_contract, nB)
                   \o Chk(e.bridge_node = nB, "NodeMirrorsContract", "deposits stored by the node", e.bridge_node, nB))
          \o Chk(e.l1_contract = nI, "ReferenceIsContract", "L1 info leaf count after the block", e.l1_contract, nI)
          \o Chk(e.l1_node = nI, "NodeMirrorsContract", "L1 info leaves stored by the node", e.l1_node, nI)
  /\ l' = l + 1 /\ UNCHANGED <<t, nB, nI, ust, cnt>>

(* a second node, built by the real constructor (l1infotreesync.New: configured InitialBlock at or below the block of the first
   event, real downloader, real driver) and started on the finished history: it mirrors the contract like the first one *)
EvSecond ==
  /\ Is("second")
  /\ LET e == Trace[l]
         ctx(i) == "second node (InitialBlock " \o ToString(e.ib) \o ", first event in block " \o ToString(e.first) \o "), leaf " \o ToString(i)
         perLeaf(i) == LET x == e.leaves[i + 1] IN
                         Chk(x.c = "ok" /\ x.root_c = "ok", "NodeMirrorsContract", ctx(i), <<x.c, x.root_c>>, "ok")
                         \o (IF x.c = "ok" THEN Node("L1 info leaf hash (second node)", x.leaf, LeafName(i + 1))
                                                 \o Node("global exit root of the leaf (second node)", x.ger, GerName(i + 1)) ELSE <<>>)
                         \o (IF x.root_c = "ok" THEN Node("L1 info root by index (second node)", x.root, RootName(i + 1)) ELSE <<>>)
         RECURSIVE all(_)
         all(i) == IF i >= Len(e.leaves) THEN <<>> ELSE perLeaf(i) \o all(i + 1)
         empty == \A r \in 1..8 : ust[r] = 0
     IN viol' = viol
          \o Chk(e.c = "ok", "NodeMirrorsContract", "the second node reaches the tip of the chain", e.c, "ok")
          \o Chk(e.n = nI /\ Len(e.leaves) = nI, "INFRA-SecondNode", "leaves asked", Len(e.leaves), nI)
          \o (IF e.c = "ok" THEN all(0) ELSE <<>>)
          \o (IF e.c # "ok" \/ e.rer_c = "skip" \/ empty THEN <<>>
              ELSE Chk(e.rer_c = "ok", "NodeMirrorsContract", "GetLastRollupExitRoot (second node)", e.rer_c, "ok")
                   \o (IF e.rer_c = "ok" THEN Node("last rollup exit root (second node)", e.rer, UName(ust)) ELSE <<>>))
  /\ l' = l + 1 /\ UNCHANGED <<t, nB, nI, ust, cnt>>

(* ... and a second bridge syncer (bridgesync.NewL1, InitialBlockNum below the block of the first deposit) *)
EvSecondBridge ==
  /\ Is("second_bridge")
  /\ LET e == Trace[l]
         per(i) == LET x == e.roots[i + 1] IN
                     Chk(x.c = "ok", "NodeMirrorsContract", "GetExitRootByIndex of the second bridge syncer", <<i, x.c>>, "ok")
                     \o (IF x.c = "ok" THEN Node("exit root by index (second bridge syncer)", x.root, RootName(i + 1)) ELSE <<>>)
         RECURSIVE all(_)
         all(i) == IF i >= Len(e.roots) THEN <<>> ELSE per(i) \o all(i + 1)
     IN viol' = viol
          \o Chk(e.c = "ok", "NodeMirrorsContract", "the second bridge syncer reaches the tip of the chain", e.c, "ok")
          \o Chk(e.n = nB /\ Len(e.roots) = nB, "INFRA-SecondNode", "deposits asked", Len(e.roots), nB)
          \o (IF e.c = "ok" THEN all(0) ELSE <<>>)
  /\ l' = l + 1 /\ UNCHANGED <<t, nB, nI, ust, cnt>>

EvAmbiguous ==
  /\ Is("ambiguous")
  /\ viol' = viol \o <<V("INFRA-AmbiguousNames", Trace[l].what)>>
  /\ l' = l + 1 /\ UNCHANGED <<t, nB, nI, ust, cnt>>

Finish ==
  /\ l = Len(Trace) + 1
  /\ PrintT(<<"VIOL", ToJson(viol)>>)
  /\ PrintT(<<"DONE", ToJson([lines |-> Len(Trace), traces |-> t, checked |-> cnt])>>)
  /\ l' = l + 1 /\ UNCHANGED <<t, nB, nI, ust, cnt, viol>>

Next == EvCfg \/ EvProcess \/ EvBridge \/ EvLeafValue \/ EvL1Info \/ EvRollup \/ EvSync \/ EvSecond \/ EvSecondBridge \/ EvAmbiguous \/ Finish
Spec == Init /\ [][Next]_vars

HW == TLCSet(1, IF l > TLCGet(1) THEN l ELSE TLCGet(1))
Accepted == TLCGet(1) = Len(Trace) + 2
=============================================================================
