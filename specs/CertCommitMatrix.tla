--------------------------- MODULE CertCommitMatrix ---------------------------
(* The COVERAGE MATRIX of an Agglayer certificate (C10), written from the code:

     agglayer/types/types.go             Certificate.PPHashToSign, Certificate.FEPHashToSign, Certificate.Hash (identity),
                                         BridgeExit.Hash, ImportedBridgeExit.Hash, ClaimFromMainnnet.Hash, ClaimFromRollup.Hash,
                                         MerkleProof.Hash, L1InfoTreeLeaf.Hash (= Inner.Hash), GlobalIndex.Hash,
                                         all MarshalJSON / UnmarshalJSON (column json)
     agglayer/grpc/agglayer_grpc_client.go   SendCertificate, convertToProtoBridgeExit, convertToProtoImportedBridgeExit,
                                         convertAggchainData (column wire)

   A certificate is a flat map from field keys <<g, i, n>> to values: g is the group ("top", "agg", "exit", "imp"), i the
   position of the element in its list (0 for top / agg), n the field name.  One row of the matrix per (g, n):

     <<g, n, kind, wire, json, pp, fep, id>>
       kind   "any" | "mainnet" | "rollup"   the row exists only for imported exits with that claim kind
       wire   where the field travels in agglayer.node.types.v1.Certificate
       json   where it sits in json.Marshal(certificate) (the signed_certificate column)
       pp     "y" the field enters PPHashToSign, "n" it does not, "r" only for rollup claims (GenerateGlobalIndex drops the
              rollup index when the mainnet flag is set)
       fep    the same for FEPHashToSign
       id     the same for Certificate.Hash (the certificate's identity)

   Rows "n_*" / "order_*" are the structure of the two lists (length, order); they are covered like any field: every
   commitment hashes the per-element hashes in list order.  Rows "kind" are the discriminators of the two unions
   (aggchain_data, claim_data); they decide which other rows exist and cannot be perturbed on their own.
*)
EXTENDS Integers, Sequences, FiniteSets

Matrix == {
  \* ---------------------------------------------------------------- certificate
  <<"top", "network_id",        "any", "network_id",                          "network_id",                     "n", "n", "y">>,
  <<"top", "height",            "any", "height",                              "height",                         "n", "y", "y">>,   \* FEP: 8 bytes little endian, id: 8 bytes big endian
  <<"top", "prev_ler",          "any", "prev_local_exit_root",                "prev_local_exit_root",           "n", "n", "y">>,
  <<"top", "new_ler",           "any", "new_local_exit_root",                 "new_local_exit_root",            "y", "y", "y">>,
  <<"top", "metadata",          "any", "metadata",                            "metadata",                       "n", "n", "n">>,
  <<"top", "custom_chain_data", "any", "custom_chain_data",                   "custom_chain_data,omitempty",    "n", "n", "n">>,
  <<"top", "l1_leaf_count",     "any", "l1_info_tree_leaf_count (optional)",  "l1_info_tree_leaf_count,omitempty", "n", "n", "n">>,
  <<"top", "n_exits",           "any", "len(bridge_exits)",                   "len(bridge_exits)",              "n", "n", "y">>,
  <<"top", "order_exits",       "any", "order of bridge_exits",               "order of bridge_exits",          "n", "n", "y">>,
  <<"top", "n_imps",            "any", "len(imported_bridge_exits)",          "len(imported_bridge_exits)",     "y", "y", "y">>,
  <<"top", "order_imps",        "any", "order of imported_bridge_exits",      "order of imported_bridge_exits", "y", "y", "y">>,
  \* ---------------------------------------------------------------- aggchain_data (signature | proof)
  <<"agg", "kind",              "any", "aggchain_data oneof",                 "aggchain_data: has 'proof' / 'signature'", "n", "n", "n">>,
  <<"agg", "signature",         "any", "aggchain_data.signature | .generic.signature", "aggchain_data.signature", "n", "n", "n">>,
  <<"agg", "params",            "proof", "aggchain_data.generic.aggchain_params", "aggchain_data.aggchain_params", "n", "y", "n">>,
  <<"agg", "proof",             "proof", "aggchain_data.generic.sp1_stark.proof", "aggchain_data.proof",          "n", "n", "n">>,
  <<"agg", "version",           "proof", "aggchain_data.generic.sp1_stark.version", "aggchain_data.version",      "n", "n", "n">>,
  <<"agg", "vkey",              "proof", "aggchain_data.generic.sp1_stark.vkey", "aggchain_data.vkey",            "n", "n", "n">>,
  <<"agg", "context",           "proof", "aggchain_data.generic.context",     "aggchain_data.context",          "n", "n", "n">>,
  \* ---------------------------------------------------------------- bridge_exits[i]
  <<"exit", "leaf_type",        "any", "leaf_type (enum, +1)",                "leaf_type (Transfer|Message)",   "n", "n", "y">>,
  <<"exit", "origin_network",   "any", "token_info.origin_network",           "token_info.origin_network",      "n", "n", "y">>,
  <<"exit", "origin_token",     "any", "token_info.origin_token_address",     "token_info.origin_token_address", "n", "n", "y">>,
  <<"exit", "dest_network",     "any", "dest_network",                        "dest_network",                   "n", "n", "y">>,
  <<"exit", "dest_address",     "any", "dest_address",                        "dest_address",                   "n", "n", "y">>,
  <<"exit", "amount",           "any", "amount (32 bytes BE, absent if nil)", "amount (decimal string, '<nil>')", "n", "n", "y">>,
  <<"exit", "metadata",         "any", "metadata (32 bytes, absent if empty)", "metadata (hex | null)",         "n", "n", "y">>,
  \* ---------------------------------------------------------------- imported_bridge_exits[i]
  <<"imp", "be.leaf_type",      "any", "bridge_exit.leaf_type",               "bridge_exit.leaf_type",          "n", "y", "y">>,
  <<"imp", "be.origin_network", "any", "bridge_exit.token_info.origin_network", "bridge_exit.token_info.origin_network", "n", "y", "y">>,
  <<"imp", "be.origin_token",   "any", "bridge_exit.token_info.origin_token_address", "bridge_exit.token_info.origin_token_address", "n", "y", "y">>,
  <<"imp", "be.dest_network",   "any", "bridge_exit.dest_network",            "bridge_exit.dest_network",       "n", "y", "y">>,
  <<"imp", "be.dest_address",   "any", "bridge_exit.dest_address",            "bridge_exit.dest_address",       "n", "y", "y">>,
  <<"imp", "be.amount",         "any", "bridge_exit.amount",                  "bridge_exit.amount",             "n", "y", "y">>,
  <<"imp", "be.metadata",       "any", "bridge_exit.metadata",                "bridge_exit.metadata",           "n", "y", "y">>,
  <<"imp", "gi.mainnet",        "any", "global_index bit 64",                 "global_index.mainnet_flag",      "y", "y", "y">>,
  <<"imp", "gi.rollup",         "any", "global_index bits 32..63",            "global_index.rollup_index",      "r", "r", "r">>,
  <<"imp", "gi.leaf",           "any", "global_index bits 0..31",             "global_index.leaf_index",        "y", "y", "y">>,
  <<"imp", "claim.kind",        "any", "claim oneof (mainnet | rollup)",      "claim_data: key Mainnet | Rollup", "n", "n", "y">>,
  <<"imp", "claim.proof_leaf_mer.root",       "mainnet", "mainnet.proof_leaf_mer.root",       "claim_data.Mainnet.proof_leaf_mer.root",            "n", "n", "y">>,
  <<"imp", "claim.proof_leaf_mer.siblings",   "mainnet", "mainnet.proof_leaf_mer.siblings",   "claim_data.Mainnet.proof_leaf_mer.proof.siblings",  "n", "n", "y">>,
  <<"imp", "claim.proof_leaf_ler.root",       "rollup",  "rollup.proof_leaf_ler.root",        "claim_data.Rollup.proof_leaf_ler.root",             "n", "n", "y">>,
  <<"imp", "claim.proof_leaf_ler.siblings",   "rollup",  "rollup.proof_leaf_ler.siblings",    "claim_data.Rollup.proof_leaf_ler.proof.siblings",   "n", "n", "y">>,
  <<"imp", "claim.proof_ler_rer.root",        "rollup",  "rollup.proof_ler_rer.root",         "claim_data.Rollup.proof_ler_rer.root",              "n", "n", "y">>,
  <<"imp", "claim.proof_ler_rer.siblings",    "rollup",  "rollup.proof_ler_rer.siblings",     "claim_data.Rollup.proof_ler_rer.proof.siblings",    "n", "n", "y">>,
  <<"imp", "claim.proof_ger_l1root.root",     "any", "<claim>.proof_ger_l1root.root",         "claim_data.<K>.proof_ger_l1root.root",              "n", "n", "y">>,
  <<"imp", "claim.proof_ger_l1root.siblings", "any", "<claim>.proof_ger_l1root.siblings",     "claim_data.<K>.proof_ger_l1root.proof.siblings",    "n", "n", "y">>,
  <<"imp", "claim.l1_leaf.index",             "any", "<claim>.l1_leaf.l1_info_tree_index",    "claim_data.<K>.l1_leaf.l1_info_tree_index",         "n", "n", "n">>,   \* L1InfoTreeLeaf.Hash = Inner.Hash
  <<"imp", "claim.l1_leaf.rer",               "any", "<claim>.l1_leaf.rer",                   "claim_data.<K>.l1_leaf.rer",                        "n", "n", "n">>,
  <<"imp", "claim.l1_leaf.mer",               "any", "<claim>.l1_leaf.mer",                   "claim_data.<K>.l1_leaf.mer",                        "n", "n", "n">>,
  <<"imp", "claim.l1_leaf.ger",               "any", "<claim>.l1_leaf.inner.global_exit_root", "claim_data.<K>.l1_leaf.inner.global_exit_root",    "n", "n", "y">>,
  <<"imp", "claim.l1_leaf.block_hash",        "any", "<claim>.l1_leaf.inner.block_hash",      "claim_data.<K>.l1_leaf.inner.block_hash",           "n", "n", "y">>,
  <<"imp", "claim.l1_leaf.timestamp",         "any", "<claim>.l1_leaf.inner.timestamp",       "claim_data.<K>.l1_leaf.inner.timestamp",            "n", "n", "y">>
}

(* fields that travel and are stored but enter neither the signed commitment nor the identity: the explicit list the
   matrix is checked against (MatrixConsistent) *)
ListedUncovered == {
  <<"top", "metadata">>, <<"top", "custom_chain_data">>, <<"top", "l1_leaf_count">>,
  <<"agg", "kind">>, <<"agg", "signature">>, <<"agg", "proof">>, <<"agg", "version">>, <<"agg", "vkey">>, <<"agg", "context">>,
  <<"imp", "claim.l1_leaf.index">>, <<"imp", "claim.l1_leaf.rer">>, <<"imp", "claim.l1_leaf.mer">>
}

(* rows that cannot be changed on their own *)
Discriminators == { <<"agg", "kind">>, <<"imp", "claim.kind">> }
StructRows     == { <<"top", "n_exits">>, <<"top", "order_exits">>, <<"top", "n_imps">>, <<"top", "order_imps">> }

-----------------------------------------------------------------------------
(* the matrix as a function of <<group, name>> (a constant: TLC evaluates it once) *)
RowOf == [gn \in { <<r[1], r[2]>> : r \in Matrix } |-> CHOOSE r \in Matrix : r[1] = gn[1] /\ r[2] = gn[2]]
Row(g, n)    == RowOf[<<g, n>>]
HasRow(g, n) == <<g, n>> \in DOMAIN RowOf
Col(scheme) == IF scheme = "pp" THEN 6 ELSE 7

(* does the row exist for this certificate element?  aggKind: "signature" (PP) | "proof" (FEP); claimKind of the element *)
Exists(r, aggKind, claimKind) ==
  CASE r[1] = "agg" -> r[3] = "any" \/ r[3] = aggKind
    [] r[1] = "imp" -> r[3] = "any" \/ r[3] = claimKind
    [] OTHER        -> TRUE

(* y / r(ollup only) *)
Yes(flag, claimKind) == flag = "y" \/ (flag = "r" /\ claimKind = "rollup")

CoveredByCommit(scheme, g, n, claimKind) == HasRow(g, n) /\ Yes(Row(g, n)[Col(scheme)], claimKind)
CoveredById(g, n, claimKind)             == HasRow(g, n) /\ Yes(Row(g, n)[8], claimKind)

AggKind(scheme) == IF scheme = "pp" THEN "signature" ELSE "proof"

(* the field keys of a certificate with the given claim kinds (sequence, one per imported exit) and ne exits.
   The structure rows exist where there is something to change: n_* needs one element, order_* two. *)
KeysOf(scheme, ne, kinds) ==
  LET ni == Len(kinds) IN
       { <<r[1], 0, r[2]>> : r \in { x \in Matrix : x[1] = "top" /\ <<x[1], x[2]>> \notin StructRows } }
  \cup (IF ne >= 1 THEN {<<"top", 0, "n_exits">>} ELSE {}) \cup (IF ne >= 2 THEN {<<"top", 0, "order_exits">>} ELSE {})
  \cup (IF ni >= 1 THEN {<<"top", 0, "n_imps">>} ELSE {})  \cup (IF ni >= 2 THEN {<<"top", 0, "order_imps">>} ELSE {})
  \cup { <<"agg", 0, r[2]>> : r \in { x \in Matrix : x[1] = "agg" /\ Exists(x, AggKind(scheme), "none") } }
  \cup { <<"exit", i, r[2]>> : i \in 1..ne, r \in { x \in Matrix : x[1] = "exit" } }
  \cup UNION { { <<"imp", i, r[2]>> : r \in { x \in Matrix : x[1] = "imp" /\ Exists(x, "none", kinds[i]) } } : i \in 1..ni }

KindAt(k, kinds) == IF k[1] = "imp" THEN kinds[k[2]] ELSE "none"

CommitKeys(scheme, ne, kinds) == { k \in KeysOf(scheme, ne, kinds) : CoveredByCommit(scheme, k[1], k[3], KindAt(k, kinds)) }
IdKeys(scheme, ne, kinds)     == { k \in KeysOf(scheme, ne, kinds) : CoveredById(k[1], k[3], KindAt(k, kinds)) }
CoveredKeys(scheme, ne, kinds) == CommitKeys(scheme, ne, kinds) \cup IdKeys(scheme, ne, kinds)
IsStruct(k) == <<k[1], k[3]>> \in StructRows
IsDiscr(k)  == <<k[1], k[3]>> \in Discriminators

-----------------------------------------------------------------------------
(* consistency of the matrix: one row per field; every row travels on the wire and in the JSON; every row is covered by
   the identity or a commitment, or is explicitly listed as uncovered - never both *)
MatrixConsistent ==
  /\ \A r1, r2 \in Matrix : (r1[1] = r2[1] /\ r1[2] = r2[2]) => r1 = r2
  /\ \A r \in Matrix : /\ r[4] # "-" /\ r[5] # "-"
                       /\ r[3] \in {"any", "mainnet", "rollup", "proof"}
                       /\ {r[6], r[7], r[8]} \subseteq {"y", "n", "r"}
                       /\ LET cov == r[6] # "n" \/ r[7] # "n" \/ r[8] # "n" IN cov <=> (<<r[1], r[2]>> \notin ListedUncovered)
  /\ \A u \in ListedUncovered : HasRow(u[1], u[2])
  \* what a commitment covers of the imported exits and the structure, the identity covers too (the identity is the finer one)
  /\ \A r \in Matrix : (r[1] \in {"exit", "imp"} /\ (r[6] # "n" \/ r[7] # "n")) => r[8] # "n"
=============================================================================
