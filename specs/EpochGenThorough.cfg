\* behaviour export (edge cover) for replay into the real notifier
CONSTANTS
  Ns = {1,2,3,4}
  Starts = {0,1,7}
  Ps = {0,1,24,25,26,33,34,49,50,51,66,67,74,75,76,98,99}
  Epochs = 3
  FeedStart = TRUE
INIT Init
NEXT Next
VIEW view
ACTION_CONSTRAINT Dump
CHECK_DEADLOCK FALSE
