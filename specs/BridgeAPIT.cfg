\* generated by mkbridgeapicfg.sh - C12 exhaustive, joint L1/L2 histories (thorough): 3 bridges per network, 4 leaves, 4 blocks, 2 verified batches
CONSTANTS
  H = 2
  MaxDeps = 3
  MaxL2 = 3
  MaxInfos = 4
  MaxBlocks = 4
  MaxVer = 2
  Ours = 1
  Others = {2}
  AllowSkipped = FALSE
  Variant = "code"
INIT Init
NEXT Next
INVARIANT Inv
CHECK_DEADLOCK FALSE
