\* generated by mkstorecfg.py - edge cover: repeated deposit contents across restarts (4 leaves: a repeated leaf at two even indexes, then one more)
CONSTANTS
  Kind = "bridge"
  Fixed = TRUE
  FixedF11 = TRUE
  H = 3
  MaxBlocks = 3
  MaxEvents = 2
  MaxLeaves = 4
  MaxOps = 5
  Faults = {}
  AllowGap = FALSE
  Dups = TRUE
  AllowRestart = TRUE
  AllowReorg = FALSE
  Rollups = {}
  ExitRoots = {}
INIT Init
NEXT Next
VIEW view
ACTION_CONSTRAINT Dump
CHECK_DEADLOCK FALSE
