\* case export for replay into the real claim handler, quick: all trees with <= 4 frames
CONSTANTS
  MaxFrames = 4
  FullUpTo = 3
  Kinds = {"other", "decoy", "asset", "msg", "preAsset", "preMsg"}
  CoreKinds = {"other", "asset"}
  GIs = {"A", "B"}
  EvGIs = {"A"}
INIT Init
NEXT Next
ACTION_CONSTRAINT Dump
CHECK_DEADLOCK FALSE
