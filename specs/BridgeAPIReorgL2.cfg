\* C12 across reorgs of the stores: the service as coded (no memory), L2 focus
CONSTANTS
  H = 2
  MaxDeps = 1
  MaxL2 = 2
  MaxInfos = 2
  MaxBlocks = 2
  MaxVer = 2
  Ours = 1
  Others = {2}
  AllowSkipped = FALSE
  Variant = "code"
  Memo = "none"
INIT InitRe
NEXT NextRe
INVARIANT InvR
CHECK_DEADLOCK FALSE
