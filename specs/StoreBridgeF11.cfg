\* generated by mkstorecfg.py - code before the F11 repair (initCache sets lastIndex before the node walk): TLC must find the stale frontier after a failed read
CONSTANTS
  Kind = "bridge"
  Fixed = TRUE
  FixedF11 = FALSE
  H = 3
  MaxBlocks = 3
  MaxEvents = 2
  MaxLeaves = 4
  MaxOps = 5
  Faults = {"read"}
  AllowGap = FALSE
  Dups = FALSE
  AllowRestart = TRUE
  AllowReorg = FALSE
  Rollups = {}
  ExitRoots = {}
INIT Init
NEXT Next
VIEW view
INVARIANT Inv
PROPERTY HaltedStops
CHECK_DEADLOCK FALSE
