\* regression: the first repair candidate ("range": fetch [from,tip], from := tip+1, nothing reported for empty ranges)
\* must violate the property once reorgs are in scope (blocks without logs are never tracked by the reorg detector)
CONSTANTS
  MaxBlock = 4
  NG = 2
  Fixed = TRUE
  Variant = "range"
  RestoreOnReorg = FALSE
  MaxRestarts = 0
  MaxReorgs = 1
  MaxDepth = 2
INIT Init
NEXT Next
VIEW view
INVARIANTS TypeOK RowsAreFoldKF RowsAtRestKF
CHECK_DEADLOCK FALSE
