\* C06, exhaustive: forks above the finalized block (any content), detector, restart at any step
CONSTANTS
  N = 3
  Chunks = {1,2}
  TipTags = {"latest"}
  BufCap = 1
  MaxForks = 1
  MaxFails = 0
  MaxPFails = 0
  MaxRestarts = 1
  Detector = TRUE
  RetryLimit = 5
  AtomicRemove = FALSE
  RemoveByHash = FALSE
  LockedRemove = TRUE
  InconsOnFault = FALSE
  Contents = {0,1}
  FinLag = 0
  NoIdle = FALSE
  SimDepth = 0
INIT Init
NEXT Next
VIEW view
INVARIANTS Ordered Faithful NoSkip Converged RewindLow TypeOK
CHECK_DEADLOCK FALSE
