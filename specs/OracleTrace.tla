------------------------------- MODULE OracleTrace -------------------------------
(* Property-level monitor for C15, evaluated by TLC on traces recorded from the real AggOracle (stepped one real
   processLatestGER at a time), the real L1-info store, a scripted L1 client and a recording chain sender.

   It contains only what the property says; it knows nothing about the oracle's cell `blockNumToFetch`:

   safety, judged at every call the chain sender / L1 client received
     SampledWithConfiguredFinality   the L1 client is asked with the configured finality tag
     SampledBlockHadFinality         the block it answered had that finality when sampled
     InjectsLatestRootAtOrBelowSampledBlock
                                     InjectGER(g): g is the most recent root of the L1 info tree at or below the most
                                     recently sampled block (the sample of this attempt: the oracle does not sample
                                     again before the attempt is resolved; an attempt may span several ticks, which the
                                     property allows - "a block that had the configured finality WHEN SAMPLED")
     NotAlreadyOnL2                  g was not on L2 (injected before, or put there by somebody else)
     NotReportedPresent              IsGERInjected(g) had not just answered true
   liveness, bounded form on the recorded schedule ("while newer finalized roots keep appearing it keeps injecting")
     BoundedLiveness                 in a run of n consecutive ticks such that
                                       - no dependency failed in any of them,
                                       - before each of them the newest root at/below the finalized block was not on L2,
                                       - between two consecutive ones the store's last processed block advanced and
                                         nothing else interfered (no reorg, nobody else injected),
                                     an injection occurs as soon as n >= 2*L + 2, where L is the largest lag
                                     max(0, finalized - processed) seen at a tick of the run.
                                     Why 2L+2 and not L+2: an attempt that began before the run may first have to be
                                     resolved (<= L+1 ticks: its block is at most L ahead of the store), and it may end
                                     without an injection (its root is on L2 already); the next attempt samples a block
                                     whose newest root is pending and resolves within L+1 more ticks.  An oracle that
                                     keeps the sampled block until the store reaches it meets this bound for every
                                     schedule; one that re-samples an ever-moving finalized head does not (F3).

   Trace lines (ndjson):
     {"ev":"cfg","name":..,"finality":TAG}      new oracle, new (empty) L1, new store, empty L2  (starts a new trace)
     {"ev":"mine","num":N,"leaves":[g,..]}      L1 block N with info-tree leaves whose GERs are named g (ints >= 1)
     {"ev":"fin","to":N}   {"ev":"reorg","from":N}   {"ev":"ext","g":g}
     {"ev":"sync","to":N,"failed":B}            the store's last processed block is now N (ProcessBlock returned nil up to
                                                N); B # 0: ProcessBlock(B) failed at COMMIT, nothing of B is stored
     {"ev":"tick","calls":[..],"ret":..,"cell":..}   one real processLatestGER; calls in the order they were received:
        {"dep":"l1","tag":TAG,"res":"ok"|"err","num":N}
        {"dep":"sync","blk":N,"res":"leaf"|"notprocessed"|"notfound"|"noblock0"|"err","g":g}      (not judged)
        {"dep":"isinj","g":g,"res":"true"|"false"|"err"}
        {"dep":"inject","g":g,"res":"ok"|"err"}            g = 0: a hash that is no root of the L1 info tree
   Every line is consumed; a failed predicate is appended to `viol`.
*)
EXTENDS Integers, Sequences, FiniteSets, TLC, Json, IOUtils

Trace == ndJsonDeserialize(IOEnv.TRACE_FILE)

VARIABLES l, t,           \* next line, index of the current trace
          fin,            \* configured finality tag
          H, F, S,        \* L1 head, finalized block, last block processed by the store
          leaves,         \* the L1 info tree: sequence of [blk, g]
          l2,             \* roots on L2
          sample,         \* most recently sampled block (0 = none yet)
          run, runL,      \* BoundedLiveness: length of the current run of qualifying ticks, largest lag in it
          clean, lastS,   \* nothing interfered since the last tick; S at the last tick
          viol

vars == <<l, t, fin, H, F, S, leaves, l2, sample, run, runL, clean, lastS, viol>>

Max(s)  == CHOOSE x \in s : \A y \in s : y <= x
Max2(a, b) == IF a > b THEN a ELSE b
LeavesUpTo(b) == { i \in 1..Len(leaves) : leaves[i].blk <= b }
LatestGer(b)  == leaves[Max(LeavesUpTo(b))].g
Pending       == LeavesUpTo(F) # {} /\ LatestGer(F) \notin l2

Init ==
  /\ TLCSet(1, 0)
  /\ l = 1 /\ t = 0 /\ fin = "" /\ H = 0 /\ F = 0 /\ S = 0 /\ leaves = <<>> /\ l2 = {} /\ sample = 0
  /\ run = 0 /\ runL = 0 /\ clean = TRUE /\ lastS = 0 /\ viol = <<>>

V(kind, info) == [t |-> t, l |-> l, inv |-> kind, info |-> info]
Is(e) == l <= Len(Trace) /\ Trace[l].ev = e

EvCfg ==
  /\ Is("cfg")
  /\ fin' = Trace[l].finality /\ t' = t + 1
  /\ H' = 0 /\ F' = 0 /\ S' = 0 /\ leaves' = <<>> /\ l2' = {} /\ sample' = 0
  /\ run' = 0 /\ runL' = 0 /\ clean' = TRUE /\ lastS' = 0
  /\ l' = l + 1 /\ UNCHANGED viol

EvMine ==
  /\ Is("mine")
  /\ LET ls == Trace[l].leaves IN
     /\ H' = Trace[l].num
     /\ leaves' = leaves \o [i \in 1..Len(ls) |-> [blk |-> Trace[l].num, g |-> ls[i]]]
  /\ l' = l + 1 /\ UNCHANGED <<t, fin, F, S, l2, sample, run, runL, clean, lastS, viol>>

EvFin ==
  /\ Is("fin") /\ F' = Trace[l].to
  /\ l' = l + 1 /\ UNCHANGED <<t, fin, H, S, leaves, l2, sample, run, runL, clean, lastS, viol>>

EvSync ==
  /\ Is("sync") /\ S' = Trace[l].to
  /\ l' = l + 1 /\ UNCHANGED <<t, fin, H, F, leaves, l2, sample, run, runL, clean, lastS, viol>>

EvReorg ==
  /\ Is("reorg")
  /\ LET from == Trace[l].from IN
     /\ H' = from - 1 /\ S' = IF S < from THEN S ELSE from - 1
     /\ leaves' = SelectSeq(leaves, LAMBDA x : x.blk < from)
  /\ clean' = FALSE
  /\ l' = l + 1 /\ UNCHANGED <<t, fin, F, l2, sample, run, runL, lastS, viol>>

EvExt ==
  /\ Is("ext") /\ l2' = l2 \cup {Trace[l].g} /\ clean' = FALSE
  /\ l' = l + 1 /\ UNCHANGED <<t, fin, H, F, S, leaves, sample, run, runL, lastS, viol>>

(* sequence of the violation records Rec(i) for the indices i in s with Bad(i), ascending *)
Collect(s, Bad(_), Rec(_)) ==
  LET n == IF s = {} THEN 0 ELSE Max(s)
      f[i \in 0..n] == IF i = 0 THEN <<>>
                       ELSE f[i - 1] \o (IF i \in s /\ Bad(i) THEN <<Rec(i)>> ELSE <<>>)
  IN f[n]

EvTick ==
  /\ Is("tick")
  /\ LET calls == Trace[l].calls
         Idx   == 1..Len(calls)
         L1    == { i \in Idx : calls[i].dep = "l1" }
         L1ok  == { i \in L1 : calls[i].res = "ok" }
         Inj   == { i \in Idx : calls[i].dep = "inject" }
         InjOk == { i \in Inj : calls[i].res = "ok" }
         (* the sample / the L2 content in force when call i was received *)
         SampleAt(i) == LET p == { j \in L1ok : j < i } IN IF p = {} THEN sample ELSE calls[Max(p)].num
         L2At(i)     == l2 \cup { calls[j].g : j \in { k \in InjOk : k < i } }
         Expect(i)   == LET b == SampleAt(i) IN IF b >= 1 /\ LeavesUpTo(b) # {} THEN LatestGer(b) ELSE -1
         Reported(i) == LET p == { j \in Idx : j < i /\ calls[j].dep = "isinj" /\ calls[j].g = calls[i].g } IN
                        p # {} /\ calls[Max(p)].res = "true"
         v1 == Collect(L1, LAMBDA i : calls[i].tag # fin,
                       LAMBDA i : V("SampledWithConfiguredFinality", [asked |-> calls[i].tag, configured |-> fin]))
         v2 == Collect(L1ok, LAMBDA i : calls[i].num > F,
                       LAMBDA i : V("SampledBlockHadFinality", [sampled |-> calls[i].num, finalized |-> F]))
         v3 == Collect(Inj, LAMBDA i : calls[i].g # Expect(i),
                       LAMBDA i : V("InjectsLatestRootAtOrBelowSampledBlock",
                                    [g |-> calls[i].g, sampled |-> SampleAt(i), expect |-> Expect(i), finalized |-> F, processed |-> S]))
         v4 == Collect(Inj, LAMBDA i : calls[i].g \in L2At(i),
                       LAMBDA i : V("NotAlreadyOnL2", [g |-> calls[i].g]))
         v5 == Collect(Inj, LAMBDA i : Reported(i),
                       LAMBDA i : V("NotReportedPresent", [g |-> calls[i].g]))
         (* bounded liveness *)
         failfree  == \A i \in Idx : calls[i].res # "err"
         lag       == Max2(0, F - S)
         qualifies == failfree /\ Pending
         continues == qualifies /\ run > 0 /\ clean /\ S > lastS
         run1      == IF ~qualifies THEN 0 ELSE IF continues THEN run + 1 ELSE 1
         runL1     == IF ~qualifies THEN 0 ELSE IF continues THEN Max2(runL, lag) ELSE lag
         starved   == InjOk = {} /\ run1 >= 2 * runL1 + 2
         v6 == IF starved
               THEN <<V("BoundedLiveness", [ticks |-> run1, lag |-> runL1, finalized |-> F, processed |-> S,
                                            pending |-> LatestGer(F)])>>
               ELSE <<>>
     IN
     /\ sample' = IF L1ok = {} THEN sample ELSE calls[Max(L1ok)].num
     /\ l2' = l2 \cup { calls[i].g : i \in InjOk }
     /\ run'  = IF InjOk # {} \/ starved THEN 0 ELSE run1
     /\ runL' = IF InjOk # {} \/ starved THEN 0 ELSE runL1
     /\ clean' = TRUE /\ lastS' = S
     /\ viol' = viol \o v1 \o v2 \o v3 \o v4 \o v5 \o v6
  /\ l' = l + 1 /\ UNCHANGED <<t, fin, H, F, S, leaves>>

Finish ==
  /\ l = Len(Trace) + 1
  /\ PrintT(<<"VIOL", ToJson(viol)>>)
  /\ PrintT(<<"DONE", ToJson([lines |-> Len(Trace), traces |-> t])>>)
  /\ l' = l + 1 /\ UNCHANGED <<t, fin, H, F, S, leaves, l2, sample, run, runL, clean, lastS, viol>>

Next == EvCfg \/ EvMine \/ EvFin \/ EvSync \/ EvReorg \/ EvExt \/ EvTick \/ Finish
Spec == Init /\ [][Next]_vars

HW == TLCSet(1, IF l > TLCGet(1) THEN l ELSE TLCGet(1))
Accepted == TLCGet(1) = Len(Trace) + 2
=============================================================================
