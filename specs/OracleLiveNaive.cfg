\* liveness run (TLC liveness checker, weak fairness of Tick and Sync, no state constraint, no VIEW); see Oracle.tla
\* treadmill: unbounded L1 seen through a window of MaxBlock blocks
CONSTANTS
  Rule = "naive"
  StoreRead = "snapshot"
  Treadmill = TRUE
  Record = FALSE
  MaxBlock = 4
  MaxLeaves = 2
  Gers = {1, 2, 3}
  MaxFail = 1
  MaxReorg = 0
  MaxExt = 0
SPECIFICATION LiveSpec
PROPERTY Live
CHECK_DEADLOCK FALSE
