---------------------------- MODULE CertCommitTrace ----------------------------
(* Property-level monitor for C10, evaluated by TLC on traces recorded from the real aggsender path
   (flow.BuildCertificate with a recording signer -> AgglayerGRPCClient.SendCertificate -> json.Marshal +
   SaveLastSentCertificate -> GetCertificateByHeight + json.Unmarshal).

   It contains only what the property says, for one certificate per trace:
     * the hash handed to the signer is the commitment of the certificate as it travels and as it is stored
       (SignedCommitsToWire / SignedCommitsToStored), where "the commitment" is the scheme's commitment: the code's own
       PPHashToSign / FEPHashToSign applied to the re-assembled certificate AND the layout of the coverage matrix computed
       by an independent reference agree (CommitmentLayout / IdentityLayout);
     * the signature that travels / is stored is the one the configured signer returned and recovers to the configured
       signer over that commitment (SignatureCarried, SignerWire, SignerStored);
     * the identity of the built, the sent and the stored certificate is the same (IdentityWire / IdentityStored);
     * every field covered by the commitment or by the identity (the matrix of CertCommitMatrix) arrives unchanged on the
       wire and in the stored copy (FieldOnWire / FieldStored; header columns: HeaderCopy);
     * changing any covered field changes the commitment resp. the identity (CoveredChangesCommit / CoveredChangesId).
   Fields the matrix lists as uncovered are recorded but not judged.  A certificate the code refused to produce (error line)
   says nothing about the property.

   Trace lines (ndjson), see harness/areas/certcommit:
     cert {scheme,ne,kinds,signer} | error {..} | signed {hs,sigs} | place {at,f,cc,cr,ic,ir,rc,rr} | hdr {..} | perts {p} | end
   f and p are nested objects group -> position -> field name -> value.
*)
EXTENDS CertCommitMatrix, TLC, Json, IOUtils

Trace == ndJsonDeserialize(IOEnv.TRACE_FILE)

VARIABLES l,        \* next line
          t,        \* index of the current trace (number of cert lines seen)
          cur,      \* the current certificate: [scheme, ne, kinds, signer]
          sg,       \* the signed line
          built, wire, stored, hdr, perts,   \* the observations
          seen,     \* which of them have been recorded for the current certificate
          failed,   \* the code refused to produce the certificate
          open,
          viol, nv, judged

vars == <<l, t, cur, sg, built, wire, stored, hdr, perts, seen, failed, open, viol, nv, judged>>

Cap  == 200
None == "-"

IStr(i) == CASE i = 0 -> "0" [] i = 1 -> "1" [] i = 2 -> "2" [] i = 3 -> "3" [] i = 4 -> "4" [] i = 5 -> "5" [] i = 6 -> "6"
             [] i = 7 -> "7" [] i = 8 -> "8" [] i = 9 -> "9" [] i = 10 -> "10" [] i = 11 -> "11" [] OTHER -> "12"

(* nested lookup: f[group][position][name] *)
Has(f, k) == /\ k[1] \in DOMAIN f /\ IStr(k[2]) \in DOMAIN f[k[1]] /\ k[3] \in DOMAIN f[k[1]][IStr(k[2])]
Get(f, k) == IF Has(f, k) THEN f[k[1]][IStr(k[2])][k[3]] ELSE "<missing>"
Count(f, g) == IF g \in DOMAIN f THEN Cardinality(DOMAIN f[g]) ELSE 0

(* the value of a field as the commitments see it: a nil amount is the amount 0 *)
Norm(k, v) == IF k[3] \in {"amount", "be.amount"} /\ v = "nil" THEN "0" ELSE v

Init ==
  /\ TLCSet(1, 0)
  /\ l = 1 /\ t = 0 /\ cur = None /\ sg = None /\ built = None /\ wire = None /\ stored = None /\ hdr = None /\ perts = None
  /\ seen = {}
  /\ failed = FALSE /\ open = FALSE /\ viol = <<>> /\ nv = 0 /\ judged = 0

V(kind, info) == [t |-> t, l |-> l, inv |-> kind, info |-> info]
Ev(name) == l <= Len(Trace) /\ Trace[l].ev = name
Report(new) == /\ viol' = IF Len(viol) >= Cap THEN viol ELSE viol \o new
               /\ nv' = nv + Len(new)

EvCert ==
  /\ Ev("cert")
  /\ Report(IF open THEN <<V("Complete", [what |-> "certificate not finished"])>> ELSE <<>>)
  /\ t' = t + 1 /\ open' = TRUE /\ failed' = FALSE
  /\ cur' = [scheme |-> Trace[l].scheme, ne |-> Trace[l].ne, kinds |-> Trace[l].kinds, signer |-> Trace[l].signer]
  /\ sg' = None /\ built' = None /\ wire' = None /\ stored' = None /\ hdr' = None /\ perts' = None /\ seen' = {}
  /\ l' = l + 1 /\ UNCHANGED judged

EvError ==
  /\ Ev("error")
  /\ failed' = TRUE
  /\ l' = l + 1 /\ UNCHANGED <<t, cur, sg, built, wire, stored, hdr, perts, seen, open, viol, nv, judged>>

EvSigned ==
  /\ Ev("signed")
  /\ sg' = [hs |-> { Trace[l].hs[j] : j \in 1..Len(Trace[l].hs) }, sigs |-> { Trace[l].sigs[j] : j \in 1..Len(Trace[l].sigs) }]
  /\ seen' = seen \cup {"signed"}
  /\ l' = l + 1 /\ UNCHANGED <<t, cur, built, wire, stored, hdr, perts, failed, open, viol, nv, judged>>

EvPlace ==
  /\ Ev("place")
  /\ LET e == Trace[l] IN
     /\ built'  = IF e.at = "built" THEN e ELSE built
     /\ wire'   = IF e.at = "wire" THEN e ELSE wire
     /\ stored' = IF e.at = "stored" THEN e ELSE stored
     /\ Report(IF e.at \in {"built", "wire", "stored"} THEN <<>> ELSE <<V("Complete", [what |-> "unknown place", at |-> e.at])>>)
     /\ seen' = seen \cup {e.at}
  /\ l' = l + 1 /\ UNCHANGED <<t, cur, sg, hdr, perts, failed, open, judged>>

EvHdr ==
  /\ Ev("hdr")
  /\ hdr' = Trace[l] /\ seen' = seen \cup {"hdr"}
  /\ l' = l + 1 /\ UNCHANGED <<t, cur, sg, built, wire, stored, perts, failed, open, viol, nv, judged>>

EvPerts ==
  /\ Ev("perts")
  /\ perts' = Trace[l].p /\ seen' = seen \cup {"perts"}
  /\ l' = l + 1 /\ UNCHANGED <<t, cur, sg, built, wire, stored, hdr, failed, open, viol, nv, judged>>

-----------------------------------------------------------------------------
(* the judgement of one certificate *)
Judge ==
  LET sch   == cur.scheme
      keys  == KeysOf(sch, cur.ne, cur.kinds)
      fkeys == { k \in keys : ~IsStruct(k) }                                   \* fields proper
      cov   == { k \in fkeys : CoveredByCommit(sch, k[1], k[3], KindAt(k, cur.kinds)) \/ CoveredById(k[1], k[3], KindAt(k, cur.kinds)) }
      ck    == { k \in keys : ~IsDiscr(k) /\ CoveredByCommit(sch, k[1], k[3], KindAt(k, cur.kinds)) }
      ik    == { k \in keys : ~IsDiscr(k) /\ CoveredById(k[1], k[3], KindAt(k, cur.kinds)) }
      sigk  == <<"agg", 0, "signature">>
      \* --- completeness of the recording (a monitor that is shown less than it asks for objects)
      want     == {"signed", "built", "wire", "stored", "hdr", "perts"}
      vMissing == IF want \subseteq seen THEN <<>>
                  ELSE <<V("Complete", [what |-> "observation missing", missing |-> want \ seen])>>
  IN IF vMissing # <<>> THEN vMissing ELSE
  LET bf == built.f  wf == wire.f  sf == stored.f
      vShape == IF Count(bf, "exit") # cur.ne \/ Count(bf, "imp") # Len(cur.kinds)
                   \/ \E i \in 1..Len(cur.kinds) : Get(bf, <<"imp", i, "claim.kind">>) # cur.kinds[i]
                THEN <<V("Complete", [what |-> "built certificate has not the announced shape"])>> ELSE <<>>
      \* --- the hash handed to the signer is the commitment of what is sent / stored
      vSW == IF wire.cc \in sg.hs THEN <<>> ELSE <<V("SignedCommitsToWire", [signed |-> sg.hs, wire |-> wire.cc])>>
      vSS == IF stored.cc \in sg.hs THEN <<>> ELSE <<V("SignedCommitsToStored", [signed |-> sg.hs, stored |-> stored.cc])>>
      vCL == IF built.cc = built.cr /\ wire.cc = wire.cr /\ stored.cc = stored.cr THEN <<>>
             ELSE <<V("CommitmentLayout", [built |-> <<built.cc, built.cr>>, wire |-> <<wire.cc, wire.cr>>, stored |-> <<stored.cc, stored.cr>>])>>
      \* --- identity
      vIW == IF wire.ic = built.ic /\ wire.ir = built.ir THEN <<>> ELSE <<V("IdentityWire", [built |-> built.ic, wire |-> wire.ic])>>
      vIS == IF stored.ic = built.ic /\ stored.ir = built.ir THEN <<>> ELSE <<V("IdentityStored", [built |-> built.ic, stored |-> stored.ic])>>
      vIL == IF built.ic = built.ir /\ wire.ic = wire.ir /\ stored.ic = stored.ir THEN <<>>
             ELSE <<V("IdentityLayout", [built |-> <<built.ic, built.ir>>, wire |-> <<wire.ic, wire.ir>>, stored |-> <<stored.ic, stored.ir>>])>>
      \* --- covered fields arrive unchanged (a missing field is a changed field; so is a surplus list element)
      badW == { k \in cov : Norm(k, Get(wf, k)) # Norm(k, Get(bf, k)) \/ ~Has(bf, k) }
      badS == { k \in cov : Norm(k, Get(sf, k)) # Norm(k, Get(bf, k)) \/ ~Has(bf, k) }
      vFW == IF badW = {} /\ Count(wf, "exit") = Count(bf, "exit") /\ Count(wf, "imp") = Count(bf, "imp") THEN <<>>
             ELSE <<V("FieldOnWire", [fields |-> { [k |-> k, built |-> Get(bf, k), wire |-> Get(wf, k)] : k \in badW },
                                      exits |-> <<Count(bf, "exit"), Count(wf, "exit")>>, imps |-> <<Count(bf, "imp"), Count(wf, "imp")>>])>>
      vFS == IF badS = {} /\ Count(sf, "exit") = Count(bf, "exit") /\ Count(sf, "imp") = Count(bf, "imp") THEN <<>>
             ELSE <<V("FieldStored", [fields |-> { [k |-> k, built |-> Get(bf, k), stored |-> Get(sf, k)] : k \in badS },
                                      exits |-> <<Count(bf, "exit"), Count(sf, "exit")>>, imps |-> <<Count(bf, "imp"), Count(sf, "imp")>>])>>
      vH  == IF hdr.height = Get(bf, <<"top", 0, "height">>) /\ hdr.new_ler = Get(bf, <<"top", 0, "new_ler">>)
                /\ hdr.prev_ler = Get(bf, <<"top", 0, "prev_ler">>) THEN <<>>
             ELSE <<V("HeaderCopy", [hdr |-> <<hdr.height, hdr.new_ler, hdr.prev_ler>>,
                                     built |-> <<Get(bf, <<"top", 0, "height">>), Get(bf, <<"top", 0, "new_ler">>), Get(bf, <<"top", 0, "prev_ler">>)>>])>>
      \* --- the signature
      vSC == IF Get(wf, sigk) \in sg.sigs /\ Get(sf, sigk) = Get(wf, sigk) /\ Get(bf, sigk) = Get(wf, sigk) THEN <<>>
             ELSE <<V("SignatureCarried", [returned |-> sg.sigs, built |-> Get(bf, sigk), wire |-> Get(wf, sigk), stored |-> Get(sf, sigk)])>>
      vGW == IF wire.rc = cur.signer /\ wire.rr = cur.signer THEN <<>>
             ELSE <<V("SignerWire", [configured |-> cur.signer, recovered |-> <<wire.rc, wire.rr>>])>>
      vGS == IF stored.rc = cur.signer /\ stored.rr = cur.signer THEN <<>>
             ELSE <<V("SignerStored", [configured |-> cur.signer, recovered |-> <<stored.rc, stored.rr>>])>>
      \* --- perturbations: every covered field (and structural aspect) was changed at least once and every change showed
      PertOK(k, c) == /\ Has(perts, k)
                      /\ LET p == Get(perts, k) IN
                         /\ p.t >= 1
                         /\ IF c THEN p.cc = p.t /\ p.cr = p.t ELSE p.ic = p.t /\ p.ir = p.t
      badC == { k \in ck : ~PertOK(k, TRUE) }
      badI == { k \in ik : ~PertOK(k, FALSE) }
      vPC == IF badC = {} THEN <<>> ELSE <<V("CoveredChangesCommit", [fields |-> { [k |-> k, got |-> Get(perts, k)] : k \in badC }])>>
      vPI == IF badI = {} THEN <<>> ELSE <<V("CoveredChangesId", [fields |-> { [k |-> k, got |-> Get(perts, k)] : k \in badI }])>>
  IN vShape \o vSW \o vSS \o vCL \o vIW \o vIS \o vIL \o vFW \o vFS \o vH \o vSC \o vGW \o vGS \o vPC \o vPI

EvEnd ==
  /\ Ev("end")
  /\ Report(IF ~open THEN <<V("Complete", [what |-> "end without certificate"])>>
            ELSE IF failed THEN <<>> ELSE Judge)
  /\ judged' = IF open /\ ~failed THEN judged + 1 ELSE judged
  /\ open' = FALSE
  /\ l' = l + 1 /\ UNCHANGED <<t, cur, sg, built, wire, stored, hdr, perts, seen, failed>>

Finish ==
  /\ l = Len(Trace) + 1
  /\ PrintT(<<"VIOL", ToJson(IF open THEN Append(viol, V("Complete", [what |-> "last certificate not finished"])) ELSE viol)>>)
  /\ PrintT(<<"DONE", ToJson([lines |-> Len(Trace), traces |-> t, violations |-> nv, judged |-> judged])>>)
  /\ l' = l + 1 /\ UNCHANGED <<t, cur, sg, built, wire, stored, hdr, perts, seen, failed, open, viol, nv, judged>>

Next == EvCert \/ EvError \/ EvSigned \/ EvPlace \/ EvHdr \/ EvPerts \/ EvEnd \/ Finish
Spec == Init /\ [][Next]_vars

HW == TLCSet(1, IF l > TLCGet(1) THEN l ELSE TLCGet(1))
Accepted == TLCGet(1) = Len(Trace) + 2
=============================================================================
