\* generated by mkstorecfg.py - edge cover, l1info failing reads, rollups 1 and 3 (one exit root value: no recurring tree states, known finding F5)
CONSTANTS
  Kind = "l1info"
  Fixed = TRUE
  FixedF11 = TRUE
  H = 2
  MaxBlocks = 3
  MaxEvents = 2
  MaxLeaves = 2
  MaxOps = 3
  Faults = {"read"}
  AllowGap = FALSE
  Dups = FALSE
  AllowRestart = FALSE
  AllowReorg = FALSE
  Rollups = {1, 3}
  ExitRoots = {1}
INIT Init
NEXT Next
VIEW view
ACTION_CONSTRAINT Dump
CHECK_DEADLOCK FALSE
