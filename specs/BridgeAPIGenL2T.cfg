\* generated by mkbridgeapicfg.sh - C12 case export, L2 focus (thorough)
CONSTANTS
  H = 2
  MaxDeps = 2
  MaxL2 = 3
  MaxInfos = 5
  MaxBlocks = 4
  MaxVer = 3
  Ours = 1
  Others = {}
  AllowSkipped = FALSE
  Variant = "code"
INIT Init
NEXT Next
ACTION_CONSTRAINT Dump
CHECK_DEADLOCK FALSE
