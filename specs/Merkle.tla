--------------------------------- MODULE Merkle ---------------------------------
(* Abstract hash algebra for the SQLite-backed Merkle trees of aggkit (tree/tree.go, tree/appendonlytree.go,
   tree/updatabletree.go), see DESIGN.md 3.3.

   A hash is a term:
     <<"l", x>>        a leaf value (atom x)
     <<"z", h>>        zeroHashes[h]  (h = 0: the all-zero leaf;  keccak(z_h, z_h) = z_{h+1} by construction)
     <<"n", l, r>>     keccak(l, r)
     <<"j">>           the all-zero bytes found in an uninitialised frontier slot (lastLeftCache starts as [32]Hash{})
   keccak is assumed injective; equal terms <=> equal hashes. *)
EXTENDS Integers, Sequences, FiniteSets

CONSTANT H       \* tree height (32 in the code; small in exhaustive runs)

Z(h)    == <<"z", h>>
Leaf(x) == <<"l", x>>
Junk    == <<"j">>
Node(l, r) == IF l[1] = "z" /\ r[1] = "z" /\ l[2] = r[2] THEN Z(l[2] + 1) ELSE <<"n", l, r>>

Pow2(h) == 2 ^ h
Bit(i, h) == (i \div Pow2(h)) % 2

(* reference tree over a sequence of leaf terms (append-only trees): subtree of height h at position k *)
RECURSIVE Sub(_, _, _)
Sub(ls, h, k) == IF k * Pow2(h) >= Len(ls) THEN Z(h)
                 ELSE IF h = 0 THEN ls[k + 1]
                 ELSE Node(Sub(ls, h - 1, 2 * k), Sub(ls, h - 1, 2 * k + 1))
Root(ls) == Sub(ls, H, 0)

(* reference tree over a function position -> leaf term (updatable tree; absent = Z(0)) *)
RECURSIVE USub(_, _, _)
USub(f, h, k) == IF h = 0 THEN (IF k \in DOMAIN f THEN f[k] ELSE Z(0))
                 ELSE Node(USub(f, h - 1, 2 * k), USub(f, h - 1, 2 * k + 1))
URoot(f) == USub(f, H, 0)

(* CalculateRoot(leaf, proof, index): proof is a function 0..H-1 -> term *)
RECURSIVE FoldR(_, _, _, _)
FoldR(h, cur, proof, idx) == IF h = H THEN cur
                             ELSE IF Bit(idx, h) = 1 THEN FoldR(h + 1, Node(proof[h], cur), proof, idx)
                             ELSE FoldR(h + 1, Node(cur, proof[h]), proof, idx)
Fold(leaf, proof, idx) == FoldR(0, leaf, proof, idx)

(* expected sibling list of position idx in the tree over ls *)
RefProof(ls, idx) == [h \in 0..(H - 1) |-> Sub(ls, h, IF Bit(idx, h) = 1 THEN (idx \div Pow2(h)) - 1 ELSE (idx \div Pow2(h)) + 1)]
URefProof(f, idx) == [h \in 0..(H - 1) |-> USub(f, h, IF Bit(idx, h) = 1 THEN (idx \div Pow2(h)) - 1 ELSE (idx \div Pow2(h)) + 1)]

(* ---- the code's walks over the content-addressed node table `rht` (a set of <<"n",l,r>> terms) ---- *)

(* getSiblings: top-down; a node missing from rht => sibling := zeroHashes[h], and the walk stays on the same hash *)
RECURSIVE SibR(_, _, _, _, _)
SibR(rht, h, cur, idx, acc) ==
  IF h < 0 THEN acc
  ELSE IF cur \notin rht THEN SibR(rht, h - 1, cur, idx, [acc EXCEPT ![h] = Z(h)])
  ELSE IF Bit(idx, h) = 1 THEN SibR(rht, h - 1, cur[3], idx, [acc EXCEPT ![h] = cur[2]])
  ELSE SibR(rht, h - 1, cur[2], idx, [acc EXCEPT ![h] = cur[3]])
GetSiblings(rht, idx, root) == SibR(rht, H - 1, root, idx, [h \in 0..(H - 1) |-> Junk])

(* GetLeaf: top-down; a missing node is an error ("NotFound") *)
RECURSIVE LeafR(_, _, _, _)
LeafR(rht, h, cur, idx) ==
  IF h < 0 THEN cur
  ELSE IF cur \notin rht THEN <<"NotFound">>
  ELSE LeafR(rht, h - 1, IF Bit(idx, h) = 1 THEN cur[3] ELSE cur[2], idx)
GetLeaf(rht, idx, root) == LeafR(rht, H - 1, root, idx)

(* AddLeaf's climb: returns [root, cache, nodes]; the frontier is written in place while climbing *)
RECURSIVE ClimbR(_, _, _, _, _)
ClimbR(h, cur, idx, cache, nodes) ==
  IF h = H THEN [root |-> cur, cache |-> cache, nodes |-> nodes]
  ELSE IF Bit(idx, h) = 1
       THEN LET p == Node(cache[h], cur) IN ClimbR(h + 1, p, idx, cache, nodes \cup {p})
       ELSE LET p == Node(cur, Z(h)) IN ClimbR(h + 1, p, idx, [cache EXCEPT ![h] = cur], nodes \cup {p})
Climb(leaf, idx, cache) == ClimbR(0, leaf, idx, cache, {})

(* UpsertLeaf's climb with the siblings of the last root *)
RECURSIVE UClimbR(_, _, _, _, _)
UClimbR(h, cur, idx, sib, nodes) ==
  IF h = H THEN [root |-> cur, nodes |-> nodes]
  ELSE LET p == IF Bit(idx, h) = 1 THEN Node(sib[h], cur) ELSE Node(cur, sib[h]) IN UClimbR(h + 1, p, idx, sib, nodes \cup {p})
UClimb(leaf, idx, sib) == UClimbR(0, leaf, idx, sib, {})

(* initCache: walk from the last root down the path of its index, frontier[h] := node.Left; error if a node is missing *)
RECURSIVE InitR(_, _, _, _, _)
InitR(rht, h, cur, idx, acc) ==
  IF h < 0 THEN acc
  ELSE IF cur \notin rht THEN [x \in {-1} |-> Junk]        \* "not found": a function with domain {-1}
  ELSE InitR(rht, h - 1, IF Bit(idx, h) = 1 THEN cur[3] ELSE cur[2], idx, [acc EXCEPT ![h] = cur[2]])
InitFrontier(rht, idx, root) == InitR(rht, H - 1, root, idx, [h \in 0..(H - 1) |-> Junk])
FrontierNotFound(fr) == DOMAIN fr = {-1}
=============================================================================
