\* C12 across reorgs of the stores: case export, L2 focus
CONSTANTS
  H = 2
  MaxDeps = 0
  MaxL2 = 2
  MaxInfos = 3
  MaxBlocks = 3
  MaxVer = 2
  Ours = 1
  Others = {}
  AllowSkipped = FALSE
  Variant = "code"
  Memo = "none"
INIT InitRe
NEXT NextRe
ACTION_CONSTRAINT DumpR
CHECK_DEADLOCK FALSE
