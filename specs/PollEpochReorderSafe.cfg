\* composition with reordering: everything except AtFirstPublished still holds
CONSTANTS
  Ns = {1,2,3}
  Starts = {0,1}
  Ps = {0,50,99}
  Epochs = 2
  MaxPolls = 5
  MaxErrs = 1
  MaxInflight = 3
  Reorder = TRUE
  SlowSub = FALSE
INIT Init
NEXT Next
VIEW view
INVARIANTS NothingLostOrInvented EveryHeadChangeAnnounced NoSpuriousBlockEvent CurrentBlockIsLastObserved ExactlyOnceAtFirstDelivered StrictlyIncreasing NoDuplicates
CHECK_DEADLOCK FALSE
