----------------------------- MODULE PollEpochTrace -----------------------------
(* Property-level monitor for the epoch clock as wired in the node (poller + fan-out + epoch notifier), evaluated by
   TLC on traces recorded from the real BlockNotifierPolling / GenericSubscriberImpl / EpochNotifierPerBlock.

   What it demands (and nothing about lastBlockSeen, waitingForEpoch or the poller's status):
     poller    every change of the polled head between two consecutive successful polls is published as a block event;
               a block event is published only for the head just polled and not for an unchanged head;
               GetCurrentBlockNumber is the head last polled.
     delivery  what the epoch notifier receives was published before (each publication at most once).
     subscriber  every epoch event handed to the notifier's fan-out reaches the subscriber exactly once.
     epochs    C18 on the sequence really received, restricted to the deliveries that exceed everything received before:
               exactly one notification per epoch in which such a block is at/after the threshold, at the first such
               block; epoch numbers strictly increase.

   Trace lines (ndjson):
     {"ev":"cfg","n":N,"s":S,"p":P}                 new poller + notifier (starts a new trace)
     {"ev":"poll","r":R,"emitted":[..],"cur":C}     one completed poll: R = -1 RPC error, else the head; block events
                                                    published during it; GetCurrentBlockNumber afterwards
     {"ev":"pubblock","b":B}                        the poller handed block event B to the fan-out (written before any
                                                    send of it can complete; the poll line follows when the poll is over)
     {"ev":"epochpub","e":E}                        (slow-subscriber traces) the notifier handed epoch event E to its fan-out
     {"ev":"consume","e":E}                         the subscriber took epoch event E from its channel (-1: it waited in vain)
     {"ev":"subend","consumed":K}                   the subscriber has taken everything it could get
     {"ev":"block","b":B,"pub":[E1,...]}            the epoch notifier received block event B; epochs published while
                                                    it was handled
*)
EXTENDS Integers, Sequences, FiniteSets, TLC, Json, IOUtils

Trace == ndJsonDeserialize(IOEnv.TRACE_FILE)

VARIABLES l, t, N, S, P,
          prevR,      \* result of the previous poll (-2 = none yet, -1 = error)
          pending,    \* published block events not yet received (sequence, order irrelevant)
          lastB, done, lastEpoch,
          outbox,     \* epoch events handed to the notifier's fan-out and not yet taken by the subscriber
          viol

vars == <<l, t, N, S, P, prevR, pending, lastB, done, lastEpoch, outbox, viol>>

EpochNumber(b)        == IF b < S THEN 0 ELSE 1 + ((b - S) \div N)
StartingBlockEpoch(e) == IF e = 0 THEN S - 1 ELSE S + (e - 1) * N
Elapsed(b)            == b - StartingBlockEpoch(EpochNumber(b))
Min(a, b)             == IF a < b THEN a ELSE b
Past(b)               == 100 * Elapsed(b) >= Min(P * N, 100 * (N - 1))

Init ==
  /\ TLCSet(1, 0)
  /\ l = 1 /\ t = 0 /\ N = 1 /\ S = 0 /\ P = 0 /\ prevR = -2 /\ pending = <<>> /\ lastB = -1 /\ done = {} /\ lastEpoch = 0 /\ outbox = <<>> /\ viol = <<>>

V(kind, info) == [t |-> t, l |-> l, inv |-> kind, info |-> info]

RemoveOne(seq, x) ==
  LET i == CHOOSE j \in DOMAIN seq : seq[j] = x /\ \A k \in DOMAIN seq : seq[k] = x => j <= k
  IN [k \in 1..(Len(seq) - 1) |-> IF k < i THEN seq[k] ELSE seq[k + 1]]

EvCfg ==
  /\ l <= Len(Trace) /\ Trace[l].ev = "cfg"
  /\ N' = Trace[l].n /\ S' = Trace[l].s /\ P' = Trace[l].p
  /\ t' = t + 1 /\ prevR' = -2 /\ pending' = <<>> /\ lastB' = -1 /\ done' = {} /\ lastEpoch' = 0 /\ outbox' = <<>>
  /\ l' = l + 1 /\ UNCHANGED viol

EvPoll ==
  /\ l <= Len(Trace) /\ Trace[l].ev = "poll"
  /\ LET e == Trace[l]
         v1 == IF prevR >= 0 /\ e.r >= 0 /\ e.r # prevR /\ e.emitted # <<e.r>>
               THEN <<V("EveryHeadChangeAnnounced", [prev |-> prevR, r |-> e.r, emitted |-> e.emitted])>> ELSE <<>>
         v2 == IF e.emitted # <<>> /\ ~(e.r >= 0 /\ e.emitted = <<e.r>> /\ e.r # prevR)
               THEN <<V("NoSpuriousBlockEvent", [prev |-> prevR, r |-> e.r, emitted |-> e.emitted])>> ELSE <<>>
         v3 == IF e.r >= 0 /\ e.cur # e.r
               THEN <<V("CurrentBlockIsLastObserved", [r |-> e.r, cur |-> e.cur])>> ELSE <<>>
     IN /\ viol' = viol \o v1 \o v2 \o v3
        /\ prevR' = e.r
  /\ l' = l + 1 /\ UNCHANGED <<t, N, S, P, pending, lastB, done, lastEpoch, outbox>>

EvPub ==
  /\ l <= Len(Trace) /\ Trace[l].ev = "pubblock"
  /\ pending' = Append(pending, Trace[l].b)
  /\ l' = l + 1 /\ UNCHANGED <<t, N, S, P, prevR, lastB, done, lastEpoch, outbox, viol>>

EvEpochPub ==
  /\ l <= Len(Trace) /\ Trace[l].ev = "epochpub"
  /\ outbox' = Append(outbox, Trace[l].e)
  /\ l' = l + 1 /\ UNCHANGED <<t, N, S, P, prevR, pending, lastB, done, lastEpoch, viol>>

EvConsume ==
  /\ l <= Len(Trace) /\ Trace[l].ev = "consume"
  /\ LET e == Trace[l].e
         known == \E j \in DOMAIN outbox : outbox[j] = e IN
     /\ outbox' = IF known THEN RemoveOne(outbox, e) ELSE outbox
     /\ viol' = viol \o (IF known THEN <<>>
                         ELSE IF e = -1 THEN <<V("EveryNotificationReachesSubscriber", [waiting |-> outbox])>>
                         ELSE <<V("SubscriberGetsOnlyWhatWasPublishedOnce", [e |-> e, waiting |-> outbox])>>)
  /\ l' = l + 1 /\ UNCHANGED <<t, N, S, P, prevR, pending, lastB, done, lastEpoch>>

EvSubEnd ==
  /\ l <= Len(Trace) /\ Trace[l].ev = "subend"
  /\ viol' = viol \o (IF outbox = <<>> THEN <<>> ELSE <<V("EveryNotificationReachesSubscriber", [lost |-> outbox])>>)
  /\ l' = l + 1 /\ UNCHANGED <<t, N, S, P, prevR, pending, lastB, done, lastEpoch, outbox>>

Increasing(pub, last) == /\ \A i \in 1..(Len(pub) - 1) : pub[i] < pub[i + 1]
                         /\ Len(pub) > 0 => pub[1] > last

EvBlock ==
  /\ l <= Len(Trace) /\ Trace[l].ev = "block"
  /\ LET b   == Trace[l].b
         pub == Trace[l].pub
         e   == EpochNumber(b)
         known == \E j \in DOMAIN pending : pending[j] = b
         v0 == IF known THEN <<>> ELSE <<V("DeliveredWasPublished", [b |-> b, pending |-> pending])>>
     IN
     /\ pending' = IF known THEN RemoveOne(pending, b) ELSE pending
     /\ IF b <= lastB
        THEN \* not above everything received before: only "nothing is announced for it"
             /\ viol' = viol \o v0 \o (IF pub # <<>> THEN <<V("NoSpuriousNotification", [b |-> b, got |-> pub, stale |-> TRUE])>> ELSE <<>>)
             /\ UNCHANGED <<lastB, done, lastEpoch>>
        ELSE IF b = S /\ pub = <<>>
        THEN /\ lastB' = b /\ viol' = viol \o v0 /\ UNCHANGED <<done, lastEpoch>>
        ELSE
          LET expect == IF b >= S /\ Past(b) /\ e \notin done THEN <<e>> ELSE <<>>
              v1 == IF pub # expect
                    THEN <<V(IF expect = <<>> THEN "NoSpuriousNotification"
                             ELSE IF pub = <<>> THEN "NotifiedAtFirstPastBlock" ELSE "ExactlyOneRightEpoch",
                             [b |-> b, expect |-> expect, got |-> pub])>>
                    ELSE <<>>
              v2 == IF ~Increasing(pub, lastEpoch)
                    THEN <<V("StrictlyIncreasingEpochs", [b |-> b, got |-> pub, last |-> lastEpoch])>> ELSE <<>>
          IN /\ lastB' = b
             /\ done' = IF b >= S /\ Past(b) THEN done \cup {e} ELSE done
             /\ lastEpoch' = IF pub = <<>> THEN lastEpoch ELSE pub[Len(pub)]
             /\ viol' = viol \o v0 \o v1 \o v2
  /\ l' = l + 1 /\ UNCHANGED <<t, N, S, P, prevR, outbox>>

Finish ==
  /\ l = Len(Trace) + 1
  /\ PrintT(<<"VIOL", ToJson(viol)>>)
  /\ PrintT(<<"DONE", ToJson([lines |-> Len(Trace), traces |-> t])>>)
  /\ l' = l + 1 /\ UNCHANGED <<t, N, S, P, prevR, pending, lastB, done, lastEpoch, outbox, viol>>

Next == EvCfg \/ EvPoll \/ EvPub \/ EvBlock \/ EvEpochPub \/ EvConsume \/ EvSubEnd \/ Finish
Spec == Init /\ [][Next]_vars

HW == TLCSet(1, IF l > TLCGet(1) THEN l ELSE TLCGet(1))
Accepted == TLCGet(1) = Len(Trace) + 2
=============================================================================
