\* generated by mkbridgeapicfg.sh - C12 case export, L1 focus (thorough)
CONSTANTS
  H = 3
  MaxDeps = 5
  MaxL2 = 1
  MaxInfos = 5
  MaxBlocks = 5
  MaxVer = 0
  Ours = 1
  Others = {}
  AllowSkipped = FALSE
  Variant = "code"
INIT Init
NEXT Next
ACTION_CONSTRAINT Dump
CHECK_DEADLOCK FALSE
