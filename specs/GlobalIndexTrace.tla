---------------------------- MODULE GlobalIndexTrace ----------------------------
(* Property-level monitor for C19, evaluated by TLC on traces recorded from the real codec and the real consumers.

   It contains only what the property says:
     * composing (mainnet flag, rollup index, leaf index) and decomposing again returns the triple, rollup index 0 for
       mainnet (RoundTrip), also starting from the canonical on-chain value (CanonDecode / CanonRoundTrip);
     * the composed value has the bridge contract's layout: bit 64 = flag, bits 32..63 = rollup index (zero on mainnet),
       bits 0..31 = leaf index (LayoutBits), i.e. it is the on-chain value (LayoutValue);
     * every place that carries the claim's global index - certificate (struct and JSON), signed commitment, wire
       message, prover request, optimistic commitment - carries that value (CarriesTriple / CarriesValue, at the
       field's fixed width of 32 bytes: FixedWidth), for every claim of the certificate (Complete).
   It knows nothing about byte strings, lengths or leading zeros: 32-bit parts arrive as two 16-bit halves, 65-bit
   values as five 16-bit limbs plus their decimal string.

   Trace lines (ndjson), see harness/areas/globalindex:
     cert {flow,k} | case {i,m,r,l,gi} | enc {i,v} | dec {i,of,t,err} | reenc {i,v} | carry {i,at,kind,t|v} | panic | end
*)
EXTENDS Integers, Sequences, FiniteSets, TLC, Json, IOUtils

Trace == ndJsonDeserialize(IOEnv.TRACE_FILE)

VARIABLES l,        \* next line
          t,        \* index of the current trace (number of cert lines seen)
          flow, k,  \* the current certificate: flow and number of claims
          cases,    \* claim index -> input [m, r, l, gi]
          seen,     \* {<<i, what>>} observations made for the current certificate
          open,     \* a certificate is being observed
          viol,     \* accumulated violations (at most Cap are kept in full, all are counted in nv)
          nv

vars == <<l, t, flow, k, cases, seen, open, viol, nv>>

Cap == 100

Codec   == {"enc", "dec_enc", "dec_gi", "reenc"}
Common  == {"cert_struct", "cert_json", "cert_json_rt", "cert_json_map", "gi_hash", "le_bytes", "pp_hash", "fep_hash",
            "signed", "opt_commit", "wire"}
Required(f) == Codec \cup Common \cup (IF f = "fep" THEN {"prover"} ELSE {})

(* what the property expects for a claim *)
CanonM(c) == c.m
CanonR(c) == IF c.m THEN <<0, 0>> ELSE c.r
CanonL(c) == c.l
LayoutW(c) == <<IF c.m THEN 1 ELSE 0>> \o CanonR(c) \o CanonL(c)

TripleOK(c, x) == x.m = CanonM(c) /\ x.r = CanonR(c) /\ x.l = CanonL(c)

Init ==
  /\ TLCSet(1, 0)
  /\ l = 1 /\ t = 0 /\ flow = "none" /\ k = 0 /\ cases = <<>> /\ seen = {} /\ open = FALSE /\ viol = <<>> /\ nv = 0

V(kind, info) == [t |-> t, l |-> l, inv |-> kind, info |-> info]
Ev(name) == l <= Len(Trace) /\ Trace[l].ev = name
Known(i) == i \in DOMAIN cases
(* every action reports the (possibly empty) sequence of predicates that failed on its line *)
Report(new) == /\ viol' = IF Len(viol) >= Cap THEN viol ELSE viol \o new
               /\ nv' = nv + Len(new)

EvCert ==
  /\ Ev("cert")
  /\ Report(IF open THEN <<V("Complete", [what |-> "certificate not finished"])>> ELSE <<>>)
  /\ t' = t + 1 /\ flow' = Trace[l].flow /\ k' = Trace[l].k /\ cases' = <<>> /\ seen' = {} /\ open' = TRUE
  /\ l' = l + 1

EvCase ==
  /\ Ev("case")
  /\ LET e == Trace[l] IN
     /\ cases' = IF e.i = Len(cases) + 1
                 THEN Append(cases, [m |-> e.m, r |-> e.r, l |-> e.l, gi |-> e.gi, nc |-> IF "nc" \in DOMAIN e THEN e.nc ELSE FALSE])
                 ELSE cases
     /\ Report(IF e.i = Len(cases) + 1 THEN <<>> ELSE <<V("Complete", [what |-> "claim numbering", i |-> e.i])>>)
  /\ l' = l + 1 /\ UNCHANGED <<t, flow, k, seen, open>>

(* a composed value: layout bits from the triple, and equality with the on-chain value *)
ValueViol(c, v, bits, val, info) ==
     (IF v.w # LayoutW(c) THEN <<V(bits, info)>> ELSE <<>>)
  \o (IF v.s # c.gi THEN <<V(val, info)>> ELSE <<>>)

Extra(e, at) == /\ Report(<<V("ExtraClaim", [i |-> e.i, at |-> at])>>) /\ UNCHANGED seen

EvEnc ==
  /\ Ev("enc")
  /\ LET e == Trace[l] IN
     IF ~Known(e.i) THEN Extra(e, "enc")
     ELSE LET c == cases[e.i] IN
          /\ Report(ValueViol(c, e.v, "LayoutBits", "LayoutValue", [i |-> e.i, input |-> c, got |-> e.v]))
          /\ seen' = seen \cup {<<e.i, "enc">>}
  /\ l' = l + 1 /\ UNCHANGED <<t, flow, k, cases, open>>

EvDec ==
  /\ Ev("dec")
  /\ LET e == Trace[l] IN
     IF ~Known(e.i) THEN Extra(e, "dec")
     ELSE LET c == cases[e.i]
              inv == IF e.of = "enc" THEN "RoundTrip" ELSE "CanonDecode" IN
          /\ Report(IF TripleOK(c, e.t) /\ ~e.err THEN <<>>
                    ELSE <<V(inv, [i |-> e.i, input |-> c, got |-> e.t, err |-> e.err])>>)
          /\ seen' = seen \cup {<<e.i, IF e.of = "enc" THEN "dec_enc" ELSE "dec_gi">>}
  /\ l' = l + 1 /\ UNCHANGED <<t, flow, k, cases, open>>

EvReenc ==
  /\ Ev("reenc")
  /\ LET e == Trace[l] IN
     IF ~Known(e.i) THEN Extra(e, "reenc")
     ELSE LET c == cases[e.i] IN
          /\ Report(ValueViol(c, e.v, "CanonRoundTrip", "CanonRoundTrip", [i |-> e.i, input |-> c, got |-> e.v]))
          /\ seen' = seen \cup {<<e.i, "reenc">>}
  /\ l' = l + 1 /\ UNCHANGED <<t, flow, k, cases, open>>

EvCarry ==
  /\ Ev("carry")
  /\ LET e == Trace[l] IN
     IF ~Known(e.i) THEN Extra(e, e.at)
     ELSE LET c == cases[e.i] IN
          \* nc: the claim event carried a non-canonical value of a mainnet index (junk in the rollup bits, ignored by the bridge
          \* contract). The certificate then holds the triple with those bits; every consumer fed from the certificate still has to
          \* carry the value composed from the triple (rollup bits zero). The optimistic commitment is computed from the claim
          \* event itself and is not judged for such a claim.
          /\ Report(IF e.kind = "t"
                    THEN IF TripleOK(c, e.t) \/ (c.nc /\ e.t.m = c.m /\ e.t.l = c.l) THEN <<>>
                         ELSE <<V("CarriesTriple", [i |-> e.i, at |-> e.at, input |-> c, got |-> e.t])>>
                    ELSE IF c.nc /\ e.at = "opt_commit" THEN <<>>
                    ELSE ValueViol(c, e.v, "CarriesValue", "CarriesValue", [i |-> e.i, at |-> e.at, input |-> c, got |-> e.v])
                         \o (IF e.v.n # 32 THEN <<V("FixedWidth", [i |-> e.i, at |-> e.at, n |-> e.v.n])>> ELSE <<>>))
          /\ seen' = seen \cup {<<e.i, e.at>>}
  /\ l' = l + 1 /\ UNCHANGED <<t, flow, k, cases, open>>

EvPanic ==
  /\ Ev("panic")
  /\ Report(<<V("Panicked", [what |-> Trace[l].what])>>)
  /\ l' = l + 1 /\ UNCHANGED <<t, flow, k, cases, seen, open>>

EvEnd ==
  /\ Ev("end")
  /\ LET want    == (1..k) \X Required(flow)
         missing == want \ seen
     IN Report(IF Len(cases) = k /\ missing = {} THEN <<>>
               ELSE <<V("Complete", [claims |-> Len(cases), k |-> k, missing |-> missing])>>)
  /\ open' = FALSE
  /\ l' = l + 1 /\ UNCHANGED <<t, flow, k, cases, seen>>

Finish ==
  /\ l = Len(Trace) + 1
  /\ PrintT(<<"VIOL", ToJson(IF open THEN Append(viol, V("Complete", [what |-> "last certificate not finished"])) ELSE viol)>>)
  /\ PrintT(<<"DONE", ToJson([lines |-> Len(Trace), traces |-> t, violations |-> nv])>>)
  /\ l' = l + 1 /\ UNCHANGED <<t, flow, k, cases, seen, open, viol, nv>>

Next == EvCert \/ EvCase \/ EvEnc \/ EvDec \/ EvReenc \/ EvCarry \/ EvPanic \/ EvEnd \/ Finish
Spec == Init /\ [][Next]_vars

HW == TLCSet(1, IF l > TLCGet(1) THEN l ELSE TLCGet(1))
Accepted == TLCGet(1) = Len(Trace) + 2
=============================================================================
