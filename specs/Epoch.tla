---------------------------------- MODULE Epoch ----------------------------------
(* Implementation-shaped specification of aggsender/epoch_notifier_per_block.go.

   One action, NewBlock(b), is one iteration of startInternal's loop: `step` followed by the synchronous
   Publish.  The float tests of isNotificationRequired / percentEpoch are written in their exact integer form
   (DESIGN.md C18):  percentEpoch < threshold  <=>  100*elapsed < min(P*N, 100*(N-1)).

   The configuration (N = blocks per epoch, S = starting epoch block, P = percentage) is chosen in Init so that one
   TLC run covers the whole configuration space of the .cfg.

   Ghost variables (used only by the invariants; they mirror nothing in the code):
     firstPast[e]  first block fed in epoch e that is at/after the threshold (0 = none yet)
     notified      sequence of <<epoch, block>> published so far
*)
EXTENDS Integers, Sequences, FiniteSets, TLC, Json

CONSTANTS Ns, Starts, Ps,      \* configuration space
          Epochs,              \* how many epochs of blocks are fed (blocks up to S + Epochs*N - 1)
          FeedStart            \* TRUE: the block S itself may be fed (see DESIGN C18 reading)

VARIABLES N, S, P,             \* configuration (constant along a behaviour)
          lastFed,             \* environment: last block delivered by the block notifier
          lastBlockSeen, waitingForEpoch,    \* internalStatus of the code
          firstPast, notified, \* ghosts
          hist                 \* behaviour history for export (hidden by VIEW)

vars == <<N, S, P, lastFed, lastBlockSeen, waitingForEpoch, firstPast, notified, hist>>
view == <<N, S, P, lastFed, lastBlockSeen, waitingForEpoch, firstPast, notified>>

-----------------------------------------------------------------------------
(* the code's helper functions *)
EpochNumber(b)        == IF b < S THEN 0 ELSE 1 + ((b - S) \div N)
StartingBlockEpoch(e) == IF e = 0 THEN S - 1 ELSE S + (e - 1) * N
Elapsed(b)            == b - StartingBlockEpoch(EpochNumber(b))
Min(a, b)             == IF a < b THEN a ELSE b
(* percentEpoch(b) >= threshold, threshold capped at (N-1)/N *)
Past(b)               == 100 * Elapsed(b) >= Min(P * N, 100 * (N - 1))

MaxBlock == S + Epochs * N - 1

Init ==
  /\ N \in Ns /\ S \in Starts /\ P \in Ps
  /\ lastFed = IF FeedStart THEN S - 1 ELSE S
  /\ lastBlockSeen = S
  /\ waitingForEpoch = EpochNumber(S)
  /\ firstPast = [e \in 1..Epochs |-> 0]
  /\ notified = <<>>
  /\ hist = <<>>

(* step(status, newBlock) + Publish *)
NewBlock(b) ==
  /\ b > lastFed /\ b <= MaxBlock /\ b >= 0
  /\ lastFed' = b
  /\ hist' = Append(hist, b)
  /\ LET e == EpochNumber(b) IN
     \* ghost bookkeeping (what the property talks about); block S is special, see DESIGN C18
     /\ firstPast' = IF b > S /\ e \in 1..Epochs /\ Past(b) /\ firstPast[e] = 0
                     THEN [firstPast EXCEPT ![e] = b] ELSE firstPast
     /\ IF b < S \/ b <= lastBlockSeen
        THEN UNCHANGED <<lastBlockSeen, waitingForEpoch, notified>>
        ELSE /\ lastBlockSeen' = b
             /\ LET needNotify == Past(b) /\ (e + 1 > waitingForEpoch) IN
                IF needNotify
                THEN /\ waitingForEpoch' = e + 1
                     /\ notified' = Append(notified, <<e, b>>)
                ELSE UNCHANGED <<waitingForEpoch, notified>>
  /\ UNCHANGED <<N, S, P>>

Next == \E b \in 0..(MaxBlock + 1) : NewBlock(b)

Spec == Init /\ [][Next]_vars

-----------------------------------------------------------------------------
(* C18 as invariants of the design *)

(* exactly one notification per epoch with a past-threshold block, at the first such block *)
ExactlyOnceAtFirst ==
  LET exp == { <<e, firstPast[e]>> : e \in { x \in 1..Epochs : firstPast[x] # 0 } }
      got == { notified[i] : i \in DOMAIN notified }
  IN /\ got = exp
     /\ Cardinality(got) = Len(notified)

StrictlyIncreasing == \A i \in 1..(Len(notified) - 1) : notified[i][1] < notified[i + 1][1]

TypeOK == /\ lastBlockSeen >= S /\ waitingForEpoch >= 1

-----------------------------------------------------------------------------
(* link to the unbounded argument (EpochInd.tla, inductive invariant discharged by Apalache): for every epoch e of the
   bounded model, each step here is a step of EpochInd under the refinement mapping below, and EpochInd's inductive
   invariant holds in every reachable state *)
NotifiedFor(e) == { i \in DOMAIN notified : notified[i][1] = e }
Ind(e) == INSTANCE EpochInd WITH E <- e, fp <- firstPast[e], cnt <- Cardinality(NotifiedFor(e)),
                                 nb <- (IF NotifiedFor(e) = {} THEN 0
                                        ELSE notified[CHOOSE i \in NotifiedFor(e) : \A j \in NotifiedFor(e) : j <= i][2]),
                                 lastEpoch <- (IF notified = <<>> THEN 0 ELSE notified[Len(notified)][1])
RefinesInd == [][\A e \in 1..Epochs : Ind(e)!NewBlock(lastFed')]_vars
IndInvAll  == \A e \in 1..Epochs : Ind(e)!IndInv

-----------------------------------------------------------------------------
(* behaviour export: one full path per generated transition *)
Dump == PrintT(<<"CASE", ToJson([n |-> N, s |-> S, p |-> P, blocks |-> hist'])>>)
=============================================================================
