\* generated by mkbridgeapicfg.sh - C12 case export (thorough)
CONSTANTS
  H = 2
  MaxDeps = 2
  MaxL2 = 2
  MaxInfos = 4
  MaxBlocks = 4
  MaxVer = 2
  Ours = 2
  Others = {1}
  AllowSkipped = TRUE
  Variant = "code"
INIT Init
NEXT Next
ACTION_CONSTRAINT Dump
CHECK_DEADLOCK FALSE
