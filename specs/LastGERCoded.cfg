\* regression (F2): the downloader rule as it was coded must violate the property (TLC has to find the counterexample)
CONSTANTS
  MaxBlock = 4
  NG = 2
  Fixed = FALSE
  Variant = "range"
  RestoreOnReorg = FALSE
  MaxRestarts = 1
  MaxReorgs = 0
  MaxDepth = 1
INIT Init
NEXT Next
VIEW view
INVARIANTS TypeOK RowsAreFold RowsAtRest
CHECK_DEADLOCK FALSE
