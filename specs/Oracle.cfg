\* exhaustive safety run, the code as it is (C15): bounded L1, every relative speed of finality / syncer / ticks,
\* reorgs above the finalized block, foreign injections, dependency failures
CONSTANTS
  Rule = "code"
  StoreRead = "snapshot"
  Treadmill = FALSE
  Record = FALSE
  MaxBlock = 4
  MaxLeaves = 3
  Gers = {1, 2, 3}
  MaxFail = 1
  MaxReorg = 1
  MaxExt = 1
INIT Init
NEXT Next
VIEW view
INVARIANTS TypeOK SafeInject TargetFinal CellDead
CHECK_DEADLOCK FALSE
