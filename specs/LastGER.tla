--------------------------------- MODULE LastGER ---------------------------------
(* Implementation-shaped specification of the injected-GER index of aggkit in PP mode (property C16):

     lastgersync/evmdownloader_pp.go   downloaderPP.Download  (cursor arithmetic exactly as coded / as repaired)
     sync/evmdownloader.go             WaitForNewBlocks, GetEventsByBlockRange (one block per block with logs)
     sync/evmdriver.go                 Sync: Download(lastProcessed+1), handleNewBlock = AddBlockToTrack ; ProcessBlock,
                                       handleReorg = cancel downloader ; processor.Reorg ; ack ; reset
     lastgersync/processor.go          ProcessBlock (INSERT block, insert row / DELETE by GER), Reorg (DELETE block >= r,
                                       rows cascade), GetLastProcessedBlock, GetFirstGERAfterL1InfoTreeIndex
     reorgdetector/reorgdetector.go    detectReorgInTrackedList (only *tracked* blocks are compared; the first tracked
                                       block whose hash differs is notified, the tracked range from there is dropped)

   The L2 chain carries at most one GER event per block (the primary key of imported_global_exit_root declares that).
   GER number g sits at L1 info index g.  Block hashes are abstracted by the fork generation `gen` in which a block was
   produced: a reorg from block f gives every block >= f a new generation (hash chain).

   Downloader rule (constants):
     Fixed = FALSE                       the code as it is:   from := Wait(from) ; fetch [from, from]                (F2)
     Fixed = TRUE, Variant = "range"     to := Wait(from-1) ; fetch [from, to] ; from := to+1
     Fixed = TRUE, Variant = "tipblock"  as "range", and the last block of the range is reported (without events) when
                                         it had no logs, as the generic downloader does (reportEmptyBlock)
     Fixed = TRUE, Variant = "hold"      seen := Wait(seen) ; fetch [from, seen] ; from := last block with logs + 1

   Processor rule (constant): RestoreOnReorg = FALSE is the code as it is (a removal deletes the row for good; a reorg
   that drops the removing block does not bring the row back - finding "F2b"); TRUE is the repaired rule.
   `phantom` (ghost) holds exactly the rows lost that way, so that the finding can be named narrowly.

   Environment assumption (also of the replay): a fork becomes canonical only when it is longer than the chain it
   replaces, so the block number seen by a poll never decreases.

   Queries do not change the state: GetFirstGERAfterL1InfoTreeIndex(X) is the operator Query(X), checked for every X in
   every reachable state by the invariants (QueryRight / QueryAtRest; the Rows* invariants are the same statement on
   the table).  In the replay the driver asks every X after every step of the schedule.

   Ghost / history: hist (the environment schedule: what is replayed into the real code; "track" is one
   handleNewBlock = AddBlockToTrack ; ProcessBlock), phantom, remlog.  Only hist is hidden by the VIEW (the invariants
   read the other two).
*)
EXTENDS Integers, Sequences, FiniteSets, TLC, Json

CONSTANTS MaxBlock,        \* L2 blocks 1..MaxBlock
          NG,              \* GERs 1..NG (GER g has L1 info index g)
          Fixed, Variant,  \* downloader rule
          RestoreOnReorg,  \* processor rule
          MaxRestarts, MaxReorgs, MaxDepth   \* bounds on the environment

VARIABLES chain,           \* canonical L2 chain: chain[n] = [k |-> "none"|"ins"|"rem", g |-> GER or 0, gen |-> fork generation]
          gen,             \* current fork generation
          dirty,           \* a reorg happened that the reorg detector has not compared yet
          dpc,             \* downloader: "wait" (in WaitForNewBlocks) | "fetch" (about to call GetEventsByBlockRange)
          cur,             \* downloader: fromBlock
          seen,            \* downloader ("hold" only): last tip returned by WaitForNewBlocks
          lo, hi,          \* downloader: the range about to be fetched
          lastPoll,        \* block number seen by the node's most recent poll since it (re)started (-1 = none)
          ch,              \* downloadedCh: blocks sent and not yet handled by the driver
          blocks,          \* table block (set of numbers)
          rows,            \* table imported_global_exit_root: set of <<block_num, g>>
          tracked,         \* reorg detector: set of <<num, gen>>
          fatal,           \* the driver gave up (ProcessBlock failed MaxRetryAttemptsAfterError times)
          phantom,         \* ghost: rows deleted by a removal whose block was reorged out afterwards
          remlog,          \* ghost: <<block_num of the row, g, block_num of the removal>> of processed removals
          nRestart, nReorg,
          hist             \* ghost: environment schedule

vars == <<chain, gen, dirty, dpc, cur, seen, lo, hi, lastPoll, ch, blocks, rows, tracked, fatal, phantom, remlog,
          nRestart, nReorg, hist>>
view == <<chain, gen, dirty, dpc, cur, seen, lo, hi, lastPoll, ch, blocks, rows, tracked, fatal, phantom, remlog,
          nRestart, nReorg>>

GERs == 1..NG
Tip  == Len(chain)
Max(S) == CHOOSE x \in S : \A y \in S : y <= x
Min(S) == CHOOSE x \in S : \A y \in S : x <= y
LPB == IF blocks = {} THEN 0 ELSE Max(blocks)          \* GetLastProcessedBlock

-----------------------------------------------------------------------------
(* what the L2 contract holds after the first n blocks of c: set of <<block_num, g>> *)
RECURSIVE Fold(_, _)
Fold(c, n) == IF n = 0 THEN {}
              ELSE LET s == Fold(c, n - 1)
                       e == c[n]
                   IN IF e.k = "ins" THEN s \cup {<<n, e.g>>}
                      ELSE IF e.k = "rem" THEN {p \in s : p[2] # e.g}
                      ELSE s

LiveG(c) == {p[2] : p \in Fold(c, Len(c))}

(* the events the contract accepts in the next block of c (insert reverts for a present root, remove for an absent one) *)
Opts(c, gn) == {[k |-> "none", g |-> 0, gen |-> gn]}
               \cup {[k |-> "ins", g |-> x, gen |-> gn] : x \in GERs \ LiveG(c)}
               \cup {[k |-> "rem", g |-> x, gen |-> gn] : x \in LiveG(c)}

RECURSIVE Exts(_, _, _)
Exts(c, k, gn) == IF k = 0 THEN {c} ELSE UNION {Exts(Append(c, e), k - 1, gn) : e \in Opts(c, gn)}

Ev(e) == [k |-> e.k, g |-> e.g]

-----------------------------------------------------------------------------
Init ==
  /\ chain = <<>> /\ gen = 0 /\ dirty = FALSE
  /\ dpc = "wait" /\ cur = 1 /\ seen = 0 /\ lo = 0 /\ hi = 0 /\ lastPoll = -1
  /\ ch = <<>> /\ blocks = {} /\ rows = {} /\ tracked = {} /\ fatal = FALSE
  /\ phantom = {} /\ remlog = {}
  /\ nRestart = 0 /\ nReorg = 0 /\ hist = <<>>

(* ---- environment: the chain ---- *)
Mine ==
  /\ Tip < MaxBlock
  /\ \E e \in Opts(chain, gen) :
       /\ chain' = Append(chain, e)
       /\ hist' = Append(hist, [a |-> "mine", k |-> e.k, g |-> e.g])
  /\ UNCHANGED <<gen, dirty, dpc, cur, seen, lo, hi, lastPoll, ch, blocks, rows, tracked, fatal, phantom, remlog,
                 nRestart, nReorg>>

(* blocks f..Tip are replaced by Tip+2-f new blocks (the new fork is one block longer) *)
Reorg ==
  /\ nReorg < MaxReorgs /\ Tip >= 1 /\ Tip < MaxBlock
  /\ \E f \in 1..Tip :
       /\ Tip - f < MaxDepth
       /\ \E c \in Exts(SubSeq(chain, 1, f - 1), Tip + 2 - f, gen + 1) :
            /\ chain' = c
            /\ hist' = Append(hist, [a |-> "reorg", from |-> f, evs |-> [i \in 1..(Tip + 2 - f) |-> Ev(c[f - 1 + i])]])
  /\ gen' = gen + 1 /\ dirty' = TRUE /\ nReorg' = nReorg + 1
  /\ UNCHANGED <<dpc, cur, seen, lo, hi, lastPoll, ch, blocks, rows, tracked, fatal, phantom, remlog, nRestart>>

(* ---- downloaderPP.Download ---- *)
WaitArg == IF ~Fixed THEN cur ELSE IF Variant = "hold" THEN seen ELSE cur - 1

(* one HeaderByNumber(<finality tag>) inside WaitForNewBlocks *)
Poll ==
  /\ dpc = "wait" /\ ~fatal
  /\ lastPoll' = Tip
  /\ hist' = Append(hist, [a |-> "poll"])
  /\ IF Tip > WaitArg
     THEN /\ dpc' = "fetch"
          /\ IF ~Fixed
             THEN cur' = Tip /\ lo' = Tip /\ hi' = Tip /\ UNCHANGED seen        \* fromBlock = WaitForNewBlocks(fromBlock)
             ELSE cur' = cur /\ lo' = cur /\ hi' = Tip
                  /\ seen' = IF Variant = "hold" THEN Tip ELSE seen
     ELSE UNCHANGED <<dpc, cur, seen, lo, hi>>
  /\ UNCHANGED <<chain, gen, dirty, ch, blocks, rows, tracked, fatal, phantom, remlog, nRestart, nReorg>>

(* GetEventsByBlockRange(lo, hi): one EVMBlock per block that has a log; then the sends; then the cursor *)
WithLogs == SelectSeq([i \in 1..(hi - lo + 1) |-> lo + i - 1], LAMBDA n : chain[n].k # "none")
Blk(n)   == [n |-> n, gen |-> chain[n].gen, k |-> chain[n].k, g |-> chain[n].g]
Empty(n) == [n |-> n, gen |-> chain[n].gen, k |-> "none", g |-> 0]

Fetch ==
  /\ dpc = "fetch" /\ ~fatal
  /\ hi <= Tip                             \* by the environment assumption
  /\ LET nums == WithLogs
         sent == [i \in 1..Len(nums) |-> Blk(nums[i])]
         last == IF Len(nums) = 0 THEN 0 ELSE nums[Len(nums)]
         out  == IF Fixed /\ Variant = "tipblock" /\ last < hi THEN Append(sent, Empty(hi)) ELSE sent
     IN /\ ch' = ch \o out
        /\ cur' = IF ~Fixed THEN cur
                  ELSE IF Variant = "hold" THEN (IF last = 0 THEN cur ELSE last + 1)
                  ELSE hi + 1
  /\ dpc' = "wait"
  /\ hist' = Append(hist, [a |-> "fetch"])
  /\ UNCHANGED <<chain, gen, dirty, seen, lo, hi, lastPoll, blocks, rows, tracked, fatal, phantom, remlog, nRestart, nReorg>>

(* ---- EVMDriver.handleNewBlock: AddBlockToTrack ; processor.ProcessBlock (one transaction) ---- *)
Process ==
  /\ ch # <<>> /\ ~fatal
  /\ LET b == Head(ch) IN
     /\ tracked' = {p \in tracked : p[1] # b.n} \cup {<<b.n, b.gen>>}
     /\ ch' = Tail(ch)
     /\ IF b.n \in blocks
        THEN \* INSERT INTO block fails (primary key): retried until the retry handler gives up
             /\ fatal' = TRUE /\ UNCHANGED <<blocks, rows, phantom, remlog>>
        ELSE /\ blocks' = blocks \cup {b.n} /\ UNCHANGED fatal
             /\ IF b.k = "ins" THEN rows' = rows \cup {<<b.n, b.g>>} /\ UNCHANGED <<phantom, remlog>>
                ELSE IF b.k = "rem"
                THEN /\ rows' = {p \in rows : p[2] # b.g}                           \* DELETE ... WHERE global_exit_root = g
                     /\ phantom' = {p \in phantom : p[2] # b.g}
                     /\ remlog' = remlog \cup {<<p[1], p[2], b.n>> : p \in {q \in rows : q[2] = b.g}}
                ELSE UNCHANGED <<rows, phantom, remlog>>
  /\ hist' = Append(hist, [a |-> "track"])
  /\ UNCHANGED <<chain, gen, dirty, dpc, cur, seen, lo, hi, lastPoll, nRestart, nReorg>>

(* ---- reorg detector tick + EVMDriver.handleReorg + reset ---- *)
Detect ==
  /\ dirty /\ ch = <<>> /\ ~fatal
  /\ hist' = Append(hist, [a |-> "detect"])
  /\ dirty' = FALSE
  /\ LET mism == {p \in tracked : p[1] > Tip \/ chain[p[1]].gen # p[2]} IN
     IF mism = {}
     THEN UNCHANGED <<dpc, cur, seen, lo, hi, lastPoll, blocks, rows, tracked, phantom, remlog>>
     ELSE LET r    == Min({p[1] : p \in mism})
              back == {<<e[1], e[2]>> : e \in {x \in remlog : x[1] < r /\ x[3] >= r}}   \* rows a dropped removal had deleted
              nb   == {n \in blocks : n < r}
              lpb  == IF nb = {} THEN 0 ELSE Max(nb)
          IN /\ blocks' = nb
             /\ rows' = {p \in rows : p[1] < r} \cup (IF RestoreOnReorg THEN back ELSE {})
             /\ phantom' = {p \in phantom : p[1] < r} \cup (IF RestoreOnReorg THEN {} ELSE back)
             /\ remlog' = {x \in remlog : x[3] < r}
             /\ tracked' = {p \in tracked : p[1] < r}
             /\ dpc' = "wait" /\ cur' = lpb + 1 /\ seen' = lpb /\ lo' = 0 /\ hi' = 0 /\ lastPoll' = -1
  /\ UNCHANGED <<chain, gen, ch, fatal, nRestart, nReorg>>

(* ---- node restart: everything in memory is lost; Sync starts Download at lastProcessed+1 ---- *)
Restart ==
  /\ nRestart < MaxRestarts
  /\ nRestart' = nRestart + 1
  /\ ch' = <<>> /\ dpc' = "wait" /\ cur' = LPB + 1 /\ seen' = LPB /\ lo' = 0 /\ hi' = 0 /\ lastPoll' = -1
  /\ fatal' = FALSE
  /\ hist' = Append(hist, [a |-> "restart"])
  /\ UNCHANGED <<chain, gen, dirty, blocks, rows, tracked, phantom, remlog, nReorg>>

Next == Mine \/ Reorg \/ Poll \/ Fetch \/ Process \/ Detect \/ Restart
Spec == Init /\ [][Next]_vars

-----------------------------------------------------------------------------
(* GetFirstGERAfterL1InfoTreeIndex(X): the row with the least index >= X; 0 = not found *)
Query(X) == LET c == {p[2] : p \in {q \in rows : q[2] >= X}} IN IF c = {} THEN 0 ELSE Min(c)
(* what the property promises when the blocks <= P are the processed ones *)
Want(X, P) == LET c == {p[2] : p \in {q \in Fold(chain, P) : q[2] >= X}} IN IF c = {} THEN 0 ELSE Min(c)

Consistent == ~dirty /\ ~fatal
Settled    == Consistent /\ dpc = "wait" /\ ch = <<>> /\ lastPoll = Tip

(* the table is the fold of the events of the canonical blocks up to the last processed block ... *)
RowsAreFold    == Consistent => rows = Fold(chain, LPB)
(* ... and of all canonical blocks once the node has polled the tip and has nothing left to do *)
RowsAtRest     == Settled => rows = Fold(chain, Tip)
QueryRight     == Consistent => \A X \in 0..(NG + 1) : Query(X) = Want(X, LPB)
QueryAtRest    == Settled => \A X \in 0..(NG + 1) : Query(X) = Want(X, Tip)
NoFatal        == ~fatal

(* the same modulo the named finding F2b: the only rows missing are those lost to a reorged removal *)
RowsAreFoldKF  == Consistent => rows \cup phantom = Fold(chain, LPB) /\ rows \cap phantom = {}
RowsAtRestKF   == Settled => rows \cup phantom = Fold(chain, Tip)
NoPhantom      == phantom = {}

TypeOK == /\ cur >= 1 /\ dpc \in {"wait", "fetch"} /\ Tip <= MaxBlock
          /\ \A p \in rows : p[1] \in blocks

-----------------------------------------------------------------------------
(* behaviour export: one full environment schedule per generated transition *)
Dump == PrintT(<<"CASE", ToJson([steps |-> hist'])>>)
=============================================================================
