\* case export for replay into the real code (quick tier): every case of the 3-bit model with 5 block-content classes
CONSTANTS
  W = 3
  Froms = {0,1,2,3,4,5,6,7}
  MaxLen = 3
  NContent = 5
  Kinds = {"size","limit","range","gap"}
INIT Init
NEXT Next
ACTION_CONSTRAINT Dump
CHECK_DEADLOCK FALSE
