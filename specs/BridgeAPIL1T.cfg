\* generated by mkbridgeapicfg.sh - C12 exhaustive, L1 lookup focus (thorough): 6 L1 bridges, 6 leaves over 5 blocks
CONSTANTS
  H = 3
  MaxDeps = 6
  MaxL2 = 1
  MaxInfos = 6
  MaxBlocks = 5
  MaxVer = 0
  Ours = 1
  Others = {}
  AllowSkipped = FALSE
  Variant = "code"
INIT Init
NEXT Next
INVARIANT Inv
CHECK_DEADLOCK FALSE
