\* exhaustive design check (C20), thorough: every call tree with <= 5 frames, every reverted set, two global indexes;
\* all six frame kinds up to 4 frames, three kinds with 5 frames
CONSTANTS
  MaxFrames = 5
  FullUpTo = 4
  Kinds = {"other", "decoy", "asset", "msg", "preAsset", "preMsg"}
  CoreKinds = {"other", "asset", "preMsg"}
  GIs = {"A", "B"}
  EvGIs = {"A"}
INIT Init
NEXT Next
INVARIANTS C20 StackClean NoWriteWithoutMatch TypeOK
CHECK_DEADLOCK FALSE
