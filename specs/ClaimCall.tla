-------------------------------- MODULE ClaimCall --------------------------------
(* Implementation-shaped specification of bridgesync/downloader.go: the claim event handler
   (buildClaimEventHandler / buildClaimEventHandlerPreEtrog) -> Claim.setClaimCalldata -> findCall (stack-based DFS)
   -> callback -> Claim.tryDecodeClaimCalldata -> decodeEtrogCalldata / decodePreEtrogCalldata.

   Input (chosen in Init, constant along a behaviour): the call tree that debug_traceTransaction(callTracer) returns
   and the global index of the claim event.

   The tree is encoded canonically: frames are numbered 1..n in preorder (the order of the nested "calls" arrays),
   par[i] is the parent (0 for the root), so par[i+1] lies on the path root..i; every ordered tree has exactly one
   such numbering.  Per frame:
     kind  "other"       addressed to another contract, input is no claim call
           "decoy"       addressed to another contract, input is a well-formed Etrog claimAsset call (with a gi)
           "asset","msg","preAsset","preMsg"   addressed to the bridge: claimAsset / claimMessage of the Etrog ABI,
                                               claimAsset / claimMessage of the pre-Etrog ABI
           "bridgeOther" addressed to the bridge, not a claim call (outside the property's precondition)
     gi    global index carried by the call data ("-" when the input has none)
     rev   the frame carries an "error" field (reverted)

   The claim under construction is abstracted to WHERE each call-derived field came from: 0 = still the value the
   handler initialised from the event, f = written from frame f.

   Actions = the code's steps: Start (RPC + root check), Iter (one iteration of findCall's loop, callback included),
   Ret (the handler appends the claim to the block's events, or returns the error).
*)
EXTENDS Integers, Sequences, FiniteSets, TLC, Json

CONSTANTS MaxFrames,   \* trees with 1..MaxFrames frames
          Kinds,       \* frame kinds allowed in trees with at most FullUpTo frames
          FullUpTo,
          CoreKinds,   \* frame kinds allowed in larger trees (in this model "asset"/"msg" and "preAsset"/"preMsg" are
                       \* interchangeable: a kind matters only through PreKinds and BridgeKinds)
          GIs,         \* global indexes that call data may carry
          EvGIs        \* global indexes of the event

ClaimKinds  == {"asset", "msg", "preAsset", "preMsg"}
PreKinds    == {"preAsset", "preMsg"}
BridgeKinds == ClaimKinds \cup {"bridgeOther"}          \* call.To == bridge address
HasGI       == ClaimKinds \cup {"decoy"}
Fields      == {"pler", "prer", "mer", "rer", "ger", "dnet", "meta", "msg", "from"}

VARIABLES n, par, kind, gi, rev, evgi,    \* input
          pc,                             \* "start" | "loop" | "ret" | "done"
          stack,                          \* findCall's callStack (top = last element)
          claim,                          \* [Fields -> 0..n] provenance of the Claim's call-derived fields
          err,                            \* the error setClaimCalldata returns ("" = nil)
          events                          \* b.Events (the claims appended by the handler)

vars == <<n, par, kind, gi, rev, evgi, pc, stack, claim, err, events>>

-----------------------------------------------------------------------------
(* canonical trees *)
RECURSIVE Path(_, _)
Path(p, i) == IF i = 0 THEN {} ELSE {i} \cup Path(p, p[i])          \* i and its ancestors

RECURSIVE ParentVecs(_)
ParentVecs(m) == IF m = 1 THEN {<<0>>}
                 ELSE UNION { { Append(p, a) : a \in Path(p, m - 1) } : p \in ParentVecs(m - 1) }

OptsOf(K) == { [k |-> k, g |-> g, r |-> r] : k \in K \cap HasGI, g \in GIs, r \in BOOLEAN }
             \cup { [k |-> k, g |-> "-", r |-> r] : k \in K \ HasGI, r \in BOOLEAN }
Opts(m) == IF m <= FullUpTo THEN OptsOf(Kinds) ELSE OptsOf(CoreKinds)

Init ==
  /\ \E m \in 1..MaxFrames : \E p \in ParentVecs(m) : \E a \in [1..m -> Opts(m)] :
       /\ n = m /\ par = p
       /\ kind = [i \in 1..m |-> a[i].k]
       /\ gi   = [i \in 1..m |-> a[i].g]
       /\ rev  = [i \in 1..m |-> a[i].r]
  /\ evgi \in EvGIs
  /\ pc = "start" /\ stack = <<>> /\ err = "" /\ events = <<>>
  /\ claim = [x \in Fields |-> 0]

-----------------------------------------------------------------------------
(* setClaimCalldata: client.Call(debug_traceTransaction); "Check if the root call was successful" *)
Start ==
  /\ pc = "start"
  /\ IF rev[1]
     THEN /\ err' = "root call reverted" /\ pc' = "ret" /\ UNCHANGED stack
     ELSE /\ stack' = <<1>> /\ pc' = "loop" /\ UNCHANGED err       \* callStack.Push(rootCall)
  /\ UNCHANGED <<n, par, kind, gi, rev, evgi, claim, events>>

(* `for _, c := range currentCall.Calls { if c.Err == nil { callStack.Push(c) } }` : children in array order,
   so the LAST non-reverted child is popped first *)
PushKids(rest, f) == rest \o SelectSeq([i \in 1..n |-> i], LAMBDA c : par[c] = f /\ ~rev[c])

(* decodeEtrogCalldata / decodePreEtrogCalldata + the IsMessage assignment of tryDecodeClaimCalldata, after the
   global index test has passed.  The pre-Etrog decoder does not touch ProofRollupExitRoot. *)
Decoded(f) == [x \in Fields |-> IF x = "prer" /\ kind[f] \in PreKinds THEN claim[x] ELSE f]

(* one iteration of `for callStack.Len() > 0` (falling out of the loop returns db.ErrNotFound) *)
Iter ==
  /\ pc = "loop"
  /\ IF stack = <<>>
     THEN /\ err' = "not found" /\ pc' = "ret" /\ UNCHANGED <<stack, claim>>
     ELSE LET cur  == stack[Len(stack)]
              rest == SubSeq(stack, 1, Len(stack) - 1)
          IN
          IF rev[cur]                                    \* "Skip reverted calls"
          THEN /\ stack' = rest /\ UNCHANGED <<pc, err, claim>>
          ELSE IF kind[cur] \in BridgeKinds              \* currentCall.To == targetAddr -> callback(currentCall)
          THEN IF kind[cur] = "bridgeOther"              \* tryDecodeClaimCalldata: unrecognized method ID -> error
               THEN /\ err' = "unrecognized method ID" /\ pc' = "ret" /\ stack' = rest /\ UNCHANGED claim
               ELSE IF gi[cur] # evgi                    \* "not the claim we're looking for": (false, nil), no write
               THEN /\ stack' = PushKids(rest, cur) /\ UNCHANGED <<pc, err, claim>>
               ELSE /\ claim' = Decoded(cur)             \* found: findCall returns &currentCall, nil
                    /\ pc' = "ret" /\ stack' = rest /\ UNCHANGED err
          ELSE /\ stack' = PushKids(rest, cur) /\ UNCHANGED <<pc, err, claim>>
  /\ UNCHANGED <<n, par, kind, gi, rev, evgi, events>>

(* the handler: `if err := claim.setClaimCalldata(..); err != nil { return err }`, else b.Events = append(..) *)
Ret ==
  /\ pc = "ret"
  /\ events' = IF err = "" THEN Append(events, claim) ELSE events
  /\ pc' = "done"
  /\ UNCHANGED <<n, par, kind, gi, rev, evgi, stack, claim, err>>

Next == Start \/ Iter \/ Ret
Spec == Init /\ [][Next]_vars

-----------------------------------------------------------------------------
(* C20, declaratively *)
RECURSIVE Clean(_)
Clean(f) == f = 0 \/ (~rev[f] /\ Clean(par[f]))                \* no reverted frame on the path root..f

Eligible == { f \in 1..n : kind[f] \in BridgeKinds /\ gi[f] = evgi /\ Clean(f) }

(* the details of call f: every field from f; a pre-Etrog call has no rollup proof (the field keeps its zero value) *)
Details(f) == [x \in Fields |-> IF x = "prer" /\ kind[f] \in PreKinds THEN 0 ELSE f]

Precondition == \A f \in 1..n : kind[f] \in BridgeKinds => kind[f] \in ClaimKinds

C20 ==
  (pc = "done" /\ Precondition) =>
     IF Eligible = {}
     THEN err # "" /\ events = <<>>
     ELSE err = "" /\ Len(events) = 1 /\ \E f \in Eligible : events[1] = Details(f)

(* implementation facts used when reading the code (not part of the property) *)
StackClean == \A i \in 1..Len(stack) : Clean(par[stack[i]]) /\ (stack[i] = 1 \/ ~rev[stack[i]])
NoWriteWithoutMatch == (pc \in {"start", "loop"}) => claim = [x \in Fields |-> 0]
TypeOK == /\ pc \in {"start", "loop", "ret", "done"} /\ Len(events) <= 1

-----------------------------------------------------------------------------
(* case export: one line per input, with the frame the code-shaped model takes the details from (0 = error) *)
Dump == (pc' = "done") =>
          PrintT(<<"CASE", ToJson([par |-> par, kind |-> kind, gi |-> gi, rev |-> rev, evgi |-> evgi,
                                   pick |-> IF err = "" THEN claim["from"] ELSE 0])>>)
=============================================================================
