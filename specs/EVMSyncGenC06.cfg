\* C06 behaviour export (edge cover): two-block chain, one fork (which makes it three), detector, one restart
CONSTANTS
  N = 2
  Chunks = {1,2}
  TipTags = {"latest"}
  BufCap = 1
  MaxForks = 1
  MaxFails = 0
  MaxPFails = 0
  MaxRestarts = 1
  Detector = TRUE
  RetryLimit = 5
  AtomicRemove = FALSE
  RemoveByHash = FALSE
  LockedRemove = TRUE
  InconsOnFault = FALSE
  Contents = {0,1}
  FinLag = 0
  NoIdle = FALSE
  SimDepth = 0
INIT Init
NEXT Next
VIEW view
ACTION_CONSTRAINT Dump
CHECK_DEADLOCK FALSE
