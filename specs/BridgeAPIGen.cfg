\* generated by mkbridgeapicfg.sh - C12 case export: every joint history within the bounds
CONSTANTS
  H = 2
  MaxDeps = 2
  MaxL2 = 2
  MaxInfos = 3
  MaxBlocks = 3
  MaxVer = 2
  Ours = 1
  Others = {2}
  AllowSkipped = TRUE
  Variant = "code"
INIT Init
NEXT Next
ACTION_CONSTRAINT Dump
CHECK_DEADLOCK FALSE
