------------------------------ MODULE BridgeAPIReorg ------------------------------
(* The claim flow of bridgeservice/bridge.go (BridgeAPI.tla) over an L1 history that is REORGED while the service keeps
   running (property C12 across reorgs of the stores).

   BridgeAPI.tla specifies every answer of the service as a function of the history the stores hold *now*; that is what
   the code does (every request goes to the stores).  This module adds the step that makes the difference between a
   service without memory and one with memory visible:

     Reorg(j)    the L1 bridge store and the L1 info store forget every block after the j-th (sync.EVMDriver.handleReorg ->
                 processor.Reorg on both), then the history grows again - differently

   and a constant Memo for what the service remembers between requests:

     "none"   nothing (the code as it is): the invariants of BridgeAPI.tla carry over unchanged;
     "keep"   answered /l1-info-tree-index lookups are remembered per (network, deposit count) - "the L1 info tree is
              append only, so the first index that includes a bridge never changes" - and survive a reorg.
              REFUTED by TLC (BridgeAPIReorgKeep.cfg, expected counterexample to ServedSafe): after the reorg the
              remembered index names a leaf that does not cover the bridge (or no leaf at all);
     "drop"   the same memory, emptied when the stores are reorged: holds.

   The clients are modelled without branching: after every change of the history every recorded bridge is looked up
   (Learn), which is also what the replay does (a snapshot of all requests after every block). *)
EXTENDS BridgeAPI

CONSTANT Memo

VARIABLES old,      \* the history before the reorg (<<>>: no reorg yet); at most one reorg per behaviour
          kept,     \* number of blocks of `old` that survived it
          memo      \* (network, deposit count) -> remembered index

varsR == <<blocks, old, kept, memo>>

Keys(st) == {x \in Nets \X (0..(Max({MaxDeps, MaxL2}) - 1)) : x[2] \in Recorded(st, x[1])}

Served(st, x) == IF Memo # "none" /\ x \in DOMAIN memo THEN Ok(memo[x]) ELSE FirstIndex(st, x[1], x[2])

Learn(st, m) ==
  IF Memo = "none" THEN m
  ELSE LET newly == {x \in Keys(st) \ DOMAIN m : FirstIndex(st, x[1], x[2]).ok} IN
       [x \in (DOMAIN m) \cup newly |-> IF x \in DOMAIN m THEN m[x] ELSE FirstIndex(st, x[1], x[2]).idx]

InitRe == Init /\ old = <<>> /\ kept = 0 /\ memo = EmptyF

GrowRe == Next /\ UNCHANGED <<old, kept>> /\ memo' = Learn(St(blocks'), memo)

ReorgR(j) ==
  /\ old = <<>> /\ blocks # << <<>> >>
  /\ j \in 0..(Len(blocks) - 1)
  /\ old' = blocks /\ kept' = j
  /\ blocks' = SubSeq(blocks, 1, j) \o << <<>> >>
  /\ memo' = IF Memo = "drop" THEN Learn(St(blocks'), EmptyF) ELSE memo

NextRe == GrowRe \/ \E j \in 0..MaxBlocks : ReorgR(j)

SpecRe == InitRe /\ [][NextRe]_varsR

(* what is served for a recorded bridge names a leaf that exists and covers it *)
ServedSafe ==
  LET st == St(blocks) IN
  \A x \in Keys(st) :
     LET r == Served(st, x) IN
     r.ok => /\ r.idx + 1 \in DOMAIN st.infos
             /\ Covers(x[1], st.infos[r.idx + 1], x[2])

InvR == Inv /\ ServedSafe

(* case export: histories after a reorg, with the history before it (the driver replays old, reorgs to `kept` blocks, goes on) *)
DumpR == (old' # <<>> /\ blocks' # old') =>
           PrintT(<<"CASE", ToJson([ours |-> Ours, n2 |-> MaxL2, old |-> old', kept |-> kept', blocks |-> blocks'])>>)
=============================================================================
