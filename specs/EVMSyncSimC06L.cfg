\* C06 long random walks: 12 blocks, up to 5 successive forks of processed blocks, two restarts, finality lags by >= 3
CONSTANTS
  N = 12
  Chunks = {1,2,4}
  TipTags = {"latest"}
  BufCap = 3
  MaxForks = 5
  MaxFails = 2
  MaxPFails = 1
  MaxRestarts = 2
  Detector = TRUE
  RetryLimit = 5
  AtomicRemove = FALSE
  RemoveByHash = FALSE
  LockedRemove = TRUE
  InconsOnFault = FALSE
  Contents = {0,1}
  FinLag = 3
  NoIdle = TRUE
  SimDepth = 299
INIT Init
NEXT Next
ACTION_CONSTRAINT Dump
CHECK_DEADLOCK FALSE
