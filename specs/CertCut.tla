--------------------------------- MODULE CertCut ---------------------------------
(* Implementation-shaped specification of the code that cuts a certificate's block range (C17):

     aggsender/types/certificate_build_params.go   CertificateBuildParams.Range / EstimatedSize / NumberOfBlocks / IsARetry
     aggsender/flows/flow_base.go                  GetCertificateBuildParamsInternal (range computation) + limitCertSize (loop)
     aggsender/flows/max_l2blocknumber_limiter.go  MaxL2BlockNumberLimiter.AdaptCertificate
     aggsender/types/block_range.go                BlockRange.Gap / CountBlocks / IsEmpty / getBlockMinusOne

   uint64 is modelled as W-bit unsigned arithmetic (every +/- of the code is written with the wrap U(_) where the code has
   it), Go's int(uint64) as the W-bit two's complement reading, so that TLC enumerates ALL block numbers including the
   endpoints 0 and 2^W-1.  The float arithmetic of EstimatedSize is written in exact hundredths of a byte
   (0.09 KB = 92.16, 2.8 KB = 2867.20, 0.07 KB = 71.68) followed by the truncation to uint.

   One behaviour = one case: Init chooses the input, Run evaluates the operators written from the code, the invariants
   compare the outcome with the declarative result.  Four kinds of cases:
     "size"   GetCertificateBuildParamsInternal on a node whose previous certificate ended at `prev`, last synced block
              p.to, MaxCertSize = max                                  -> limitCertSize
     "limit"  NewMaxL2BlockNumberLimiter(limit, allow, req).AdaptCertificate(p)
     "range"  p.Range(f, t) for every f, t
     "gap"    a.Gap(b) (+ IsEmpty / CountBlocks of the answer) for every pair of ranges
*)
EXTENDS Integers, Sequences, FiniteSets, TLC, Json

CONSTANTS W,          \* word width of the model
          Froms,      \* first blocks of the enumerated certificates
          MaxLen,     \* certificates span 1..MaxLen blocks
          NContent,   \* block-content classes 1..NContent are used (see Content)
          Kinds       \* which kinds of cases are enumerated

Mod == 2^W
M   == Mod - 1
U(x) == x % Mod                                           \* uint wrap-around
Signed(x) == IF x >= Mod \div 2 THEN x - Mod ELSE x       \* int(x) of a uint
Min(a, b) == IF a < b THEN a ELSE b
Max(a, b) == IF a > b THEN a ELSE b

(* Go's int(ToBlock - FromBlock + 1) is negative for spans of 2^63 blocks and more; the enumerated certificates stay
   below that (documented assumption of the check). *)
ASSUME W \in 2..10 /\ MaxLen < Mod \div 2 /\ Froms \subseteq 0..M

VARIABLES c,        \* the case (input)
          out,      \* outcome of the code-shaped operators
          done

vars == <<c, out, done>>

-----------------------------------------------------------------------------
(* events and certificate build parameters *)

(* what one block may contain: a sequence of [k = "b" bridge | "c" claim, m = metadata length] *)
Content(k) ==
  CASE k = 1 -> <<>>
    [] k = 2 -> << [k |-> "b", m |-> 0] >>
    [] k = 3 -> << [k |-> "c", m |-> 0] >>
    [] k = 4 -> << [k |-> "b", m |-> 700] >>
    [] k = 5 -> << [k |-> "b", m |-> 0], [k |-> "c", m |-> 33] >>
    [] k = 6 -> << [k |-> "b", m |-> 0], [k |-> "b", m |-> 5] >>
    [] OTHER -> <<>>

RECURSIVE Ev(_, _, _)
Ev(from, lay, i) ==
  IF i > Len(lay) THEN <<>>
  ELSE [j \in 1..Len(Content(lay[i])) |-> [k |-> Content(lay[i])[j].k, m |-> Content(lay[i])[j].m, b |-> from + i - 1]]
       \o Ev(from, lay, i + 1)

WithId(s) == [i \in 1..Len(s) |-> [k |-> s[i].k, m |-> s[i].m, b |-> s[i].b, id |-> i]]

(* CertificateBuildParams: only the fields that take part *)
MkParams(from, lay, typ, retry) ==
  LET all == WithId(Ev(from, lay, 1)) IN
  [from |-> from, to |-> from + Len(lay) - 1,
   br |-> SelectSeq(all, LAMBDA e : e.k = "b"), cl |-> SelectSeq(all, LAMBDA e : e.k = "c"),
   typ |-> typ, retry |-> retry]

NoParams == [from |-> 0, to |-> 0, br |-> <<>>, cl |-> <<>>, typ |-> "pp", retry |-> FALSE]

-----------------------------------------------------------------------------
(* EstimatedSize, in hundredths: 92.16 per bridge, 2867.20 per claim, metadata bytes, 71.68 signature |
   10240 proof + 200 per claim *)
BR100 == 9216
CL100 == 286720
SIG100 == 7168
PRF100 == 1024000
CF100 == 20000

RECURSIVE SumMeta(_)
SumMeta(s) == IF s = <<>> THEN 0 ELSE Head(s).m + SumMeta(Tail(s))

Size100(br, cl, typ) ==
  BR100 * Len(br) + CL100 * Len(cl) + 100 * (SumMeta(br) + SumMeta(cl))
  + (IF typ = "fep" THEN PRF100 + CF100 * Len(cl) ELSE SIG100)

EstimatedSize(p) == Size100(p.br, p.cl, p.typ) \div 100

NumberOfBlocks(p) == Signed(U(p.to - p.from + 1))
NumberOfBridges(p) == Len(p.br)
NumberOfClaims(p) == Len(p.cl)
IsEmptyCert(p) == NumberOfBridges(p) = 0 /\ NumberOfClaims(p) = 0

-----------------------------------------------------------------------------
(* the code *)

Res(p)   == [ok |-> TRUE, err |-> "", p |-> p]
Err(e)   == [ok |-> FALSE, err |-> e, p |-> NoParams]

(* CertificateBuildParams.Range *)
RangeOp(p, f, t) ==
  IF p.from = f /\ p.to = t THEN Res(p)
  ELSE IF p.from > f \/ p.to < t THEN Err("notwithin")
  ELSE IF f > t THEN Err("fromgtto")
  ELSE Res([p EXCEPT !.from = f, !.to = t,
                     !.br = SelectSeq(p.br, LAMBDA e : e.b >= f /\ e.b <= t),
                     !.cl = SelectSeq(p.cl, LAMBDA e : e.b >= f /\ e.b <= t)])

(* baseFlow.limitCertSize: the loop as coded *)
RECURSIVE LimitCertSize(_, _)
LimitCertSize(p, max) ==
  IF max = 0 \/ EstimatedSize(p) <= max THEN Res(p)
  ELSE IF NumberOfBlocks(p) <= 1 THEN Res(p)
  ELSE LET r == RangeOp(p, p.from, U(p.to - 1)) IN
       IF ~r.ok THEN Err("reduce:" \o r.err) ELSE LimitCertSize(r.p, max)

(* baseFlow.GetCertificateBuildParamsInternal: previous certificate ended at prev (or StartL2Block = prev),
   the syncer is at `last`; `full` = what GetBridgesAndClaims(from, to) holds *)
BuildParamsInternal(prev, last, full, max) ==
  IF prev >= last THEN Err("nonewblocks")
  ELSE LimitCertSize([full EXCEPT !.from = U(prev + 1), !.to = last], max)

(* MaxL2BlockNumberLimiter.AdaptCertificate *)
AdaptCertificate(p, limit, allow, req) ==
  IF ~(limit > 0) THEN Res(p)
  ELSE IF p.to <= limit THEN Res(p)
  ELSE IF p.retry /\ ~allow THEN Err("retry")
  ELSE IF p.from = U(limit + 1) /\ p.to > limit THEN Err("complete")
  ELSE IF p.from > limit THEN Err("complete")
  ELSE LET r == RangeOp(p, p.from, limit) IN
       IF ~r.ok THEN Err("adjust:" \o r.err)
       ELSE IF ~req /\ IsEmptyCert(r.p) THEN r
       ELSE IF req /\ NumberOfBridges(r.p) = 0
            THEN (IF NumberOfClaims(r.p) > 0 THEN Err("nobridges") ELSE Err("complete"))
       ELSE r

(* BlockRange: the operators of GapOps.tla at this model's word width (GapInd.tla proves them with Apalache at 2^64) *)
GO == INSTANCE GapOps WITH Mod <- Mod
BlockMinusOne(x) == GO!BlockMinusOne(x)
CountBlocks(r) == GO!CountBlocks(r)
IsEmptyRange(r) == CountBlocks(r) = 0
Gap(a, b) == GO!Gap(a, b)

-----------------------------------------------------------------------------
(* enumeration of the inputs *)

(* (the dummy parameter keeps TLC from evaluating the set eagerly at start-up) *)
Layouts0(x) == UNION { [1..n -> 1..NContent] : n \in 1..MaxLen }
AllParams(typs, retries) ==
  { MkParams(f, lay, typ, re) : f \in Froms, lay \in Layouts0(1), typ \in typs, re \in retries }
FitParams(typs, retries) == { p \in AllParams(typs, retries) : p.to <= M }

Prefix(p, t) == RangeOp(p, p.from, t).p
(* every size limit at which the outcome can change, and "no limit" *)
Thresholds(p) == {0} \cup UNION { { EstimatedSize(Prefix(p, t)), EstimatedSize(Prefix(p, t)) - 1 } : t \in p.from..p.to }

ValidRanges == { r \in { [from |-> f, to |-> t] : f \in 0..M, t \in 0..M } : r.from <= r.to }
NoRange == [from |-> 0, to |-> 0]

Case(k, p, max, prev, limit, allow, req, f, t, a, b) ==
  [k |-> k, p |-> p, max |-> max, prev |-> prev, limit |-> limit, allow |-> allow, req |-> req,
   f |-> f, t |-> t, a |-> a, b |-> b]

(* the cases are enumerated by Init with quantifiers (not as one big constant set: TLC would evaluate it eagerly) *)
InitSize ==
  /\ "size" \in Kinds
  /\ \E p \in FitParams({"pp", "fep"}, BOOLEAN) : \E mx \in Thresholds(p) :
        c = Case("size", p, mx, U(p.from - 1), 0, FALSE, FALSE, 0, 0, NoRange, NoRange)
InitLimit ==
  /\ "limit" \in Kinds
  /\ \E p \in FitParams({"pp"}, BOOLEAN), lim \in 0..M, al \in BOOLEAN, rq \in BOOLEAN :
        c = Case("limit", p, 0, 0, lim, al, rq, 0, 0, NoRange, NoRange)
InitRange ==
  /\ "range" \in Kinds
  /\ \E p \in FitParams({"pp"}, {FALSE}), f \in 0..M, t \in 0..M :
        c = Case("range", p, 0, 0, 0, FALSE, FALSE, f, t, NoRange, NoRange)
InitGap ==
  /\ "gap" \in Kinds
  /\ \E a \in ValidRanges, b \in ValidRanges :
        c = Case("gap", NoParams, 0, 0, 0, FALSE, FALSE, 0, 0, a, b)

NoOut == [ok |-> FALSE, err |-> "", p |-> NoParams, g |-> NoRange, empty |-> FALSE, count |-> 0]
CutOut(r) == [NoOut EXCEPT !.ok = r.ok, !.err = r.err, !.p = r.p]

Init == (InitSize \/ InitLimit \/ InitRange \/ InitGap) /\ out = NoOut /\ done = FALSE

Run ==
  /\ ~done /\ done' = TRUE /\ UNCHANGED c
  /\ out' = CASE c.k = "size"  -> CutOut(BuildParamsInternal(c.prev, c.p.to, c.p, c.max))
              [] c.k = "limit" -> CutOut(AdaptCertificate(c.p, c.limit, c.allow, c.req))
              [] c.k = "range" -> CutOut(RangeOp(c.p, c.f, c.t))
              [] c.k = "gap"   -> LET g == Gap(c.a, c.b) IN
                                  [NoOut EXCEPT !.ok = TRUE, !.g = g, !.empty = IsEmptyRange(g), !.count = CountBlocks(g)]

Next == Run
Spec == Init /\ [][Next]_vars

-----------------------------------------------------------------------------
(* C17: the declarative result (mathematical integers, no wrap-around) *)

Kept(s, f, t) == SelectSeq(s, LAMBDA e : f <= e.b /\ e.b <= t)
SizeOfKept(p, t) == Size100(Kept(p.br, p.from, t), Kept(p.cl, p.from, t), p.typ) \div 100
Permitted(p, max, t) == max = 0 \/ SizeOfKept(p, t) <= max

(* the result is the input restricted to [from, to']: nothing dropped, duplicated, reordered, same first block *)
IsCutOf(q, p) ==
  /\ q.from = p.from
  /\ q.to \in p.from..p.to
  /\ q.br = Kept(p.br, p.from, q.to)
  /\ q.cl = Kept(p.cl, p.from, q.to)
  /\ q.typ = p.typ /\ q.retry = p.retry

SizeCutCorrect ==
  (done /\ c.k = "size" /\ out.ok) =>
     /\ IsCutOf(out.p, c.p)
     /\ (Permitted(c.p, c.max, out.p.to) \/ out.p.to = c.p.from)                  \* over the limit only as a single block
     /\ \A t \in (out.p.to + 1)..c.p.to : ~Permitted(c.p, c.max, t)               \* ends at the greatest permitted block

(* the only way not to get a certificate out of the size cut is "no new blocks" (first block 0 cannot follow anything) *)
SizeCutTotal ==
  (done /\ c.k = "size" /\ ~out.ok) => (out.err = "nonewblocks" /\ c.p.from = 0)

LimitCutCorrect ==
  (done /\ c.k = "limit" /\ out.ok) =>
     /\ IsCutOf(out.p, c.p)
     /\ out.p.to = (IF c.limit = 0 THEN c.p.to ELSE Min(c.p.to, c.limit))

(* refusals of the limiter: only when a cut is needed, and only for the documented reasons *)
LimitRefusals ==
  (done /\ c.k = "limit" /\ ~out.ok) =>
     /\ c.limit > 0 /\ c.p.to > c.limit
     /\ \/ out.err = "retry" /\ c.p.retry /\ ~c.allow
        \/ out.err = "complete" /\ c.p.from > c.limit
        \/ out.err = "complete" /\ c.req /\ Kept(c.p.br, c.p.from, c.limit) = <<>> /\ Kept(c.p.cl, c.p.from, c.limit) = <<>>
        \/ out.err = "nobridges" /\ c.req /\ Kept(c.p.br, c.p.from, c.limit) = <<>> /\ Kept(c.p.cl, c.p.from, c.limit) # <<>>

RangeCorrect ==
  (done /\ c.k = "range") =>
     IF c.p.from <= c.f /\ c.f <= c.t /\ c.t <= c.p.to
     THEN /\ out.ok /\ out.p.from = c.f /\ out.p.to = c.t
          /\ out.p.br = Kept(c.p.br, c.f, c.t) /\ out.p.cl = Kept(c.p.cl, c.f, c.t)
     ELSE ~out.ok

Touch(a, b) == a.to + 1 >= b.from /\ b.to + 1 >= a.from
GapCorrect ==
  (done /\ c.k = "gap") =>
     IF Touch(c.a, c.b)
     THEN out.empty
     ELSE /\ ~out.empty
          /\ out.g.from = Min(c.a.to, c.b.to) + 1
          /\ out.g.to = Max(c.a.from, c.b.from) - 1
          /\ out.count = out.g.to - out.g.from + 1

-----------------------------------------------------------------------------
(* case export: one line per case, with the model's own outcome (used only to report drift) *)
Ids(s) == [i \in 1..Len(s) |-> s[i].id]
Dump == PrintT(<<"CASE", ToJson(
  [k |-> c.k, from |-> c.p.from, to |-> c.p.to, typ |-> c.p.typ, retry |-> c.p.retry, br |-> c.p.br, cl |-> c.p.cl,
   max |-> c.max, limit |-> c.limit, allow |-> c.allow, req |-> c.req, f |-> c.f, t |-> c.t, a |-> c.a, b |-> c.b,
   exp |-> [ok |-> out'.ok, err |-> out'.err, from |-> out'.p.from, to |-> out'.p.to, br |-> Ids(out'.p.br),
            cl |-> Ids(out'.p.cl), g |-> out'.g, empty |-> out'.empty]])>>)
=============================================================================
