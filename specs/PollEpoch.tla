-------------------------------- MODULE PollEpoch --------------------------------
(* Implementation-shaped specification of the epoch clock of the aggsender as it is wired in cmd/run.go:

     aggsender/block_notifier_polling.go    BlockNotifierPolling.Start / step     (polls HeaderByNumber(<finality>))
     aggsender/generic_subscriber_impl.go   GenericSubscriberImpl.Publish         (one goroutine per event and subscriber,
                                                                                  each blocked on an unbuffered channel)
     aggsender/epoch_notifier_per_block.go  EpochNotifierPerBlock.startInternal / step

   Epoch.tla is the third component alone, fed with increasing block numbers (C18 as stated).  This module composes the
   three: what reaches the epoch notifier is whatever the poller publishes, in whatever order the pending sends complete.

   Actions.
     Poll(r)      one iteration of BlockNotifierPolling.Start: the RPC answers r (-1 = error, otherwise the head number;
                  the head may stay, advance by any amount, or go DOWN - finality tags are not monotone across RPC
                  nodes); step computes the new status and at most one EventNewBlock, Publish parks it in `inflight`.
     Deliver(i)   the i-th parked send completes: the epoch notifier's loop receives it and runs step + Publish.
                  Reorder = FALSE: only the oldest parked send can complete (the schedule seen in practice: a poll
                  interval is >= 1 s and the receiver never blocks).  Reorder = TRUE: any parked send can complete first
                  (what the Go runtime permits).

   Details kept as coded: after an RPC error the status is "cleared" to a non-nil status with lastBlockSeen = 0, so the
   next successful poll publishes its head even if that head was already published before the error; the first
   successful poll of a fresh poller publishes nothing.

   Ghosts (used only by invariants): lastPoll, dmax, firstPast, notified, announced, delivered.
*)
EXTENDS Integers, Sequences, FiniteSets, TLC, Json

CONSTANTS Ns, Starts, Ps,      \* configuration space (chosen in Init)
          Epochs,              \* heads range over 0..S + Epochs*N - 1
          MaxPolls, MaxErrs,
          MaxInflight,         \* bound on parked sends
          Reorder,
          SlowSub              \* TRUE: the subscriber of the epoch events (the aggsender's main loop) takes them when it
                               \* wants to; they wait parked in the notifier's own fan-out.  FALSE: taken at once.

VARIABLES N, S, P,
          bn,                  \* poller status: -1 = nil, otherwise lastBlockSeen
          inflight,            \* parked sends (block numbers), oldest first
          last, waiting,       \* epoch notifier: lastBlockSeen, waitingForEpoch
          npolls, nerrs,
          lastPoll,            \* ghost: [prev |-> result of the poll before, r |-> result, emitted |-> <<..>>]
          dmax, firstPast, notified, announced, delivered,   \* ghosts
          parkedE, got,        \* epoch events parked in the notifier's fan-out / received by the subscriber
          hist

vars == <<N, S, P, bn, inflight, last, waiting, npolls, nerrs, lastPoll, dmax, firstPast, notified, announced, delivered, parkedE, got, hist>>
view == <<N, S, P, bn, inflight, last, waiting, npolls, nerrs, lastPoll, dmax, firstPast, notified, announced, delivered, parkedE, got>>

EpochNumber(b)        == IF b < S THEN 0 ELSE 1 + ((b - S) \div N)
StartingBlockEpoch(e) == IF e = 0 THEN S - 1 ELSE S + (e - 1) * N
Elapsed(b)            == b - StartingBlockEpoch(EpochNumber(b))
Min(a, b)             == IF a < b THEN a ELSE b
Past(b)               == 100 * Elapsed(b) >= Min(P * N, 100 * (N - 1))
MaxHead               == S + Epochs * N - 1

Init ==
  /\ N \in Ns /\ S \in Starts /\ P \in Ps
  /\ bn = -1 /\ inflight = <<>>
  /\ last = S /\ waiting = EpochNumber(S)
  /\ npolls = 0 /\ nerrs = 0
  /\ lastPoll = [prev |-> -2, r |-> -2, emitted |-> <<>>]
  /\ dmax = S /\ firstPast = [e \in 1..Epochs |-> 0] /\ notified = <<>> /\ announced = <<>> /\ delivered = <<>>
  /\ parkedE = <<>> /\ got = <<>>
  /\ hist = <<>>

(* BlockNotifierPolling.step + Publish *)
Poll(r) ==
  /\ npolls < MaxPolls /\ npolls' = npolls + 1
  /\ r = -1 => nerrs < MaxErrs
  /\ nerrs' = IF r = -1 THEN nerrs + 1 ELSE nerrs
  /\ LET ev == IF r = -1 \/ bn = -1 \/ r = bn THEN <<>> ELSE <<r>> IN
     /\ Len(inflight) + Len(ev) <= MaxInflight
     /\ bn' = IF r = -1 THEN 0 ELSE r            \* clear() yields a non-nil status with lastBlockSeen = 0
     /\ inflight' = inflight \o ev
     /\ announced' = announced \o ev
     /\ lastPoll' = [prev |-> lastPoll.r, r |-> r, emitted |-> ev]
  /\ hist' = Append(hist, [a |-> "poll", r |-> r])
  /\ UNCHANGED <<N, S, P, last, waiting, dmax, firstPast, notified, delivered, parkedE, got>>

(* EpochNotifierPerBlock.step + Publish, on the i-th parked event *)
Deliver(i) ==
  /\ i \in DOMAIN inflight /\ (Reorder \/ i = 1)
  /\ LET b == inflight[i]
         e == EpochNumber(b) IN
     /\ inflight' = [k \in 1..(Len(inflight) - 1) |-> IF k < i THEN inflight[k] ELSE inflight[k + 1]]
     /\ delivered' = Append(delivered, b)
     /\ dmax' = IF b > dmax THEN b ELSE dmax
     /\ firstPast' = IF b > dmax /\ e \in 1..Epochs /\ Past(b) /\ firstPast[e] = 0 THEN [firstPast EXCEPT ![e] = b] ELSE firstPast
     /\ IF b < S \/ b <= last
        THEN UNCHANGED <<last, waiting, notified, parkedE, got>>
        ELSE /\ last' = b
             /\ IF Past(b) /\ e + 1 > waiting
                THEN /\ waiting' = e + 1 /\ notified' = Append(notified, <<e, b>>)
                     /\ IF SlowSub THEN parkedE' = Append(parkedE, e) /\ got' = got
                                   ELSE got' = Append(got, e) /\ parkedE' = parkedE
                ELSE UNCHANGED <<waiting, notified, parkedE, got>>
  /\ hist' = Append(hist, [a |-> "deliver", i |-> i])
  /\ UNCHANGED <<N, S, P, bn, npolls, nerrs, lastPoll, announced>>

(* the subscriber takes one parked epoch event (any of them: the parked sends race) *)
Consume(i) ==
  /\ i \in DOMAIN parkedE
  /\ got' = Append(got, parkedE[i])
  /\ parkedE' = [k \in 1..(Len(parkedE) - 1) |-> IF k < i THEN parkedE[k] ELSE parkedE[k + 1]]
  /\ hist' = Append(hist, [a |-> "consume", i |-> i])
  /\ UNCHANGED <<N, S, P, bn, inflight, last, waiting, npolls, nerrs, lastPoll, dmax, firstPast, notified, announced, delivered>>

Next == (\E r \in -1..MaxHead : Poll(r)) \/ (\E i \in 1..MaxInflight : Deliver(i)) \/ (\E i \in 1..Epochs : Consume(i))
Spec == Init /\ [][Next]_vars

-----------------------------------------------------------------------------
(* the poller: every change of the observed head is announced, nothing else is *)
EveryHeadChangeAnnounced ==
  (lastPoll.prev >= 0 /\ lastPoll.r >= 0 /\ lastPoll.r # lastPoll.prev) => lastPoll.emitted = <<lastPoll.r>>
NoSpuriousBlockEvent ==
  lastPoll.emitted # <<>> => (lastPoll.r >= 0 /\ lastPoll.emitted = <<lastPoll.r>> /\ lastPoll.r # lastPoll.prev)
CurrentBlockIsLastObserved == lastPoll.r >= 0 => bn = lastPoll.r

(* the epoch notifier on what it really receives (C18 generalised to non-monotone deliveries: only deliveries that
   exceed everything delivered before count as "seen") *)
ExactlyOnceAtFirstDelivered ==
  { notified[i] : i \in DOMAIN notified } = { <<e, firstPast[e]>> : e \in { x \in 1..Epochs : firstPast[x] # 0 } }
StrictlyIncreasing == \A i, j \in DOMAIN notified : i < j => notified[i][1] < notified[j][1]
NoDuplicates == Cardinality({ notified[i] : i \in DOMAIN notified }) = Len(notified)

(* every notification reaches the subscriber, once: nothing is lost or invented in the notifier's fan-out *)
CountIn(seq, x) == Cardinality({ i \in DOMAIN seq : seq[i] = x })
NothingLostOrInvented ==
  \A e \in 0..(Epochs + 1) : CountIn(got, e) + CountIn(parkedE, e) = Cardinality({ i \in DOMAIN notified : notified[i][1] = e })

(* end to end, in publication order: an epoch is announced at the first PUBLISHED head past its threshold that exceeds
   every head published before.  Holds when pending sends complete in order; TLC refutes it for Reorder = TRUE
   (PollEpochReorder.cfg): two parked events may be received newest first, and the older one is then dropped as
   "no new block", so the announcement moves to a later block. *)
RECURSIVE FirstPastIn(_, _, _)
FirstPastIn(seq, mx, e) ==
  IF seq = <<>> THEN 0
  ELSE LET b == Head(seq) IN
       IF b > mx /\ EpochNumber(b) = e /\ Past(b) THEN b ELSE FirstPastIn(Tail(seq), IF b > mx THEN b ELSE mx, e)
AtFirstPublished ==
  inflight = <<>> =>
    \A e \in 1..Epochs : LET fp == FirstPastIn(announced, S, e) IN
       fp # 0 => \E i \in DOMAIN notified : notified[i] = <<e, fp>>

Dump == PrintT(<<"CASE", ToJson([n |-> N, s |-> S, p |-> P, steps |-> hist'])>>)
=============================================================================
