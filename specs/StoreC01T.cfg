\* generated by mkstorecfg.py - C01 thorough
CONSTANTS
  Kind = "bridge"
  Fixed = TRUE
  FixedF11 = TRUE
  H = 3
  MaxBlocks = 4
  MaxEvents = 3
  MaxLeaves = 7
  MaxOps = 7
  Faults = {}
  AllowGap = FALSE
  Dups = FALSE
  AllowRestart = TRUE
  AllowReorg = FALSE
  Rollups = {}
  ExitRoots = {}
INIT Init
NEXT Next
VIEW view
INVARIANT Inv
CHECK_DEADLOCK FALSE
