--------------------------------- MODULE BridgeAPI ---------------------------------
(* Implementation-shaped specification of the claim flow of bridgeservice/bridge.go (property C12):

     L1InfoTreeIndexForBridgeHandler   getFirstL1InfoTreeIndexForL1Bridge / getFirstL1InfoTreeIndexForL2Bridge
                                       (the two binary searches, written below exactly as the code runs them)
     ClaimProofHandler                 proof assembly per network over the tree stores
     InjectedL1InfoLeafHandler         (for the L2 the first injected leaf at/after an index: any later leaf)

   over a JOINT L1/L2 history.  The state is the history itself: the sequence of L1 blocks, each a sequence of events
       [t |-> "dep"]                   a deposit on the L1 bridge (deposit counts 0,1,2,.. in order)
       [t |-> "info"]                  UpdateL1InfoTree: a new L1 info leaf carrying  MER = the L1 exit root now,
                                       RER = the rollup exit tree root now (the contract adds a leaf only for a new GER)
       [t |-> "ver", r, k]             VerifyBatches of rollup r; for r = Ours the exit root is the L2 exit tree root over
                                       its first k leaves (k = 0: the zero hash), for another rollup an opaque fresh value k
   The L2 bridge store holds MaxL2 deposits (it may be ahead of what has been verified on L1).  Empty blocks are gaps.
   What the three stores answer is modelled from their contracts (C01/C08/C11 establish those for the real stores):
   roots are identified by the number of leaves under them, the node tables hold every non-zero node of every
   recorded root (content addressed, Merkle.tla), proofs are the top-down walks GetSiblings / GetLeaf as coded.

   Details of the code that matter and are kept:
     - block-granular midpoint  lower + (upper-lower)/2,  GetFirstInfoAfterBlock / GetFirstVerifiedBatchesAfterBlock
       return the FIRST row of the first block >= target (several rows per block, gaps between blocks);
     - the initial "not yet covered" test on the last row, bestResult starts as the last row and is reassigned only on
       the "covers" branches; equality breaks out of the loop;
     - GetRootByLER fails for a root the bridge store does not know (the all-zero MER of a leaf added before the first
       L1 deposit): the lookup then answers an error although a covering leaf may exist;
     - verify_batches rows exist only for effective updates (zero / unchanged exit roots are skipped by the processor);
     - L2: the answer is the first leaf whose rollup exit root EQUALS the one recorded with the chosen row
       (an error if no leaf carries exactly that root);
     - GetProof never fails: a node missing from the table yields the zero hash of that height.

   Variant # "code" switches on one deliberately wrong variant (used to show that the invariants are not vacuous). *)
EXTENDS Merkle, TLC, Json

CONSTANTS MaxDeps,      \* L1 deposits in a history
          MaxL2,        \* deposits held by the L2 bridge store
          MaxInfos, MaxBlocks, MaxVer,
          Ours,         \* network id served by the API (= rollup id; position Ours-1 of the rollup exit tree)
          Others,       \* other rollup ids that verify batches
          AllowSkipped, \* explore VerifyBatches events the processor skips (zero / unchanged exit root)
          Variant

VARIABLE blocks

Ev(t, r, k) == [t |-> t, r |-> r, k |-> k]
Dep  == Ev("dep", 0, 0)
Info == Ev("info", 0, 0)

-----------------------------------------------------------------------------
(* ---- the history as the stores see it ---- *)
RECURSIVE FlatFrom(_, _)
FlatFrom(bs, n) == IF n > Len(bs) THEN <<>>
                   ELSE [p \in 1..Len(bs[n]) |-> [b |-> n, p |-> p - 1, e |-> bs[n][p]]] \o FlatFrom(bs, n + 1)

EmptyF == [x \in {} |-> 0]

(* st = [n1, f, infos, vers]: L1 deposits so far, rollup exit tree (position -> value), L1 info leaves, verify_batches rows *)
RECURSIVE Scan(_, _)
Scan(es, st) ==
  IF es = <<>> THEN st
  ELSE LET x == Head(es)
           e == x.e IN
       Scan(Tail(es),
            CASE e.t = "dep"  -> [st EXCEPT !.n1 = @ + 1]
              [] e.t = "info" -> [st EXCEPT !.infos = Append(@, [idx |-> Len(st.infos), b |-> x.b, p |-> x.p, mer |-> st.n1, f |-> st.f])]
              [] e.t = "ver"  -> LET pos == e.r - 1 IN
                                 IF e.k = 0 \/ (pos \in DOMAIN st.f /\ st.f[pos] = e.k) THEN st
                                 ELSE LET g == (pos :> e.k) @@ st.f IN
                                      [st EXCEPT !.f = g, !.vers = Append(@, [b |-> x.b, p |-> x.p, r |-> e.r, k |-> e.k, f |-> g])])
St(bs) == Scan(FlatFrom(bs, 1), [n1 |-> 0, f |-> EmptyF, infos |-> <<>>, vers |-> <<>>])

Min(S) == CHOOSE x \in S : \A y \in S : x <= y
Max(S) == CHOOSE x \in S : \A y \in S : y <= x

-----------------------------------------------------------------------------
(* ---- hash terms and node tables ---- *)
L1Leaves(n) == [i \in 1..n |-> Leaf(<<"a", i>>)]
L2Leaves(n) == [i \in 1..n |-> Leaf(<<"b", i>>)]
MerTerm(m)  == IF m = 0 THEN Z(0) ELSE Root(L1Leaves(m))      \* the contract's lastMainnetExitRoot is 0 before the first deposit
LerTerm(k)  == Root(L2Leaves(k))
TermF(f)    == [pos \in DOMAIN f |-> IF pos = Ours - 1 THEN LerTerm(f[pos]) ELSE Leaf(<<"o", pos, f[pos]>>)]
RerTerm(f)  == URoot(TermF(f))                                 \* empty tree: Z(H)

NodesOf(ls)  == {t \in {Sub(ls, h, k) : h \in 1..H, k \in 0..(Pow2(H) - 1)} : t[1] = "n"}
UNodesOf(g)  == {t \in {USub(g, h, k) : h \in 1..H, k \in 0..(Pow2(H) - 1)} : t[1] = "n"}
RhtL1(st)    == UNION {NodesOf(L1Leaves(m)) : m \in 1..st.n1}
RhtL2        == UNION {NodesOf(L2Leaves(m)) : m \in 1..MaxL2}
RhtU(st)     == UNION {UNodesOf(TermF(st.vers[i].f)) : i \in DOMAIN st.vers}

-----------------------------------------------------------------------------
(* ---- the lookups, as coded ---- *)
Err(e) == [ok |-> FALSE, err |-> e, idx |-> -1]
Ok(i)  == [ok |-> TRUE, err |-> "", idx |-> i]

TooSmall(rootIndex, dc) == IF Variant = "offByOne" THEN rootIndex + 1 < dc ELSE rootIndex < dc

(* first row (in block, position order) of the first block >= blk; 0 = not found *)
FirstAfter(rows, blk) == LET S == {j \in DOMAIN rows : rows[j].b >= blk} IN IF S = {} THEN 0 ELSE Min(S)

(* GetRootByLER on the L1 bridge store for the MER of an info leaf: Index of the root, -1 = not found *)
L1RootIndex(st, mer) == IF mer >= 1 /\ mer <= st.n1 THEN mer - 1 ELSE -1
(* ... on the L2 bridge store for the exit root of a verify_batches row *)
L2RootIndex(k) == IF k >= 1 /\ k <= MaxL2 THEN k - 1 ELSE -1

RECURSIVE L1Loop(_, _, _, _, _)
L1Loop(st, dc, lo, hi, best) ==
  IF lo > hi THEN Ok(st.infos[best].idx)
  ELSE LET tb == lo + ((hi - lo) \div 2)
           j  == FirstAfter(st.infos, tb) IN
       IF j = 0 THEN Err("notfound")
       ELSE LET ri == L1RootIndex(st, st.infos[j].mer) IN
            IF ri < 0 THEN Err("rootnotfound")
            ELSE IF TooSmall(ri, dc) THEN L1Loop(st, dc, tb + 1, hi, IF Variant = "bestOnSmall" THEN j ELSE best)
            ELSE IF ri = dc THEN Ok(st.infos[j].idx)
            ELSE L1Loop(st, dc, lo, tb - 1, j)

FirstIndexL1(st, dc) ==
  IF st.infos = <<>> THEN Err("notfound")
  ELSE LET n  == Len(st.infos)
           ri == L1RootIndex(st, st.infos[n].mer) IN
       IF ri < 0 THEN Err("rootnotfound")
       ELSE IF Variant # "noInitTest" /\ TooSmall(ri, dc) THEN Err("notyet")
       ELSE L1Loop(st, dc, st.infos[1].b, st.infos[n].b, n)

RECURSIVE L2Loop(_, _, _, _, _)
L2Loop(vs, dc, lo, hi, best) ==      \* returns the chosen verify_batches row (or an error)
  IF lo > hi THEN [ok |-> TRUE, row |-> vs[best]]
  ELSE LET tb == lo + ((hi - lo) \div 2)
           j  == FirstAfter(vs, tb) IN
       IF j = 0 THEN Err("notfound")
       ELSE LET ri == L2RootIndex(vs[j].k) IN
            IF ri < 0 THEN Err("rootnotfound")
            ELSE IF TooSmall(ri, dc) THEN L2Loop(vs, dc, tb + 1, hi, IF Variant = "bestOnSmall" THEN j ELSE best)
            ELSE IF ri = dc THEN [ok |-> TRUE, row |-> vs[j]]
            ELSE L2Loop(vs, dc, lo, tb - 1, j)

FirstIndexL2(st, dc) ==
  LET vs == SelectSeq(st.vers, LAMBDA v : v.r = Ours) IN
  IF vs = <<>> THEN Err("notfound")
  ELSE LET n  == Len(vs)
           ri == L2RootIndex(vs[n].k) IN
       IF ri < 0 THEN Err("rootnotfound")
       ELSE IF Variant # "noInitTest" /\ TooSmall(ri, dc) THEN Err("notyet")
       ELSE LET c == L2Loop(vs, dc, vs[1].b, vs[n].b, n) IN
            IF ~c.ok THEN c
            ELSE LET S == {j \in DOMAIN st.infos : st.infos[j].f = c.row.f} IN    \* GetFirstL1InfoWithRollupExitRoot
                 IF S = {} THEN Err("noinfo") ELSE Ok(st.infos[Min(S)].idx)

FirstIndex(st, net, dc) == IF net = 0 THEN FirstIndexL1(st, dc) ELSE FirstIndexL2(st, dc)

(* ---- the claim proof, as coded ---- *)
EmptyProof == [h \in 0..(H - 1) |-> Junk]

Tabs(st) == [l1 |-> RhtL1(st), l2 |-> RhtL2, u |-> RhtU(st)]      \* the three node tables (computed once per state)

Claim(st, tb, net, i, dc) ==
  IF i + 1 \notin DOMAIN st.infos THEN [ok |-> FALSE]
  ELSE LET info == st.infos[i + 1]
           mer  == MerTerm(info.mer)
           rer  == RerTerm(info.f) IN
       IF net = 0
       THEN [ok |-> TRUE, pl |-> GetSiblings(IF Variant = "wrongTree" THEN tb.l2 ELSE tb.l1, dc, mer), pr |-> EmptyProof,
             mer |-> mer, rer |-> rer, ler |-> Junk]
       ELSE LET lookup == IF Variant = "wrongRER" THEN RerTerm(st.infos[Len(st.infos)].f) ELSE rer
                ler    == GetLeaf(tb.u, Ours - 1, lookup) IN
            IF ler = <<"NotFound">> THEN [ok |-> FALSE]
            ELSE [ok |-> TRUE, pl |-> GetSiblings(IF Variant = "wrongTree" THEN tb.l1 ELSE tb.l2, dc, ler),
                  pr |-> GetSiblings(tb.u, Ours - 1, rer), mer |-> mer, rer |-> rer, ler |-> ler]

-----------------------------------------------------------------------------
(* ---- property C12 ---- *)
Nets == {0, Ours}
Recorded(st, net) == IF net = 0 THEN 0..(st.n1 - 1) ELSE 0..(MaxL2 - 1)

(* leaf `info` covers the bridge (net, dc): its exit roots commit to an exit tree with more than dc leaves *)
Covers(net, info, dc) == IF net = 0 THEN info.mer > dc
                         ELSE (Ours - 1) \in DOMAIN info.f /\ info.f[Ours - 1] > dc

(* the lookup answers a covering index or an error; and every later leaf (what the injected-leaf step may pick) covers too *)
IndexSafe(st) ==
  \A net \in Nets : \A dc \in Recorded(st, net) :
     LET r == FirstIndex(st, net, dc) IN
     r.ok => /\ r.idx + 1 \in DOMAIN st.infos
             /\ \A j \in (r.idx + 1)..Len(st.infos) : Covers(net, st.infos[j], dc)

(* a "not yet included" answer is true; the only other errors while a covering leaf exists are the two documented ones *)
ErrorsExplained(st) ==
  \A net \in Nets : \A dc \in Recorded(st, net) :
     LET r == FirstIndex(st, net, dc)
         exists == \E j \in DOMAIN st.infos : Covers(net, st.infos[j], dc) IN
     (~r.ok /\ exists) => r.err \in {"rootnotfound", "noinfo"}

(* for every recorded bridge and every covering leaf the proof folds: leaf -> MER (L1) / leaf -> LER -> RER (L2) *)
ClaimOK(st) ==
  LET tb == Tabs(st) IN
  \A net \in Nets : \A dc \in Recorded(st, net) : \A i \in 0..(Len(st.infos) - 1) :
     Covers(net, st.infos[i + 1], dc) =>
       LET c == Claim(st, tb, net, i, dc) IN
       /\ c.ok
       /\ c.mer = MerTerm(st.infos[i + 1].mer) /\ c.rer = RerTerm(st.infos[i + 1].f)
       /\ IF net = 0
          THEN Fold(L1Leaves(st.n1)[dc + 1], c.pl, dc) = c.mer
          ELSE /\ c.ler = LerTerm(st.infos[i + 1].f[Ours - 1])
               /\ Fold(L2Leaves(MaxL2)[dc + 1], c.pl, dc) = c.ler
               /\ Fold(c.ler, c.pr, Ours - 1) = c.rer

Inv == LET st == St(blocks) IN IndexSafe(st) /\ ErrorsExplained(st) /\ ClaimOK(st)

-----------------------------------------------------------------------------
(* ---- the environment: all joint histories within the bounds ---- *)
Count(bs, t) == LET fl == FlatFrom(bs, 1) IN Cardinality({x \in DOMAIN fl : fl[x].e.t = t})

Init == blocks = << <<>> >>

Add(e) == blocks' = [blocks EXCEPT ![Len(blocks)] = Append(@, e)]

LastK(st, r) == IF (r - 1) \in DOMAIN st.f THEN st.f[r - 1] ELSE 0

Next ==
  LET st == St(blocks) IN
  \/ /\ Len(blocks) < MaxBlocks /\ blocks # << <<>> >>          \* a new block (an empty one is a gap)
     /\ blocks' = Append(blocks, <<>>)
  \/ /\ st.n1 < MaxDeps /\ Add(Dep)
  \/ /\ Len(st.infos) < MaxInfos
     \* the contract adds a leaf only when the global exit root is new
     /\ IF st.infos = <<>> THEN ~(st.n1 = 0 /\ st.f = EmptyF)
        ELSE LET l == st.infos[Len(st.infos)] IN ~(l.mer = st.n1 /\ l.f = st.f)
     /\ Add(Info)
  \/ /\ Count(blocks, "ver") < MaxVer
     /\ \/ \E k \in (IF AllowSkipped THEN LastK(st, Ours) ELSE LastK(st, Ours) + 1)..MaxL2 : Add(Ev("ver", Ours, k))
        \/ \E r \in Others : Add(Ev("ver", r, LastK(st, r) + 1))

Spec == Init /\ [][Next]_blocks

-----------------------------------------------------------------------------
(* case export: every reachable history (each state has exactly one predecessor), with the model's lookup answers *)
Expected(st) == { LET r == FirstIndex(st, x[1], x[2]) IN [net |-> x[1], dc |-> x[2], ok |-> r.ok, idx |-> r.idx, err |-> r.err]
                  : x \in {y \in Nets \X (0..(Max({MaxDeps, MaxL2}) - 1)) : y[2] \in Recorded(st, y[1])} }
Dump == LET st == St(blocks') IN
        PrintT(<<"CASE", ToJson([ours |-> Ours, n2 |-> MaxL2, blocks |-> blocks',
                                 exp |-> Expected(st)])>>)
=============================================================================
