\* generated by mkaggcfg.py - code before the F4 repair: TLC must find the permanent refusal
CONSTANTS
  MaxBlocks = 3
  MaxBridges = 1
  MaxCerts = 3
  MaxSteps = 40
  RetryImm = TRUE
  MaxCertBlocks = 0
  CallFailures = TRUE
  Crashes = {"before_submit", "after_submit", "after_store"}
  StoreFaults = FALSE
  LoseDB = TRUE
  HeaderHasPrev = TRUE
  FixedF4 = "no"
  Mode = "pp"
INIT Init
NEXT Next
VIEW view
INVARIANT C02
INVARIANT F4Free
CHECK_DEADLOCK FALSE
