\* behaviour export (edge cover) for replay into the real AggOracle; each tick step carries the model's expected
\* outcome and cell value for Rule = "fixed" (conformance information, not a verdict)
CONSTANTS
  Rule = "fixed"
  StoreRead = "snapshot"
  Treadmill = FALSE
  Record = TRUE
  MaxBlock = 4
  MaxLeaves = 2
  Gers = {1, 2}
  MaxFail = 1
  MaxReorg = 1
  MaxExt = 1
INIT Init
NEXT Next
VIEW view
ACTION_CONSTRAINT Dump
CHECK_DEADLOCK FALSE
