\* exhaustive design check (C10): one list varies over every class combination (length 0..2), the other is a default or empty
CONSTANTS
  Schemes = {"pp", "fep"}
  AmtClasses = {"nil", "zero", "one", "max"}
  MetaClasses = {"empty", "b32"}
  LeafTypes = {"asset", "message"}
  GIParts = {"z", "lo", "hi"}
  HeightClasses = {"h0", "h1", "hbig"}
  ParamClasses = {"zero", "rand"}
  Mode = "coverfull"
INIT Init
NEXT Next
INVARIANTS TypeOK CommitAgree IdAgree FieldsArrive SignatureOK CoveredChanges UncoveredFree
CHECK_DEADLOCK FALSE
