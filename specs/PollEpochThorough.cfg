\* composition, sends complete in order: poller + fan-out + epoch notifier, all head movements (up, same, down, RPC errors)
CONSTANTS
  Ns = {1,2,3}
  Starts = {0,1,4}
  Ps = {0,34,50,99}
  Epochs = 2
  MaxPolls = 6
  MaxErrs = 2
  MaxInflight = 2
  Reorder = FALSE
  SlowSub = FALSE
INIT Init
NEXT Next
VIEW view
INVARIANTS NothingLostOrInvented EveryHeadChangeAnnounced NoSpuriousBlockEvent CurrentBlockIsLastObserved ExactlyOnceAtFirstDelivered StrictlyIncreasing NoDuplicates AtFirstPublished
CHECK_DEADLOCK FALSE
