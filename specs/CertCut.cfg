\* exhaustive design check (C17): 3-bit block numbers (0..7 with wrap-around), every certificate of 1..3 blocks anywhere,
\* 6 block-content classes, every size threshold, every last-block limit, retry / resize / require-one-bridge flags,
\* every Range request, every pair of ranges for Gap
CONSTANTS
  W = 3
  Froms = {0,1,2,3,4,5,6,7}
  MaxLen = 3
  NContent = 6
  Kinds = {"size","limit","range","gap"}
INIT Init
NEXT Next
INVARIANTS SizeCutCorrect SizeCutTotal LimitCutCorrect LimitRefusals RangeCorrect GapCorrect
CHECK_DEADLOCK FALSE
