\* generated by mkstorecfg.py - bridge, failing reads (also inside the frontier rebuild) + restart
CONSTANTS
  Kind = "bridge"
  Fixed = TRUE
  FixedF11 = TRUE
  H = 3
  MaxBlocks = 3
  MaxEvents = 2
  MaxLeaves = 4
  MaxOps = 5
  Faults = {"read"}
  AllowGap = FALSE
  Dups = FALSE
  AllowRestart = TRUE
  AllowReorg = FALSE
  Rollups = {}
  ExitRoots = {}
INIT Init
NEXT Next
VIEW view
INVARIANT Inv
PROPERTY HaltedStops
CHECK_DEADLOCK FALSE
