\* generated by mkstorecfg.py - thorough: deeper
CONSTANTS
  Kind = "bridge"
  Fixed = TRUE
  FixedF11 = TRUE
  H = 3
  MaxBlocks = 3
  MaxEvents = 2
  MaxLeaves = 6
  MaxOps = 6
  Faults = {"stmt", "ctx", "commit"}
  AllowGap = TRUE
  Dups = FALSE
  AllowRestart = TRUE
  AllowReorg = TRUE
  Rollups = {}
  ExitRoots = {}
INIT Init
NEXT Next
VIEW view
INVARIANT Inv
PROPERTY HaltedStops
CHECK_DEADLOCK FALSE
