\* composition with a subscriber that takes the epoch events when it wants to (parked in the notifier's fan-out)
CONSTANTS
  Ns = {1,2}
  Starts = {0,1}
  Ps = {0,50,99}
  Epochs = 3
  MaxPolls = 5
  MaxErrs = 1
  MaxInflight = 2
  Reorder = FALSE
  SlowSub = TRUE
INIT Init
NEXT Next
VIEW view
INVARIANTS NothingLostOrInvented EveryHeadChangeAnnounced NoSpuriousBlockEvent CurrentBlockIsLastObserved ExactlyOnceAtFirstDelivered StrictlyIncreasing NoDuplicates AtFirstPublished
CHECK_DEADLOCK FALSE
