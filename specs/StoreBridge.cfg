\* exhaustive design check, bridge store, repaired code (C01 C04 C07 C08 C14)
CONSTANTS
  Kind = "bridge"
  Fixed = TRUE
  H = 3
  MaxBlocks = 3
  MaxEvents = 2
  MaxLeaves = 5
  MaxOps = 5
  Faults = {"stmt", "commit", "ctx"}
  AllowGap = TRUE
  AllowRestart = TRUE
  AllowReorg = TRUE
  Rollups = {}
  ExitRoots = {}
INIT Init
NEXT Next
VIEW view
INVARIANT Inv
PROPERTY HaltedStops
CHECK_DEADLOCK FALSE
