\* generated by mkstorecfg.py - edge cover for C04
CONSTANTS
  Kind = "bridge"
  Fixed = TRUE
  FixedF11 = TRUE
  H = 3
  MaxBlocks = 3
  MaxEvents = 2
  MaxLeaves = 5
  MaxOps = 5
  Faults = {}
  AllowGap = FALSE
  Dups = FALSE
  AllowRestart = FALSE
  AllowReorg = TRUE
  Rollups = {}
  ExitRoots = {}
INIT Init
NEXT Next
VIEW view
ACTION_CONSTRAINT Dump
CHECK_DEADLOCK FALSE
