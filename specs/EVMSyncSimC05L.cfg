\* C05 long random walks: 16 blocks, chunk sizes up to 10, deeper buffer, restarts
CONSTANTS
  N = 16
  Chunks = {1,3,5,10}
  TipTags = {"latest","finalized"}
  BufCap = 3
  MaxForks = 0
  MaxFails = 3
  MaxPFails = 2
  MaxRestarts = 2
  Detector = FALSE
  RetryLimit = 5
  AtomicRemove = FALSE
  RemoveByHash = FALSE
  LockedRemove = TRUE
  InconsOnFault = FALSE
  Contents = {0,1}
  FinLag = 0
  NoIdle = TRUE
  SimDepth = 249
INIT Init
NEXT Next
ACTION_CONSTRAINT Dump
CHECK_DEADLOCK FALSE
