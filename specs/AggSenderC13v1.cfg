\* generated by mkaggcfg.py - first repair attempt of F4 (retry count 0): TLC must find the history-key collision that loses a certificate
CONSTANTS
  MaxBlocks = 3
  MaxBridges = 1
  MaxCerts = 4
  MaxSteps = 40
  RetryImm = TRUE
  MaxCertBlocks = 0
  CallFailures = TRUE
  Crashes = {"before_submit", "after_submit", "after_store"}
  StoreFaults = FALSE
  LoseDB = TRUE
  HeaderHasPrev = TRUE
  FixedF4 = "v1"
  Mode = "pp"
INIT Init
NEXT Next
VIEW view
INVARIANT C02
CHECK_DEADLOCK FALSE
