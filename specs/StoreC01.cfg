\* generated by mkstorecfg.py - C01: partitions x restarts
CONSTANTS
  Kind = "bridge"
  Fixed = TRUE
  FixedF11 = TRUE
  H = 3
  MaxBlocks = 3
  MaxEvents = 3
  MaxLeaves = 6
  MaxOps = 5
  Faults = {}
  AllowGap = FALSE
  Dups = FALSE
  AllowRestart = TRUE
  AllowReorg = FALSE
  Rollups = {}
  ExitRoots = {}
INIT Init
NEXT Next
VIEW view
INVARIANT Inv
CHECK_DEADLOCK FALSE
