\* case export: the certificate-level classes (height, aggchain params, scheme) on default / empty lists
CONSTANTS
  Schemes = {"pp", "fep"}
  AmtClasses = {"one"}
  MetaClasses = {"b32"}
  LeafTypes = {"asset"}
  GIParts = {"lo"}
  HeightClasses = {"h0", "h1", "hbig"}
  ParamClasses = {"zero", "rand"}
  Mode = "top"
INIT Init
NEXT Next
ACTION_CONSTRAINT Dump
CHECK_DEADLOCK FALSE
