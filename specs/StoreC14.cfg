\* generated by mkstorecfg.py - C14: ways to halt x reorg points (also failing reorgs) x continuation
CONSTANTS
  Kind = "bridge"
  Fixed = TRUE
  FixedF11 = TRUE
  H = 3
  MaxBlocks = 3
  MaxEvents = 2
  MaxLeaves = 5
  MaxOps = 6
  Faults = {"reorg"}
  AllowGap = TRUE
  Dups = FALSE
  AllowRestart = TRUE
  AllowReorg = TRUE
  Rollups = {}
  ExitRoots = {}
INIT Init
NEXT Next
VIEW view
INVARIANT Inv
PROPERTY HaltedStops
CHECK_DEADLOCK FALSE
