\* generated by mkaggcfg.py - C13: crash points, DB loss, restarts (repaired reconciliation)
CONSTANTS
  MaxBlocks = 3
  MaxBridges = 1
  MaxCerts = 3
  MaxSteps = 40
  RetryImm = TRUE
  MaxCertBlocks = 0
  CallFailures = TRUE
  Crashes = {"before_submit", "after_submit", "after_store"}
  StoreFaults = FALSE
  LoseDB = TRUE
  HeaderHasPrev = TRUE
  FixedF4 = "v2"
INIT Init
NEXT Next
VIEW view
INVARIANT C02
INVARIANT F4Free
INVARIANT NeverRefuses
CHECK_DEADLOCK FALSE
