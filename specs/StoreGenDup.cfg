\* generated by mkstorecfg.py - edge cover: repeated deposit contents
CONSTANTS
  Kind = "bridge"
  Fixed = TRUE
  FixedF11 = TRUE
  H = 3
  MaxBlocks = 3
  MaxEvents = 2
  MaxLeaves = 3
  MaxOps = 4
  Faults = {}
  AllowGap = FALSE
  Dups = TRUE
  AllowRestart = FALSE
  AllowReorg = TRUE
  Rollups = {}
  ExitRoots = {}
INIT Init
NEXT Next
VIEW view
ACTION_CONSTRAINT Dump
CHECK_DEADLOCK FALSE
