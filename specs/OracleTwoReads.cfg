\* a design TLC refutes (SafeInject): the store is read in two steps and the syncer may commit in between. The repaired rule (C15): bounded L1, every relative speed of finality / syncer / ticks,
\* reorgs above the finalized block, foreign injections, dependency failures
CONSTANTS
  Rule = "fixed"
  StoreRead = "tworeads"
  Treadmill = FALSE
  Record = FALSE
  MaxBlock = 4
  MaxLeaves = 3
  Gers = {1, 2, 3}
  MaxFail = 1
  MaxReorg = 1
  MaxExt = 1
INIT Init
NEXT Next
VIEW view
INVARIANTS TypeOK SafeInject TargetFinal CellDead
CHECK_DEADLOCK FALSE
