\* generated by mkbridgeapicfg.sh - C12 exhaustive, L2 lookup focus with 2 L1 bridges: 3 L2 bridges, 5 leaves over 4 blocks, 3 verified batches (thorough)
CONSTANTS
  H = 2
  MaxDeps = 2
  MaxL2 = 3
  MaxInfos = 5
  MaxBlocks = 4
  MaxVer = 3
  Ours = 1
  Others = {}
  AllowSkipped = FALSE
  Variant = "code"
INIT Init
NEXT Next
INVARIANT Inv
CHECK_DEADLOCK FALSE
