\* exhaustive design check (C16) without reorgs, deeper: the plain property (no excuse) for the repaired rule
CONSTANTS
  MaxBlock = 6
  NG = 2
  Fixed = TRUE
  Variant = "tipblock"
  RestoreOnReorg = FALSE
  MaxRestarts = 2
  MaxReorgs = 0
  MaxDepth = 1
INIT Init
NEXT Next
VIEW view
INVARIANTS TypeOK RowsAreFold RowsAtRest QueryRight QueryAtRest NoFatal NoPhantom
CHECK_DEADLOCK FALSE
