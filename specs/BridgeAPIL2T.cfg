\* generated by mkbridgeapicfg.sh - C12 exhaustive, L2 lookup focus (thorough): 3 L2 bridges, 5 leaves over 4 blocks, 3 verified batches of 2 rollups, skipped ones included
CONSTANTS
  H = 2
  MaxDeps = 1
  MaxL2 = 3
  MaxInfos = 5
  MaxBlocks = 4
  MaxVer = 3
  Ours = 1
  Others = {2}
  AllowSkipped = TRUE
  Variant = "code"
INIT Init
NEXT Next
INVARIANT Inv
CHECK_DEADLOCK FALSE
