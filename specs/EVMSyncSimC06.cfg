\* C06 random walks (tlc -simulate -depth SimDepth+1): longer chains, up to 3 successive forks, restart, RPC failures
CONSTANTS
  N = 9
  Chunks = {1,2,3}
  TipTags = {"latest"}
  BufCap = 2
  MaxForks = 3
  MaxFails = 1
  MaxPFails = 1
  MaxRestarts = 1
  Detector = TRUE
  RetryLimit = 5
  AtomicRemove = FALSE
  RemoveByHash = FALSE
  LockedRemove = TRUE
  InconsOnFault = FALSE
  Contents = {0,1}
  FinLag = 2
  NoIdle = TRUE
  SimDepth = 199
INIT Init
NEXT Next
ACTION_CONSTRAINT Dump
CHECK_DEADLOCK FALSE
