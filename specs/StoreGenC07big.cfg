\* generated by mkstorecfg.py - edge cover for C07: blocks with up to 4 deposits
CONSTANTS
  Kind = "bridge"
  Fixed = TRUE
  FixedF11 = TRUE
  H = 3
  MaxBlocks = 2
  MaxEvents = 4
  MaxLeaves = 6
  MaxOps = 3
  Faults = {"stmt"}
  AllowGap = FALSE
  Dups = FALSE
  AllowRestart = FALSE
  AllowReorg = FALSE
  Rollups = {}
  ExitRoots = {}
INIT Init
NEXT Next
VIEW view
ACTION_CONSTRAINT Dump
CHECK_DEADLOCK FALSE
