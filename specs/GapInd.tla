------------------------------- MODULE GapInd -------------------------------
(* C17, the arithmetic of BlockRange.Gap for ALL pairs of well-formed 64-bit ranges (Apalache, one symbolic state):

     two ranges that touch or overlap have an empty gap; otherwise the gap is exactly the blocks strictly between them
     (from the smaller end + 1 to the larger start - 1), it is not empty and CountBlocks counts it.

   CertCut.tla checks the same operators (GapOps.tla) with TLC for every pair at small word widths, where the
   wrap-around of the machine arithmetic is enumerated; here the word is 2^64 wide and nothing is enumerated. *)
EXTENDS Integers, GapOps

VARIABLES
  \* @type: Int;
  af,
  \* @type: Int;
  at,
  \* @type: Int;
  bf,
  \* @type: Int;
  bt

ConstInit == Mod = 18446744073709551616

Word(x) == x \in Int /\ x >= 0 /\ x < Mod

Init == Word(af) /\ Word(at) /\ Word(bf) /\ Word(bt) /\ af <= at /\ bf <= bt

Next == UNCHANGED <<af, at, bf, bt>>

Min2(x, y) == IF x < y THEN x ELSE y
Max2(x, y) == IF x > y THEN x ELSE y

Touch == at + 1 >= bf /\ bt + 1 >= af

GapCorrect ==
  LET g == Gap([from |-> af, to |-> at], [from |-> bf, to |-> bt]) IN
  IF Touch
  THEN g.from = 0 /\ g.to = 0 /\ CountBlocks(g) = 0
  ELSE /\ g.from = Min2(at, bt) + 1
       /\ g.to = Max2(af, bf) - 1
       /\ g.from <= g.to
       /\ CountBlocks(g) = g.to - g.from + 1
       /\ Word(g.from) /\ Word(g.to)

(* must be refuted (non-vacuity of the proof obligation): the wrapping variant reports a gap between overlapping ranges *)
GapWrapCorrect ==
  LET g == GapWrap([from |-> af, to |-> at], [from |-> bf, to |-> bt]) IN
  Touch => (g.from = 0 /\ g.to = 0)
=============================================================================
