\* exhaustive design check (C20), quick: every call tree with <= 4 frames, every reverted set, two global indexes;
\* all six frame kinds up to 3 frames, four kinds (one per class of the model) with 4 frames
CONSTANTS
  MaxFrames = 4
  FullUpTo = 3
  Kinds = {"other", "decoy", "asset", "msg", "preAsset", "preMsg"}
  CoreKinds = {"other", "decoy", "asset", "preMsg"}
  GIs = {"A", "B"}
  EvGIs = {"A"}
INIT Init
NEXT Next
INVARIANTS C20 StackClean NoWriteWithoutMatch TypeOK
CHECK_DEADLOCK FALSE
