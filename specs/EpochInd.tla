------------------------------- MODULE EpochInd -------------------------------
(* Unbounded version of the C18 argument for Apalache: EpochNotifierPerBlock.step as in Epoch.tla, with the block
   numbers, the epoch length N >= 1, the starting block S >= 0 and the epoch E >= 1 unbounded (P in 0..99), and the
   property stated for one arbitrary epoch E:

     the number of notifications for epoch E is 1 if a block at/after E's threshold has been fed, else 0, and the
     notification was made at the first such block.

   IndInv is inductive: Init => IndInv, IndInv /\ Next => IndInv' (checked by apalache-mc with --length=0 / 1, see
   checks/C18.py).  Epoch.tla instantiates this module for every epoch of its bounded model and TLC checks that each of
   its steps is a step of this module (RefinesInd) and that IndInv holds in its reachable states: the two
   specifications describe the same step function, and Epoch.tla is the one bound to the code by replay.
*)
EXTENDS Integers

CONSTANTS
  \* @type: Int;
  E

VARIABLES
  \* @type: Int;
  N,           \* configuration (never changes; variables so that Epoch.tla can instantiate this module)
  \* @type: Int;
  S,
  \* @type: Int;
  P,
  \* @type: Int;
  lastFed,
  \* @type: Int;
  lastBlockSeen,
  \* @type: Int;
  waitingForEpoch,
  \* @type: Int;
  fp,          \* ghost: first fed block (> S) of epoch E at/after the threshold, 0 = none
  \* @type: Int;
  cnt,         \* ghost: notifications published for epoch E
  \* @type: Int;
  nb,          \* ghost: block at which the last notification for E was published
  \* @type: Int;
  lastEpoch    \* ghost: last epoch number published (0 = none)

ConstInit == E \in Nat /\ E >= 1

EpochNumber(b)        == IF b < S THEN 0 ELSE 1 + ((b - S) \div N)
StartingBlockEpoch(e) == IF e = 0 THEN S - 1 ELSE S + (e - 1) * N
Elapsed(b)            == b - StartingBlockEpoch(EpochNumber(b))
Min(a, b)             == IF a < b THEN a ELSE b
Past(b)               == 100 * Elapsed(b) >= Min(P * N, 100 * (N - 1))

Init ==
  /\ N \in Nat /\ N >= 1 /\ S \in Nat /\ P \in 0..99
  /\ lastFed \in {S - 1, S}
  /\ lastBlockSeen = S
  /\ waitingForEpoch = EpochNumber(S)
  /\ fp = 0 /\ cnt = 0 /\ nb = 0 /\ lastEpoch = 0

NewBlock(b) ==
  /\ b > lastFed /\ b >= 0
  /\ lastFed' = b
  /\ UNCHANGED <<N, S, P>>
  /\ LET e == EpochNumber(b) IN
     /\ fp' = IF b > S /\ e = E /\ Past(b) /\ fp = 0 THEN b ELSE fp
     /\ IF b < S \/ b <= lastBlockSeen
        THEN UNCHANGED <<lastBlockSeen, waitingForEpoch, cnt, nb, lastEpoch>>
        ELSE /\ lastBlockSeen' = b
             /\ IF Past(b) /\ e + 1 > waitingForEpoch
                THEN /\ waitingForEpoch' = e + 1
                     /\ cnt' = IF e = E THEN cnt + 1 ELSE cnt
                     /\ nb' = IF e = E THEN b ELSE nb
                     /\ lastEpoch' = e
                ELSE UNCHANGED <<waitingForEpoch, cnt, nb, lastEpoch>>

Next == \E b \in Int : NewBlock(b)

(* C18 for the arbitrary epoch E *)
Property ==
  /\ cnt = (IF fp # 0 THEN 1 ELSE 0)
  /\ fp # 0 => nb = fp
  /\ lastEpoch < waitingForEpoch                     \* the next epoch published is larger than every one before

IndInv ==
  /\ N >= 1 /\ S >= 0 /\ P \in 0..99 /\ E >= 1
  /\ lastFed >= S - 1
  /\ lastBlockSeen = (IF lastFed > S THEN lastFed ELSE S)
  /\ waitingForEpoch >= 1
  /\ waitingForEpoch <= EpochNumber(lastBlockSeen) + 1
  /\ (lastBlockSeen > S /\ Past(lastBlockSeen)) => waitingForEpoch = EpochNumber(lastBlockSeen) + 1
  /\ lastEpoch >= 0 /\ lastEpoch < waitingForEpoch
  /\ fp = 0 => /\ cnt = 0
               /\ (EpochNumber(lastBlockSeen) = E /\ lastBlockSeen > S) => ~Past(lastBlockSeen)
               /\ EpochNumber(lastBlockSeen) <= E => waitingForEpoch <= E
  /\ fp # 0 => /\ fp > S /\ EpochNumber(fp) = E /\ Past(fp) /\ fp <= lastBlockSeen
               /\ waitingForEpoch >= E + 1 /\ cnt = 1 /\ nb = fp
  /\ Property
IndInit ==
  /\ N \in Int /\ S \in Int /\ P \in Int
  /\ lastFed \in Int /\ lastBlockSeen \in Int /\ waitingForEpoch \in Int /\ fp \in Int /\ cnt \in Int /\ nb \in Int /\ lastEpoch \in Int
  /\ IndInv
NeverNotified == fp = 0
=============================================================================