\* generated by mkbridgeapicfg.sh - C12 case export, L1 focus
CONSTANTS
  H = 2
  MaxDeps = 4
  MaxL2 = 1
  MaxInfos = 4
  MaxBlocks = 4
  MaxVer = 0
  Ours = 1
  Others = {}
  AllowSkipped = FALSE
  Variant = "code"
INIT Init
NEXT Next
ACTION_CONSTRAINT Dump
CHECK_DEADLOCK FALSE
