\* generated by mkstorecfg.py - rollup exit tree with rollups 1 and 3
CONSTANTS
  Kind = "l1info"
  Fixed = TRUE
  FixedF11 = TRUE
  H = 2
  MaxBlocks = 4
  MaxEvents = 1
  MaxLeaves = 1
  MaxOps = 5
  Faults = {}
  AllowGap = FALSE
  Dups = FALSE
  AllowRestart = TRUE
  AllowReorg = TRUE
  Rollups = {1, 3}
  ExitRoots = {0, 1, 2}
INIT Init
NEXT Next
VIEW view
INVARIANT InvL1
CHECK_DEADLOCK FALSE
