\* generated by mkstorecfg.py - l1info, faults + restart + reorg (C04 C07 C08 C14)
CONSTANTS
  Kind = "l1info"
  Fixed = TRUE
  FixedF11 = TRUE
  H = 2
  MaxBlocks = 3
  MaxEvents = 2
  MaxLeaves = 3
  MaxOps = 4
  Faults = {"stmt", "ctx", "reorg"}
  AllowGap = FALSE
  Dups = FALSE
  AllowRestart = TRUE
  AllowReorg = TRUE
  Rollups = {1, 2}
  ExitRoots = {0, 1}
INIT Init
NEXT Next
VIEW view
INVARIANT InvL1
PROPERTY HaltedStops
CHECK_DEADLOCK FALSE
