INIT Init
NEXT Next
CONSTRAINT HW
POSTCONDITION Accepted
CHECK_DEADLOCK FALSE
