\* generated by mkaggcfg.py - edge cover
CONSTANTS
  MaxBlocks = 3
  MaxBridges = 1
  MaxCerts = 3
  MaxSteps = 40
  RetryImm = FALSE
  MaxCertBlocks = 0
  CallFailures = TRUE
  Crashes = {}
  StoreFaults = FALSE
  LoseDB = FALSE
  HeaderHasPrev = TRUE
  FixedF4 = "v2"
  Mode = "pp"
INIT Init
NEXT Next
VIEW view
ACTION_CONSTRAINT Dump
CHECK_DEADLOCK FALSE
