\* generated by mkstorecfg.py - edge cover, ger faults
CONSTANTS
  Kind = "ger"
  Fixed = TRUE
  FixedF11 = TRUE
  H = 2
  MaxBlocks = 3
  MaxEvents = 1
  MaxLeaves = 3
  MaxOps = 4
  Faults = {"stmt", "ctx", "commit"}
  AllowGap = FALSE
  Dups = FALSE
  AllowRestart = TRUE
  AllowReorg = FALSE
  Rollups = {}
  ExitRoots = {}
INIT Init
NEXT Next
VIEW view
ACTION_CONSTRAINT Dump
CHECK_DEADLOCK FALSE
