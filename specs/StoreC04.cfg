\* generated by mkstorecfg.py - C04: reorg points x nested reorg x continuation
CONSTANTS
  Kind = "bridge"
  Fixed = TRUE
  FixedF11 = TRUE
  H = 3
  MaxBlocks = 4
  MaxEvents = 2
  MaxLeaves = 6
  MaxOps = 5
  Faults = {}
  AllowGap = FALSE
  Dups = FALSE
  AllowRestart = TRUE
  AllowReorg = TRUE
  Rollups = {}
  ExitRoots = {}
INIT Init
NEXT Next
VIEW view
INVARIANT Inv
CHECK_DEADLOCK FALSE
