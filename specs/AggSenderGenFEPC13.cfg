\* generated by mkaggcfg.py - edge cover, aggchain-prover flow with crashes / DB loss
CONSTANTS
  MaxBlocks = 2
  MaxBridges = 1
  MaxCerts = 3
  MaxSteps = 40
  RetryImm = TRUE
  MaxCertBlocks = 0
  CallFailures = FALSE
  Crashes = {"before_submit", "after_submit", "after_store"}
  StoreFaults = FALSE
  LoseDB = TRUE
  HeaderHasPrev = TRUE
  FixedF4 = "v2"
  Mode = "fep"
INIT Init
NEXT Next
VIEW view
ACTION_CONSTRAINT Dump
CHECK_DEADLOCK FALSE
