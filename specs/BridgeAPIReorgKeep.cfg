\* C12 across reorgs of the stores: REFUTED DESIGN: remembered lookups survive the reorg (expected counterexample to ServedSafe)
CONSTANTS
  H = 2
  MaxDeps = 3
  MaxL2 = 1
  MaxInfos = 3
  MaxBlocks = 3
  MaxVer = 0
  Ours = 1
  Others = {}
  AllowSkipped = FALSE
  Variant = "code"
  Memo = "keep"
INIT InitRe
NEXT NextRe
INVARIANT InvR
CHECK_DEADLOCK FALSE
