\* generated by mkaggcfg.py - edge cover, one-block certificates with crashes / DB loss
CONSTANTS
  MaxBlocks = 3
  MaxBridges = 1
  MaxCerts = 4
  MaxSteps = 40
  RetryImm = TRUE
  MaxCertBlocks = 1
  CallFailures = FALSE
  Crashes = {"before_submit", "after_submit", "after_store"}
  StoreFaults = FALSE
  LoseDB = TRUE
  HeaderHasPrev = TRUE
  FixedF4 = "v2"
  Mode = "pp"
INIT Init
NEXT Next
VIEW view
ACTION_CONSTRAINT Dump
CHECK_DEADLOCK FALSE
