\* a repair of F6 that does not work (TLC finds the counterexample): the removal is still a step of its own after the acknowledgement, but removes by number AND hash
CONSTANTS
  N = 3
  Chunks = {2}
  TipTags = {"latest"}
  BufCap = 1
  MaxForks = 2
  MaxFails = 0
  MaxPFails = 0
  MaxRestarts = 0
  Detector = TRUE
  RetryLimit = 5
  AtomicRemove = FALSE
  RemoveByHash = TRUE
  LockedRemove = FALSE
  InconsOnFault = FALSE
  Contents = {0,1}
  FinLag = 0
  NoIdle = FALSE
  SimDepth = 0
INIT Init
NEXT Next
VIEW view
INVARIANTS RewindLow
CHECK_DEADLOCK FALSE
