\* faithful model of finding F7 with the retry limit scaled down: RetryLimit+1 = 1 hash mismatch (1 fork)
\* makes GetEventsByBlockRange return nil; the finalized prefix of the range is then skipped
CONSTANTS
  N = 3
  Chunks = {1}
  TipTags = {"latest"}
  BufCap = 1
  MaxForks = 1
  MaxFails = 0
  MaxPFails = 0
  MaxRestarts = 0
  Detector = FALSE
  RetryLimit = 0
  AtomicRemove = FALSE
  RemoveByHash = FALSE
  LockedRemove = TRUE
  InconsOnFault = FALSE
  Contents = {0,1}
  FinLag = 0
  NoIdle = FALSE
  SimDepth = 0
INIT Init
NEXT Next
VIEW view
INVARIANTS Faithful
CHECK_DEADLOCK FALSE
