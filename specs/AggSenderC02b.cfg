\* generated by mkaggcfg.py - C02: retry immediately
CONSTANTS
  MaxBlocks = 4
  MaxBridges = 1
  MaxCerts = 4
  MaxSteps = 40
  RetryImm = TRUE
  MaxCertBlocks = 0
  CallFailures = TRUE
  Crashes = {}
  StoreFaults = FALSE
  LoseDB = FALSE
  HeaderHasPrev = TRUE
  FixedF4 = "v2"
  Mode = "pp"
INIT Init
NEXT Next
VIEW view
INVARIANT C02
CHECK_DEADLOCK FALSE
