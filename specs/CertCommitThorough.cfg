\* exhaustive design check (C10), thorough: every pair of (bridge exit list, imported exit list)
CONSTANTS
  Schemes = {"pp", "fep"}
  AmtClasses = {"nil", "zero", "one", "max"}
  MetaClasses = {"empty", "b32"}
  LeafTypes = {"asset", "message"}
  GIParts = {"z", "lo", "hi"}
  HeightClasses = {"h0", "h1", "hbig"}
  ParamClasses = {"zero", "rand"}
  Mode = "product"
INIT Init
NEXT Next
INVARIANTS TypeOK CommitAgree IdAgree FieldsArrive SignatureOK CoveredChanges UncoveredFree
CHECK_DEADLOCK FALSE
