\* generated by mkstorecfg.py - edge cover, ger reorgs
CONSTANTS
  Kind = "ger"
  Fixed = TRUE
  FixedF11 = TRUE
  H = 2
  MaxBlocks = 4
  MaxEvents = 1
  MaxLeaves = 3
  MaxOps = 5
  Faults = {}
  AllowGap = FALSE
  Dups = FALSE
  AllowRestart = FALSE
  AllowReorg = TRUE
  Rollups = {}
  ExitRoots = {}
INIT Init
NEXT Next
VIEW view
ACTION_CONSTRAINT Dump
CHECK_DEADLOCK FALSE
