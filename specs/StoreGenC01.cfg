\* generated by mkstorecfg.py - edge cover for C01
CONSTANTS
  Kind = "bridge"
  Fixed = TRUE
  FixedF11 = TRUE
  H = 3
  MaxBlocks = 3
  MaxEvents = 3
  MaxLeaves = 5
  MaxOps = 5
  Faults = {}
  AllowGap = FALSE
  Dups = FALSE
  AllowRestart = TRUE
  AllowReorg = FALSE
  Rollups = {}
  ExitRoots = {}
INIT Init
NEXT Next
VIEW view
ACTION_CONSTRAINT Dump
CHECK_DEADLOCK FALSE
