------------------------------- MODULE EpochTrace -------------------------------
(* Property-level monitor for C18, evaluated by TLC on traces recorded from the real EpochNotifierPerBlock.

   It contains only what the property says: for an increasing sequence of block numbers, subscribers get exactly
   one notification per epoch in which a block at/after the configured percentage is seen, at the first such block;
   epoch numbers strictly increase; nothing for epochs without such a block.  It knows nothing about
   lastBlockSeen / waitingForEpoch.

   Trace lines (ndjson):
     {"ev":"cfg","n":N,"s":S,"p":P}                 a new notifier is created (starts a new trace)
     {"ev":"block","b":B,"pub":[E1,...]}            block B delivered; epochs published while it was handled

   Every line is consumed; a failed predicate is appended to `viol` (so one TLC run reports all of them).
*)
EXTENDS Integers, Sequences, FiniteSets, TLC, Json, IOUtils

Trace == ndJsonDeserialize(IOEnv.TRACE_FILE)

VARIABLES l,          \* next line
          t,          \* index of the current trace (number of cfg lines seen)
          N, S, P,    \* configuration of the current trace
          lastB,      \* last block of the increasing sequence (-1 = none)
          done,       \* epochs for which the first past-threshold block has been seen
          lastEpoch,  \* last epoch number published (0 = none)
          viol        \* accumulated violations

vars == <<l, t, N, S, P, lastB, done, lastEpoch, viol>>

EpochNumber(b)        == IF b < S THEN 0 ELSE 1 + ((b - S) \div N)
StartingBlockEpoch(e) == IF e = 0 THEN S - 1 ELSE S + (e - 1) * N
Elapsed(b)            == b - StartingBlockEpoch(EpochNumber(b))
Min(a, b)             == IF a < b THEN a ELSE b
(* "at or beyond the configured percentage" of the epoch; the percentage is capped so that the last block of an
   epoch always qualifies (the property promises a notification per epoch for percentages 0..99) *)
Past(b)               == 100 * Elapsed(b) >= Min(P * N, 100 * (N - 1))

Init ==
  /\ TLCSet(1, 0)
  /\ l = 1 /\ t = 0 /\ N = 1 /\ S = 0 /\ P = 0 /\ lastB = -1 /\ done = {} /\ lastEpoch = 0 /\ viol = <<>>

V(kind, info) == [t |-> t, l |-> l, inv |-> kind, info |-> info]

EvCfg ==
  /\ l <= Len(Trace) /\ Trace[l].ev = "cfg"
  /\ N' = Trace[l].n /\ S' = Trace[l].s /\ P' = Trace[l].p
  /\ t' = t + 1 /\ lastB' = -1 /\ done' = {} /\ lastEpoch' = 0
  /\ l' = l + 1 /\ UNCHANGED viol

(* strictly increasing epoch numbers inside one line and w.r.t. earlier lines *)
Increasing(pub, last) == /\ \A i \in 1..(Len(pub) - 1) : pub[i] < pub[i + 1]
                         /\ Len(pub) > 0 => pub[1] > last

EvBlock ==
  /\ l <= Len(Trace) /\ Trace[l].ev = "block"
  /\ LET b   == Trace[l].b
         pub == Trace[l].pub
         e   == EpochNumber(b)
     IN
     IF b <= lastB
     THEN \* not part of an increasing sequence: the property says nothing
          /\ UNCHANGED <<lastB, done, lastEpoch, viol>>
     ELSE IF b = S /\ pub = <<>>
     THEN \* DESIGN C18: the starting block counts as already seen; neither demanded nor forbidden
          /\ lastB' = b /\ UNCHANGED <<done, lastEpoch, viol>>
     ELSE
       LET expect == IF b >= S /\ Past(b) /\ e \notin done THEN <<e>> ELSE <<>>
           v1 == IF pub # expect
                 THEN <<V(IF expect = <<>> THEN "NoSpuriousNotification"
                          ELSE IF pub = <<>> THEN "NotifiedAtFirstPastBlock" ELSE "ExactlyOneRightEpoch",
                          [b |-> b, expect |-> expect, got |-> pub])>>
                 ELSE <<>>
           v2 == IF ~Increasing(pub, lastEpoch)
                 THEN <<V("StrictlyIncreasingEpochs", [b |-> b, got |-> pub, last |-> lastEpoch])>> ELSE <<>>
       IN /\ lastB' = b
          /\ done' = IF b >= S /\ Past(b) THEN done \cup {e} ELSE done
          /\ lastEpoch' = IF pub = <<>> THEN lastEpoch ELSE pub[Len(pub)]
          /\ viol' = viol \o v1 \o v2
  /\ l' = l + 1 /\ UNCHANGED <<t, N, S, P>>

Finish ==
  /\ l = Len(Trace) + 1
  /\ PrintT(<<"VIOL", ToJson(viol)>>)
  /\ PrintT(<<"DONE", ToJson([lines |-> Len(Trace), traces |-> t])>>)
  /\ l' = l + 1 /\ UNCHANGED <<t, N, S, P, lastB, done, lastEpoch, viol>>

Next == EvCfg \/ EvBlock \/ Finish
Spec == Init /\ [][Next]_vars

HW == TLCSet(1, IF l > TLCGet(1) THEN l ELSE TLCGet(1))
Accepted == TLCGet(1) = Len(Trace) + 2
=============================================================================
